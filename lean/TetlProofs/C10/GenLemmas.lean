/-
C10 — helper lemmas for the generated checkers / parseDigit (Tetl/C10/Gen.lean): C integer semantics of
representable values, the common shape of the generated bodies, exactness of a shape.  The per-function theorems
are in GenProps.lean.
-/
import Tetl.C10.Gen
import TetlProofs.C10.Parse
namespace Tetl.C10.GenProps
open Tetl Tetl.C10 Tetl.CSem

/-! ### C integer semantics: conversions of representable values are the identity -/

theorem wrapS_id {w : Nat} {x : Int} (hw : 0 < w) (h : inRangeS w x = true) : wrapS w x = x := by
  unfold inRangeS at h
  unfold wrapS
  simp only [Bool.and_eq_true, decide_eq_true_eq] at h
  have e : (2 : Nat) ^ w = 2 * 2 ^ (w - 1) := by
    rw [show w = (w - 1) + 1 by omega, Nat.pow_succ]; simp; omega
  rw [e]
  generalize (2 : Nat) ^ (w - 1) = k at *
  have h0 : 0 ≤ x + (k : Int) := by omega
  have h1 : x + (k : Int) < ((2 * k : Nat) : Int) := by omega
  rw [Int.emod_eq_of_lt h0 h1]; omega

theorem wrapU_id {w : Nat} {x : Int} (h0 : 0 ≤ x) (h1 : x < ((2 ^ w : Nat) : Int)) : wrapU w x = x := by
  unfold wrapU; exact Int.emod_eq_of_lt h0 h1

/-- truncating division of the minimum `m ≤ 0` of a signed type by a positive base -/
theorem tdiv_min_bounds (m base : Int) (hm : m ≤ 0) (hb : 0 < base) :
    m ≤ Int.tdiv m base ∧ Int.tdiv m base ≤ 0 ∧ -base < Int.tmod m base ∧ Int.tmod m base ≤ 0 := by
  obtain ⟨M, rfl⟩ : ∃ M, m = -M := ⟨-m, by omega⟩
  have hM : 0 ≤ M := by omega
  rw [Int.neg_tdiv, Int.neg_tmod, Int.tdiv_eq_ediv_of_nonneg hM, Int.tmod_eq_emod_of_nonneg hM]
  have h1 : M / base ≤ M := Int.ediv_le_self _ hM
  have h2 : 0 ≤ M / base := Int.ediv_nonneg hM (Int.le_of_lt hb)
  have h3 : 0 ≤ M % base := Int.emod_nonneg _ (by omega)
  have h4 : M % base < base := Int.emod_lt_of_pos _ hb
  omega

theorem tdiv_max_bounds (M base : Int) (hM : 0 ≤ M) (hb : 0 < base) :
    0 ≤ Int.tdiv M base ∧ Int.tdiv M base ≤ M ∧ 0 ≤ Int.tmod M base ∧ Int.tmod M base < base ∧
    Int.tdiv M base = M / base ∧ Int.tmod M base = M % base := by
  rw [Int.tdiv_eq_ediv_of_nonneg hM, Int.tmod_eq_emod_of_nonneg hM]
  have h1 : M / base ≤ M := Int.ediv_le_self _ hM
  have h2 : 0 ≤ M / base := Int.ediv_nonneg hM (Int.le_of_lt hb)
  have h3 : 0 ≤ M % base := Int.emod_nonneg _ (by omega)
  have h4 : M % base < base := Int.emod_lt_of_pos _ hb
  omega

/-! ### the shape of every generated signed checker -/

def sShape (wr pr absf : Int → Int) (mn base value digit : Int) : Bool :=
  let mdb := wr (cdiv mn (pr base))
  let mmb := absf (wr (cmod mn (pr base)))
  (decide (pr value < pr mdb)) || ((pr value == pr mdb) && (decide (pr digit > pr mmb)))

def sShapeUb (wr pr : Int → Int) (pw : Nat) (absub : Int → Bool) (mn pmin base : Int) : Bool :=
  (pr base != 0) && (!(mn == pmin && pr base == -1)) && (inRangeS pw (cdiv mn (pr base))) &&
  (pr base != 0) && (!(mn == pmin && pr base == -1)) && (inRangeS pw (cmod mn (pr base))) &&
  (absub (wr (cmod mn (pr base))))

theorem sShape_eq (t : IntTy) (hs : t.signed = true) (h8 : 8 ≤ t.bits) (wr pr absf : Int → Int) (pw : Nat)
    (absub : Int → Bool) (mn pmin : Int) (hmn : mn = t.minV)
    (hwr : ∀ x, t.inRange x = true → wr x = x) (hpr : ∀ x, t.inRange x = true → pr x = x)
    (hpw : ∀ x, t.inRange x = true → inRangeS pw x = true)
    (habs : ∀ x, -36 < x → x ≤ 0 → absf x = -x ∧ absub x = true)
    (base value digit : Int) (hb : 2 ≤ base ∧ base ≤ 36)
    (hv : t.inRange value = true) (hd : t.inRange digit = true) :
    sShape wr pr absf mn base value digit = wouldOverflow t base value digit ∧
    sShapeUb wr pr pw absub mn pmin base = true := by
  subst hmn
  have hbd := bound_pos t h8
  have hmin := minV_signed hs
  have hmax := maxV_signed hs
  have hin : ∀ x, t.minV ≤ x → x ≤ t.maxV → t.inRange x = true := fun x h1 h2 => (IntTy.inRange_iff t x).mpr ⟨h1, h2⟩
  obtain ⟨q1, q2, r1, r2⟩ := tdiv_min_bounds t.minV base (by omega) (by omega)
  have hbase : t.inRange base = true := hin _ (by omega) (by omega)
  have hq : t.inRange (Int.tdiv t.minV base) = true := hin _ q1 (by omega)
  have hr : t.inRange (Int.tmod t.minV base) = true := hin _ (by omega) (by omega)
  have hnr : t.inRange (-(Int.tmod t.minV base)) = true := hin _ (by omega) (by omega)
  obtain ⟨ha, hau⟩ := habs (Int.tmod t.minV base) (by omega) r2
  constructor
  · unfold sShape wouldOverflow
    simp only [cdiv, cmod, hpr _ hbase, hwr _ hq, hwr _ hr, hpr _ hq, ha, hpr _ hnr, hpr _ hv, hpr _ hd, hs, if_true]
    have e : ((Int.tmod t.minV base).natAbs : Int) = -(Int.tmod t.minV base) := by omega
    rw [e]
  · unfold sShapeUb
    simp only [cdiv, cmod, hpr _ hbase, hwr _ hr, hau, hpw _ hq, hpw _ hr, Bool.and_true]
    have h1 : (base != 0) = true := by simp; omega
    have h2 : (base == -1) = false := by simp; omega
    simp [h1, h2]

/-! ### the shape of every generated unsigned checker -/

def uShape (wr pr : Int → Int) (dv md : Int → Int → Int) (mx base value digit : Int) : Bool :=
  let mdb := wr (dv mx (pr base))
  let mmb := wr (md mx (pr base))
  (decide (pr value > pr mdb)) || ((pr value == pr mdb) && (decide (pr digit > pr mmb)))

theorem uShape_eq (t : IntTy) (hs : t.signed = false) (h8 : 8 ≤ t.bits) (wr pr : Int → Int) (dv md : Int → Int → Int)
    (mx : Int) (hmx : mx = t.maxV)
    (hwr : ∀ x, t.inRange x = true → wr x = x) (hpr : ∀ x, t.inRange x = true → pr x = x)
    (hdv : ∀ b, 0 < b → dv mx b = Int.tdiv mx b ∧ md mx b = Int.tmod mx b)
    (base value digit : Int) (hb : 2 ≤ base ∧ base ≤ 36)
    (hv : t.inRange value = true) (hd : t.inRange digit = true) :
    uShape wr pr dv md mx base value digit = wouldOverflow t base value digit := by
  subst hmx
  have hbd := bound_pos t h8
  have hmin := minV_unsigned hs
  have hmax := maxV_unsigned hs
  have hin : ∀ x, t.minV ≤ x → x ≤ t.maxV → t.inRange x = true := fun x h1 h2 => (IntTy.inRange_iff t x).mpr ⟨h1, h2⟩
  obtain ⟨q1, q2, r1, r2, _, _⟩ := tdiv_max_bounds t.maxV base (by omega) (by omega)
  have hbase : t.inRange base = true := hin _ (by omega) (by omega)
  have hq : t.inRange (Int.tdiv t.maxV base) = true := hin _ (by omega) (by omega)
  have hr : t.inRange (Int.tmod t.maxV base) = true := hin _ (by omega) (by omega)
  obtain ⟨e1, e2⟩ := hdv base (by omega)
  unfold uShape wouldOverflow
  simp only [hpr _ hbase, e1, e2, hwr _ hq, hwr _ hr, hpr _ hq, hpr _ hr, hpr _ hv, hpr _ hd, hs, Bool.false_eq_true, if_false]


def uShapeUbP (pr : Int → Int) (mx base : Int) : Bool :=
  (pr base != 0) && (!(mx == (-2147483648 : Int) && pr base == -1)) && (inRangeS 32 (cdiv mx (pr base))) &&
  (pr base != 0) && (!(mx == (-2147483648 : Int) && pr base == -1)) && (inRangeS 32 (cmod mx (pr base)))

def uShapeUbN (pr : Int → Int) (base : Int) : Bool := (pr base != 0) && (pr base != 0)

/-! ### range facts for the concrete widths -/

theorem inRangeS_iff (w : Nat) (x : Int) : inRangeS w x = true ↔ -((2 ^ (w - 1) : Nat) : Int) ≤ x ∧ x < ((2 ^ (w - 1) : Nat) : Int) := by
  simp [inRangeS]

theorem inRangeS_small {w : Nat} (hw : 8 ≤ w) {x : Int} (h : -128 ≤ x ∧ x ≤ 127) : inRangeS w x = true := by
  have h1 : (2 : Nat) ^ 7 ≤ 2 ^ (w - 1) := Nat.pow_le_pow_right (by decide) (by omega)
  rw [inRangeS_iff]; omega

theorem wrapS_small {w : Nat} (hw : 8 ≤ w) {x : Int} (h : -128 ≤ x ∧ x ≤ 127) : wrapS w x = x :=
  wrapS_id (by omega) (inRangeS_small hw h)

/-- values of a signed type in a signed type that is at least as wide -/
theorem inRangeS_of_signed (t : IntTy) (hs : t.signed = true) {w : Nat} (hw : t.bits ≤ w) (x : Int)
    (h : t.inRange x = true) : inRangeS w x = true := by
  rw [IntTy.inRange_iff, minV_signed hs, maxV_signed hs] at h
  have h1 : (2 : Nat) ^ (t.bits - 1) ≤ 2 ^ (w - 1) := Nat.pow_le_pow_right (by decide) (by omega)
  have h2 : t.bound = 2 ^ (t.bits - 1) := by simp [IntTy.bound, hs]
  rw [inRangeS_iff]; omega

/-- values of an unsigned type in a strictly wider signed type (integer promotion) -/
theorem inRangeS_of_unsigned (t : IntTy) (hs : t.signed = false) {w : Nat} (hw : t.bits < w) (x : Int)
    (h : t.inRange x = true) : inRangeS w x = true := by
  rw [IntTy.inRange_iff, minV_unsigned hs, maxV_unsigned hs] at h
  have h1 : (2 : Nat) ^ t.bits ≤ 2 ^ (w - 1) := Nat.pow_le_pow_right (by decide) (by omega)
  have h2 : t.bound = 2 ^ t.bits - 1 := by simp [IntTy.bound, hs]
  have h3 : 1 ≤ (2 : Nat) ^ t.bits := Nat.one_le_two_pow
  rw [inRangeS_iff]; omega

theorem wrapS_of_signed (t : IntTy) (hs : t.signed = true) {w : Nat} (h0 : 0 < w) (hw : t.bits ≤ w) (x : Int)
    (h : t.inRange x = true) : wrapS w x = x := wrapS_id h0 (inRangeS_of_signed t hs hw x h)

theorem wrapS_of_unsigned (t : IntTy) (hs : t.signed = false) {w : Nat} (hw : t.bits < w) (x : Int)
    (h : t.inRange x = true) : wrapS w x = x := wrapS_id (by omega) (inRangeS_of_unsigned t hs hw x h)

theorem wrapU_of_unsigned (t : IntTy) (hs : t.signed = false) {w : Nat} (hw : t.bits ≤ w) (x : Int)
    (h : t.inRange x = true) : wrapU w x = x := by
  rw [IntTy.inRange_iff, minV_unsigned hs, maxV_unsigned hs] at h
  have h1 : (2 : Nat) ^ t.bits ≤ 2 ^ w := Nat.pow_le_pow_right (by decide) hw
  have h2 : t.bound = 2 ^ t.bits - 1 := by simp [IntTy.bound, hs]
  have h3 : 1 ≤ (2 : Nat) ^ t.bits := Nat.one_le_two_pow
  exact wrapU_id h.1 (by omega)

/-! ### `etl::abs` on the remainder `min % base` (in `(-36, 0]`): the negation, no overflow -/

/-- the template of _numeric/abs.hpp instantiated for a type of width `w` promoted to width `p` -/
theorem absN_ok (w p : Nat) (hw : 8 ≤ w) (hp : 8 ≤ p) (x : Int) (h1 : -36 < x) (h2 : x ≤ 0) :
    (if (decide ((wrapS p x) < (0 : Int))) then (wrapS w (- (wrapS p x))) else x) = -x ∧
    ((!(decide ((wrapS p x) < (0 : Int))) || (inRangeS p (- (wrapS p x)))) = true) := by
  rw [wrapS_small hp (x := x) (by omega), wrapS_small hw (x := -x) (by omega), inRangeS_small hp (x := -x) (by omega)]
  constructor
  · split
    · rfl
    · rename_i h; simp only [decide_eq_true_eq] at h; omega
  · simp

theorem abs_i32_ok (x : Int) (h1 : -36 < x) (h2 : x ≤ 0) : Gen.abs_i32 x = -x ∧ Gen.abs_i32_ub x = true := by
  have e1 : inRangeS 32 (x * -1) = true := inRangeS_small (by decide) (by omega)
  have e2 : inRangeS 32 (-1) = true := by decide
  simp only [Gen.abs_i32, Gen.abs_i32_ub, Gen.abs_impl_i32, Gen.abs_impl_i32_ub, e1, e2]
  by_cases h : x = 0
  · subst h; decide
  · have h3 : ¬ x > 0 := by omega
    simp [h, h3]

theorem abs_i64_ok (x : Int) (h1 : -36 < x) (h2 : x ≤ 0) : Gen.abs_i64 x = -x ∧ Gen.abs_i64_ub x = true := by
  have e0 : wrapS 64 (-1) = -1 := wrapS_small (by decide) (by omega)
  have e1 : inRangeS 64 (x * -1) = true := inRangeS_small (by decide) (by omega)
  have e2 : inRangeS 32 (-1) = true := by decide
  simp only [Gen.abs_i64, Gen.abs_i64_ub, Gen.abs_impl_i64, Gen.abs_impl_i64_ub, e0, e1, e2]
  by_cases h : x = 0
  · subst h; decide
  · have h3 : ¬ x > 0 := by omega
    simp [h, h3]

theorem abs_ill_ok (x : Int) (h1 : -36 < x) (h2 : x ≤ 0) : Gen.abs_ill x = -x ∧ Gen.abs_ill_ub x = true := by
  have e0 : wrapS 64 (-1) = -1 := wrapS_small (by decide) (by omega)
  have e1 : inRangeS 64 (x * -1) = true := inRangeS_small (by decide) (by omega)
  have e2 : inRangeS 32 (-1) = true := by decide
  simp only [Gen.abs_ill, Gen.abs_ill_ub, Gen.abs_impl_ill, Gen.abs_impl_ill_ub, e0, e1, e2]
  by_cases h : x = 0
  · subst h; decide
  · have h3 : ¬ x > 0 := by omega
    simp [h, h3]


theorem uShapeUbP_ok (t : IntTy) (hs : t.signed = false) (h8 : 8 ≤ t.bits) (hlt : t.bits < 32) (pr : Int → Int)
    (mx : Int) (hmx : mx = t.maxV) (hpr : ∀ x, t.inRange x = true → pr x = x)
    (base : Int) (hb : 2 ≤ base ∧ base ≤ 36) : uShapeUbP pr mx base = true := by
  subst hmx
  have hbd := bound_pos t h8
  have hmin := minV_unsigned hs
  have hmax := maxV_unsigned hs
  have hin : ∀ x, t.minV ≤ x → x ≤ t.maxV → t.inRange x = true := fun x h1 h2 => (IntTy.inRange_iff t x).mpr ⟨h1, h2⟩
  obtain ⟨q1, q2, r1, r2, _, _⟩ := tdiv_max_bounds t.maxV base (by omega) (by omega)
  have hbase : t.inRange base = true := hin _ (by omega) (by omega)
  have hq : t.inRange (Int.tdiv t.maxV base) = true := hin _ (by omega) (by omega)
  have hr : t.inRange (Int.tmod t.maxV base) = true := hin _ (by omega) (by omega)
  unfold uShapeUbP
  simp only [cdiv, cmod, hpr _ hbase, inRangeS_of_unsigned t hs hlt _ hq, inRangeS_of_unsigned t hs hlt _ hr, Bool.and_true]
  have h1 : (base != 0) = true := by simp; omega
  have h2 : (base == -1) = false := by simp; omega
  simp [h1, h2]

theorem uShapeUbN_ok (t : IntTy) (hs : t.signed = false) (h8 : 8 ≤ t.bits) (pr : Int → Int)
    (hpr : ∀ x, t.inRange x = true → pr x = x)
    (base : Int) (hb : 2 ≤ base ∧ base ≤ 36) : uShapeUbN pr base = true := by
  have hbd := bound_pos t h8
  have hmin := minV_unsigned hs
  have hmax := maxV_unsigned hs
  have hbase : t.inRange base = true := (IntTy.inRange_iff t base).mpr ⟨by omega, by omega⟩
  unfold uShapeUbN
  rw [hpr _ hbase]
  have h1 : (base != 0) = true := by simp; omega
  simp [h1]

/-! ### exactness: the checker answers "the next accumulation step leaves the type" -/

theorem signed_exact (t : IntTy) (hs : t.signed = true) (h8 : 8 ≤ t.bits) (f : Int → Int → Int → Bool)
    (hf : ∀ base value digit, 2 ≤ base ∧ base ≤ 36 → t.inRange value = true → t.inRange digit = true →
      f base value digit = wouldOverflow t base value digit)
    (base value digit : Int) (hb : 2 ≤ base ∧ base ≤ 36) (hv : t.minV ≤ value ∧ value ≤ 0)
    (hd : 0 ≤ digit ∧ digit < base) : f base value digit = decide (value * base - digit < t.minV) := by
  have hbd := bound_pos t h8
  have hmin := minV_signed hs
  have hmax := maxV_signed hs
  rw [hf base value digit hb ((IntTy.inRange_iff t value).mpr ⟨hv.1, by omega⟩)
    ((IntTy.inRange_iff t digit).mpr ⟨by omega, by omega⟩)]
  obtain ⟨a, rfl⟩ : ∃ a : Nat, value = -(a : Int) := ⟨(-value).toNat, by omega⟩
  obtain ⟨b, rfl⟩ := Int.eq_ofNat_of_zero_le (show 0 ≤ base by omega)
  obtain ⟨d, rfl⟩ := Int.eq_ofNat_of_zero_le hd.1
  have h := wouldOverflow_exact t a b d (by omega) (by omega)
  rw [hs] at h
  simp only [sgn, if_true] at h
  rw [h, hmin, Int.neg_mul]
  have e : (((a * b + d : Nat)) : Int) = (a : Int) * b + d := by simp
  rw [Bool.eq_iff_iff, decide_eq_true_eq, decide_eq_true_eq]
  constructor
  · intro h1; have : ((t.bound : Nat) : Int) < ((a * b + d : Nat) : Int) := by exact_mod_cast h1
    rw [e] at this; omega
  · intro h1; have : ((t.bound : Nat) : Int) < ((a * b + d : Nat) : Int) := by rw [e]; omega
    exact_mod_cast this

theorem unsigned_exact (t : IntTy) (hs : t.signed = false) (h8 : 8 ≤ t.bits) (f : Int → Int → Int → Bool)
    (hf : ∀ base value digit, 2 ≤ base ∧ base ≤ 36 → t.inRange value = true → t.inRange digit = true →
      f base value digit = wouldOverflow t base value digit)
    (base value digit : Int) (hb : 2 ≤ base ∧ base ≤ 36) (hv : 0 ≤ value ∧ value ≤ t.maxV)
    (hd : 0 ≤ digit ∧ digit < base) : f base value digit = decide (value * base + digit > t.maxV) := by
  have hbd := bound_pos t h8
  have hmin := minV_unsigned hs
  have hmax := maxV_unsigned hs
  rw [hf base value digit hb ((IntTy.inRange_iff t value).mpr ⟨by omega, hv.2⟩)
    ((IntTy.inRange_iff t digit).mpr ⟨by omega, by omega⟩)]
  obtain ⟨a, rfl⟩ := Int.eq_ofNat_of_zero_le hv.1
  obtain ⟨b, rfl⟩ := Int.eq_ofNat_of_zero_le (show 0 ≤ base by omega)
  obtain ⟨d, rfl⟩ := Int.eq_ofNat_of_zero_le hd.1
  have h := wouldOverflow_exact t a b d (by omega) (by omega)
  rw [hs] at h
  simp only [sgn, Bool.false_eq_true, if_false] at h
  rw [h, hmax]
  have e : (((a * b + d : Nat)) : Int) = (a : Int) * b + d := by simp
  rw [Bool.eq_iff_iff, decide_eq_true_eq, decide_eq_true_eq]
  constructor
  · intro h1; have : ((t.bound : Nat) : Int) < ((a * b + d : Nat) : Int) := by exact_mod_cast h1
    rw [e] at this; omega
  · intro h1; have : ((t.bound : Nat) : Int) < ((a * b + d : Nat) : Int) := by rw [e]; omega
    exact_mod_cast this

/-! ### the `parseDigit` lambda -/

theorem wrapS_b (c : Bool) : (wrapS 32 (if c then 1 else 0) != (0 : Int)) = c := by cases c <;> decide

theorem gen_isdigit (ch : Int) : (Gen.isdigit ch != (0 : Int)) = isdigit ch := by
  unfold Gen.isdigit isdigit; exact wrapS_b _

theorem gen_isupper (ch : Int) : (Gen.isupper ch != (0 : Int)) = isupper ch := by
  unfold Gen.isupper isupper; exact wrapS_b _

theorem gen_isalpha (ch : Int) : (Gen.isalpha ch != (0 : Int)) = isalpha ch := by
  unfold Gen.isalpha Gen.isalpha_isLower Gen.isalpha_isUpper isalpha; exact wrapS_b _

theorem gen_tolower (ch : Int) : Gen.tolower ch = tolower ch ∧ Gen.tolower_ub ch = true := by
  unfold Gen.tolower Gen.tolower_ub tolower Gen.isupper_ub
  rw [gen_isupper]
  refine ⟨rfl, ?_⟩
  cases h : isupper ch
  · rfl
  · unfold isupper at h
    simp only [Bool.and_eq_true, decide_eq_true_eq] at h
    simp only [Bool.true_and, Bool.not_true, Bool.false_or]
    rw [inRangeS_iff]; omega

theorem isdigit_range (ch : Int) (h : isdigit ch = true) : 48 ≤ ch ∧ ch ≤ 57 := by
  unfold isdigit at h; simpa using h

theorem tolower_range (ch : Int) (h : isalpha ch = true) : 97 ≤ tolower ch ∧ tolower ch ≤ 122 := by
  unfold isalpha at h; unfold tolower isupper
  simp only [Bool.or_eq_true, Bool.and_eq_true, decide_eq_true_eq] at h
  split
  · rename_i h2; simp only [Bool.and_eq_true, decide_eq_true_eq] at h2; omega
  · rename_i h2; simp only [Bool.and_eq_true, decide_eq_true_eq, not_and, Int.not_le] at h2; omega

/-- the shape of every generated `parseDigit`: the conversions (`static_cast<Int>`, integer promotion, wrap-around of
    unsigned arithmetic) are parameters -/
def pdShape (wa wb wc wd we : Int → Int) (mx ch : Int) : Int :=
  (if ((Gen.isdigit ch) != (0 : Int)) then (wa (ch - (48 : Int))) else (if ((Gen.isalpha ch) != (0 : Int)) then
    (wb ((wc ((wd (we (Gen.tolower ch))) - (97 : Int))) + (10 : Int))) else mx))

/-- UB obligations when the arithmetic is signed (`int`, or `long` for the 64-bit signed types) of width `p` -/
def pdShapeUbA (wd we : Int → Int) (p : Nat) (ch : Int) : Bool :=
  (Gen.isdigit_ub ch) &&
    (!((Gen.isdigit ch) != (0 : Int)) || (inRangeS 32 (ch - (48 : Int)))) &&
    (!(!((Gen.isdigit ch) != (0 : Int))) || (Gen.isalpha_ub ch)) &&
    (!(!((Gen.isdigit ch) != (0 : Int))) || (!((Gen.isalpha ch) != (0 : Int)) || (Gen.tolower_ub ch))) &&
    (!(!((Gen.isdigit ch) != (0 : Int))) || (!((Gen.isalpha ch) != (0 : Int)) || (inRangeS p ((wd (we (Gen.tolower ch))) - (97 : Int))))) &&
    (!(!((Gen.isdigit ch) != (0 : Int))) || (!((Gen.isalpha ch) != (0 : Int)) || (inRangeS p (((wd (we (Gen.tolower ch))) - (97 : Int)) + (10 : Int)))))

/-- UB obligations when the arithmetic is unsigned (`unsigned`, `unsigned long`): only those of the callees remain -/
def pdShapeUbB (ch : Int) : Bool :=
  (Gen.isdigit_ub ch) &&
    (!((Gen.isdigit ch) != (0 : Int)) || (inRangeS 32 (ch - (48 : Int)))) &&
    (!(!((Gen.isdigit ch) != (0 : Int))) || (Gen.isalpha_ub ch)) &&
    (!(!((Gen.isdigit ch) != (0 : Int))) || (!((Gen.isalpha ch) != (0 : Int)) || (Gen.tolower_ub ch)))

/-- a conversion that keeps the values `0 .. 127` -/
def KeepsSmall (f : Int → Int) : Prop := ∀ x : Int, 0 ≤ x → x ≤ 127 → f x = x

theorem keeps_id : KeepsSmall id := fun _ _ _ => rfl
theorem keeps_wrapS {w : Nat} (hw : 8 ≤ w) : KeepsSmall (wrapS w) := fun _ h0 h1 => wrapS_small hw ⟨by omega, h1⟩
theorem keeps_wrapU {w : Nat} (hw : 8 ≤ w) : KeepsSmall (wrapU w) := fun x h0 h1 => by
  have h : (2 : Nat) ^ 8 ≤ 2 ^ w := Nat.pow_le_pow_right (by decide) hw
  exact wrapU_id h0 (by omega)
theorem keeps_comp {f g : Int → Int} (hf : KeepsSmall f) (hg : KeepsSmall g) : KeepsSmall (fun x => f (g x)) :=
  fun x h0 h1 => by show f (g x) = x; rw [hg x h0 h1, hf x h0 h1]

theorem pdShape_eq (t : IntTy) (wa wb wc wd we : Int → Int) (mx : Int) (hmx : mx = t.maxV)
    (ha : KeepsSmall wa) (hb : KeepsSmall wb) (hc : KeepsSmall wc) (hd : KeepsSmall wd) (he : KeepsSmall we) (ch : Int) :
    pdShape wa wb wc wd we mx ch = parseDigit t ch := by
  subst hmx
  unfold pdShape parseDigit
  rw [gen_isdigit, gen_isalpha, (gen_tolower ch).1]
  cases h1 : isdigit ch
  · cases h2 : isalpha ch
    · rfl
    · have r := tolower_range ch h2
      simp only [if_true, Bool.false_eq_true, if_false]
      rw [he _ (by omega) (by omega), hd _ (by omega) (by omega), hc _ (by omega) (by omega), hb _ (by omega) (by omega)]
  · have r := isdigit_range ch h1
    simp only [if_true]
    rw [ha _ (by omega) (by omega)]

theorem pdShapeUbA_ok (wd we : Int → Int) (p : Nat) (hp : 8 ≤ p) (hd : KeepsSmall wd) (he : KeepsSmall we) (ch : Int) :
    pdShapeUbA wd we p ch = true := by
  unfold pdShapeUbA Gen.isdigit_ub Gen.isalpha_ub
  rw [gen_isdigit, gen_isalpha, (gen_tolower ch).1, (gen_tolower ch).2]
  cases h1 : isdigit ch
  · cases h2 : isalpha ch
    · simp
    · have r := tolower_range ch h2
      rw [he _ (by omega) (by omega), hd _ (by omega) (by omega),
        inRangeS_small hp (x := tolower ch - 97) (by omega), inRangeS_small hp (x := tolower ch - 97 + 10) (by omega)]
      simp
  · have r := isdigit_range ch h1
    rw [inRangeS_small (w := 32) (by decide) (x := ch - 48) (by omega)]
    simp

theorem pdShapeUbB_ok (ch : Int) : pdShapeUbB ch = true := by
  unfold pdShapeUbB Gen.isdigit_ub Gen.isalpha_ub
  rw [gen_isdigit, gen_isalpha, (gen_tolower ch).2]
  cases h1 : isdigit ch
  · simp
  · have r := isdigit_range ch h1
    rw [inRangeS_small (w := 32) (by decide) (x := ch - 48) (by omega)]
    simp

end Tetl.C10.GenProps
