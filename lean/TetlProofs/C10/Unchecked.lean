/-
C10 — `to_integer` with `check_overflow = false` (`nop_overflow_checker`): wherever the checked
configuration does not report `overflow`, dropping the check changes nothing.
-/
import TetlProofs.C10.Auto
namespace Tetl.C10
open Tetl

theorem tiLoopNC_of_some (t : IntTy) (base : Int) (s : List Nat) :
    ∀ (n pos : Nat) (value : Int) (r : Int × Nat),
      tiLoop t base s n pos value = .ok (some r) → tiLoopNC t base s n pos value = .ok r := by
  intro n
  induction n with
  | zero =>
    intro pos value r h
    simp only [tiLoop] at h
    simp only [tiLoopNC]
    cases h; rfl
  | succ n ih =>
    intro pos value r h
    simp only [tiLoop] at h
    simp only [tiLoopNC]
    cases hrd : rd s pos with
    | error e => rw [hrd] at h; cases h
    | ok c =>
      rw [hrd] at h
      simp only [ok_bind] at h ⊢
      by_cases hge : parseDigit t (toInt c) ≥ base
      · rw [if_pos hge] at h ⊢
        cases h; rfl
      · rw [if_neg hge] at h ⊢
        cases hwo : wouldOverflow t base value (parseDigit t (toInt c)) with
        | true => rw [hwo] at h; simp only [if_true] at h; cases h
        | false =>
          rw [hwo] at h
          simp only [Bool.false_eq_true, if_false] at h
          cases har : t.arith (if t.signed = true then value * base - parseDigit t (toInt c)
              else value * base + parseDigit t (toInt c)) with
          | error e => rw [har] at h; cases h
          | ok v =>
            rw [har] at h
            simp only [ok_bind] at h ⊢
            exact ih _ _ _ h

theorem toIntegerDigitsNC_of (t : IntTy) (s : List Nat) (base : Int) (neg : Bool) (pos1 : Nat) (r : TIRes)
    (h : toIntegerDigits t s base neg pos1 = .ok r) (hno : r.err ≠ .overflow) :
    toIntegerDigitsNC t s base neg pos1 = .ok r := by
  unfold toIntegerDigits at h
  unfold toIntegerDigitsNC
  cases hrd : rd s pos1 with
  | error e => rw [hrd] at h; cases h
  | ok c1 =>
    rw [hrd] at h
    simp only [ok_bind] at h ⊢
    cases hfv : firstValue t (parseDigit t (toInt c1)) with
    | error e => rw [hfv] at h; cases h
    | ok value =>
      rw [hfv] at h
      simp only [ok_bind] at h ⊢
      by_cases hinv : (if value < 0 then -value else value) ≥ base
      · rw [if_pos hinv] at h ⊢; exact h
      · rw [if_neg hinv] at h ⊢
        cases htl : tiLoop t base s (s.length - (pos1 + 1)) (pos1 + 1) value with
        | error e => rw [htl] at h; cases h
        | ok o =>
          rw [htl] at h
          simp only [ok_bind] at h
          cases o with
          | none =>
            simp only [] at h
            cases h
            exact absurd rfl hno
          | some vp =>
            rw [tiLoopNC_of_some t base s _ _ _ vp htl]
            simp only [ok_bind]
            exact h

theorem toIntegerAtNC_of (t : IntTy) (s : List Nat) (base : Int) (pos0 : Nat) (r : TIRes)
    (h : toIntegerAt t s base pos0 = .ok r) (hno : r.err ≠ .overflow) :
    toIntegerAtNC t s base pos0 = .ok r := by
  unfold toIntegerAt at h
  unfold toIntegerAtNC
  by_cases hp : (pos0 == s.length) = true
  · rw [if_pos hp] at h ⊢; exact h
  · rw [if_neg hp] at h ⊢
    cases hrd : rd s pos0 with
    | error e => rw [hrd] at h; cases h
    | ok c0 =>
      rw [hrd] at h
      simp only [ok_bind] at h ⊢
      generalize (t.signed && (toInt c0 == 45)) = neg at h ⊢
      generalize (if neg = true then pos0 + 1 else pos0) = pos1 at h ⊢
      by_cases hc : (neg && pos1 == s.length) = true
      · rw [if_pos hc] at h ⊢; exact h
      · rw [if_neg hc] at h ⊢
        by_cases hb : (base == 0) = true
        · rw [if_pos hb] at h ⊢
          cases hdb : detectBase t s pos1 with
          | error e => rw [hdb] at h; cases h
          | ok bp =>
            rw [hdb] at h
            simp only [ok_bind] at h ⊢
            exact toIntegerDigitsNC_of t s _ _ _ r h hno
        · rw [if_neg hb] at h ⊢
          exact toIntegerDigitsNC_of t s _ _ _ r h hno

theorem toIntegerNC_of (t : IntTy) (ws : Bool) (s : List Nat) (base : Int) (r : TIRes)
    (h : toInteger t ws s base = .ok r) (hno : r.err ≠ .overflow) :
    toIntegerNC t ws s base = .ok r := by
  unfold toInteger at h
  unfold toIntegerNC
  split at h
  · cases h
  · rename_i hb
    rw [if_neg hb]
    cases ws with
    | false =>
      simp only [Bool.false_eq_true, if_false, ok_bind] at h ⊢
      exact toIntegerAtNC_of t s base 0 r h hno
    | true =>
      simp only [if_true] at h ⊢
      cases hws : skipWs s s.length 0 with
      | error e => rw [hws] at h; cases h
      | ok p =>
        rw [hws] at h
        simp only [ok_bind] at h ⊢
        exact toIntegerAtNC_of t s base p r h hno

end Tetl.C10
