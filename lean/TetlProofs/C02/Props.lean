/-
C02 — "valid use never leaves the caller's memory, never allocates, never hits UB": property theorems.

C02 has no model of its own.  Every model of the owning properties reads and writes only through
checked accessors (`Tetl.rd`, `wr`, `set?` …: an index outside the range the caller passed is
`.error .oob`), reports a violated internal precondition as `.error (.pre _)`, bounds every loop by
fuel (`.error .fuel`), and the integer models report a shift count ≥ width, a signed overflow or a
division by zero of the C++ expression as `.error` too; the generated calendar kernels carry `_ub`
predicates instead.  The memory-safety / no-UB face of an operation is therefore the statement

    ∃ r, <model of the operation> <valid arguments> = .ok r

for *every* valid argument tuple, state, history and capacity.  This file states it operation by
operation, as corollaries of the refinement theorems of the owning properties (the cited theorem
proves more: the value `r` is the specified one), grouped by the clause of C02 they serve.  The
hypotheses are verbatim the documented preconditions of the cited theorems (whose non-vacuity
examples stand next to them); examples for the history theorems and the boundary cases C02 names
(capacity 0, empty inputs, zero-length and exact-fit buffers) follow the groups here.

Not carried by any model (DESIGN §6; observed by harness/c02.cpp, never counted as proved):
"never calls a dynamic allocator" and "reads no uninitialised value" beyond `default_init_defined`.
-/
import TetlProofs.C02.Lemmas
namespace Tetl.C02.Props
open Tetl

/-! ## 1. Containers -/

/-! ### static_vector / inplace_vector / stack (model Tetl.C01) -/
section vectors
open Tetl.C01

theorem vec_setSize_never_truncates_no_oob (cap n : Nat) (hc : cap < 2 ^ 64) (hn : n ≤ cap) :
    ∃ res, setSize cap n = .ok res := by
  ok_from (C01.Props.setSize_never_truncates cap n hc hn)

theorem vec_rotate_no_oob {α : Type} (fuel : Nat) (P A B S : List α) (hf : A.length + B.length < fuel) :
    ∃ res, rotate fuel (P ++ A ++ B ++ S) P.length (P.length + A.length) (P.length + A.length + B.length) = .ok res := by
  ok_from (C01.Props.rotate_eq fuel P A B S hf)

theorem vec_insertFill_no_oob (cap : Nat) (d : V) (pos n x : Nat) (hc : cap < 2 ^ 64) (hp : pos ≤ d.length) (hn : d.length + n ≤ cap) :
    ∃ res, insertFill cap d pos n x = .ok res := by
  ok_from (C01.Props.insertFill_refines cap d pos n x hc hp hn)

theorem vec_insertRange_no_oob (cap : Nat) (d : V) (pos : Nat) (xs : List Nat) (hc : cap < 2 ^ 64) (hp : pos ≤ d.length) (hn : d.length + xs.length ≤ cap) :
    ∃ res, insertRange cap d pos xs = .ok res := by
  ok_from (C01.Props.insertRange_refines cap d pos xs hc hp hn)

theorem vec_eraseRange_no_oob (cap : Nat) (d : V) (f l : Nat) (hc : cap < 2 ^ 64) (hcap : d.length ≤ cap) (hfl : f ≤ l) (hl : l ≤ d.length) :
    ∃ res, eraseRange cap d f l = .ok res := by
  ok_from (C01.Props.eraseRange_refines cap d f l hc hcap hfl hl)

theorem vec_eraseIf_no_oob (cap : Nat) (d : V) (p : Nat → Bool) (hc : cap < 2 ^ 64) (hcap : d.length ≤ cap) :
    ∃ res, eraseIf cap d p = .ok res := by
  ok_from (C01.Props.eraseIf_refines cap d p hc hcap)

theorem vec_relOps_no_oob (a b : V) :
    ∃ res, relOps a b = .ok res := by
  ok_from (C01.Props.relOps_refines a b)

theorem vec_swap_no_oob (cap : Nat) (k : Kind) (a b : V) (hc : cap < 2 ^ 64) (ha : a.length ≤ cap) (hb : b.length ≤ cap) :
    ∃ res, swapVec cap k a b = .ok res := by
  ok_from (C01.Props.swap_refines cap k a b hc ha hb)

theorem vec_tryPush_full_no_oob (cap : Nat) (d : V) (x : Nat) (hf : d.length = cap) :
    ∃ res, ipvTry cap d x = .ok res := by
  ok_from (C01.Props.tryPush_full cap d x hf)

theorem vec_step_no_oob (s : Sys) (sp : Spec.SSys) (k : Nat) (op : Op) (hinv : Inv s) (hrel : Rel s sp) (hv : valid s k op = true) :
    ∃ res, step s k op = .ok res := by
  ok_from (C01.Props.step_refines s sp k op hinv hrel hv)

theorem vec_history_refines_init_no_oob (ty : Ty) (cap : Nat) (kind : Kind) (hc : cap < 2 ^ 64) (ops : List (Nat × Op)) (hv : validRun (Sys.init ty cap kind) ops = true) :
    ∃ res, run (Sys.init ty cap kind) ops = .ok res := by
  ok_from (C01.Props.history_refines_init ty cap kind hc ops hv)

theorem vec_copy_independent_no_oob (s : Sys) (k j : Nat) (hinv : Inv s) (hv : valid s k (.copyCtor j) = true) :
    ∃ res, step s k (.copyCtor j) = .ok res := by
  ok_from (C01.Props.copy_independent s k j hinv hv)


/-- **every valid history** of a static_vector / inplace_vector / stack system, at every capacity:
    the model never reads or writes outside the `size()` live elements, never exceeds the capacity,
    never runs out of fuel -/
theorem vec_history_no_error (ops : List (Nat × Op)) (s : Sys) (sp : Spec.SSys) (hi : Inv s) (hr : Rel s sp)
    (hv : validRun s ops = true) : ∃ res, run s ops = .ok res := by
  obtain ⟨_, _, h, _⟩ := C01.Props.history_refines ops s sp hi hr hv; exact ⟨_, h⟩

example : validRun (Sys.init .sv 0 .triv) [(0, .clear), (0, .resize 0), (1, .swap 0)] = true := by decide
example : validRun (Sys.init .sv 2 .nt) [(0, .push 0 7), (0, .insert1 0 0 8), (0, .eraseRange 0 2), (0, .pop)] = false := by decide
example : validRun (Sys.init .sv 2 .nt) [(0, .push 0 7), (0, .insert1 0 0 8), (0, .eraseRange 0 2)] = true := by decide

end vectors

/-! ### static_set / flat_set (model Tetl.C09) -/
section sets
open Tetl.C09
variable {α : Type} {lt : α → α → Bool}
theorem set_lowerBound_no_oob (hst : StrictTotal lt) {l : List α} (hs : Sorted lt l) (k : α) :
    ∃ res, lowerBound lt l k = .ok res := by
  ok_from (C09.Props.lowerBound_eq hst hs k)

theorem set_upperBound_no_oob (hst : StrictTotal lt) {l : List α} (hs : Sorted lt l) (k : α) :
    ∃ res, upperBound lt l k = .ok res := by
  ok_from (C09.Props.upperBound_eq hst hs k)

theorem set_equalRange_no_oob (hst : StrictTotal lt) {l : List α} (hs : Sorted lt l) (k : α) :
    ∃ res, equalRange lt l k = .ok res := by
  ok_from (C09.Props.equalRange_eq hst hs k)

theorem set_findLB_no_oob (hst : StrictTotal lt) {l : List α} (hs : Sorted lt l) (k : α) :
    ∃ res, findLB (fun x => lt x k) (fun x => lt k x) l = .ok res := by
  ok_from (C09.Props.findLB_eq hst hs k)

theorem set_ssFind_no_oob [DecidableEq α] (hst : StrictTotal lt) {l : List α} (hs : Sorted lt l) (k : α) :
    ∃ res, ssFind l k = .ok res := by
  ok_from (C09.Props.ssFind_eq hst hs k)

theorem set_ssInsert_no_oob (hst : StrictTotal lt) {cap : Nat} {l : List α} (h : Inv1 lt cap l) (k : α) :
    ∃ res, ssInsert lt cap l k = .ok res := by
  ok_from (C09.Props.ssInsert_eq hst h k)

theorem set_fsEmplace_no_oob (hst : StrictTotal lt) {cap : Nat} {l : List α} (h : Inv1 lt cap l) (k : α) :
    ∃ res, fsEmplace lt cap l k = .ok res := by
  ok_from (C09.Props.fsEmplace_eq hst h k)

theorem set_fiEmplace_no_oob (hst : StrictTotal lt) {cap : Nat} {l : List α} (h : Inv1 lt cap l) (k : α) :
    ∃ res, fiEmplace lt cap l k = .ok res := by
  ok_from (C09.Props.fiEmplace_eq hst h k)

theorem set_full_insert_new_key_no_oob (hst : StrictTotal lt) {cap : Nat} {l : List α} (h : Inv1 lt cap l) (k : α) (hfull : l.length = cap) (hnew : Spec.contains lt l k = false) :
    ∃ res, ssInsert lt cap l k = .ok res := by
  ok_from (C09.Props.full_insert_new_key hst h k hfull hnew)

theorem set_ssEraseKey_no_oob (hst : StrictTotal lt) {l : List α} (hs : Sorted lt l) (k : α) :
    ∃ res, ssEraseKey lt l k = .ok res := by
  ok_from (C09.Props.ssEraseKey_eq hst hs k)

theorem set_remove_erase_spec_no_oob [DecidableEq α] (hst : StrictTotal lt) (l : List α) (k : α) :
    ∃ res, removeIf l (fun x => decide (x = k)) = .ok res := by
  ok_from (C09.Props.remove_erase_spec hst l k)

theorem set_fsEraseKey_no_oob [DecidableEq α] (hst : StrictTotal lt) (l : List α) (k : α) :
    ∃ res, fsEraseKey l k = .ok res := by
  ok_from (C09.Props.fsEraseKey_eq hst l k)

theorem set_ssEraseRange_no_oob (l : List α) (f la : Nat) (h1 : f ≤ la) (h2 : la ≤ l.length) :
    ∃ res, ssEraseRange l f la = .ok res := by
  ok_from (C09.Props.ssEraseRange_eq l f la h1 h2)

theorem set_ssEraseAt_no_oob (l : List α) (pos : Nat) (h : pos < l.length) :
    ∃ res, ssEraseAt l pos = .ok res := by
  ok_from (C09.Props.ssEraseAt_eq l pos h)

theorem set_step_no_oob [DecidableEq α] (hst : StrictTotal lt) (kind : Kind) {cap : Nat} {s : St α} (hinv : Inv lt cap s) (op : Op α) (hv : Spec.valid cap lt s op = true) (hk : opOk kind op = true) :
    ∃ res, step kind lt cap s op = .ok res := by
  ok_from (C09.Props.step_refines hst kind hinv op hv hk)


/-- **every valid history** of a static_set / flat_set, at every capacity and for every strict total order -/
theorem set_history_no_error [DecidableEq α] (hst : StrictTotal lt) (kind : Kind) (cap : Nat) (ops : List (Op α))
    (s : St α) (hi : Inv lt cap s) (hk : opsOk kind ops = true)
    (hv : validHist (kind == .ss) lt cap s ops = true) : ∃ res, run kind lt cap s ops = .ok res :=
  ⟨_, C09.Props.run_refines hst kind cap ops s hi hk hv⟩

theorem set_ssInsertRange_no_oob (hst : StrictTotal lt) {cap : Nat} (ks : List α) {l : List α} (h : Inv1 lt cap l) :
    ∃ res, ssInsertRange lt cap l ks = .ok res := ⟨_, C09.Props.ssInsertRange_eq hst ks h⟩
theorem set_fsInsertRange_no_oob (hst : StrictTotal lt) {cap : Nat} (ks : List α) {l : List α} (h : Inv1 lt cap l) :
    ∃ res, fsInsertRange lt cap l ks = .ok res := ⟨_, C09.Props.fsInsertRange_eq hst ks h⟩
theorem set_fiInsertRange_no_oob (hst : StrictTotal lt) {cap : Nat} (ks : List α) {l : List α} (h : Inv1 lt cap l) :
    ∃ res, fiInsertRange lt cap l ks = .ok res := ⟨_, C09.Props.fiInsertRange_eq hst ks h⟩

end sets

/-! ### bitset / basic_bitset (model Tetl.C17) -/
section bitsets
open Tetl.C17 Tetl.C17.Members

theorem bitset_uncheckedSet_no_oob {N k : Nat} {ws : Words k} {f : Spec.Bits} (h : Rep N k ws f) (pos : Nat) (hp : pos < N) (v : Bool) :
    ∃ res, uncheckedSet N ws pos v = .ok res := by
  ok_from (C17.Props.uncheckedSet_rep h pos hp v)

theorem bitset_uncheckedReset_no_oob {N k : Nat} {ws : Words k} {f : Spec.Bits} (h : Rep N k ws f) (pos : Nat) (hp : pos < N) :
    ∃ res, uncheckedReset N ws pos = .ok res := by
  ok_from (C17.Props.uncheckedReset_rep h pos hp)

theorem bitset_uncheckedFlip_no_oob {N k : Nat} {ws : Words k} {f : Spec.Bits} (h : Rep N k ws f) (pos : Nat) (hp : pos < N) :
    ∃ res, uncheckedFlip N ws pos = .ok res := by
  ok_from (C17.Props.uncheckedFlip_rep h pos hp)

theorem bitset_set_no_oob {N k : Nat} {ws : Words k} {f : Spec.Bits} (h : Rep N k ws f) (pos : Nat) (hp : pos < N) (v : Bool) :
    ∃ res, set N ws pos v = .ok res := by
  ok_from (C17.Props.set_rep h pos hp v)

theorem bitset_reset_no_oob {N k : Nat} {ws : Words k} {f : Spec.Bits} (h : Rep N k ws f) (pos : Nat) (hp : pos < N) :
    ∃ res, reset N ws pos = .ok res := by
  ok_from (C17.Props.reset_rep h pos hp)

theorem bitset_flip_no_oob {N k : Nat} {ws : Words k} {f : Spec.Bits} (h : Rep N k ws f) (pos : Nat) (hp : pos < N) :
    ∃ res, flip N ws pos = .ok res := by
  ok_from (C17.Props.flip_rep h pos hp)

theorem bitset_refAssign_no_oob {N k : Nat} {ws : Words k} {f : Spec.Bits} (h : Rep N k ws f) (pos : Nat) (hp : pos < N) (x : Bool) :
    ∃ res, refAssign N ws pos x = .ok res := by
  ok_from (C17.Props.refAssign_rep h pos hp x)

theorem bitset_refFlip_no_oob {N k : Nat} {ws : Words k} {f : Spec.Bits} (h : Rep N k ws f) (pos : Nat) (hp : pos < N) :
    ∃ res, refFlip N ws pos = .ok res := by
  ok_from (C17.Props.refFlip_rep h pos hp)

theorem bitset_uncheckedTest_no_oob {N k : Nat} {ws : Words k} {f : Spec.Bits} (h : Rep N k ws f) (pos : Nat) (hp : pos < N) :
    ∃ res, uncheckedTest N ws pos = .ok res := by
  ok_from (C17.Props.uncheckedTest_eq h pos hp)

theorem bitset_test_no_oob {N k : Nat} {ws : Words k} {f : Spec.Bits} (h : Rep N k ws f) (pos : Nat) (hp : pos < N) :
    ∃ res, test N ws pos = .ok res := by
  ok_from (C17.Props.test_eq h pos hp)

theorem bitset_getConst_no_oob {N k : Nat} {ws : Words k} {f : Spec.Bits} (h : Rep N k ws f) (pos : Nat) (hp : pos < N) :
    ∃ res, getConst N ws pos = .ok res := by
  ok_from (C17.Props.getConst_eq h pos hp)

theorem bitset_refGet_no_oob {N k : Nat} {ws : Words k} {f : Spec.Bits} (h : Rep N k ws f) (pos : Nat) (hp : pos < N) :
    ∃ res, refGet N ws pos = .ok res := by
  ok_from (C17.Props.refGet_eq h pos hp)

theorem bitset_refNot_no_oob {N k : Nat} {ws : Words k} {f : Spec.Bits} (h : Rep N k ws f) (pos : Nat) (hp : pos < N) :
    ∃ res, refNot N ws pos = .ok res := by
  ok_from (C17.Props.refNot_eq h pos hp)

theorem bitset_setAll_no_oob {N k : Nat} {ws : Words k} {f : Spec.Bits} (hN : 0 < N) (h : Rep N k ws f) :
    ∃ res, setAll N ws = .ok res := by
  ok_from (C17.Props.setAll_rep hN h)

theorem bitset_flipAll_no_oob {N k : Nat} {ws : Words k} {f : Spec.Bits} (hN : 0 < N) (h : Rep N k ws f) :
    ∃ res, flipAll N ws = .ok res := by
  ok_from (C17.Props.flipAll_rep hN h)

theorem bitset_not_no_oob {N k : Nat} {ws : Words k} {f : Spec.Bits} (hN : 0 < N) (h : Rep N k ws f) :
    ∃ res, C17.not N ws = .ok res := by
  ok_from (C17.Props.not_rep hN h)

theorem bitset_andAssign_no_oob {N k : Nat} {a b : Words k} {fa fb : Spec.Bits} (ha : Rep N k a fa) (hb : Rep N k b fb) :
    ∃ res, andAssign a b = .ok res := by
  ok_from (C17.Props.andAssign_rep ha hb)

theorem bitset_orAssign_no_oob {N k : Nat} {a b : Words k} {fa fb : Spec.Bits} (ha : Rep N k a fa) (hb : Rep N k b fb) :
    ∃ res, orAssign a b = .ok res := by
  ok_from (C17.Props.orAssign_rep ha hb)

theorem bitset_xorAssign_no_oob {N k : Nat} {a b : Words k} {fa fb : Spec.Bits} (ha : Rep N k a fa) (hb : Rep N k b fb) :
    ∃ res, xorAssign a b = .ok res := by
  ok_from (C17.Props.xorAssign_rep ha hb)

theorem bitset_fromUll_no_oob (N k v : Nat) (hv : v < 2 ^ 64) :
    ∃ res, fromUll N k v = .ok res := by
  ok_from (C17.Props.fromUll_rep N k v hv)

theorem bitset_all_no_oob {N k : Nat} {ws : Words k} {f : Spec.Bits} (hN : 0 < N) (h : Rep N k ws f) :
    ∃ res, all N ws = .ok res := by
  ok_from (C17.Props.all_eq hN h)

theorem bitset_fromString_no_oob (N k : Nat) (str : List Nat) (pos n zeroCh oneCh : Nat) (hpos : pos ≤ str.length) (hvalid : (usedChars N str pos n).all (fun c => c == zeroCh || c == oneCh) = true) :
    ∃ res, fromString N k str pos n zeroCh oneCh = .ok res := by
  ok_from (C17.Props.fromString_rep N k str pos n zeroCh oneCh hpos hvalid)

theorem bitset_fromCstr_no_oob (N k : Nat) (buf : List Nat) (n zeroCh oneCh : Nat) (hn : n = NPOS ∨ n ≤ buf.length) (hvalid : (usedChars N buf 0 n).all (fun c => c == zeroCh || c == oneCh) = true) :
    ∃ res, fromCstr N k buf n zeroCh oneCh = .ok res := by
  ok_from (C17.Props.fromCstr_rep N k buf n zeroCh oneCh hn hvalid)

theorem bitset_step_no_oob {N k : Nat} (hN : 0 < N) {st : Store k} {sp : Spec.Store} (h : StoreRep N k st sp) (op : Op) (hv : Op.valid N op = true) :
    ∃ res, step N st op = .ok res := by
  ok_from (C17.Props.step_rep hN h op hv)

theorem bitset_run_refines_init_no_oob {N k : Nat} (hN : 0 < N) (ops : List Op) (hv : ∀ op, op ∈ ops → Op.valid N op = true) :
    ∃ res, run N (Store.init N k) ops = .ok res := by
  ok_from (C17.Props.run_refines_init hN ops hv)

theorem bitset_padding_inv_history_no_oob {N k : Nat} (hN : 0 < N) (ops : List Op) (hv : ∀ op, op ∈ ops → Op.valid N op = true) :
    ∃ res, run N (Store.init N k) ops = .ok res := by
  ok_from (C17.Props.padding_inv_history hN ops hv)

theorem bitset_run_observers_no_oob {N k : Nat} (hN : 0 < N) (ops : List Op) (hv : ∀ op, op ∈ ops → Op.valid N op = true) :
    ∃ res, run N (Store.init N k) ops = .ok res := by
  ok_from (C17.Props.run_observers hN ops hv)

theorem bitset_toStr_no_oob {N k : Nat} {ws : Words k} {f : Spec.Bits} (hN : 0 < N) (h : Rep N k ws f) (zeroCh oneCh cap : Nat) (hcap : N ≤ cap) :
    ∃ res, toStr N ws zeroCh oneCh cap = .ok res := by
  ok_from (C17.Props.toStr_eq hN h zeroCh oneCh cap hcap)


/-- **every valid history** over the objects of a bitset store, for every size `N > 0` and word width `2^k` -/
theorem bitset_history_no_error {N k : Nat} (hN : 0 < N) (ops : List Op) {st : Store k} {sp : Spec.Store}
    (h : StoreRep N k st sp) (hv : ∀ op, op ∈ ops → Op.valid N op = true) : ∃ res, run N st ops = .ok res := by
  obtain ⟨_, h, _⟩ := C17.Props.run_refines hN ops h hv; exact ⟨_, h⟩

end bitsets

/-! ### optional / variant / expected (model Tetl.C07): the active index is always a valid alternative -/
section sumtypes
open Tetl.C07
variable {α β : Type}
theorem sum_visit_dispatch_no_bad_access (sizes act : List Nat) (h : validIdx act sizes = true) :
    ∃ res, visitWithIndex sizes act = .ok res := by
  ok_from (C07.Props.visit_dispatch sizes act h)

theorem sum_visit1_no_bad_access (c : Cfg) (v : V α) (h : v.idx < c.n) :
    ∃ res, visit1 c v = .ok res := by
  ok_from (C07.Props.visit1_active c v h)

theorem sum_visit2_no_bad_access (c : Cfg) (a b : V α) (ha : a.idx < c.n) (hb : b.idx < c.n) :
    ∃ res, visit2 c a b = .ok res := by
  ok_from (C07.Props.visit2_active c a b ha hb)

theorem sum_destroy_no_bad_access (c : Cfg) (v : V α) (h : v.idx < c.n) :
    ∃ res, destroy c v = .ok res := by
  ok_from (C07.Props.destroy_ok c v h)

theorem sum_construct_no_bad_access (c : Cfg) (el : Elem α) (ht : TrivOK c el) (mv : Bool) (src : V α) (h : src.idx < c.n) :
    ∃ res, construct c el mv src = .ok res := by
  ok_from (C07.Props.construct_refines c el ht mv src h)

theorem sum_assign_no_bad_access (c : Cfg) (el : Elem α) (ht : TrivOK c el) (fb : α → Bool) (hfb : ∀ x, fb x = false) (mv : Bool) (dst src : V α) (hd : dst.idx < c.n) (hs : src.idx < c.n) :
    ∃ res, assign c el mv dst src = .ok res := by
  ok_from (C07.Props.assign_refines c el ht fb hfb mv dst src hd hs)

theorem sum_assignSelf_no_bad_access (c : Cfg) (mv : Bool) (v : V α) (h : v.idx < c.n) :
    ∃ res, assignSelf c mv v = .ok res := by
  ok_from (C07.Props.assignSelf_refines c mv v h)

theorem sum_swap2_no_bad_access (c : Cfg) (el : Elem α) (ht : TrivOK c el) (a b : V α) (ha : a.idx < c.n) (hb : b.idx < c.n) :
    ∃ res, swap2 c el a b = .ok res := by
  ok_from (C07.Props.swap2_refines c el ht a b ha hb)

theorem sum_swapSelf_no_bad_access (c : Cfg) (el : Elem α) (ht : TrivOK c el) (a : V α) (ha : a.idx < c.n) :
    ∃ res, swapSelf c el a = .ok res := by
  ok_from (C07.Props.swapSelf_refines c el ht a ha)

theorem sum_step_no_bad_access (c : Cfg) (el : Elem α) (ht : TrivOK c el) (fb : α → Bool) (hfb : ∀ x, fb x = false) (st : List (V α)) (hwf : WF c st) (op : Op α) (hv : Spec.valid c.n st op = true) :
    ∃ res, step c el st op = .ok res := by
  ok_from (C07.Props.step_refines c el ht fb hfb st hwf op hv)

theorem sum_getIf_no_bad_access (v : V α) (i : Nat) :
    ∃ res, getIf v i = .ok res := by
  ok_from (C07.Props.getIf_eq v i)

theorem sum_valueOr_no_bad_access (v : V α) (d : α) :
    ∃ res, valueOr v d = .ok res := by
  ok_from (C07.Props.valueOr_eq v d)

theorem sum_andThen_no_bad_access {ρ : Type} (v : V α) (f : α → ρ) :
    ∃ res, andThen v f = .ok res := by
  ok_from (C07.Props.andThen_eq v f)

theorem sum_orElse_no_bad_access (v : V α) :
    ∃ res, orElse v = .ok res := by
  ok_from (C07.Props.orElse_eq v)

theorem sum_expValueOr_no_bad_access (v : V α) (d : α) (h : v.idx < 2) :
    ∃ res, expValueOr v d = .ok res := by
  ok_from (C07.Props.expValueOr_eq v d h)

theorem sum_expAndThen_no_bad_access {ρ : Type} (v : V α) (f onErr : α → ρ) (h : v.idx < 2) :
    ∃ res, expAndThen v f onErr = .ok res := by
  ok_from (C07.Props.expAndThen_eq v f onErr h)

theorem sum_expOrElse_no_bad_access {ρ : Type} (v : V α) (onVal f : α → ρ) (h : v.idx < 2) :
    ∃ res, expOrElse v onVal f = .ok res := by
  ok_from (C07.Props.expOrElse_eq v onVal f h)

theorem sum_expError_no_bad_access (v : V α) (h : v.idx = 1) :
    ∃ res, expError v = .ok res := by
  ok_from (C07.Props.expError_eq v h)

theorem sum_varRel_no_bad_access (c : Cfg) (o : RelOps α α) (hne : ∀ x y, o .ne x y = !o .eq x y) (r : Rel) (a b : V α) (ha : a.idx < c.n) (hb : b.idx < c.n) :
    ∃ res, varRel c o r a b = .ok res := by
  ok_from (C07.Props.varRel_eq c o hne r a b ha hb)

theorem sum_optRel_no_bad_access (o : RelOps α β) (hne : ∀ x y, o .ne x y = !o .eq x y) (r : Rel) (a : V α) (b : V β) :
    ∃ res, optRel o r a b = .ok res := by
  ok_from (C07.Props.optRel_eq o hne r a b)

theorem sum_optRelValR_no_bad_access (o : RelOps α β) (hne : ∀ x y, o .ne x y = !o .eq x y) (r : Rel) (a : V α) (y : β) :
    ∃ res, optRelValR o r a y = .ok res := by
  ok_from (C07.Props.optRelValR_eq o hne r a y)

theorem sum_optRelValL_no_bad_access (o : RelOps α β) (o' : RelOps β α) (hsym : ∀ x y, o' .eq y x = o .eq x y) (hne : ∀ x y, o' .ne y x = !o' .eq y x) (r : Rel) (y : β) (a : V α) :
    ∃ res, optRelValL o o' r y a = .ok res := by
  ok_from (C07.Props.optRelValL_eq o o' hsym hne r y a)


/-- **every valid history** of variant / optional / expected objects: no access through an index that is not
    the active alternative, no `unreachable()` -/
theorem sum_history_no_bad_access (c : Cfg) (el : Elem α) (ht : TrivOK c el) (fb : α → Bool) (hfb : ∀ x, fb x = false)
    (ops : List (Op α)) (st : List (V α)) (hwf : WF c st) (hv : Spec.validRun c.n el fb st ops = true) :
    ∃ res, run c el st ops = .ok res :=
  ⟨_, (C07.Props.run_refines c el ht fb hfb ops st hwf hv).1⟩

end sumtypes

/-! ### pair / tuple / inplace_function / function_ref (model Tetl.C20) -/
section wrappers
open Tetl.C20

theorem fn_getAt_no_error (t : List Int) (i : Nat) (h : i < t.length) :
    ∃ res, getAt t i = .ok res := by
  ok_from (C20.Props.getAt_eq t i h)

theorem fn_getAll_no_error (t : List Int) :
    ∃ res, getAll t = .ok res := by
  ok_from (C20.Props.getAll_eq t)

theorem fn_tuple_cat_no_error (t : List Int) (ts : List (List Int)) :
    ∃ res, tupleCat (t :: ts) = .ok res := by
  ok_from (C20.Props.tuple_cat_eq t ts)

theorem fn_invoke_no_error (f : Callee) (args : List (Option Cat × Int)) (h : ∀ o v, f = .memdata o v → args = []) :
    ∃ res, invoke f args = .ok res := by
  ok_from (C20.Props.invoke_eq f args h)

theorem fn_invoke_call_once_no_error (f : Callee) (args : List (Option Cat × Int)) (h : ∀ o v, f ≠ .memdata o v) :
    ∃ res, invoke f args = .ok res := by
  ok_from (C20.Props.invoke_call_once f args h)

theorem fn_refWrap_no_error (tid : Nat) (cst : Bool) (args : List (Option Cat × Int)) :
    ∃ res, refWrapCall tid cst args = .ok res := by
  ok_from (C20.Props.refWrap_eq tid cst args)

theorem fn_functionRef_no_error (callee : Callee) (args : List (Option Cat × Int)) (h : ∀ o v, callee = .memdata o v → args = []) :
    ∃ res, functionRefCall callee args = .ok res := by
  ok_from (C20.Props.functionRef_eq callee args h)

theorem fn_bindFront_no_error (mk : Cat → Callee) (q : Cat) (bound : List Int) (args : List (Option Cat × Int)) (h : ∀ o v, mk q ≠ .memdata o v) :
    ∃ res, bindFrontCall mk q bound args = .ok res := by
  ok_from (C20.Props.bindFront_eq mk q bound args h)

theorem fn_notFn_no_error (tid : Nat) (q : Cat) (pred : Bool) (args : List (Option Cat × Int)) :
    ∃ res, notFnCall tid q pred args = .ok res := by
  ok_from (C20.Props.notFn_eq tid q pred args)

theorem fn_apply_no_error (f : Callee) (tc : Cat) (t : List Int) (h : ∀ o v, f ≠ .memdata o v) :
    ∃ res, apply f tc t = .ok res := by
  ok_from (C20.Props.apply_eq f tc t h)

theorem fn_makeFromTuple_no_error (t : List Int) :
    ∃ res, makeFromTuple t = .ok res := by
  ok_from (C20.Props.makeFromTuple_eq t)

theorem fn_run_never_errors_no_error (ops : List Op) (hv : ops.all Spec.valid = true) :
    ∃ res, run St.init ops = .ok res := by
  ok_from (C20.Props.run_never_errors ops hv)

theorem fn_empty_never_calls_no_error {s : St} (hinv : Inv s) (i : Nat) (x : Int) (he : abs s i = none) :
    ∃ res, step s (.call i x) = .ok res := by
  ok_from (C20.Props.empty_never_calls hinv i x he)

theorem fn_call_once_no_error {s : St} (hinv : Inv s) (i : Nat) (x : Int) (f : Fn) (hf : abs s i = some f) :
    ∃ res, step s (.call i x) = .ok res := by
  ok_from (C20.Props.call_once hinv i x f hf)

theorem fn_copy_equivalent_no_error {s : St} (hinv : Inv s) (i j : Nat) (conv : Bool) (hij : i ≠ j) :
    ∃ res, step s (.ctorCopy i j conv) = .ok res := by
  ok_from (C20.Props.copy_equivalent hinv i j conv hij)

theorem fn_move_transfers_no_error {s : St} (hinv : Inv s) (i j : Nat) (conv : Bool) (hij : i ≠ j) :
    ∃ res, step s (.ctorMove i j conv) = .ok res := by
  ok_from (C20.Props.move_transfers hinv i j conv hij)

theorem fn_swap_exchanges_no_error {s : St} (hinv : Inv s) (i j : Nat) :
    ∃ res, step s (.swap i j) = .ok res := by
  ok_from (C20.Props.swap_exchanges hinv i j)


end wrappers

/-! ## 2. Strings and views -/

/-! ### basic_inplace_string (model Tetl.C04) -/
section strings
open Tetl.C04 Tetl.C04.Props

theorem string_unsafe_set_size_inv_no_oob (s : Str) (hc : s.cap < W64) (hl : s.buf.length = s.cap + 1) (n : Nat) (hn : n ≤ s.cap) :
    ∃ res, s.unsafeSetSize n = .ok res := by
  ok_from (C04.Props.unsafe_set_size_inv s hc hl n hn)

theorem string_rotate_no_oob (P A B S : Units) :
    ∃ res, rotate (P ++ A ++ B ++ S) P.length (P.length + A.length) (P.length + A.length + B.length) = .ok res := by
  ok_from (C04.Props.rotate_eq P A B S)

theorem string_step_no_oob {s : Str} {cs : List Nat} (h : Rep s cs) (op : Op) (hp : Pre s.cap cs op = true) :
    ∃ res, s.step op = .ok res := by
  ok_from (C04.Props.step_rep h op hp)

theorem string_inv_step_no_oob {s : Str} {cs : List Nat} (h : Rep s cs) (op : Op) (hp : Pre s.cap cs op = true) :
    ∃ res, s.step op = .ok res := by
  ok_from (C04.Props.inv_step h op hp)

theorem string_refines_step_no_oob {s : Str} {cs : List Nat} (h : Rep s cs) (op : Op) (hp : Pre s.cap cs op = true) (hf : Spec.fits s.cap cs op = true) :
    ∃ res, s.step op = .ok res := by
  ok_from (C04.Props.refines_step h op hp hf)

theorem string_swap_no_oob {a b : Str} {ca cb : List Nat} (ha : Rep a ca) (hb : Rep b cb) (hcap : a.cap = b.cap) :
    ∃ res, a.swap b = .ok res := by
  ok_from (C04.Props.swap_eq ha hb hcap)

theorem string_chars_no_oob {s : Str} {cs : List Nat} (h : Rep s cs) :
    ∃ res, s.chars = .ok res := by
  ok_from (C04.Props.chars_eq h)

theorem string_substr_no_oob {s : Str} {cs : List Nat} (h : Rep s cs) (pos count : Nat) (hp : pos ≤ cs.length) :
    ∃ res, s.substr pos count = .ok res := by
  ok_from (C04.Props.substr_eq h pos count hp)

theorem string_compare_pos_count_no_oob (h : Units) (pos count : Nat) (v : Units) (hp : pos ≤ h.length) :
    ∃ res, compare3 h pos count v = .ok res := by
  ok_from (C04.Props.compare_pos_count_eq h pos count v hp)

theorem string_compare_pos_count_pos_count_no_oob (h : Units) (pos1 count1 : Nat) (v : Units) (pos2 count2 : Nat) (hp1 : pos1 ≤ h.length) (hp2 : pos2 ≤ v.length) :
    ∃ res, compare5 h pos1 count1 v pos2 count2 = .ok res := by
  ok_from (C04.Props.compare_pos_count_pos_count_eq h pos1 count1 v pos2 count2 hp1 hp2)

theorem string_overload_arg_no_oob {o : Str} {co : List Nat} (ho : Rep o co) (a : Arg) (d : List Nat) (hd : a.den co = some d) :
    ∃ res, a.src o = .ok res := by
  ok_from (C04.Props.overload_arg_eq ho a d hd)


/-- **every fitting history** from any represented string state -/
theorem string_history_no_error (ops : List Op) {s : Str} {cs : List Nat} (h : Rep s cs)
    (hf : FitsAll s.cap cs ops = true) : ∃ res, run s ops = .ok res := by
  obtain ⟨_, h, _⟩ := C04.Props.refines_history ops h hf; exact ⟨_, h⟩

/-- **every valid history** from the empty string, at every capacity (clamped appends included): no access
    outside the `cap + 1` units of the inline buffer, and afterwards `size() ≤ cap` and the terminator
    `buf[size()] = 0` lies *inside* the buffer -/
theorem string_history_terminator_in_buffer (cap : Nat) (hc : cap < W64) (ops : List Op)
    (hv : ValidAll cap [] ops = true) :
    ∃ s' n, run (Str.mk0 cap) ops = .ok s' ∧ s'.size = .ok n ∧ n ≤ cap ∧ s'.buf[n]? = some 0 :=
  C04.Props.inv_history cap hc ops hv

end strings

/-! ### basic_string_view (model Tetl.C08) -/
section views
open Tetl.C08

theorem sv_compare_no_oob (a b : Str) :
    ∃ res, C08.compare a b = .ok res := by
  ok_from (C08.Props.compare_eq a b)

theorem sv_find_first_of_no_oob (h v : Str) (pos : Nat) :
    ∃ res, findFirstOf h v pos = .ok res := by
  ok_from (C08.Props.find_first_of_eq h v pos)

theorem sv_find_first_not_of_no_oob (h v : Str) (pos : Nat) :
    ∃ res, findFirstNotOf h v pos = .ok res := by
  ok_from (C08.Props.find_first_not_of_eq h v pos)

theorem sv_find_first_not_of_char_no_oob (h : Str) (c pos : Nat) :
    ∃ res, findFirstNotOfChar h c pos = .ok res := by
  ok_from (C08.Props.find_first_not_of_char_eq h c pos)

theorem sv_find_last_of_no_oob (h v : Str) (pos : Nat) :
    ∃ res, findLastOf h v pos = .ok res := by
  ok_from (C08.Props.find_last_of_eq h v pos)

theorem sv_find_last_not_of_no_oob (h v : Str) (pos : Nat) :
    ∃ res, findLastNotOf h v pos = .ok res := by
  ok_from (C08.Props.find_last_not_of_eq h v pos)

theorem sv_find_no_oob (h v : Str) (pos : Nat) :
    ∃ res, find h v pos = .ok res := by
  ok_from (C08.Props.find_eq h v pos)

theorem sv_contains_no_oob (h v : Str) :
    ∃ res, contains h v = .ok res := by
  ok_from (C08.Props.contains_eq h v)

theorem sv_substr_no_oob (h : Str) (pos count : Nat) (hp : pos ≤ h.length) :
    ∃ res, substr h pos count = .ok res := by
  ok_from (C08.Props.substr_eq h pos count hp)

theorem sv_copy_no_oob (h : Str) (count pos : Nat) (hp : pos ≤ h.length) :
    ∃ res, copy h count pos = .ok res := by
  ok_from (C08.Props.copy_eq h count pos hp)

theorem sv_remove_prefix_no_oob (h : Str) (n : Nat) (hn : n ≤ h.length) :
    ∃ res, removePrefix h n = .ok res := by
  ok_from (C08.Props.remove_prefix_eq h n hn)

theorem sv_remove_suffix_no_oob (h : Str) (n : Nat) (hn : n ≤ h.length) :
    ∃ res, removeSuffix h n = .ok res := by
  ok_from (C08.Props.remove_suffix_eq h n hn)

theorem sv_viewEq_no_oob (a b : Str) :
    ∃ res, viewEq a b = .ok res := by
  ok_from (C08.Props.viewEq_eq a b)

theorem sv_starts_with_no_oob (h sv : Str) :
    ∃ res, startsWith h sv = .ok res := by
  ok_from (C08.Props.starts_with_eq h sv)

theorem sv_ends_with_no_oob (h sv : Str) (hs : h.length ≤ NPOS) :
    ∃ res, endsWith h sv = .ok res := by
  ok_from (C08.Props.ends_with_eq h sv hs)

theorem sv_starts_with_char_no_oob (h : Str) (c : Nat) :
    ∃ res, startsWithChar h c = .ok res := by
  ok_from (C08.Props.starts_with_char_eq h c)

theorem sv_ends_with_char_no_oob (h : Str) (c : Nat) :
    ∃ res, endsWithChar h c = .ok res := by
  ok_from (C08.Props.ends_with_char_eq h c)

theorem sv_compare3_no_oob (a : Str) (pos1 count1 : Nat) (b : Str) (hp : pos1 ≤ a.length) :
    ∃ res, compare3 a pos1 count1 b = .ok res := by
  ok_from (C08.Props.compare3_eq a pos1 count1 b hp)

theorem sv_compare5_no_oob (a : Str) (pos1 count1 : Nat) (b : Str) (pos2 count2 : Nat) (hp1 : pos1 ≤ a.length) (hp2 : pos2 ≤ b.length) :
    ∃ res, compare5 a pos1 count1 b pos2 count2 = .ok res := by
  ok_from (C08.Props.compare5_eq a pos1 count1 b pos2 count2 hp1 hp2)

theorem sv_rfind_char_no_oob (h : Str) (c pos : Nat) :
    ∃ res, rfindChar h c pos = .ok res := by
  ok_from (C08.Props.rfind_char_eq h c pos)

theorem sv_rfind_no_oob (h sv : Str) (pos : Nat) :
    ∃ res, rfind h sv pos = .ok res := by
  ok_from (C08.Props.rfind_eq h sv pos)


end views

/-! ### span / mdspan (model Tetl.C19) -/
section spans
open Tetl.C19 Tetl.C19.Spec Tetl.C19.Lemmas

theorem span_fwd_prod_no_oob (t : IdxT) (hv : IdxT.Valid t) (e : Ext) (vals : List Nat) (he : ExtIs t e vals) (hf : Fits t vals) (i : Nat) (hi : i ≤ vals.length) :
    ∃ res, e.fwdProd t i = .ok res := by
  ok_from (C19.Props.fwd_prod_eq t hv e vals he hf i hi)

theorem span_rev_prod_no_oob (t : IdxT) (hv : IdxT.Valid t) (e : Ext) (vals : List Nat) (he : ExtIs t e vals) (hf : Fits t vals) (i : Nat) (hi : i < vals.length) :
    ∃ res, e.revProd t i = .ok res := by
  ok_from (C19.Props.rev_prod_eq t hv e vals he hf i hi)

theorem span_stride_consistent_no_oob (l : Lay) (t : IdxT) (hv : IdxT.Valid t) (e : Ext) (vals : List Nat) (he : ExtIs t e vals) (hf : Fits t vals) (r : Nat) (hr : r < vals.length) :
    ∃ res, stride l t e r = .ok res := by
  ok_from (C19.Props.stride_consistent l t hv e vals he hf r hr)

theorem span_required_span_size_no_oob (l : Lay) (t : IdxT) (hv : IdxT.Valid t) (e : Ext) (vals : List Nat) (he : ExtIs t e vals) (hf : Fits t vals) :
    ∃ res, reqSpan l t e = .ok res := by
  ok_from (C19.Props.required_span_size_eq l t hv e vals he hf)

theorem span_mapIdx_closed_form_no_oob (l : Lay) (t : IdxT) (hv : IdxT.Valid t) (e : Ext) (vals : List Nat) (he : ExtIs t e vals) (hf : Fits t vals) (idx : List Nat) (hr : InRange vals idx) :
    ∃ res, mapIdx l t e (idx.map Int.ofNat) = .ok res := by
  ok_from (C19.Props.mapIdx_closed_form l t hv e vals he hf idx hr)

theorem span_mapIdx_in_span_no_oob (l : Lay) (t : IdxT) (hv : IdxT.Valid t) (e : Ext) (vals : List Nat) (he : ExtIs t e vals) (hf : Fits t vals) (idx : List Nat) (hr : InRange vals idx) :
    ∃ res, mapIdx l t e (idx.map Int.ofNat) = .ok res := by
  ok_from (C19.Props.mapIdx_in_span l t hv e vals he hf idx hr)

theorem span_mdspan_access_no_oob {α : Type} (l : Lay) (t : IdxT) (hv : IdxT.Valid t) (e : Ext) (vals : List Nat) (he : ExtIs t e vals) (hf : Fits t vals) (buf : List α) (hb : prod vals ≤ buf.length) (idx : List Nat) (hr : InRange vals idx) :
    ∃ res, mdspanAt l t e buf (idx.map Int.ofNat) = .ok res := by
  ok_from (C19.Props.mdspan_access_eq l t hv e vals he hf buf hb idx hr)

theorem span_mdarray_access_no_oob (l : Lay) (t : IdxT) (hv : IdxT.Valid t) (e : Ext) (vals : List Nat) (he : ExtIs t e vals) (hf : Fits t vals) (idx : List Nat) (hr : InRange vals idx) :
    ∃ res, mdarrayAt l t e (idx.map Int.ofNat) = .ok res := by
  ok_from (C19.Props.mdarray_access_eq l t hv e vals he hf idx hr)

theorem span_extents_ctor_no_oob (t : IdxT) (hv : IdxT.Valid t) (pat : Pat) (vals : List Nat) (hc : Consistent pat vals) (hm : ∀ x ∈ vals, x ≤ t.maxV) (all : Bool) :
    ∃ res, Ext.ofVals t pat (ctorArgs pat vals all) = .ok res := by
  ok_from (C19.Props.extents_ctor_eq t hv pat vals hc hm all)

theorem span_conv_extent_no_oob (t ts : IdxT) (hv : IdxT.Valid t) (p : Pat) (src : Ext) (vals : List Nat) (hs : ExtIs ts src vals) (hc : Consistent p vals) (hm : ∀ x ∈ vals, x ≤ t.maxV) :
    ∃ res, Ext.conv t ts p src = .ok res := by
  ok_from (C19.Props.conv_extent_eq t ts hv p src vals hs hc hm)

theorem span_ctor_mapping_closed_form_no_oob (l : Lay) (t : IdxT) (hv : IdxT.Valid t) (pat : Pat) (vals : List Nat) (hc : Consistent pat vals) (hf : Fits t vals) (all : Bool) (idx : List Nat) (hr : InRange vals idx) :
    ∃ res, Ext.ofVals t pat (ctorArgs pat vals all) = .ok res := by
  ok_from (C19.Props.ctor_mapping_closed_form l t hv pat vals hc hf all idx hr)

theorem span_transpose_no_oob (t : IdxT) (hv : IdxT.Valid t) (m : TMap) (e0 e1 : Nat) (he : ExtIs t m.nested [e1, e0]) (hf : Fits t [e1, e0]) (i j : Nat) (hi : i < e0) (hj : j < e1) :
    ∃ res, m.mapIdx t (i : Int) (j : Int) = .ok res := by
  ok_from (C19.Props.transpose_eq t hv m e0 e1 he hf i j hi hj)

theorem span_transpose_stride_no_oob (t : IdxT) (hv : IdxT.Valid t) (m : TMap) (e0 e1 : Nat) (he : ExtIs t m.nested [e1, e0]) (hf : Fits t [e1, e0]) (r : Nat) (hr : r < 2) :
    ∃ res, m.stride t r = .ok res := by
  ok_from (C19.Props.transpose_stride_eq t hv m e0 e1 he hf r hr)

theorem span_subspan_no_oob {α : Type} (base : List α) (s : Span) (hw : SpanWF base s) (off : Nat) (cnt : Option Nat) (h1 : off ≤ s.size) (h2 : ∀ c, cnt = some c → c ≤ s.size - off) :
    ∃ res, s.subspan off cnt = .ok res := by
  ok_from (C19.Props.subspan_eq base s hw off cnt h1 h2)

theorem span_subspanT_no_oob {α : Type} (base : List α) (s : Span) (hw : SpanWF base s) (hs : s.size ≤ DYN) (off : Nat) (cnt : Option Nat) (h1 : off ≤ s.size) (h2 : ∀ c, cnt = some c → c ≤ s.size - off) :
    ∃ res, s.subspanT off cnt = .ok res := by
  ok_from (C19.Props.subspanT_eq base s hw hs off cnt h1 h2)


theorem span_first_no_oob {α : Type} (base : List α) (s : Span) (hw : SpanWF base s) (hs : s.size ≤ DYN) (c : Nat)
    (h : c ≤ s.size) : (∃ res, s.first c = .ok res) ∧ (∃ res, s.firstT c = .ok res) := by
  obtain ⟨⟨_, h1, _⟩, ⟨_, h2, _⟩⟩ := C19.Props.first_eq base s hw hs c h
  exact ⟨⟨_, h1⟩, ⟨_, h2⟩⟩
theorem span_last_no_oob {α : Type} (base : List α) (s : Span) (hw : SpanWF base s) (hs : s.size ≤ DYN) (c : Nat)
    (h : c ≤ s.size) : (∃ res, s.last c = .ok res) ∧ (∃ res, s.lastT c = .ok res) := by
  obtain ⟨⟨_, h1, _⟩, ⟨_, h2, _⟩⟩ := C19.Props.last_eq base s hw hs c h
  exact ⟨⟨_, h1⟩, ⟨_, h2⟩⟩
/-- the element an mdspan access reads lies inside the span the caller passed -/
theorem span_mdspan_offset_in_span (l : Lay) (t : IdxT) (hv : IdxT.Valid t) (e : Ext) (vals : List Nat)
    (he : ExtIs t e vals) (hf : Fits t vals) (idx : List Nat) (hr : InRange vals idx) :
    ∃ o n : Nat, mapIdx l t e (idx.map Int.ofNat) = .ok (o : Int) ∧ reqSpan l t e = .ok (n : Int) ∧ o < n :=
  C19.Props.mapIdx_in_span l t hv e vals he hf idx hr

end spans

/-! ## 3. Algorithms -/

/-! ### algorithms over iterator ranges (model Tetl.C06): every read and write stays inside `[first, last)` / the output range -/
section algorithms
open Tetl.C06
variable {α : Type}
theorem alg_findIf_no_oob (p : α → Bool) (P R S : List α) :
    ∃ res, findIf p (P ++ R ++ S) P.length (P.length + R.length) = .ok res := by
  ok_from (C06.Props.findIf_eq p P R S)

theorem alg_findIfNot_no_oob (p : α → Bool) (P R S : List α) :
    ∃ res, findIfNot p (P ++ R ++ S) P.length (P.length + R.length) = .ok res := by
  ok_from (C06.Props.findIfNot_eq p P R S)

theorem alg_find_no_oob (eq : α → α → Bool) (v : α) (P R S : List α) :
    ∃ res, find eq v (P ++ R ++ S) P.length (P.length + R.length) = .ok res := by
  ok_from (C06.Props.find_eq eq v P R S)

theorem alg_allOf_no_oob (p : α → Bool) (P R S : List α) :
    ∃ res, allOf p (P ++ R ++ S) P.length (P.length + R.length) = .ok res := by
  ok_from (C06.Props.allOf_eq p P R S)

theorem alg_anyOf_no_oob (p : α → Bool) (P R S : List α) :
    ∃ res, anyOf p (P ++ R ++ S) P.length (P.length + R.length) = .ok res := by
  ok_from (C06.Props.anyOf_eq p P R S)

theorem alg_noneOf_no_oob (p : α → Bool) (P R S : List α) :
    ∃ res, noneOf p (P ++ R ++ S) P.length (P.length + R.length) = .ok res := by
  ok_from (C06.Props.noneOf_eq p P R S)

theorem alg_countIf_no_oob (p : α → Bool) (P R S : List α) :
    ∃ res, countIf p (P ++ R ++ S) P.length (P.length + R.length) = .ok res := by
  ok_from (C06.Props.countIf_eq p P R S)

theorem alg_count_no_oob (eq : α → α → Bool) (v : α) (P R S : List α) :
    ∃ res, count eq v (P ++ R ++ S) P.length (P.length + R.length) = .ok res := by
  ok_from (C06.Props.count_eq eq v P R S)

theorem alg_forEach_no_oob (P R S : List α) :
    ∃ res, forEach (P ++ R ++ S) P.length (P.length + R.length) = .ok res := by
  ok_from (C06.Props.forEach_eq P R S)

theorem alg_forEachN_no_oob (P R S : List α) (n : Int) (hn : n.toNat ≤ R.length) :
    ∃ res, forEachN (P ++ R ++ S) P.length (P.length + R.length) n = .ok res := by
  ok_from (C06.Props.forEachN_eq P R S n hn)

theorem alg_copyN_no_oob (P R S : List α) (n : Int) (hn : n.toNat ≤ R.length) :
    ∃ res, copyN (P ++ R ++ S) P.length (P.length + R.length) n = .ok res := by
  ok_from (C06.Props.copyN_eq P R S n hn)

theorem alg_transform1_no_oob (op : α → α) (P R S : List α) :
    ∃ res, transform1 op (P ++ R ++ S) P.length (P.length + R.length) = .ok res := by
  ok_from (C06.Props.transform1_eq op P R S)

theorem alg_copyIf_no_oob (p : α → Bool) (P R S : List α) :
    ∃ res, copyIf p (P ++ R ++ S) P.length (P.length + R.length) = .ok res := by
  ok_from (C06.Props.copyIf_eq p P R S)

theorem alg_removeCopyIf_no_oob (p : α → Bool) (P R S : List α) :
    ∃ res, removeCopyIf p (P ++ R ++ S) P.length (P.length + R.length) = .ok res := by
  ok_from (C06.Props.removeCopyIf_eq p P R S)

theorem alg_removeCopy_no_oob (eq : α → α → Bool) (v : α) (P R S : List α) :
    ∃ res, removeCopy eq v (P ++ R ++ S) P.length (P.length + R.length) = .ok res := by
  ok_from (C06.Props.removeCopy_eq eq v P R S)

theorem alg_partitionCopy_no_oob (p : α → Bool) (P R S : List α) :
    ∃ res, partitionCopy p (P ++ R ++ S) P.length (P.length + R.length) = .ok res := by
  ok_from (C06.Props.partitionCopy_eq p P R S)

theorem alg_reverseCopy_no_oob (P R S : List α) :
    ∃ res, reverseCopy (P ++ R ++ S) P.length (P.length + R.length) = .ok res := by
  ok_from (C06.Props.reverseCopy_eq P R S)

theorem alg_partitionPoint_no_oob (p : α → Bool) (P R S : List α) :
    ∃ res, partitionPoint p (P ++ R ++ S) P.length (P.length + R.length) = .ok res := by
  ok_from (C06.Props.partitionPoint_eq p P R S)

theorem alg_isPartitioned_no_oob (p : α → Bool) (P R S : List α) :
    ∃ res, isPartitioned p (P ++ R ++ S) P.length (P.length + R.length) = .ok res := by
  ok_from (C06.Props.isPartitioned_eq p P R S)

theorem alg_findFirstOf_no_oob (pred : α → α → Bool) (P R S s : List α) :
    ∃ res, findFirstOf pred (P ++ R ++ S) P.length (P.length + R.length) s = .ok res := by
  ok_from (C06.Props.findFirstOf_eq pred P R S s)

theorem alg_rotate_no_oob (P R S : List α) (k : Nat) (hk : k ≤ R.length) :
    ∃ res, rotate (P ++ R ++ S) P.length (P.length + k) (P.length + R.length) = .ok res := by
  ok_from (C06.Props.rotate_eq P R S k hk)

theorem alg_rotateCopy_no_oob (P R S : List α) (k : Nat) (hk : k ≤ R.length) :
    ∃ res, rotateCopy (P ++ R ++ S) P.length (P.length + k) (P.length + R.length) = .ok res := by
  ok_from (C06.Props.rotateCopy_eq P R S k hk)

theorem alg_reverseRA_no_oob (P R S : List α) :
    ∃ res, reverseRA (P ++ R ++ S) P.length (P.length + R.length) = .ok res := by
  ok_from (C06.Props.reverseRA_eq P R S)

theorem alg_reverseBidi_no_oob (P R S : List α) :
    ∃ res, reverseBidi (P ++ R ++ S) P.length (P.length + R.length) = .ok res := by
  ok_from (C06.Props.reverseBidi_eq P R S)

theorem alg_lowerBound_no_oob (lt : α → α → Bool) (v : α) (P R S : List α) (hp : Spec.isPartitioned (fun x => lt x v) R = true) :
    ∃ res, lowerBound lt v (P ++ R ++ S) P.length (P.length + R.length) = .ok res := by
  ok_from (C06.Props.lowerBound_eq lt v P R S hp)

theorem alg_upperBound_no_oob (lt : α → α → Bool) (v : α) (P R S : List α) (hp : Spec.isPartitioned (fun x => !lt v x) R = true) :
    ∃ res, upperBound lt v (P ++ R ++ S) P.length (P.length + R.length) = .ok res := by
  ok_from (C06.Props.upperBound_eq lt v P R S hp)

theorem alg_equalRange_no_oob (lt : α → α → Bool) (v : α) (P R S : List α) (hp1 : Spec.isPartitioned (fun x => lt x v) R = true) (hp2 : Spec.isPartitioned (fun x => !lt v x) R = true) :
    ∃ res, equalRange lt v (P ++ R ++ S) P.length (P.length + R.length) = .ok res := by
  ok_from (C06.Props.equalRange_eq lt v P R S hp1 hp2)

theorem alg_mismatch3_no_oob (pred : α → α → Bool) (P R S Q T U : List α) (h : R.length ≤ T.length) :
    ∃ res, mismatch3 pred (P ++ R ++ S) P.length (P.length + R.length) (Q ++ T ++ U) Q.length (Q.length + T.length) = .ok res := by
  ok_from (C06.Props.mismatch3_eq pred P R S Q T U h)

theorem alg_mismatch4_no_oob (pred : α → α → Bool) (P R S Q T U : List α) :
    ∃ res, mismatch4 pred (P ++ R ++ S) P.length (P.length + R.length) (Q ++ T ++ U) Q.length (Q.length + T.length) = .ok res := by
  ok_from (C06.Props.mismatch4_eq pred P R S Q T U)

theorem alg_equal3_no_oob (pred : α → α → Bool) (P R S Q T U : List α) (h : R.length ≤ T.length) :
    ∃ res, equal3 pred (P ++ R ++ S) P.length (P.length + R.length) (Q ++ T ++ U) Q.length (Q.length + T.length) = .ok res := by
  ok_from (C06.Props.equal3_eq pred P R S Q T U h)

theorem alg_equal4RA_no_oob (pred : α → α → Bool) (P R S Q T U : List α) :
    ∃ res, equal4RA pred (P ++ R ++ S) P.length (P.length + R.length) (Q ++ T ++ U) Q.length (Q.length + T.length) = .ok res := by
  ok_from (C06.Props.equal4RA_eq pred P R S Q T U)

theorem alg_equal4Fwd_no_oob (pred : α → α → Bool) (P R S Q T U : List α) :
    ∃ res, equal4Fwd pred (P ++ R ++ S) P.length (P.length + R.length) (Q ++ T ++ U) Q.length (Q.length + T.length) = .ok res := by
  ok_from (C06.Props.equal4Fwd_eq pred P R S Q T U)

theorem alg_lexicographicalCompare_no_oob (lt : α → α → Bool) (P R S Q T U : List α) :
    ∃ res, lexicographicalCompare lt (P ++ R ++ S) P.length (P.length + R.length) (Q ++ T ++ U) Q.length (Q.length + T.length) = .ok res := by
  ok_from (C06.Props.lexicographicalCompare_eq lt P R S Q T U)

theorem alg_accumulate_no_oob {β : Type} (op : β → α → β) (init : β) (P R S : List α) :
    ∃ res, accumulate op init (P ++ R ++ S) P.length (P.length + R.length) = .ok res := by
  ok_from (C06.Props.accumulate_eq op init P R S)

theorem alg_reduce_no_oob {β : Type} (op : β → α → β) (init : β) (P R S : List α) :
    ∃ res, reduce op init (P ++ R ++ S) P.length (P.length + R.length) = .ok res := by
  ok_from (C06.Props.reduce_eq op init P R S)

theorem alg_transformReduce1_no_oob {β : Type} (red : β → β → β) (tr : α → β) (init : β) (P R S : List α) :
    ∃ res, transformReduce1 red tr init (P ++ R ++ S) P.length (P.length + R.length) = .ok res := by
  ok_from (C06.Props.transformReduce1_eq red tr init P R S)

theorem alg_removeIf_no_oob (p : α → Bool) (P R S : List α) :
    ∃ res, removeIf p (P ++ R ++ S) P.length (P.length + R.length) = .ok res := by
  ok_from (C06.Props.removeIf_eq p P R S)

theorem alg_remove_no_oob (eq : α → α → Bool) (v : α) (P R S : List α) :
    ∃ res, remove eq v (P ++ R ++ S) P.length (P.length + R.length) = .ok res := by
  ok_from (C06.Props.remove_eq eq v P R S)

theorem alg_fill_no_oob (v : α) (P R S : List α) :
    ∃ res, fill (P ++ R ++ S) P.length (P.length + R.length) v = .ok res := by
  ok_from (C06.Props.fill_eq v P R S)

theorem alg_fillN_no_oob (v : α) (P R S : List α) (n : Int) (hn : n.toNat ≤ R.length) :
    ∃ res, fillN (P ++ R ++ S) P.length (P.length + R.length) n v = .ok res := by
  ok_from (C06.Props.fillN_eq v P R S n hn)

theorem alg_generate_no_oob (g : Nat → α) (P R S : List α) :
    ∃ res, generate (P ++ R ++ S) P.length (P.length + R.length) g = .ok res := by
  ok_from (C06.Props.generate_eq g P R S)

theorem alg_generateN_no_oob (g : Nat → α) (P R S : List α) (n : Int) (hn : n.toNat ≤ R.length) :
    ∃ res, generateN (P ++ R ++ S) P.length (P.length + R.length) n g = .ok res := by
  ok_from (C06.Props.generateN_eq g P R S n hn)

theorem alg_iota_no_oob (P R S : List Int) (v : Int) :
    ∃ res, iota (P ++ R ++ S) P.length (P.length + R.length) v = .ok res := by
  ok_from (C06.Props.iota_eq P R S v)

theorem alg_replaceIf_no_oob (p : α → Bool) (w : α) (P R S : List α) :
    ∃ res, replaceIf p w (P ++ R ++ S) P.length (P.length + R.length) = .ok res := by
  ok_from (C06.Props.replaceIf_eq p w P R S)

theorem alg_replace_no_oob (eq : α → α → Bool) (v w : α) (P R S : List α) :
    ∃ res, replace eq v w (P ++ R ++ S) P.length (P.length + R.length) = .ok res := by
  ok_from (C06.Props.replace_eq eq v w P R S)

theorem alg_swapRanges_no_oob (P R S Q T U : List α) (h : R.length = T.length) :
    ∃ res, swapRanges (P ++ R ++ S) P.length (P.length + R.length) (Q ++ T ++ U) Q.length (Q.length + T.length) = .ok res := by
  ok_from (C06.Props.swapRanges_eq P R S Q T U h)

theorem alg_merge_no_oob (lt : α → α → Bool) (P R S Q T U : List α) :
    ∃ res, merge lt (P ++ R ++ S) P.length (P.length + R.length) (Q ++ T ++ U) Q.length (Q.length + T.length) = .ok res := by
  ok_from (C06.Props.merge_eq lt P R S Q T U)

theorem alg_stablePartition_no_oob (p : α → Bool) (P R S : List α) :
    ∃ res, stablePartition p (P ++ R ++ S) P.length (P.length + R.length) = .ok res := by
  ok_from (C06.Props.stablePartition_eq p P R S)

theorem alg_innerProduct_no_oob {β : Type} (op1 : β → β → β) (op2 : α → α → β) (init : β) (P R S Q T U : List α) (h : R.length ≤ T.length) :
    ∃ res, innerProduct op1 op2 init (P ++ R ++ S) P.length (P.length + R.length) (Q ++ T ++ U) Q.length (Q.length + T.length) = .ok res := by
  ok_from (C06.Props.innerProduct_eq op1 op2 init P R S Q T U h)

theorem alg_transformReduce2_no_oob {β : Type} (op1 : β → β → β) (op2 : α → α → β) (init : β) (P R S Q T U : List α) (h : R.length ≤ T.length) :
    ∃ res, transformReduce2 op1 op2 init (P ++ R ++ S) P.length (P.length + R.length) (Q ++ T ++ U) Q.length (Q.length + T.length) = .ok res := by
  ok_from (C06.Props.transformReduce2_eq op1 op2 init P R S Q T U h)

theorem alg_adjacentDifference_no_oob (op : α → α → α) (P R S : List α) :
    ∃ res, adjacentDifference op (P ++ R ++ S) P.length (P.length + R.length) = .ok res := by
  ok_from (C06.Props.adjacentDifference_eq op P R S)

theorem alg_copy_no_oob (a : List α) (f l d : Nat) (hfl : f ≤ l) (hl : l ≤ a.length) (hd : d + (l - f) ≤ a.length) (hov : d ≤ f ∨ l ≤ d) :
    ∃ res, copy a f l d = .ok res := by
  ok_from (C06.Props.copy_eq a f l d hfl hl hd hov)

theorem alg_copyBackward_no_oob (a : List α) (f l dLast : Nat) (hfl : f ≤ l) (hl : l ≤ a.length) (hk : l - f ≤ dLast) (hd : dLast ≤ a.length) (hov : dLast ≤ f ∨ l ≤ dLast) :
    ∃ res, copyBackward a f l dLast = .ok res := by
  ok_from (C06.Props.copyBackward_eq a f l dLast hfl hl hk hd hov)

theorem alg_shiftLeftRA_no_oob (P R S : List α) (n : Int) :
    ∃ res, shiftLeftRA (P ++ R ++ S) P.length (P.length + R.length) n = .ok res := by
  ok_from (C06.Props.shiftLeftRA_eq P R S n)

theorem alg_shiftLeftFwd_no_oob (P R S : List α) (n : Int) :
    ∃ res, shiftLeftFwd (P ++ R ++ S) P.length (P.length + R.length) n = .ok res := by
  ok_from (C06.Props.shiftLeftFwd_eq P R S n)

theorem alg_shiftRight_no_oob (dflt : α) (P R S : List α) (n : Int) :
    ∃ res, shiftRight dflt (P ++ R ++ S) P.length (P.length + R.length) n = .ok res := by
  ok_from (C06.Props.shiftRight_eq dflt P R S n)

theorem alg_uniqueCopy_no_oob (pred : α → α → Bool) (P R S : List α) :
    ∃ res, uniqueCopy pred (P ++ R ++ S) P.length (P.length + R.length) = .ok res := by
  ok_from (C06.Props.uniqueCopy_eq pred P R S)

theorem alg_unique_no_oob (pred : α → α → Bool) (P R S : List α) :
    ∃ res, unique pred (P ++ R ++ S) P.length (P.length + R.length) = .ok res := by
  ok_from (C06.Props.unique_eq pred P R S)

theorem alg_adjacentFind_no_oob (pred : α → α → Bool) (P R S : List α) :
    ∃ res, adjacentFind pred (P ++ R ++ S) P.length (P.length + R.length) = .ok res := by
  ok_from (C06.Props.adjacentFind_eq pred P R S)

theorem alg_isSortedUntil_no_oob (lt : α → α → Bool) (P R S : List α) :
    ∃ res, isSortedUntil lt (P ++ R ++ S) P.length (P.length + R.length) = .ok res := by
  ok_from (C06.Props.isSortedUntil_eq lt P R S)

theorem alg_isSorted_no_oob (lt : α → α → Bool) (P R S : List α) :
    ∃ res, isSorted lt (P ++ R ++ S) P.length (P.length + R.length) = .ok res := by
  ok_from (C06.Props.isSorted_eq lt P R S)

theorem alg_partition_no_oob (p : α → Bool) (P R S : List α) :
    ∃ res, partition p (P ++ R ++ S) P.length (P.length + R.length) = .ok res := by
  ok_from (C06.Props.partition_eq p P R S)

theorem alg_transform2_no_oob (op : α → α → α) (P R S Q T U : List α) (h : R.length ≤ T.length) :
    ∃ res, transform2 op (P ++ R ++ S) P.length (P.length + R.length) (Q ++ T ++ U) Q.length (Q.length + T.length) = .ok res := by
  ok_from (C06.Props.transform2_eq op P R S Q T U h)

theorem alg_binarySearch_no_oob (lt : α → α → Bool) (v : α) (P R S : List α) (hp1 : Spec.isPartitioned (fun x => lt x v) R = true) (hp2 : Spec.isPartitioned (fun x => !lt v x) R = true) :
    ∃ res, binarySearch lt v (P ++ R ++ S) P.length (P.length + R.length) = .ok res := by
  ok_from (C06.Props.binarySearch_eq lt v P R S hp1 hp2)

theorem alg_partialSum_no_oob (op : α → α → α) (P R S : List α) :
    ∃ res, partialSum op (P ++ R ++ S) P.length (P.length + R.length) = .ok res := by
  ok_from (C06.Props.partialSum_eq op P R S)

theorem alg_search_no_oob (pred : α → α → Bool) (P R S s : List α) :
    ∃ res, search pred (P ++ R ++ S) P.length (P.length + R.length) s = .ok res := by
  ok_from (C06.Props.search_eq pred P R S s)

theorem alg_findEnd_no_oob (pred : α → α → Bool) (P R S s : List α) :
    ∃ res, findEnd pred (P ++ R ++ S) P.length (P.length + R.length) s = .ok res := by
  ok_from (C06.Props.findEnd_eq pred P R S s)

theorem alg_searchN_no_oob (pred : α → α → Bool) (P R S : List α) (count : Int) (v : α) :
    ∃ res, searchN pred (P ++ R ++ S) P.length (P.length + R.length) count v = .ok res := by
  ok_from (C06.Props.searchN_eq pred P R S count v)

theorem alg_gnomeSort_no_oob (lt : α → α → Bool) (hlt : StrictWeak lt) (P R S : List α) :
    ∃ res, gnomeSort lt (P ++ R ++ S) P.length (P.length + R.length) = .ok res := by
  ok_from (C06.Props.gnomeSort_eq lt hlt P R S)

theorem alg_sort_no_oob (lt : α → α → Bool) (hlt : StrictWeak lt) (P R S : List α) :
    ∃ res, sort lt (P ++ R ++ S) P.length (P.length + R.length) = .ok res := by
  ok_from (C06.Props.sort_eq lt hlt P R S)

theorem alg_nthElement_no_oob (lt : α → α → Bool) (hlt : StrictWeak lt) (P R S : List α) (nth : Nat) :
    ∃ res, nthElement lt (P ++ R ++ S) P.length nth (P.length + R.length) = .ok res := by
  ok_from (C06.Props.nthElement_eq lt hlt P R S nth)

theorem alg_partialSort_no_oob (lt : α → α → Bool) (hlt : StrictWeak lt) (P R S : List α) (mid : Nat) :
    ∃ res, partialSort lt (P ++ R ++ S) P.length mid (P.length + R.length) = .ok res := by
  ok_from (C06.Props.partialSort_eq lt hlt P R S mid)

theorem alg_bubbleSort_no_oob (lt : α → α → Bool) (hlt : StrictWeak lt) (P R S : List α) :
    ∃ res, bubbleSort lt (P ++ R ++ S) P.length (P.length + R.length) = .ok res := by
  ok_from (C06.Props.bubbleSort_eq lt hlt P R S)

theorem alg_exchangeSort_no_oob (lt : α → α → Bool) (hlt : StrictWeak lt) (P R S : List α) :
    ∃ res, exchangeSort lt (P ++ R ++ S) P.length (P.length + R.length) = .ok res := by
  ok_from (C06.Props.exchangeSort_eq lt hlt P R S)

theorem alg_insertionSort_no_oob (lt : α → α → Bool) (hlt : StrictWeak lt) (P R S : List α) :
    ∃ res, insertionSort lt (P ++ R ++ S) P.length (P.length + R.length) = .ok res := by
  ok_from (C06.Props.insertionSort_eq lt hlt P R S)

theorem alg_stableSort_no_oob (lt : α → α → Bool) (hlt : StrictWeak lt) (P R S : List α) :
    ∃ res, stableSort lt (P ++ R ++ S) P.length (P.length + R.length) = .ok res := by
  ok_from (C06.Props.stableSort_eq lt hlt P R S)

theorem alg_minElement_no_oob (lt : α → α → Bool) (hlt : StrictWeak lt) (P R S : List α) :
    ∃ res, minElement lt (P ++ R ++ S) P.length (P.length + R.length) = .ok res := by
  ok_from (C06.Props.minElement_eq lt hlt P R S)

theorem alg_maxElement_no_oob (lt : α → α → Bool) (hlt : StrictWeak lt) (P R S : List α) :
    ∃ res, maxElement lt (P ++ R ++ S) P.length (P.length + R.length) = .ok res := by
  ok_from (C06.Props.maxElement_eq lt hlt P R S)

theorem alg_minmaxElement_no_oob (lt : α → α → Bool) (hlt : StrictWeak lt) (P R S : List α) :
    ∃ res, minmaxElement lt (P ++ R ++ S) P.length (P.length + R.length) = .ok res := by
  ok_from (C06.Props.minmaxElement_eq lt hlt P R S)

theorem alg_setDifference_no_oob (lt : α → α → Bool) (hlt : StrictWeak lt) (P R S Q T U : List α) (hR : Sorted lt R) (hT : Sorted lt T) :
    ∃ res, setDifference lt (P ++ R ++ S) P.length (P.length + R.length) (Q ++ T ++ U) Q.length (Q.length + T.length) = .ok res := by
  ok_from (C06.Props.setDifference_eq lt hlt P R S Q T U hR hT)

theorem alg_setIntersection_no_oob (lt : α → α → Bool) (hlt : StrictWeak lt) (P R S Q T U : List α) (hR : Sorted lt R) (hT : Sorted lt T) :
    ∃ res, setIntersection lt (P ++ R ++ S) P.length (P.length + R.length) (Q ++ T ++ U) Q.length (Q.length + T.length) = .ok res := by
  ok_from (C06.Props.setIntersection_eq lt hlt P R S Q T U hR hT)

theorem alg_setSymmetricDifference_no_oob (lt : α → α → Bool) (hlt : StrictWeak lt) (P R S Q T U : List α) (hR : Sorted lt R) (hT : Sorted lt T) :
    ∃ res, setSymmetricDifference lt (P ++ R ++ S) P.length (P.length + R.length) (Q ++ T ++ U) Q.length (Q.length + T.length) = .ok res := by
  ok_from (C06.Props.setSymmetricDifference_eq lt hlt P R S Q T U hR hT)

theorem alg_setUnion_no_oob (lt : α → α → Bool) (hlt : StrictWeak lt) (P R S Q T U : List α) (hR : Sorted lt R) (hT : Sorted lt T) :
    ∃ res, setUnion lt (P ++ R ++ S) P.length (P.length + R.length) (Q ++ T ++ U) Q.length (Q.length + T.length) = .ok res := by
  ok_from (C06.Props.setUnion_eq lt hlt P R S Q T U hR hT)

theorem alg_includes_no_oob (lt : α → α → Bool) (hlt : StrictWeak lt) (P R S Q T U : List α) (hR : Sorted lt R) (hT : Sorted lt T) :
    ∃ res, includes lt (P ++ R ++ S) P.length (P.length + R.length) (Q ++ T ++ U) Q.length (Q.length + T.length) = .ok res := by
  ok_from (C06.Props.includes_eq lt hlt P R S Q T U hR hT)

theorem alg_isPermutation4_no_oob (eq : α → α → Bool) (heq : EquivB eq) (P R S Q T U : List α) :
    ∃ res, isPermutation4 eq (P ++ R ++ S) P.length (P.length + R.length) (Q ++ T ++ U) Q.length (Q.length + T.length) = .ok res := by
  ok_from (C06.Props.isPermutation4_eq eq heq P R S Q T U)

theorem alg_isPermutation3_no_oob (eq : α → α → Bool) (heq : EquivB eq) (P R S Q T U : List α) (h : R.length ≤ T.length) :
    ∃ res, isPermutation3 eq (P ++ R ++ S) P.length (P.length + R.length) (Q ++ T ++ U) Q.length (Q.length + T.length) = .ok res := by
  ok_from (C06.Props.isPermutation3_eq eq heq P R S Q T U h)

theorem alg_inplaceMerge_no_oob (lt : α → α → Bool) (P A B S : List α) (hB : Sorted lt B) :
    ∃ res, inplaceMerge lt (P ++ (A ++ B) ++ S) P.length (P.length + A.length) (P.length + (A ++ B).length) = .ok res := by
  ok_from (C06.Props.inplaceMerge_eq lt P A B S hB)

theorem alg_inplaceMerge_stable_no_oob (lt : α → α → Bool) (hlt : StrictWeak lt) (P A B S : List α) (hA : Sorted lt A) (hB : Sorted lt B) :
    ∃ res, inplaceMerge lt (P ++ (A ++ B) ++ S) P.length (P.length + A.length) (P.length + (A ++ B).length) = .ok res := by
  ok_from (C06.Props.inplaceMerge_stable lt hlt P A B S hA hB)

theorem alg_mergeSort_no_oob (lt : α → α → Bool) (hlt : StrictWeak lt) (P R S : List α) :
    ∃ res, mergeSort lt (P ++ R ++ S) P.length (P.length + R.length) = .ok res := by
  ok_from (C06.Props.mergeSort_eq lt hlt P R S)


end algorithms

/-! ## 4. Character conversion -/

/-! ### to_chars / from_chars / from_integer / to_integer (model Tetl.C10) -/
section charconv
open Tetl.C10

theorem charconv_fromInteger_no_oob (t : IntTy) (term : Bool) (v : Int) (buf : List Nat) (b : Nat) (hb : 2 ≤ b ∧ b ≤ 36) (hv : t.inRange v = true) :
    ∃ res, fromInteger t term v buf b = .ok res := by
  ok_from (C10.Props.fromInteger_eq t term v buf b hb hv)

theorem charconv_toChars_no_oob (t : IntTy) (v : Int) (buf : List Nat) (b : Nat) (hb : 2 ≤ b ∧ b ≤ 36) (hv : t.inRange v = true) :
    ∃ res, toChars t v buf b = .ok res := by
  ok_from (C10.Props.toChars_eq t v buf b hb hv)

theorem charconv_toStr_no_oob (t : IntTy) (cap : Nat) (v : Int) (hv : t.inRange v = true) (hcap : (Spec.render v 10).length < cap) :
    ∃ res, toStr t cap v = .ok res := by
  ok_from (C10.Props.toStr_eq t cap v hv hcap)

theorem charconv_toInteger_no_oob (t : IntTy) (h8 : 8 ≤ t.bits) (ws : Bool) (s : List Nat) (hbytes : ∀ c ∈ s, c < 256) (b : Nat) (hb : 2 ≤ b ∧ b ≤ 36) :
    ∃ res, toInteger t ws s b = .ok res := by
  ok_from (C10.Props.toInteger_eq t h8 ws s hbytes b hb)

theorem charconv_overflow_no_oob (t : IntTy) (h8 : 8 ≤ t.bits) (ws : Bool) (s : List Nat) (hbytes : ∀ c ∈ s, c < 256) (b : Nat) (hb : 2 ≤ b ∧ b ≤ 36) :
    ∃ res, toInteger t ws s b = .ok res := by
  ok_from (C10.Props.overflow_exact t h8 ws s hbytes b hb)

theorem charconv_fromChars_range_no_oob (t : IntTy) (h8 : 8 ≤ t.bits) (s : List Nat) (hbytes : ∀ c ∈ s, c < 256) (b : Nat) (hb : 2 ≤ b ∧ b ≤ 36) (n : Nat) (h : Spec.parse t false s b = .range n) :
    ∃ res, fromChars t s b = .ok res := by
  ok_from (C10.Props.fromChars_range t h8 s hbytes b hb n h)

theorem charconv_round_trip_no_oob (t : IntTy) (h8 : 8 ≤ t.bits) (v : Int) (hv : t.inRange v = true) (b : Nat) (hb : 2 ≤ b ∧ b ≤ 36) (buf : List Nat) (hfit : (Spec.render v b).length ≤ buf.length) :
    ∃ res, toChars t v buf b = .ok res := by
  ok_from (C10.Props.round_trip t h8 v hv b hb buf hfit)


/-- `from_chars` on **every** byte string (empty, unterminated, overflowing, invalid): no read outside `[first, last)` -/
theorem charconv_fromChars_no_oob (t : IntTy) (h8 : 8 ≤ t.bits) (s : List Nat) (hbytes : ∀ c ∈ s, c < 256) (b : Nat)
    (hb : 2 ≤ b ∧ b ≤ 36) : ∃ res, fromChars t s b = .ok res := by
  by_cases h : ∃ n, Spec.parse t false s b = .range n
  · obtain ⟨n, hn⟩ := h; exact ⟨_, C10.Props.fromChars_range t h8 s hbytes b hb n hn⟩
  · exact ⟨_, C10.Props.fromChars_eq_partial t h8 s hbytes b hb (fun n hn => h ⟨n, hn⟩)⟩

/-- `strtol` family: proved only outside the input classes of C10's known findings (leading `+`, base prefix,
    `-` on unsigned, out-of-range text); inside them the correspondence run is the only evidence -/
theorem charconv_strto_no_oob_partial (t : IntTy) (h8 : 8 ≤ t.bits) (s : List Nat) (hbytes : ∀ c ∈ s, c < 256) (b : Nat)
    (hb : 2 ≤ b ∧ b ≤ 36) (h1 : Spec.plusSign s = false) (h2 : Spec.basePrefix s b = false)
    (h3 : Spec.unsignedMinus t s = false) (h4 : (Spec.strto t s b).erange = false) :
    ∃ res, strto t s b = .ok res := ⟨_, C10.Props.strto_eq_partial t h8 s hbytes b hb h1 h2 h3 h4⟩
theorem charconv_ato_no_oob_partial (t : IntTy) (h8 : 8 ≤ t.bits) (s : List Nat) (hbytes : ∀ c ∈ s, c < 256)
    (h1 : Spec.plusSign (cstrOf s) = false) (h3 : Spec.unsignedMinus t (cstrOf s) = false)
    (h4 : (Spec.strto t (cstrOf s) 10).erange = false) : ∃ res, ato t s = .ok res :=
  ⟨_, C10.Props.ato_eq_partial t h8 s hbytes h1 h3 h4⟩

-- boundary cases C02 names: zero-length and exact-fit output buffers, the most negative value in base 2
example : ∃ res, toChars ⟨8, true⟩ (-128) [] 2 = .ok res := charconv_toChars_no_oob _ _ _ _ (by decide) (by decide)
example : ∃ res, toChars ⟨8, true⟩ (-128) (List.replicate 9 0) 2 = .ok res :=
  charconv_toChars_no_oob _ _ _ _ (by decide) (by decide)
example : ∃ res, fromChars ⟨64, true⟩ [] 10 = .ok res := charconv_fromChars_no_oob _ (by decide) _ (by simp) _ (by decide)

end charconv

/-! ## 5. C-string functions -/

/-! ### cstring / cwchar reimplementations (model Tetl.C18) -/
section cstrings
open Tetl.C18

theorem cstr_strlen_no_oob (b : Buf) (p : Nat) (h : Spec.Terminated b p) :
    ∃ res, strlen b p = .ok res := by
  ok_from (C18.Props.strlen_eq b p h)

theorem cstr_strcpy_no_oob (dst : Buf) (d : Nat) (src : Buf) (s : Nat) (hs : Spec.Terminated src s) (hroom : d + (Spec.strlen src s + 1) ≤ dst.length) :
    ∃ res, strcpy dst d src s = .ok res := by
  ok_from (C18.Props.strcpy_eq dst d src s hs hroom)

theorem cstr_strncpy_no_oob (dst : Buf) (d : Nat) (src : Buf) (s n : Nat) (hs : Spec.ReadableN src s n) (hroom : d + n ≤ dst.length) :
    ∃ res, strncpy dst d src s n = .ok res := by
  ok_from (C18.Props.strncpy_eq dst d src s n hs hroom)

theorem cstr_memcpy_no_oob (dst : Buf) (d : Nat) (src : Buf) (s n : Nat) (hs : s + n ≤ src.length) (hroom : d + n ≤ dst.length) :
    ∃ res, memcpy dst d src s n = .ok res := by
  ok_from (C18.Props.memcpy_eq dst d src s n hs hroom)

theorem cstr_memset_no_oob (ct : CT) (dst : Buf) (d : Nat) (ch : Int) (n : Nat) (hroom : d + n ≤ dst.length) :
    ∃ res, memset ct dst d ch n = .ok res := by
  ok_from (C18.Props.memset_eq ct dst d ch n hroom)

theorem cstr_strcat_no_oob (dst : Buf) (d : Nat) (src : Buf) (s : Nat) (hd : Spec.Terminated dst d) (hs : Spec.Terminated src s) (hroom : d + Spec.strlen dst d + (Spec.strlen src s + 1) ≤ dst.length) :
    ∃ res, strcat dst d src s = .ok res := by
  ok_from (C18.Props.strcat_eq dst d src s hd hs hroom)

theorem cstr_strncat_no_oob (dst : Buf) (d : Nat) (src : Buf) (s n : Nat) (hd : Spec.Terminated dst d) (hs : Spec.ReadableN src s n) (hroom : d + Spec.strlen dst d + ((Spec.cstrN src s n).length + 1) ≤ dst.length) :
    ∃ res, strncat dst d src s n = .ok res := by
  ok_from (C18.Props.strncat_eq dst d src s n hd hs hroom)

theorem cstr_memmove_no_oob (b : Buf) (d s n : Nat) (hs : s + n ≤ b.length) (hd : d + n ≤ b.length) :
    ∃ res, memmove b d s n = .ok res := by
  ok_from (C18.Props.memmove_eq b d s n hs hd)

theorem cstr_strcmp_no_oob (ct : CT) (hb : 0 < ct.bits) (a : Buf) (i : Nat) (b : Buf) (j : Nat) (ha : Spec.Terminated a i) (hbt : Spec.Terminated b j) (hua : Spec.Units ct.bits a) (hub : Spec.Units ct.bits b) :
    ∃ res, strcmp ct a i b j = .ok res := by
  ok_from (C18.Props.strcmp_eq ct hb a i b j ha hbt hua hub)

theorem cstr_strncmp_no_oob (ct : CT) (hb : 0 < ct.bits) (a : Buf) (i : Nat) (b : Buf) (j n : Nat) (ha : Spec.ReadableN a i n) (hbt : Spec.ReadableN b j n) (hua : Spec.Units ct.bits a) (hub : Spec.Units ct.bits b) :
    ∃ res, strncmp ct a i b j n = .ok res := by
  ok_from (C18.Props.strncmp_eq ct hb a i b j n ha hbt hua hub)

theorem cstr_memcmp_no_oob (ct : CT) (hb : 0 < ct.bits) (a : Buf) (i : Nat) (b : Buf) (j n : Nat) (ha : i + n ≤ a.length) (hbt : j + n ≤ b.length) (hua : Spec.Units ct.bits a) (hub : Spec.Units ct.bits b) :
    ∃ res, memcmp ct a i b j n = .ok res := by
  ok_from (C18.Props.memcmp_eq ct hb a i b j n ha hbt hua hub)

theorem cstr_memchr_no_oob (ct : CT) (b : Buf) (p : Nat) (ch : Int) (n : Nat) (h : p + n ≤ b.length ∨ Spec.toUnit ct.bits ch ∈ b.drop p) :
    ∃ res, memchr ct b p ch n = .ok res := by
  ok_from (C18.Props.memchr_eq ct b p ch n h)

theorem cstr_strchr_no_oob (ct : CT) (b : Buf) (p : Nat) (ch : Int) (h : Spec.Terminated b p) :
    ∃ res, strchr ct b p ch = .ok res := by
  ok_from (C18.Props.strchr_eq ct b p ch h)

theorem cstr_strrchr_no_oob (ct : CT) (b : Buf) (p : Nat) (ch : Int) (h : Spec.Terminated b p) :
    ∃ res, strrchr ct b p ch = .ok res := by
  ok_from (C18.Props.strrchr_eq ct b p ch h)

theorem cstr_strspn_no_oob (b : Buf) (p : Nat) (t : Buf) (q : Nat) (hb : Spec.Terminated b p) (ht : Spec.Terminated t q) :
    ∃ res, strspn true b p t q = .ok res := by
  ok_from (C18.Props.strspn_eq b p t q hb ht)

theorem cstr_strcspn_no_oob (b : Buf) (p : Nat) (t : Buf) (q : Nat) (hb : Spec.Terminated b p) (ht : Spec.Terminated t q) :
    ∃ res, strspn false b p t q = .ok res := by
  ok_from (C18.Props.strcspn_eq b p t q hb ht)

theorem cstr_strpbrk_no_oob (b : Buf) (p : Nat) (t : Buf) (q : Nat) (hb : Spec.Terminated b p) (ht : Spec.Terminated t q) :
    ∃ res, strpbrk b p t q = .ok res := by
  ok_from (C18.Props.strpbrk_eq b p t q hb ht)

theorem cstr_strstr_no_oob (h : Buf) (p : Nat) (n : Buf) (q : Nat) (hh : Spec.Terminated h p) (hn : Spec.Terminated n q) :
    ∃ res, strstr h p n q = .ok res := by
  ok_from (C18.Props.strstr_eq h p n q hh hn)

theorem cstr_strlen_footprint_no_oob (b : Buf) (p : Nat) (h : Spec.Terminated b p) :
    ∃ res, strlen (b.take (p + Spec.strlen b p + 1)) p = .ok res := by
  ok_from (C18.Props.strlen_footprint b p h)


end cstrings

/-! ## 6. Bit and numeric helpers -/

/-! ### bit / integer utilities (model Tetl.C14): no invalid shift, no signed overflow, no division by zero -/
section bitsnum
open Tetl.C14

theorem num_popcountFallback_no_ub (w val : Nat) (hv : val < 2^w) :
    ∃ res, popcountFallback w val = .ok res := by
  ok_from (C14.Props.popcountFallback_eq w val hv)

theorem num_popcount_no_ub (w val : Nat) (hv : val < 2^w) :
    ∃ res, popcount w val = .ok res := by
  ok_from (C14.Props.popcount_eq w val hv)

theorem num_countlZero_no_ub (w x : Nat) (hw : 1 ≤ w) (hx : x < 2^w) :
    ∃ res, countlZero w x = .ok res := by
  ok_from (C14.Props.countlZero_eq w x hw hx)

theorem num_bitWidth_no_ub (w x : Nat) (hw : 1 ≤ w) (hx : x < 2^w) :
    ∃ res, bitWidth w x = .ok res := by
  ok_from (C14.Props.bitWidth_eq w x hw hx)

theorem num_bitFloor_no_ub (w x : Nat) (hw : 1 ≤ w) (hx : x < 2^w) :
    ∃ res, bitFloor w x = .ok res := by
  ok_from (C14.Props.bitFloor_eq w x hw hx)

theorem num_bitCeil_no_ub (w x : Nat) (hw : 1 ≤ w) (hx : x ≤ 2^(w-1)) :
    ∃ res, bitCeil w x = .ok res := by
  ok_from (C14.Props.bitCeil_eq w x hw hx)

theorem num_addSat_no_ub (t : ITy) (hw : 1 ≤ t.w) (x y : Int) (hx : t.inR x = true) (hy : t.inR y = true) :
    ∃ res, addSat t x y = .ok res := by
  ok_from (C14.Props.addSat_eq t hw x y hx hy)

theorem num_addSatFallback_no_ub (t : ITy) (hw : 1 ≤ t.w) (x y : Int) (hx : t.inR x = true) (hy : t.inR y = true) :
    ∃ res, addSatFallback t x y = .ok res := by
  ok_from (C14.Props.addSatFallback_eq t hw x y hx hy)

theorem num_rotl_no_ub (w t : Nat) (s : Int) (hw : 0 < w) (hdvd : (w : Int) ∣ 2^32) (ht : t < 2^w) :
    ∃ res, rotl w t s = .ok res := by
  ok_from (C14.Props.rotl_eq w t s hw hdvd ht)

theorem num_rotr_no_ub (w t : Nat) (s : Int) (hw : 0 < w) (hdvd : (w : Int) ∣ 2^32) (ht : t < 2^w) :
    ∃ res, rotr w t s = .ok res := by
  ok_from (C14.Props.rotr_eq w t s hw hdvd ht)

theorem num_midpoint_no_ub (t : ITy) (hw : 1 ≤ t.w) (hstd : t.w ≤ 16 ∨ 32 ≤ t.w) (a b : Int) (ha : t.inR a = true) (hb : t.inR b = true) :
    ∃ res, midpoint t a b = .ok res := by
  ok_from (C14.Props.midpoint_eq t hw hstd a b ha hb)

theorem num_saturateCast_no_ub (To From : ITy) (hTo : 1 ≤ To.w) (hFrom : 1 ≤ From.w) (x : Int) (hx : From.inR x = true) :
    ∃ res, saturateCast To From x = .ok res := by
  ok_from (C14.Props.saturateCast_eq To From hTo hFrom x hx)

theorem num_testBit_no_ub (w word pos : Nat) (hw31 : w < 2^31) (hpos : pos < w) :
    ∃ res, testBit w word pos = .ok res := by
  ok_from (C14.Props.testBit_eq w word pos hw31 hpos)

theorem num_ipow2_no_ub (t : ITy) (hw : 1 ≤ t.w) (e : Int) (he : 0 ≤ e) (hr : t.inR ((2:Int)^e.toNat) = true) :
    ∃ res, ipow2 t e = .ok res := by
  ok_from (C14.Props.ipow2_eq t hw e he hr)

theorem num_divSat_no_ub (t : ITy) (hw : 1 ≤ t.w) (x y : Int) (hx : t.inR x = true) (hy : t.inR y = true) (hy0 : y ≠ 0) :
    ∃ res, divSat t x y = .ok res := by
  ok_from (C14.Props.divSat_eq t hw x y hx hy hy0)

theorem num_idiv_no_ub (t : ITy) (hw : 1 ≤ t.w) (x y : Int) (hx : t.inR x = true) (hy : t.inR y = true) (hy0 : y ≠ 0) (hex : ¬ (t.sg = true ∧ x = t.min ∧ y = -1)) :
    ∃ res, idiv t x y = .ok res := by
  ok_from (C14.Props.idiv_eq t hw x y hx hy hy0 hex)

theorem num_gcd_no_ub (M N : ITy) (hM : 1 ≤ M.w) (hN : 1 ≤ N.w) (m n : Int) (hm : (m.natAbs : Int) ≤ (ITy.common M N).max) (hn : (n.natAbs : Int) ≤ (ITy.common M N).max) :
    ∃ res, gcd M N m n = .ok res := by
  ok_from (C14.Props.gcd_eq M N hM hN m n hm hn)

theorem num_lcm_no_ub (M N : ITy) (hM : 1 ≤ M.w) (hN : 1 ≤ N.w) (m n : Int) (hm : (m.natAbs : Int) ≤ (ITy.common M N).max) (hn : (n.natAbs : Int) ≤ (ITy.common M N).max) (hl : ((Int.lcm m n : Nat) : Int) ≤ (ITy.common M N).max) :
    ∃ res, lcm M N m n = .ok res := by
  ok_from (C14.Props.lcm_eq M N hM hN m n hm hn hl)

theorem num_absT_no_ub (t : ITy) (hw : 1 ≤ t.w) (x : Int) (hx : t.inR x = true) (hmin : t.sg = true → x ≠ t.min) :
    ∃ res, absT t x = .ok res := by
  ok_from (C14.Props.absT_eq t hw x hx hmin)

theorem num_absM_no_ub (t : ITy) (hw : 1 ≤ t.w) (hs : t.sg = true) (x : Int) (hx : t.inR x = true) (hmin : x ≠ t.min) :
    ∃ res, absM t x = .ok res := by
  ok_from (C14.Props.absM_eq t hw hs x hx hmin)

theorem num_ilog2_no_ub (t : ITy) (x : Int) :
    ∃ res, ilog2 t x = .ok res := by
  ok_from (C14.Props.ilog2_eq t x)

theorem num_countlOne_no_ub (w x : Nat) (hw : 1 ≤ w) (hx : x < 2^w) :
    ∃ res, countlOne w x = .ok res := by
  ok_from (C14.Props.countlOne_eq w x hw hx)

theorem num_countrZero_no_ub (w x : Nat) (hw31 : w < 2^31) :
    ∃ res, countrZero w x = .ok res := by
  ok_from (C14.Props.countrZero_eq w x hw31)

theorem num_countrOne_no_ub (w x : Nat) (hw31 : w < 2^31) :
    ∃ res, countrOne w x = .ok res := by
  ok_from (C14.Props.countrOne_eq w x hw31)

theorem num_hasSingleBit_no_ub (w x : Nat) (hx : x < 2^w) :
    ∃ res, hasSingleBit w x = .ok res := by
  ok_from (C14.Props.hasSingleBit_eq w x hx)

theorem num_setBit_no_ub (w word pos : Nat) (hw31 : w < 2^31) (hword : word < 2^w) (hpos : pos < w) :
    ∃ res, setBit w word pos = .ok res := by
  ok_from (C14.Props.setBit_eq w word pos hw31 hword hpos)

theorem num_resetBit_no_ub (w word pos : Nat) (hw31 : w < 2^31) (hword : word < 2^w) (hpos : pos < w) :
    ∃ res, resetBit w word pos = .ok res := by
  ok_from (C14.Props.resetBit_eq w word pos hw31 hword hpos)

theorem num_flipBit_no_ub (w word pos : Nat) (hw31 : w < 2^31) (hword : word < 2^w) (hpos : pos < w) :
    ∃ res, flipBit w word pos = .ok res := by
  ok_from (C14.Props.flipBit_eq w word pos hw31 hword hpos)

theorem num_setBitTo_no_ub (w word pos : Nat) (value : Bool) (hw31 : w < 2^31) (hword : word < 2^w) (hpos : pos < w) :
    ∃ res, setBitTo w word pos value = .ok res := by
  ok_from (C14.Props.setBitTo_eq w word pos value hw31 hword hpos)

theorem num_byteswapFallback_no_ub (w v : Nat) (hw : w = 16 ∨ w = 32 ∨ w = 64) (hv : v < 2^w) :
    ∃ res, byteswapFallback w v = .ok res := by
  ok_from (C14.Props.byteswapFallback_eq w v hw hv)

theorem num_byteswap_no_ub (t : ITy) (hw : t.w = 8 ∨ t.w = 16 ∨ t.w = 32 ∨ t.w = 64) (val : Int) (hval : t.inR val = true) :
    ∃ res, byteswap t val = .ok res := by
  ok_from (C14.Props.byteswap_eq t hw val hval)

theorem num_ntoh_no_ub (w v : Nat) (hw : w = 8 ∨ w = 16 ∨ w = 32) (hv : v < 2^w) :
    ∃ res, ntoh w v = .ok res := by
  ok_from (C14.Props.ntoh_eq w v hw hv)

theorem num_hton_no_ub (w v : Nat) (hw : w = 8 ∨ w = 16 ∨ w = 32) (hv : v < 2^w) :
    ∃ res, hton w v = .ok res := by
  ok_from (C14.Props.hton_eq w v hw hv)

theorem num_ipow_no_ub (t : ITy) (base e : Int) (h1 : t.inR 1 = true) (hb : t.inR base = true) (hr : t.inR (base ^ e.toNat) = true) :
    ∃ res, ipow t base e = .ok res := by
  ok_from (C14.Props.ipow_eq t base e h1 hb hr)


end bitsnum

/-! ### duration arithmetic (model Tetl.C12): no signed overflow in the representation type -/
section durations
open Tetl.C12 Tetl.C12.Props Tetl.C14

theorem duration_durationCast_no_ub (dst frm : DurTy) (hto : RepOk dst.rep) (hfrm : RepOk frm.rep) (hp : PerOk frm.per) (hq : PerOk dst.per) (hdiv : DivOk frm.per dst.per) (c : Int) (hc : frm.rep.inR c = true) (hmul : imax.inR (c * cfN frm.per dst.per) = true) (hres : dst.rep.inR (Spec.cast frm.per.toRat dst.per.toRat c) = true) :
    ∃ res, durationCast dst frm c = .ok res := by
  ok_from (C12.Props.durationCast_eq dst frm hto hfrm hp hq hdiv c hc hmul hres)

theorem duration_commonPeriod_no_ub (a b : DurTy) (hpa : PerOk a.per) (hpb : PerOk b.per) (hl : ((Int.lcm a.per.den b.per.den : Nat) : Int) ≤ imax.max) :
    ∃ res, commonTy a b = .ok res := by
  ok_from (C12.Props.commonPeriod_eq a b hpa hpb hl)

theorem duration_common_no_ub (a b : DurTy) (h : PairTyOk a b) (x y : Int) (hin : PairIn a b x y) :
    ∃ res, pairCtx a b = .ok res := by
  ok_from (C12.Props.common_exact a b h x y hin)

theorem duration_lt_no_ub (a b : DurTy) (h : PairTyOk a b) (x y : Int) (hin : PairIn a b x y) :
    ∃ res, lt a b x y = .ok res := by
  ok_from (C12.Props.lt_eq a b h x y hin)

theorem duration_eq_no_ub (a b : DurTy) (h : PairTyOk a b) (x y : Int) (hin : PairIn a b x y) :
    ∃ res, eq a b x y = .ok res := by
  ok_from (C12.Props.eq_eq a b h x y hin)

theorem duration_cmp_derived_no_ub (a b : DurTy) (h : PairTyOk a b) (h' : PairTyOk b a) (x y : Int) (hin : PairIn a b x y) (hin' : PairIn b a y x) :
    ∃ res, ne a b x y = .ok res := by
  ok_from (C12.Props.cmp_derived_eq a b h h' x y hin hin')

theorem duration_add_no_ub (a b : DurTy) (h : PairTyOk a b) (x y : Int) (hin : PairIn a b x y) (hsum : (cdTy a b).rep.inR (x * mulL a.per b.per + y * mulR a.per b.per) = true) :
    ∃ res, add a b x y = .ok res := by
  ok_from (C12.Props.add_exact a b h x y hin hsum)

theorem duration_sub_no_ub (a b : DurTy) (h : PairTyOk a b) (x y : Int) (hin : PairIn a b x y) (hdiff : (cdTy a b).rep.inR (x * mulL a.per b.per - y * mulR a.per b.per) = true) :
    ∃ res, sub a b x y = .ok res := by
  ok_from (C12.Props.sub_exact a b h x y hin hdiff)

theorem duration_floor_no_ub (dst frm : DurTy) (h : CastTyOk dst frm) (hp : PairTyOk frm dst) (c : Int) (hin : CastIn dst frm c) (hcmp : PairIn frm dst c (Spec.cast frm.per.toRat dst.per.toRat c)) (hstep : dst.rep.inR (Spec.cast frm.per.toRat dst.per.toRat c + -1) = true) :
    ∃ res, floorTo dst frm c = .ok res := by
  ok_from (C12.Props.floor_eq dst frm h hp c hin hcmp hstep)

theorem duration_ceil_no_ub (dst frm : DurTy) (h : CastTyOk dst frm) (hp : PairTyOk dst frm) (c : Int) (hin : CastIn dst frm c) (hcmp : PairIn dst frm (Spec.cast frm.per.toRat dst.per.toRat c) c) (hstep : dst.rep.inR (Spec.cast frm.per.toRat dst.per.toRat c + 1) = true) :
    ∃ res, ceilTo dst frm c = .ok res := by
  ok_from (C12.Props.ceil_eq dst frm h hp c hin hcmp hstep)

theorem duration_round_no_ub (dst frm : DurTy) (h : RoundTyOk dst frm) (c : Int) (hin : RoundIn dst frm c) :
    ∃ res, roundTo dst frm c = .ok res := by
  ok_from (C12.Props.round_eq dst frm h c hin)

theorem duration_abs_no_ub (t : DurTy) (hr : RepOk t.rep) (hp : PerOk t.per) (hco : Coprime t.per) (hdiv : DivOk t.per t.per) (c : Int) (hc : t.rep.inR c = true) (hn : t.rep.inR (-c) = true) :
    ∃ res, absD t c = .ok res := by
  ok_from (C12.Props.abs_eq t hr hp hco hdiv c hc hn)

theorem duration_neg_no_ub (t : DurTy) (hr : RepOk t.rep) (c : Int) (hn : t.rep.inR (-c) = true) :
    ∃ res, neg t c = .ok res := by
  ok_from (C12.Props.neg_eq t hr c hn)

theorem duration_addAssign_no_ub (t : DurTy) (hr : RepOk t.rep) (c d : Int) (h : t.rep.inR (c + d) = true) :
    ∃ res, addAssign t c d = .ok res := by
  ok_from (C12.Props.addAssign_eq t hr c d h)

theorem duration_subAssign_no_ub (t : DurTy) (hr : RepOk t.rep) (c d : Int) (h : t.rep.inR (c - d) = true) :
    ∃ res, subAssign t c d = .ok res := by
  ok_from (C12.Props.subAssign_eq t hr c d h)

theorem duration_mulAssign_no_ub (t : DurTy) (hr : RepOk t.rep) (c d : Int) (h : t.rep.inR (c * d) = true) :
    ∃ res, mulAssign t c d = .ok res := by
  ok_from (C12.Props.mulAssign_eq t hr c d h)

theorem duration_div_no_ub (a b : DurTy) (h : PairTyOk a b) (x y : Int) (hin : PairIn a b x y) (hy0 : y ≠ 0) (hex : ¬ (x * mulL a.per b.per = (cdTy a b).rep.min ∧ y * mulR a.per b.per = -1)) :
    ∃ res, div a b x y = .ok res := by
  ok_from (C12.Props.div_eq a b h x y hin hy0 hex)

theorem duration_mod_no_ub (a b : DurTy) (h : PairTyOk a b) (x y : Int) (hin : PairIn a b x y) (hy0 : y ≠ 0) (hex : ¬ (x * mulL a.per b.per = (cdTy a b).rep.min ∧ y * mulR a.per b.per = -1)) :
    ∃ res, mod a b x y = .ok res := by
  ok_from (C12.Props.mod_exact a b h x y hin hy0 hex)


end durations

/-! ### constant-evaluated rounding (model Tetl.C13) -/
section gcem
open Tetl.C13 Tetl.C13.Spec Tetl.C13.Fmt Tetl.C13.Lemmas

theorem cmath_floor_no_ub (f : Fmt) (h : Std f) (b : Nat) (hb : b < 2 ^ f.width) :
    ∃ res, Model.gcemFloor f b = .ok res := by
  ok_from (C13.Props.floor_paths f h b hb)

theorem cmath_ceil_no_ub (f : Fmt) (h : Std f) (b : Nat) (hb : b < 2 ^ f.width) :
    ∃ res, Model.gcemCeil f b = .ok res := by
  ok_from (C13.Props.ceil_paths f h b hb)

theorem cmath_trunc_no_ub (f : Fmt) (h : Std f) (b : Nat) (hb : b < 2 ^ f.width) :
    ∃ res, Model.gcemTrunc f b = .ok res := by
  ok_from (C13.Props.trunc_paths f h b hb)

theorem cmath_round_no_ub (f : Fmt) (h : Std f) (h2 : 2 ≤ f.bias) (b : Nat) (hb : b < 2 ^ f.width) :
    ∃ res, Model.gcemRound f b = .ok res := by
  ok_from (C13.Props.round_paths f h h2 b hb)


theorem cmath_rintFallback_no_ub (f : Fmt) (h : Std f) (b : Nat) (hb : b < 2 ^ f.width) :
    ∃ v, Model.rintFallback f b = .ok v := C13.Props.rintFallback_total f h b hb

end gcem

/-! ### ratio comparison (model Tetl.C15) -/
section ratios
open Tetl.C15

theorem ratio_ratioLess_no_ub (a b : C15.Rat) (h1 : fits (a.num * b.den) = true) (h2 : fits (b.num * a.den) = true) :
    ∃ res, ratioLess a b = .ok res := by
  ok_from (C15.Props.ratioLess_eq a b h1 h2)


end ratios

/-! ### contract checks (model Tetl.C05): a call that respects the documented preconditions never reaches the assert handler -/
section contracts
open Tetl.C05 Tetl.C05.Spec Tetl.C05.Lemmas Tetl.C05.Props
theorem contract_valid_never_asserts (op : Op) (cfg : Cfg) (s : St) (hp : Proved op = true) (h : WF cfg s op)
    (hok : pre cfg s op = true) : ∃ r p, C05.run op cfg s = .ok r p :=
  ⟨_, _, C05.Props.valid_never_asserts op cfg s hp h hok⟩
end contracts

/-! ### calendar kernels (generated model Tetl.C11.Gen): the `_ub` obligations emitted by the translator —
    every signed intermediate representable, no division by zero, table index inside the table -/
section kernels
open Tetl.C11
theorem kernel_civil_from_days_no_ub (z : Int) (hz : C11.LO ≤ z ∧ z ≤ C11.HI) : Gen.civil_from_days_ub z = true :=
  C11.Props.civil_no_ub z hz
theorem kernel_days_from_civil_no_ub (y m d : Int) (hy : -32768 ≤ y ∧ y ≤ 32767) (hm : 1 ≤ m ∧ m ≤ 12)
    (hd : 1 ≤ d ∧ d ≤ 255) : Gen.days_from_civil_ub y m d = true := Kernels.days_from_civil_no_ub y m d hy hm hd
theorem kernel_weekday_from_days_no_ub (tp : Int) (h : -2147483648 + 5 ≤ tp ∧ tp ≤ 2147483647 - 5) :
    Gen.weekday_from_days_ub tp = true := C11.Props.weekday_no_ub tp h
theorem kernel_month_plus_no_ub (m k : Int) (hm : 1 ≤ m ∧ m ≤ 12) (hk : -2147483647 ≤ k ∧ k ≤ 2147483647) :
    Gen.month_plus_ub m k = true := C11.Props.month_plus_no_ub m k hm hk
theorem kernel_year_month_plus_no_ub (y m k : Int) (hm : 1 ≤ m ∧ m ≤ 12) (hk : -2147483648 ≤ k ∧ k ≤ 2147483647)
    (hy : -32768 ≤ y ∧ y ≤ 32767) : Gen.year_month_plus_ub y m k = true := Kernels.year_month_plus_no_ub y m k hm hk hy
theorem kernel_weekday_plus_no_ub (w k : Int) (hw : 0 ≤ w ∧ w ≤ 6) (hk : -2147483648 ≤ k ∧ k ≤ 2147483647) :
    Gen.weekday_plus_ub w k = true ∧ Gen.weekday_add_assign_ub w k = true :=
  ⟨Kernels.weekday_plus_no_ub w k hw hk, Kernels.weekday_add_assign_no_ub w k hw hk⟩
theorem kernel_weekday_minus_no_ub (w k : Int) (hw : 0 ≤ w ∧ w ≤ 6) (hk : -2147483648 ≤ k ∧ k ≤ 2147483647) :
    Gen.weekday_minus_ub w k = true ∧ Gen.weekday_sub_assign_ub w k = true :=
  ⟨Kernels.weekday_minus_no_ub w k hw hk, Kernels.weekday_sub_assign_no_ub w k hw hk⟩
theorem kernel_weekday_diff_no_ub (a b : Int) : Gen.weekday_diff_ub a b = true := Kernels.weekday_diff_no_ub a b
theorem kernel_is_leap_no_ub (y : Int) : Gen.year_is_leap_ub y = true := Kernels.year_is_leap_no_ub y
/-- `last_day_of_month` indexes its 12-entry table with `m - 1`: inside the table for every `ok()` month
    (DESIGN §5 #29: `year_month_day_last::day()` must not be asked for an un-`ok()` month) -/
theorem kernel_last_day_no_ub (y m : Int) (hm : 1 ≤ m ∧ m ≤ 12) : Gen.last_day_of_month_ub y m = true :=
  Kernels.last_day_no_ub y m hm
/-- `year_month_day::ok()` guards the table access with `month.ok()` itself: no precondition on the month value -/
theorem kernel_ymd_ok_no_ub (y m d : Int) (hm : 0 ≤ m ∧ m ≤ 255) : Gen.ymd_ok_ub y m d = true :=
  Kernels.ymd_ok_no_ub y m d hm
example : C11.LO ≤ (0 : Int) ∧ (0 : Int) ≤ C11.HI := by decide
end kernels

/-! ## 7. Default-initialised objects ("reads no uninitialised value": the part a model can carry) -/
section defaultinit
/-- Every state member that member functions read has a default member initializer — for every class
    template and capacity except `inplace_vector<T, N>`, `N ≠ 0` (known finding F-C02-inplace-vector-default-init). -/
theorem default_init_defined_partial (ty : ObjTy) (cap : Nat) (h : ¬ (ty = .ipv ∧ cap ≠ 0)) :
    Spec.defaultInitDefined ty cap = true := by
  cases ty
  case ipv =>
    have hc : cap = 0 := by
      apply Classical.byContradiction; intro hne; exact h ⟨rfl, hne⟩
    simp [Spec.defaultInitDefined, initFields, hc]
  case str => by_cases h16 : cap < 16 <;> simp [Spec.defaultInitDefined, initFields, h16]
  all_goals simp [Spec.defaultInitDefined, initFields]

/-- … and `T v; v.size()` is 0 whatever the storage held before -/
theorem default_init_size_partial (ty : ObjTy) (cap garbage : Nat) (h : ¬ (ty = .ipv ∧ cap ≠ 0)) :
    initSize ty cap garbage = Spec.initSize ty cap := by
  cases ty
  case ipv =>
    have hc : cap = 0 := by
      apply Classical.byContradiction; intro hne; exact h ⟨rfl, hne⟩
    simp [initSize, initFields, Spec.initSize, hc]
  case str => by_cases h16 : cap < 16 <;> simp [initSize, initFields, Spec.initSize, h16]
  all_goals simp [initSize, initFields, Spec.initSize]

example : ¬ (ObjTy.str = .ipv ∧ 15 ≠ 0) := by decide
example : ¬ (ObjTy.ipv = .ipv ∧ 0 ≠ 0) := by decide

/-- the excluded class contains a failing input: `inplace_vector<T,4> v;` has an indeterminate size
    member, and `size()` returns whatever the storage held (0xAA → 170 > capacity) -/
theorem default_init_counterexample :
    Spec.defaultInitDefined .ipv 4 = false ∧ initSize .ipv 4 170 = 170 ∧ (170 : Nat) > 4 := by decide

/-- the same fact as C01's model of construction (`Tetl.C01.initSize`) -/
theorem default_init_agrees_with_C01 (cap g : Nat) :
    initSize .ipv cap (C01.wrap cap g) = C01.initSize .ipv cap (.dflt g) ∧
    initSize .sv cap (C01.wrap cap g) = C01.initSize .sv cap (.dflt g) := by
  constructor
  · by_cases h : cap = 0 <;> simp [initSize, initFields, C01.initSize, h]
  · simp [initSize, initFields, C01.initSize]
end defaultinit

end Tetl.C02.Props
