/-
C02 — undefined-behaviour obligations of the generated calendar kernels (Tetl/C11/Gen.lean, regenerated
from include/etl/_chrono by gen/translate.py).  For every kernel the translator emits `<kernel>_ub`:
the conjunction of "every signed intermediate is representable, every divisor is non-zero, every
table index is inside the table" along the path taken.  C11 proves three of them (`civil_no_ub`,
`month_plus_no_ub`, `weekday_no_ub`); the others are proved here, by the same method (remove the
wrap-arounds one at a time, then linear arithmetic).
-/
import Tetl.C11.Gen
import Tetl.C11.Spec
import TetlProofs.CSemLemmas
import TetlProofs.C11.Props
set_option linter.unusedSimpArgs false
namespace Tetl.C02.Kernels
open Tetl.CSem Tetl.C11

theorem weekday_plus_no_ub (w k : Int) (hw : 0 ≤ w ∧ w ≤ 6) (hk : -2147483648 ≤ k ∧ k ≤ 2147483647) :
    Gen.weekday_plus_ub w k = true := by
  have hwdu : Gen.weekday_plus_wdu w k = w + k := by
    unfold Gen.weekday_plus_wdu; rw [wrapS64_id w (by omega), wrapS64_id k (by omega)]
  unfold Gen.weekday_plus_ub
  simp only [hwdu, Gen.weekday_plus_wk, C11.Props.floor7, wrapS64_id w (by omega), wrapS64_id k (by omega)]
  simp only [inRangeS32, inRangeS64, Bool.and_eq_true, Bool.or_eq_true, Bool.not_eq_true', Bool.not_not,
    decide_eq_true_eq, bne_iff_ne, ne_eq, beq_iff_eq, decide_eq_false_iff_not, Bool.and_eq_false_iff, beq_eq_false_iff_ne]
  c_omega

theorem weekday_minus_no_ub (w k : Int) (hw : 0 ≤ w ∧ w ≤ 6) (hk : -2147483648 ≤ k ∧ k ≤ 2147483647) :
    Gen.weekday_minus_ub w k = true := by
  have hwdu : Gen.weekday_minus_wdu w k = w - k := by
    unfold Gen.weekday_minus_wdu; rw [wrapS64_id w (by omega), wrapS64_id k (by omega)]
  unfold Gen.weekday_minus_ub
  simp only [hwdu, Gen.weekday_minus_wk, C11.Props.floor7, wrapS64_id w (by omega), wrapS64_id k (by omega)]
  simp only [inRangeS32, inRangeS64, Bool.and_eq_true, Bool.or_eq_true, Bool.not_eq_true', Bool.not_not,
    decide_eq_true_eq, bne_iff_ne, ne_eq, beq_iff_eq, decide_eq_false_iff_not, Bool.and_eq_false_iff, beq_eq_false_iff_ne]
  c_omega

theorem weekday_diff_no_ub (a b : Int) : Gen.weekday_diff_ub a b = true := by
  unfold Gen.weekday_diff_ub Gen.weekday_diff_count
  have h := (show -2147483648 ≤ wrapS 32 (wrapU 32 (a - b)) ∧ wrapS 32 (wrapU 32 (a - b)) < 2147483648 by
    simp only [wrapS32]; omega)
  generalize wrapS 32 (wrapU 32 (a - b)) = v at h
  simp only [inRangeS32, Bool.and_eq_true, Bool.or_eq_true, Bool.not_eq_true', Bool.not_not,
    decide_eq_true_eq, decide_eq_false_iff_not]
  omega

theorem year_is_leap_no_ub (y : Int) : Gen.year_is_leap_ub y = true := by
  unfold Gen.year_is_leap_ub
  have h := (show -2147483648 ≤ wrapS 32 y ∧ wrapS 32 y < 2147483648 by simp only [wrapS32]; omega)
  generalize wrapS 32 y = v at h
  simp only [cmod_pos _ 4 (by decide), cmod_pos _ 100 (by decide), cmod_pos _ 400 (by decide), inRangeS32, Bool.and_eq_true, Bool.or_eq_true, Bool.not_eq_true', Bool.not_not,
    decide_eq_true_eq, bne_iff_ne, ne_eq, beq_iff_eq, decide_eq_false_iff_not, Bool.and_eq_false_iff, beq_eq_false_iff_ne]
  c_omega

theorem weekday_add_assign_no_ub (w k : Int) (hw : 0 ≤ w ∧ w ≤ 6) (hk : -2147483648 ≤ k ∧ k ≤ 2147483647) :
    Gen.weekday_add_assign_ub w k = true := weekday_plus_no_ub w k hw hk

theorem weekday_sub_assign_no_ub (w k : Int) (hw : 0 ≤ w ∧ w ≤ 6) (hk : -2147483648 ≤ k ∧ k ≤ 2147483647) :
    Gen.weekday_sub_assign_ub w k = true := weekday_minus_no_ub w k hw hk

/-- `last_day_of_month`: for an `ok()` month the table index `m - 1` lies in `[0, 12)` -/
theorem last_day_no_ub (y m : Int) (hm : 1 ≤ m ∧ m ≤ 12) : Gen.last_day_of_month_ub y m = true := by
  unfold Gen.last_day_of_month_ub
  rw [year_is_leap_no_ub, wrapU32_id _ (by omega)]
  simp only [Bool.and_eq_true, Bool.or_eq_true, Bool.not_eq_true', Bool.not_not, decide_eq_true_eq, Bool.or_true, true_and]
  right; omega

theorem ymd_ok_no_ub (y m d : Int) (hm : 0 ≤ m ∧ m ≤ 255) : Gen.ymd_ok_ub y m d = true := by
  unfold Gen.ymd_ok_ub Gen.year_ok_ub Gen.month_ok_ub
  by_cases hmo : Gen.month_ok m = true
  · have h12 : 1 ≤ m ∧ m ≤ 12 := by
      unfold Gen.month_ok at hmo
      rw [wrapU32_id _ (by omega)] at hmo
      simp only [Bool.and_eq_true, decide_eq_true_eq] at hmo
      omega
    rw [last_day_no_ub y m h12]; simp
  · simp [hmo]

theorem year_month_plus_no_ub (y m k : Int) (hm : 1 ≤ m ∧ m ≤ 12) (hk : -2147483648 ≤ k ∧ k ≤ 2147483647)
    (hy : -32768 ≤ y ∧ y ≤ 32767) : Gen.year_month_plus_ub y m k = true := by
  have hmo : Gen.year_month_plus_mo k m = m - 1 + k := by
    unfold Gen.year_month_plus_mo; rw [wrapS64_id m (by omega), wrapS64_id k (by omega)]
  have hd : -178956971 ≤ (m - 1 + k) / 12 ∧ (m - 1 + k) / 12 ≤ 178956971 := by omega
  unfold Gen.year_month_plus_ub Gen.year_plus_ub
  simp only [hmo, Gen.year_month_plus_dy, C11.Props.floor12, wrapS64_id m (by omega), wrapS64_id k (by omega)]
  rw [wrapS32_id _ (by omega), mkDur_id _ (by omega)]
  simp only [inRangeS32, inRangeS64, Bool.and_eq_true, Bool.or_eq_true, Bool.not_eq_true', Bool.not_not,
    decide_eq_true_eq, bne_iff_ne, ne_eq, beq_iff_eq, decide_eq_false_iff_not, Bool.and_eq_false_iff, beq_eq_false_iff_ne]
  c_omega


theorem floor400 (a : Int) : cdiv (if decide (a ≥ 0) = true then a else a - 399) 400 = a / 400 := by
  rw [cdiv_pos _ 400 (by decide)]; c_omega

/-- `days_from_civil` for every `year` value (int16), `ok()` month and day value 1..255: no signed overflow,
    no division by zero. -/
theorem days_from_civil_no_ub (y m d : Int) (hy : -32768 ≤ y ∧ y ≤ 32767) (hm : 1 ≤ m ∧ m ≤ 12)
    (hd : 1 ≤ d ∧ d ≤ 255) : Gen.days_from_civil_ub y m d = true := by
  have hc : wrapS 32 (if decide (m ≤ 2) = true then 1 else 0) = (if m ≤ 2 then 1 else 0) := by
    split <;> rename_i h <;> simp only [decide_eq_true_eq] at h <;> simp [h, wrapS32]
  have hy1 : Gen.days_from_civil_y_1 m y = y - (if m ≤ 2 then 1 else 0) := by
    unfold Gen.days_from_civil_y_1; rw [hc]
  generalize hy1v : y - (if m ≤ 2 then (1 : Int) else 0) = y1 at hy1
  have hy1r : -32769 ≤ y1 ∧ y1 ≤ 32767 := by subst hy1v; split <;> omega
  have hera : Gen.days_from_civil_era y1 = y1 / 400 := by
    unfold Gen.days_from_civil_era; exact floor400 y1
  have hyoe : Gen.days_from_civil_yoe (y1 / 400) y1 = y1 % 400 := by
    unfold Gen.days_from_civil_yoe; rw [wrapU32_id _ (by omega)]; omega
  have hdoy : 0 ≤ Gen.days_from_civil_doy d m ∧ Gen.days_from_civil_doy d m ≤ 600 := by
    unfold Gen.days_from_civil_doy
    split <;> rename_i h <;> simp only [decide_eq_true_eq] at h
    · rw [wrapU32_id (m - 3) (by omega), wrapU32_id (153 * (m - 3)) (by omega), wrapU32_id (153 * (m - 3) + 2) (by omega)]
      have : 0 ≤ (153 * (m - 3) + 2) / 5 ∧ (153 * (m - 3) + 2) / 5 ≤ 300 := by omega
      generalize (153 * (m - 3) + 2) / 5 = q at this
      rw [wrapU32_id (q + d) (by omega), wrapU32_id _ (by omega)]; omega
    · rw [wrapU32_id (m + 9) (by omega), wrapU32_id (153 * (m + 9)) (by omega), wrapU32_id (153 * (m + 9) + 2) (by omega)]
      have : 300 ≤ (153 * (m + 9) + 2) / 5 ∧ (153 * (m + 9) + 2) / 5 ≤ 340 := by omega
      generalize (153 * (m + 9) + 2) / 5 = q at this
      rw [wrapU32_id (q + d) (by omega), wrapU32_id _ (by omega)]; omega
  generalize hdoyv : Gen.days_from_civil_doy d m = doy at hdoy
  have hdoe : 0 ≤ Gen.days_from_civil_doe doy (y1 % 400) ∧ Gen.days_from_civil_doe doy (y1 % 400) ≤ 147000 := by
    unfold Gen.days_from_civil_doe
    have hyo : 0 ≤ y1 % 400 ∧ y1 % 400 < 400 := by omega
    generalize y1 % 400 = yoe at hyo
    rw [wrapU32_id (yoe * 365) (by omega), wrapU32_id (yoe * 365 + yoe / 4) (by omega),
      wrapU32_id (yoe * 365 + yoe / 4 - yoe / 100) (by omega), wrapU32_id _ (by omega)]
    omega
  unfold Gen.days_from_civil_ub
  simp only [hc, hy1, hy1v, hera, hyoe, hdoyv, floor400]
  generalize Gen.days_from_civil_doe doy (y1 % 400) = doe at hdoe
  rw [wrapS32_id doe (by omega)]
  have he : -82 ≤ y1 / 400 ∧ y1 / 400 ≤ 81 := by omega
  generalize y1 / 400 = era at he
  simp only [inRangeS32, Bool.and_eq_true, Bool.or_eq_true, Bool.not_eq_true', Bool.not_not,
    decide_eq_true_eq, bne_iff_ne, ne_eq, beq_iff_eq, decide_eq_false_iff_not, Bool.and_eq_false_iff, beq_eq_false_iff_ne]
  c_omega
end Tetl.C02.Kernels
