/-
C02 — helper for the safety corollaries: `ok_from t` closes a goal `∃ r, m = .ok r` from a cited
theorem `t` of an owning property whose statement is `m = .ok v`, `m = .ok v ∧ …`,
`∃ z…, m = .ok (…) ∧ …`.  Nothing else lives here: C02 has no lemmas of its own, its theorems are
the safety faces of the theorems imported below.
-/
import Tetl.C02.Model
import Tetl.C02.Spec
import TetlProofs.C01.Props
import TetlProofs.C04.Props
import TetlProofs.C05.Props
import TetlProofs.C06.Props
import TetlProofs.C07.Props
import TetlProofs.C08.Props
import TetlProofs.C09.Props
import TetlProofs.C10.Props
import TetlProofs.C11.Props
import TetlProofs.C12.Props
import TetlProofs.C13.Props
import TetlProofs.C14.Props
import TetlProofs.C15.Props
import TetlProofs.C16.Props
import TetlProofs.C17.Props
import TetlProofs.C18.Props
import TetlProofs.C19.Props
import TetlProofs.C20.Props
import TetlProofs.C02.Kernels

namespace Tetl.C02

/-- closes `∃ r, m = .ok r` from a theorem that states `m = .ok _` possibly under `∃` binders and
    followed by further conjuncts -/
macro "ok_from " t:term : tactic => `(tactic| first
  | exact ⟨_, $t⟩
  | exact ⟨_, ($t).1⟩
  | exact ⟨_, ($t).1.1⟩
  | (obtain ⟨_, h⟩ := $t; exact ⟨_, h⟩)
  | (obtain ⟨_, h, _⟩ := $t; exact ⟨_, h⟩)
  | (obtain ⟨_, _, h⟩ := $t; exact ⟨_, h⟩)
  | (obtain ⟨_, _, h, _⟩ := $t; exact ⟨_, h⟩)
  | (obtain ⟨_, _, _, h, _⟩ := $t; exact ⟨_, h⟩))

end Tetl.C02
