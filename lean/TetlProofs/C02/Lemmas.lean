/-
C02 — the one helper of the safety corollaries: the citing tactic `ok_from`.

C02 has no lemmas of its own: its theorems are the safety faces of the theorems of the owning
properties imported below.  Those theorems are restated from time to time (weaker hypotheses, more
conjuncts in the conclusion, new names).  To keep that from breaking C02 in unclear ways, every
corollary cites its source through `ok_from`:

* `ok_from t` closes a goal `∃ r, m = .ok r` from a proof `t` whose statement contains the equation
  `m = .ok v` *anywhere* in its tree of `∃` binders and conjunctions — the corollaries do not depend
  on the shape of the cited conclusion (how many witnesses, which conjunct, what else is stated), only
  on the hypotheses, which they repeat verbatim;
* when `t` no longer elaborates under the corollary's hypotheses (the source theorem was renamed or
  its hypotheses restated) or no longer contains the equation, the build stops *at the corollary*,
  inside TetlProofs/C02, with a message that names the cited term, shows the current statement of the
  cited theorem and says how to regenerate (`python3 gen/c02_props.py`).
-/
import Lean
import Tetl.C02.Model
import Tetl.C02.Spec
import TetlProofs.C01.Props
import TetlProofs.C03.Props
import TetlProofs.C04.Props
import TetlProofs.C05.Props
import TetlProofs.C06.Props
import TetlProofs.C07.Props
import TetlProofs.C08.Props
import TetlProofs.C09.Props
import TetlProofs.C10.Props
import TetlProofs.C11.Props
import TetlProofs.C12.Props
import TetlProofs.C13.Props
import TetlProofs.C14.Props
import TetlProofs.C15.Props
import TetlProofs.C16.Props
import TetlProofs.C17.Props
import TetlProofs.C18.Props
import TetlProofs.C19.Props
import TetlProofs.C20.Props
import TetlProofs.C02.Kernels

namespace Tetl.C02

/-- `ok_search h`: `h` is a proof; look for `m = .ok _` (the goal's `m`) in its `∃`/`∧` tree -/
syntax "ok_search " ident : tactic
macro_rules
  | `(tactic| ok_search $h:ident) => `(tactic| first
      | exact ⟨_, $h⟩
      | exact ⟨_, _, $h⟩
      | (have h1 := And.left $h; ok_search h1)
      | (have h2 := And.right $h; ok_search h2)
      | (refine Exists.elim $h (fun _ h3 => ?_); ok_search h3))

/-- the first identifier of a piece of syntax: the name of the cited theorem in `(Cxx.Props.name args…)` -/
partial def firstIdent : Lean.Syntax → Option Lean.Name
  | .ident _ _ n _ => if n.eraseMacroScopes.isAnonymous then none else some n.eraseMacroScopes
  | .node _ _ args => args.findSome? firstIdent
  | _ => none

open Lean Elab Tactic Meta in
/-- closes `∃ r, m = .ok r` from a cited theorem application; see the file comment -/
elab "ok_from " t:term : tactic => do
  let s ← saveState
  try
    withoutRecover (evalTactic (← `(tactic| (obtain h0 := $t; ok_search h0))))
  catch e =>
    s.restore
    -- the current statement of the cited theorem (head constant of the cited term), if it still exists
    let head : Option Name := firstIdent t.raw
    let cur : MessageData ← match head with
      | some n =>
        try
          let c ← realizeGlobalConstNoOverload (mkIdent n)
          let info ← getConstInfo c
          pure m!"current statement of {c}:\n  {info.type}"
        catch _ => pure m!"`{n}` does not exist any more (renamed or removed?)"
      | none => pure m!"(no theorem name in the cited term)"
    let g ← getMainGoal
    let why : MessageData := match e with
      | .error _ m => m
      | .internal _ _ => m!"(the statement of the cited theorem does not contain the equation of the safety face)"
    throwError "C02 corollary out of date.\nThe cited term\n  {t}\ndoes not prove the safety face\n  {← g.getType}\nunder the hypotheses of this corollary any more.\n{cur}\nRepeat the hypotheses of the cited theorem verbatim (or run `python3 gen/c02_props.py --write` in the framework root, which regenerates the corollaries from the current statements).\nElaboration error: {why}"

end Tetl.C02
