import TetlProofs.C12.Lemmas
namespace Tetl.C12.Props
open Tetl Tetl.C12
theorem sign_pos (v : Int) (h : 0 < v) : sign v = 1 := by unfold sign; omega
end Tetl.C12.Props
