/-
C12 — property theorems: on the documented domain (covered representations, well-formed periods, no
intermediate overflow, exact result representable) every modelled operation returns `.ok` — no result
depends on signed overflow, a division by zero or a constructor that does not take part in overload
resolution — of exactly the value that exact rational arithmetic (`Spec`, over ℚ) prescribes.
-/
import TetlProofs.C12.Lemmas
namespace Tetl.C12.Props
open Tetl Tetl.C12 Tetl.C14

def i64 : ITy := ⟨64, true⟩
def i32 : ITy := ⟨32, true⟩

/-- `duration_cast<To>(d)` (all four `duration_cast_impl` bodies) is the exact value `c · p / q` truncated toward zero. -/
theorem durationCast_eq (dst frm : DurTy) (hto : RepOk dst.rep) (hfrm : RepOk frm.rep)
    (hp : PerOk frm.per) (hq : PerOk dst.per) (hdiv : DivOk frm.per dst.per)
    (c : Int) (hc : frm.rep.inR c = true)
    (hmul : imax.inR (c * cfN frm.per dst.per) = true)
    (hres : dst.rep.inR (Spec.cast frm.per.toRat dst.per.toRat c) = true) :
    durationCast dst frm c = .ok (Spec.cast frm.per.toRat dst.per.toRat c) := by
  obtain ⟨hN, hD, hN', hD', _⟩ := cf_facts frm.per dst.per hp hq
  unfold durationCast
  rw [castCtx_eq dst frm hto hfrm hp hq hdiv]
  simp only [bind, Except.bind]
  rw [castCore_eq dst.rep _ _ hN hD (by have := hdiv.1; omega) (by have := hdiv.2; omega) c (repOk_sub hfrm c hc) hmul,
    cast_val _ _ hp hq, conv_of_inR _ (repOk_w hto) _ hres]

-- non-vacuity (a test on one sample, not a proof of anything general): -7 ticks of 1001/30000 s as int32 milliseconds
example : durationCast ⟨i32, ⟨1, 1000⟩⟩ ⟨i64, ⟨1001, 30000⟩⟩ (-7) = .ok (-233) := by
  have h := durationCast_eq ⟨i32, ⟨1, 1000⟩⟩ ⟨i64, ⟨1001, 30000⟩⟩ (by decide) (by decide) (by decide) (by decide) (by decide)
    (-7) (by decide) (by decide)
  rw [h] <;> decide +kernel

/-! ## the common type and the operators that go through it -/

/-- The period of the common type is `gcd(p.num, q.num) / lcm(p.den, q.den)` (its `ratio` normalisation keeps the value),
    and `commonTy` computes it without a compile-time overflow. -/
theorem commonPeriod_eq (a b : DurTy) (hpa : PerOk a.per) (hpb : PerOk b.per)
    (hl : ((Int.lcm a.per.den b.per.den : Nat) : Int) ≤ imax.max) :
    commonTy a b = .ok (cdTy a b) ∧
      (cdTy a b).per.toRat = ((Int.gcd a.per.num b.per.num : Nat) : ℚ) / ((Int.lcm a.per.den b.per.den : Nat) : ℚ) := by
  refine ⟨commonTy_eq a b hpa hpb hl, ?_⟩
  have hG := gcd_pos_int a.per.num b.per.num hpa.1
  have hL := lcm_pos_int a.per.den b.per.den hpa.2.1 hpb.2.1
  show (cdPer a.per b.per).toRat = _
  unfold cdPer Ratio.toRat
  dsimp only
  have eG : (((Int.gcd a.per.num b.per.num : Nat) : Int) : ℚ) = ((Int.gcd a.per.num b.per.num : Nat) : ℚ) := by push_cast; rfl
  have eL : (((Int.lcm a.per.den b.per.den : Nat) : Int) : ℚ) = ((Int.lcm a.per.den b.per.den : Nat) : ℚ) := by push_cast; rfl
  rw [← eG, ← eL]
  generalize ((Int.gcd a.per.num b.per.num : Nat) : Int) = G at *
  generalize ((Int.lcm a.per.den b.per.den : Nat) : Int) = L at *
  have hh := gcd_pos_int G L hG
  have dhG : ((Int.gcd G L : Nat) : Int) ∣ G := Int.gcd_dvd_left _ _
  have dhL : ((Int.gcd G L : Nat) : Int) ∣ L := Int.gcd_dvd_right _ _
  generalize ((Int.gcd G L : Nat) : Int) = h at *
  obtain ⟨g, rfl⟩ := dhG
  obtain ⟨l, rfl⟩ := dhL
  rw [Int.mul_ediv_cancel_left _ (by omega), Int.mul_ediv_cancel_left _ (by omega)]
  have hq : (h : ℚ) ≠ 0 := by exact_mod_cast (by omega : h ≠ 0)
  have hlq : (l : ℚ) ≠ 0 := by
    intro hz
    have : l = 0 := by exact_mod_cast hz
    subst this; omega
  push_cast
  field_simp

/-- Conversion to the common type is exact: the converting constructor takes part in overload resolution (its conversion
    factor has denominator 1: never the `.pre` error), does not overflow, and the converted count denotes the same number
    of seconds. -/
theorem common_exact (a b : DurTy) (h : PairTyOk a b) (x y : Int) (hin : PairIn a b x y) :
    ∃ k l r, pairCtx a b = .ok k ∧ k.cd = cdTy a b ∧ convertCore k.ka x = .ok l ∧ convertCore k.kb y = .ok r ∧
      (l : ℚ) * (cdTy a b).per.toRat = Spec.val a.per.toRat x ∧
      (r : ℚ) * (cdTy a b).per.toRat = Spec.val b.per.toRat y := by
  obtain ⟨c1, c2⟩ := both_common a b h x y hin
  obtain ⟨ha, hb, hpa, hpb, hc⟩ := h
  obtain ⟨e1, e2, _⟩ := mul_rat a.per b.per hpa hpb hc.1
  refine ⟨pairK a b, _, _, pairCtx_eq a b ha hb hpa hpb hc, rfl, c1, c2, ?_, ?_⟩
  · unfold Spec.val; push_cast; rw [mul_assoc]; erw [e1]
  · unfold Spec.val; push_cast; rw [mul_assoc]; erw [e2]

/-- The converting constructor `To(From)` (also the one of `time_point`, which converts `time_since_epoch()`), when it takes
    part in overload resolution (`ratio_divide<Period2, period>::den == 1`): no overflow, and the converted count denotes the
    same number of seconds. -/
theorem convert_exact (dst frm : DurTy) (h : CastTyOk dst frm) (hden : cfD frm.per dst.per = 1) (c : Int)
    (hc : frm.rep.inR c = true) (hres : dst.rep.inR (c * cfN frm.per dst.per) = true) :
    convert dst frm c = .ok (c * cfN frm.per dst.per) ∧
      Spec.val dst.per.toRat (c * cfN frm.per dst.per) = Spec.val frm.per.toRat c := by
  obtain ⟨hto, hfrm, hp, hq, hdiv⟩ := h
  obtain ⟨hN, _, hN', _, _⟩ := cf_facts frm.per dst.per hp hq
  have hr := cf_rat frm.per dst.per hp hq
  have hQ := toRat_pos dst.per hq
  constructor
  · unfold convert
    rw [castCtx_eq dst frm hto hfrm hp hq hdiv, hden]
    simp only [bind, Except.bind]
    exact convertCore_eq dst.rep hto _ hN (by have := hdiv.1; omega) c (repOk_sub hfrm c hc) hres
  · rw [hden] at hr
    have e : (cfN frm.per dst.per : ℚ) = frm.per.toRat / dst.per.toRat := by simpa using hr
    unfold Spec.val
    push_cast
    rw [e]
    field_simp

-- non-vacuity (test on a sample): 2 minutes (int32) as int64 milliseconds
example : CastTyOk ⟨i64, ⟨1, 1000⟩⟩ ⟨i32, ⟨60, 1⟩⟩ ∧ cfD ⟨60, 1⟩ ⟨1, 1000⟩ = 1 := by decide +kernel
example : convert ⟨i64, ⟨1, 1000⟩⟩ ⟨i32, ⟨60, 1⟩⟩ (-2) = .ok (-120000) := by
  rw [(convert_exact _ _ (by decide +kernel) (by decide +kernel) _ (by decide) (by decide +kernel)).1]
  decide +kernel

/-- `operator<` compares the exact values. -/
theorem lt_eq (a b : DurTy) (h : PairTyOk a b) (x y : Int) (hin : PairIn a b x y) :
    lt a b x y = .ok (Spec.lt a.per.toRat b.per.toRat x y) := by
  unfold lt
  rw [pairCtx_eq a b h.1 h.2.1 h.2.2.1 h.2.2.2.1 h.2.2.2.2]
  simp only [bind, Except.bind]
  exact ltCore_spec a b h x y hin

/-- `operator==` compares the exact values. -/
theorem eq_eq (a b : DurTy) (h : PairTyOk a b) (x y : Int) (hin : PairIn a b x y) :
    eq a b x y = .ok (Spec.eq a.per.toRat b.per.toRat x y) := by
  obtain ⟨c1, c2⟩ := both_common a b h x y hin
  obtain ⟨ha, hb, hpa, hpb, hc⟩ := h
  obtain ⟨e1, e2, hpos, _⟩ := mul_rat a.per b.per hpa hpb hc.1
  unfold eq
  rw [pairCtx_eq a b ha hb hpa hpb hc]
  simp only [bind, Except.bind, eqCore, c1, c2]
  unfold Spec.eq Spec.val
  congr 1
  have hb' : ∀ u v : Int, (u == v) = decide (u = v) := by intro u v; by_cases h : u = v <;> simp [h]
  rw [hb', decide_eq_decide, ← e1, ← e2]
  constructor
  · intro heq
    have : ((x * mulL a.per b.per : Int) : ℚ) = ((y * mulR a.per b.per : Int) : ℚ) := by exact_mod_cast heq
    push_cast at this
    rw [← mul_assoc, ← mul_assoc, this]
  · intro heq
    have h2 : ((x : ℚ) * mulL a.per b.per) * (cdPer a.per b.per).toRat = ((y : ℚ) * mulR a.per b.per) * (cdPer a.per b.per).toRat := by
      rw [mul_assoc, mul_assoc]; exact heq
    have := mul_right_cancel₀ (ne_of_gt hpos) h2
    exact_mod_cast this

/-- The derived comparisons: `!=` is `!(==)`, `<=` is `!(rhs < lhs)`, `>` is `rhs < lhs`, `>=` is `!(lhs < rhs)`,
    all on the exact values (`PairIn b a y x` is the same requirement with the roles exchanged). -/
theorem cmp_derived_eq (a b : DurTy) (h : PairTyOk a b) (h' : PairTyOk b a) (x y : Int) (hin : PairIn a b x y)
    (hin' : PairIn b a y x) :
    ne a b x y = .ok (!Spec.eq a.per.toRat b.per.toRat x y) ∧
    le a b x y = .ok (!Spec.lt b.per.toRat a.per.toRat y x) ∧
    gt a b x y = .ok (Spec.lt b.per.toRat a.per.toRat y x) ∧
    ge a b x y = .ok (!Spec.lt a.per.toRat b.per.toRat x y) := by
  unfold ne le gt ge
  rw [eq_eq a b h x y hin, lt_eq a b h x y hin, lt_eq b a h' y x hin']
  exact ⟨rfl, rfl, rfl, rfl⟩

/-- `operator+`: no overflow, and the sum denotes exactly the sum of the two values (in ticks of the common period). -/
theorem add_exact (a b : DurTy) (h : PairTyOk a b) (x y : Int) (hin : PairIn a b x y)
    (hsum : (cdTy a b).rep.inR (x * mulL a.per b.per + y * mulR a.per b.per) = true) :
    ∃ r, add a b x y = .ok r ∧
      (r : ℚ) * (cdTy a b).per.toRat = Spec.val a.per.toRat x + Spec.val b.per.toRat y := by
  obtain ⟨c1, c2⟩ := both_common a b h x y hin
  have hcd := cd_repOk h
  obtain ⟨ha, hb, hpa, hpb, hc⟩ := h
  obtain ⟨e1, e2, _⟩ := mul_rat a.per b.per hpa hpb hc.1
  refine ⟨x * mulL a.per b.per + y * mulR a.per b.per, ?_, ?_⟩
  · unfold add
    rw [pairCtx_eq a b ha hb hpa hpb hc]
    simp only [bind, Except.bind, addCore, c1, c2]
    have : (pairK a b).cd = cdTy a b := rfl
    rw [this, repOk_promote hcd, arith_ok _ (repOk_w hcd) _ hsum]
    simp only [mkCD_id _ hcd _ hsum]
  · unfold Spec.val; push_cast
    have : (cdTy a b).per.toRat = (cdPer a.per b.per).toRat := rfl
    rw [this, ← e1, ← e2]; ring

/-- `operator-`: no overflow, exact difference. -/
theorem sub_exact (a b : DurTy) (h : PairTyOk a b) (x y : Int) (hin : PairIn a b x y)
    (hdiff : (cdTy a b).rep.inR (x * mulL a.per b.per - y * mulR a.per b.per) = true) :
    ∃ r, sub a b x y = .ok r ∧
      (r : ℚ) * (cdTy a b).per.toRat = Spec.val a.per.toRat x - Spec.val b.per.toRat y := by
  obtain ⟨c1, c2⟩ := both_common a b h x y hin
  have hcd := cd_repOk h
  obtain ⟨ha, hb, hpa, hpb, hc⟩ := h
  obtain ⟨e1, e2, _⟩ := mul_rat a.per b.per hpa hpb hc.1
  refine ⟨x * mulL a.per b.per - y * mulR a.per b.per, ?_, ?_⟩
  · unfold sub
    rw [pairCtx_eq a b ha hb hpa hpb hc]
    simp only [bind, Except.bind, subCore, c1, c2]
    have : (pairK a b).cd = cdTy a b := rfl
    rw [this, repOk_promote hcd, arith_ok _ (repOk_w hcd) _ hdiff]
    simp only [mkCD_id _ hcd _ hdiff]
  · unfold Spec.val; push_cast
    have : (cdTy a b).per.toRat = (cdPer a.per b.per).toRat := rfl
    rw [this, ← e1, ← e2]; ring

/-! ## floor, ceil -/

/-- `floor<To>(d)` is the greatest integer not above the exact quotient `c · p / q`, also for negative counts.
    `hcmp`: the comparison `t > d` converts `d` and the truncated result to their common type; `hstep`: `t - 1` is a value
    of `To::rep` whenever the step is taken (`t > d`). -/
theorem floor_eq (dst frm : DurTy) (h : CastTyOk dst frm) (hp : PairTyOk frm dst) (c : Int) (hin : CastIn dst frm c)
    (hcmp : PairIn frm dst c (Spec.cast frm.per.toRat dst.per.toRat c))
    (hstep : Spec.val frm.per.toRat c / dst.per.toRat < ((Spec.cast frm.per.toRat dst.per.toRat c : Int) : ℚ) →
      dst.rep.inR (Spec.cast frm.per.toRat dst.per.toRat c + -1) = true) :
    floorTo dst frm c = .ok (Spec.floor frm.per.toRat dst.per.toRat c) := by
  unfold floorTo
  rw [floorCtx_eq dst frm h hp]
  simp only [bind, Except.bind]
  exact floorCore_spec dst frm h hp c hin hcmp hstep

/-- `ceil<To>(d)` is the least integer not below the exact quotient. -/
theorem ceil_eq (dst frm : DurTy) (h : CastTyOk dst frm) (hp : PairTyOk dst frm) (c : Int) (hin : CastIn dst frm c)
    (hcmp : PairIn dst frm (Spec.cast frm.per.toRat dst.per.toRat c) c)
    (hstep : ((Spec.cast frm.per.toRat dst.per.toRat c : Int) : ℚ) < Spec.val frm.per.toRat c / dst.per.toRat →
      dst.rep.inR (Spec.cast frm.per.toRat dst.per.toRat c + 1) = true) :
    ceilTo dst frm c = .ok (Spec.ceil frm.per.toRat dst.per.toRat c) := by
  have hQ := toRat_pos dst.per h.2.2.2.1
  have hcast := castCore_spec dst frm h c hin
  have hlt := ltCore_spec dst frm hp _ c hcmp
  have hctx : ceilCtx dst frm = .ok ⟨dst, castK dst frm, pairK dst frm⟩ := by
    unfold ceilCtx
    rw [castCtx_eq dst frm h.1 h.2.1 h.2.2.1 h.2.2.2.1 h.2.2.2.2, pairCtx_eq dst frm hp.1 hp.2.1 hp.2.2.1 hp.2.2.2.1 hp.2.2.2.2]
    rfl
  unfold ceilTo
  rw [hctx]
  simp only [bind, Except.bind, ceilCore, hcast, hlt]
  rw [spec_lt_right _ _ hQ]
  have key := trunc_ceil_adjust (Spec.val frm.per.toRat c / dst.per.toRat)
  unfold Spec.ceil
  rw [rat_ceil_eq, ← key]
  by_cases hx : ((Spec.cast frm.per.toRat dst.per.toRat c : Int) : ℚ) < Spec.val frm.per.toRat c / dst.per.toRat
  · have hx' : ((Spec.trunc (Spec.val frm.per.toRat c / dst.per.toRat) : Int) : ℚ) < Spec.val frm.per.toRat c / dst.per.toRat := hx
    rw [if_pos hx']
    simp only [hx, decide_true, if_true]
    rw [step1_eq dst h.1 _ _ (hstep hx)]
    rfl
  · have hx' : ¬ ((Spec.trunc (Spec.val frm.per.toRat c / dst.per.toRat) : Int) : ℚ) < Spec.val frm.per.toRat c / dst.per.toRat := hx
    rw [if_neg hx']
    simp only [hx, decide_false, Bool.false_eq_true, if_false]
    rfl

/-! ## round -/

/-- static preconditions of `round<To>(From)`: those of `floor`, of the comparisons and differences in both orders,
    of `low + To{1}`, and of comparing the two differences (whose types are the two common types) -/
def RoundTyOk (dst frm : DurTy) : Prop :=
  CastTyOk dst frm ∧ PairTyOk frm dst ∧ PairTyOk dst frm ∧ PairTyOk dst dst ∧ Coprime dst.per ∧
    PairTyOk (cdTy frm dst) (cdTy dst frm) ∧ PairTyOk (cdTy dst frm) (cdTy frm dst)
instance (dst frm : DurTy) : Decidable (RoundTyOk dst frm) := by unfold RoundTyOk; infer_instance

/-- `dur - low` and `high - dur` as tick counts of the common type -/
def lowDiff (dst frm : DurTy) (c : Int) : Int :=
  c * mulL frm.per dst.per - Spec.floor frm.per.toRat dst.per.toRat c * mulR frm.per dst.per
def highDiff (dst frm : DurTy) (c : Int) : Int :=
  (Spec.floor frm.per.toRat dst.per.toRat c + 1) * mulL dst.per frm.per - c * mulR dst.per frm.per

/-- run-time preconditions of `round<To>(From)`: every intermediate is representable -/
def RoundIn (dst frm : DurTy) (c : Int) : Prop :=
  CastIn dst frm c ∧ PairIn frm dst c (Spec.cast frm.per.toRat dst.per.toRat c) ∧
  dst.rep.inR (Spec.cast frm.per.toRat dst.per.toRat c + -1) = true ∧
  dst.rep.inR (Spec.floor frm.per.toRat dst.per.toRat c) = true ∧
  dst.rep.inR (Spec.floor frm.per.toRat dst.per.toRat c + 1) = true ∧
  PairIn frm dst c (Spec.floor frm.per.toRat dst.per.toRat c) ∧ (cdTy frm dst).rep.inR (lowDiff dst frm c) = true ∧
  PairIn dst frm (Spec.floor frm.per.toRat dst.per.toRat c + 1) c ∧ (cdTy dst frm).rep.inR (highDiff dst frm c) = true ∧
  PairIn (cdTy frm dst) (cdTy dst frm) (lowDiff dst frm c) (highDiff dst frm c) ∧
  PairIn (cdTy dst frm) (cdTy frm dst) (highDiff dst frm c) (lowDiff dst frm c)
instance (dst frm : DurTy) (c : Int) : Decidable (RoundIn dst frm c) := by unfold RoundIn; infer_instance

/-- `round<To>(d)` is the integer nearest to the exact quotient `c · p / q`, ties to the even integer; no intermediate overflows. -/
theorem round_eq (dst frm : DurTy) (h : RoundTyOk dst frm) (c : Int) (hin : RoundIn dst frm c) :
    roundTo dst frm c = .ok (Spec.round frm.per.toRat dst.per.toRat c) := by
  obtain ⟨hct, hfd, hdf, hdd, hco, hlh, hhl⟩ := h
  obtain ⟨i1, i2, i3, i4, i5, i6, i7, i8, i9, i10, i11⟩ := hin
  have hpd : PerOk dst.per := hct.2.2.2.1
  have hpf : PerOk frm.per := hct.2.2.1
  have hrd : RepOk dst.rep := hct.1
  have hQ := toRat_pos dst.per hpd
  -- static context
  have hctx : roundCtx dst frm = .ok ⟨⟨dst, castK dst frm, pairK frm dst⟩, pairK dst dst, castK dst dst, pairK frm dst,
      pairK dst frm, pairK (cdTy frm dst) (cdTy dst frm), pairK (cdTy dst frm) (cdTy frm dst)⟩ := by
    unfold roundCtx
    rw [floorCtx_eq dst frm hct hfd, pairCtx_eq dst dst hdd.1 hdd.2.1 hdd.2.2.1 hdd.2.2.2.1 hdd.2.2.2.2]
    simp only [bind, Except.bind]
    have e : (pairK dst dst).cd = dst := cdTy_self dst hpd hco
    rw [e]
    have hself : DivOk dst.per dst.per := by
      have := hdd.2.2.2.2.2.1
      rwa [cdPer_self _ hpd hco] at this
    rw [castCtx_eq dst dst hrd hrd hpd hpd hself,
      pairCtx_eq frm dst hfd.1 hfd.2.1 hfd.2.2.1 hfd.2.2.2.1 hfd.2.2.2.2,
      pairCtx_eq dst frm hdf.1 hdf.2.1 hdf.2.2.1 hdf.2.2.2.1 hdf.2.2.2.2]
    simp only
    have e1 : (pairK frm dst).cd = cdTy frm dst := rfl
    have e2 : (pairK dst frm).cd = cdTy dst frm := rfl
    rw [e1, e2, pairCtx_eq _ _ hlh.1 hlh.2.1 hlh.2.2.1 hlh.2.2.2.1 hlh.2.2.2.2,
      pairCtx_eq _ _ hhl.1 hhl.2.1 hhl.2.2.1 hhl.2.2.2.1 hhl.2.2.2.2]
    rfl
  -- run-time steps
  have s1 := floorCore_spec dst frm hct hfd c i1 i2 (fun _ => i3)
  have h1r : dst.rep.inR 1 = true := by
    obtain ⟨hs, h1, h2⟩ := hrd
    rw [inR_iff]; unfold ITy.min ITy.max; simp only [hs, if_true]
    have : (2:Int) ^ 31 ≤ 2 ^ (dst.rep.w - 1) := pow_mono _ _ (by omega)
    have : (2:Int) ^ 31 = 2147483648 := by norm_num
    omega
  have c1 : dst.rep.conv 1 = 1 := conv_of_inR _ (repOk_w hrd) _ h1r
  have cv : ∀ x : Int, dst.rep.inR x = true → convertCore ⟨dst.rep, imax, ⟨1, 1⟩⟩ x = .ok x := by
    intro x hx
    have := convertCore_eq dst.rep hrd 1 (by decide) (by decide) x (repOk_sub hrd x hx) (by rwa [Int.mul_one])
    rwa [Int.mul_one] at this
  have s2 : addCore (pairK dst dst) (Spec.floor frm.per.toRat dst.per.toRat c) (dst.rep.conv 1)
      = .ok (Spec.floor frm.per.toRat dst.per.toRat c + 1) := by
    rw [pairK_self dst hpd hco, c1]
    simp only [addCore, cv _ i4, cv _ h1r, bind, Except.bind]
    rw [repOk_promote hrd, arith_ok _ (repOk_w hrd) _ i5]
    simp only [mkCD_id _ hrd _ i5]
  have s3 : convertCore (castK dst dst) (Spec.floor frm.per.toRat dst.per.toRat c + 1)
      = .ok (Spec.floor frm.per.toRat dst.per.toRat c + 1) := by
    rw [castK_self dst hpd]; exact cv _ i5
  have s4 := subCore_spec frm dst hfd c _ i6 i7
  have s5 := subCore_spec dst frm hdf _ c i8 i9
  have s6 := ltCore_spec _ _ hlh _ _ i10
  have s7 := ltCore_spec _ _ hhl _ _ i11
  unfold roundTo
  rw [hctx]
  simp only [bind, Except.bind, roundCore, s1, s2, s3]
  have e4 : subCore (pairK frm dst) c (Spec.floor frm.per.toRat dst.per.toRat c) = .ok (lowDiff dst frm c) := s4
  have e5 : subCore (pairK dst frm) (Spec.floor frm.per.toRat dst.per.toRat c + 1) c = .ok (highDiff dst frm c) := s5
  simp only [e4, e5, s6, s7]
  -- the two comparisons, in ℚ
  obtain ⟨a1, a2, hcp, _⟩ := mul_rat frm.per dst.per hpf hpd hfd.2.2.2.2.1
  obtain ⟨b1, b2, hcp', _⟩ := mul_rat dst.per frm.per hpd hpf hdf.2.2.2.2.1
  have hcomm : (cdPer dst.per frm.per) = (cdPer frm.per dst.per) := cdPer_comm _ _
  rw [hcomm] at b1 b2
  have pL : (cdTy frm dst).per.toRat = (cdPer frm.per dst.per).toRat := rfl
  have pH : (cdTy dst frm).per.toRat = (cdPer frm.per dst.per).toRat := by show (cdPer dst.per frm.per).toRat = _; rw [hcomm]
  set CP := (cdPer frm.per dst.per).toRat with hCP
  set X := Spec.val frm.per.toRat c / dst.per.toRat with hX
  have hfl : Spec.floor frm.per.toRat dst.per.toRat c = ⌊X⌋ := rfl
  set f := Spec.floor frm.per.toRat dst.per.toRat c with hf
  have hXQ : X * dst.per.toRat = (c : ℚ) * frm.per.toRat := by
    rw [hX]; unfold Spec.val; field_simp
  have vL : (lowDiff dst frm c : ℚ) * CP = (c : ℚ) * frm.per.toRat - (f : ℚ) * dst.per.toRat := by
    have e : lowDiff dst frm c = c * mulL frm.per dst.per - f * mulR frm.per dst.per := rfl
    rw [e]; push_cast; linear_combination (c : ℚ) * a1 - (f : ℚ) * a2
  have vH : (highDiff dst frm c : ℚ) * CP = ((f : ℚ) + 1) * dst.per.toRat - (c : ℚ) * frm.per.toRat := by
    have e : highDiff dst frm c = (f + 1) * mulL dst.per frm.per - c * mulR dst.per frm.per := rfl
    rw [e]; push_cast; linear_combination ((f : ℚ) + 1) * b1 - (c : ℚ) * b2
  have hA : Spec.lt (cdTy frm dst).per.toRat (cdTy dst frm).per.toRat (lowDiff dst frm c) (highDiff dst frm c) = true
      ↔ X - f < 1 / 2 := by
    unfold Spec.lt Spec.val
    rw [decide_eq_true_eq, pL, pH, vL, vH, ← hXQ]
    constructor
    · intro hh; nlinarith
    · intro hh; nlinarith
  have hB : Spec.lt (cdTy dst frm).per.toRat (cdTy frm dst).per.toRat (highDiff dst frm c) (lowDiff dst frm c) = true
      ↔ 1 / 2 < X - f := by
    unfold Spec.lt Spec.val
    rw [decide_eq_true_eq, pL, pH, vL, vH, ← hXQ]
    constructor
    · intro hh; nlinarith
    · intro hh; nlinarith
  have key := roundEven_cases X f hfl _ _ hA hB
  unfold Spec.round
  rw [← key]
  simp only [Bool.decide_eq_true]
  split <;> [rfl; (split <;> [rfl; (split <;> rfl)])]


/-! ## abs, unary minus, compound assignments -/

/-- `abs(d)`: the absolute value, whenever `-c` is representable. -/
theorem abs_eq (t : DurTy) (hr : RepOk t.rep) (hp : PerOk t.per) (hco : Coprime t.per) (hdiv : DivOk t.per t.per)
    (c : Int) (hc : t.rep.inR c = true) (hn : t.rep.inR (-c) = true) :
    absD t c = .ok (Spec.abs c) := by
  have hl : ((Int.lcm t.per.den t.per.den : Nat) : Int) ≤ imax.max := by
    rw [Int.lcm_self]; have := hp.2.1; have := hp.2.2.2; omega
  have hcomm : CommonOk t.per t.per := by
    unfold CommonOk; rw [cdPer_self _ hp hco]; exact ⟨hl, hdiv, hdiv⟩
  have hctx : absCtx t = .ok ⟨t, pairK t t, castK t t⟩ := by
    unfold absCtx
    rw [pairCtx_eq t t hr hr hp hp hcomm]
    simp only [bind, Except.bind]
    have e : (pairK t t).cd = t := cdTy_self t hp hco
    rw [e, castCtx_eq t t hr hr hp hp hdiv]
    rfl
  have h0 : t.rep.inR 0 = true := by
    have := min_max_zero t.rep; rw [inR_iff]; exact this
  have c0 : t.rep.conv 0 = 0 := conv_of_inR _ (repOk_w hr) _ h0
  have cv : ∀ x : Int, t.rep.inR x = true → convertCore ⟨t.rep, imax, ⟨1, 1⟩⟩ x = .ok x := by
    intro x hx
    have := convertCore_eq t.rep hr 1 (by decide) (by decide) x (repOk_sub hr x hx) (by rwa [Int.mul_one])
    rwa [Int.mul_one] at this
  unfold absD
  rw [hctx]
  simp only [bind, Except.bind, absCore, c0, pairK_self t hp hco, castK_self t hp, ltCore, subCore, cv _ hc, cv _ h0]
  unfold Spec.abs
  by_cases hneg : c < 0
  · simp only [hneg, decide_true, if_true]
    have hn' : t.rep.inR (0 - c) = true := by rw [Int.zero_sub]; exact hn
    rw [repOk_promote hr, arith_ok _ (repOk_w hr) _ hn']
    simp only [mkCD_id _ hr _ hn', cv _ hn']
    congr 1; omega
  · simp only [hneg, decide_false, Bool.false_eq_true, if_false]
    congr 1; omega

/-- unary minus -/
theorem neg_eq (t : DurTy) (hr : RepOk t.rep) (c : Int) (hn : t.rep.inR (-c) = true) : neg t c = .ok (-c) := by
  unfold neg
  rw [repOk_promote hr, arith_ok _ (repOk_w hr) _ hn]
  simp only [bind, Except.bind, conv_of_inR _ (repOk_w hr) _ hn]

/-- unary `+`: the conversion to `common_type_t<duration>` (the same representation, the period in lowest terms) keeps the count. -/
theorem pos_eq (t : DurTy) (hr : RepOk t.rep) (hp : PerOk t.per) (hco : Coprime t.per) (hdiv : DivOk t.per t.per)
    (c : Int) (hc : t.rep.inR c = true) : pos t c = .ok c := by
  have hl : ((Int.lcm t.per.den t.per.den : Nat) : Int) ≤ imax.max := by
    rw [Int.lcm_self]; have := hp.2.1; have := hp.2.2.2; omega
  have hctx : posCtx t = .ok ⟨t.rep, imax, ⟨1, 1⟩⟩ := by
    unfold posCtx
    rw [commonTy_eq t t hp hp hl]
    simp only [bind, Except.bind, cdTy_self t hp hco]
    rw [castCtx_eq t t hr hr hp hp hdiv, (cf_self _ hp).1, (cf_self _ hp).2]
  unfold pos
  rw [hctx]
  simp only [bind, Except.bind]
  have := convertCore_eq t.rep hr 1 (by decide) (by decide) c (repOk_sub hr c hc) (by rwa [Int.mul_one])
  rwa [Int.mul_one] at this

-- non-vacuity (test on a sample)
example : pos ⟨i32, ⟨1001, 30000⟩⟩ (-2147483648) = .ok (-2147483648) :=
  pos_eq _ (by decide) (by decide) (by decide +kernel) (by decide) _ (by decide)

/-- `+=`, `++` (duration and time_point): exact sum when representable -/
theorem addAssign_eq (t : DurTy) (hr : RepOk t.rep) (c d : Int) (h : t.rep.inR (c + d) = true) :
    addAssign t c d = .ok (c + d) := by
  unfold addAssign
  rw [repOk_promote hr, arith_ok _ (repOk_w hr) _ h]
  simp only [bind, Except.bind, conv_of_inR _ (repOk_w hr) _ h]

/-- `-=`, `--` -/
theorem subAssign_eq (t : DurTy) (hr : RepOk t.rep) (c d : Int) (h : t.rep.inR (c - d) = true) :
    subAssign t c d = .ok (c - d) := by
  unfold subAssign
  rw [repOk_promote hr, arith_ok _ (repOk_w hr) _ h]
  simp only [bind, Except.bind, conv_of_inR _ (repOk_w hr) _ h]

/-- `*=` by a tick count -/
theorem mulAssign_eq (t : DurTy) (hr : RepOk t.rep) (c d : Int) (h : t.rep.inR (c * d) = true) :
    mulAssign t c d = .ok (c * d) := by
  unfold mulAssign
  rw [repOk_promote hr, arith_ok _ (repOk_w hr) _ h]
  simp only [bind, Except.bind, conv_of_inR _ (repOk_w hr) _ h]

/-- `/=` by a tick count is `duration / rep` on the representation of the duration itself. -/
theorem divAssign_eq (t : DurTy) (hr : RepOk t.rep) (hp : PerOk t.per) (c d : Int) (hc : t.rep.inR c = true)
    (hd : t.rep.inR d = true) (hd0 : d ≠ 0) (hex : ¬ (c = t.rep.min ∧ d = -1)) :
    divAssign t c d = .ok (Spec.divRep t.per.toRat c d) := by
  have hq := tdiv_inR _ (repOk_w hr) _ _ hc hd hd0 (fun hh => hex ⟨hh.2.1, hh.2.2⟩)
  unfold divAssign
  rw [repOk_promote hr, cdiv_ok _ _ _ hd0 hex]
  simp only [bind, Except.bind, spec_divRep _ (toRat_pos _ hp) _ _ hd0]
  exact congrArg Except.ok (conv_of_inR _ (repOk_w hr) _ hq)

-- non-vacuity (test on a sample)
example : divAssign ⟨i32, ⟨1, 1000⟩⟩ (-7) 2 = .ok (-3) := by
  rw [divAssign_eq _ (by decide) (by decide) _ _ (by decide) (by decide) (by decide) (by decide)]
  decide +kernel

/-- `%=` by a tick count (and by a duration of the same type: `_rep %= rhs.count()`). -/
theorem modAssign_eq (t : DurTy) (hr : RepOk t.rep) (hp : PerOk t.per) (c d : Int) (hc : t.rep.inR c = true)
    (hd0 : d ≠ 0) (hex : ¬ (c = t.rep.min ∧ d = -1)) :
    modAssign t c d = .ok (Spec.modRep t.per.toRat c d) := by
  have hm := tmod_inR _ c d hc
  unfold modAssign
  rw [repOk_promote hr, cmod_ok _ _ _ hd0 hex]
  simp only [bind, Except.bind, spec_modRep _ (toRat_pos _ hp) _ _ hd0]
  exact congrArg Except.ok (conv_of_inR _ (repOk_w hr) _ hm)

-- non-vacuity (test on a sample)
example : modAssign ⟨i32, ⟨1, 1000⟩⟩ (-7) 2 = .ok (-1) := by
  rw [modAssign_eq _ (by decide) (by decide) _ _ (by decide) (by decide) (by decide)]
  decide +kernel

/-! ## duration / duration, duration % duration -/

/-- `duration / duration`: the truncated quotient of the two exact values; the divisor is non-zero and the quotient
    `min / -1` (not representable) is excluded. -/
theorem div_eq (a b : DurTy) (h : PairTyOk a b) (x y : Int) (hin : PairIn a b x y) (hy0 : y ≠ 0)
    (hex : ¬ (x * mulL a.per b.per = (cdTy a b).rep.min ∧ y * mulR a.per b.per = -1)) :
    div a b x y = .ok (Spec.div a.per.toRat b.per.toRat x y) := by
  obtain ⟨c1, c2⟩ := both_common a b h x y hin
  have hcd := cd_repOk h
  obtain ⟨ha, hb, hpa, hpb, hc⟩ := h
  obtain ⟨e1, e2, hpos, m1, m2, _⟩ := mul_rat a.per b.per hpa hpb hc.1
  have hr0 : y * mulR a.per b.per ≠ 0 := Int.mul_ne_zero hy0 (by omega)
  unfold div
  rw [pairCtx_eq a b ha hb hpa hpb hc]
  simp only [bind, Except.bind, divCore, c1, c2]
  have ecd : (pairK a b).cd = cdTy a b := rfl
  rw [ecd, repOk_promote hcd, cdiv_ok _ _ _ hr0 hex]
  have hq := tdiv_inR _ (repOk_w hcd) _ _ hin.2.2.1 hin.2.2.2 hr0 (fun hh => hex ⟨hh.2.1, hh.2.2⟩)
  simp only [conv_of_inR _ (repOk_w hcd) _ hq]
  congr 1
  rw [tdiv_trunc' _ _ hr0]
  unfold Spec.div Spec.val
  congr 1
  rw [← e1, ← e2]
  push_cast
  have hne : (cdPer a.per b.per).toRat ≠ 0 := ne_of_gt hpos
  have hrq : ((y : ℚ) * (mulR a.per b.per : ℚ)) ≠ 0 := by exact_mod_cast hr0
  field_simp

/-- `duration % duration`: no trap, and the remainder denotes exactly `d1 - (d1 / d2) · d2`. -/
theorem mod_exact (a b : DurTy) (h : PairTyOk a b) (x y : Int) (hin : PairIn a b x y) (hy0 : y ≠ 0)
    (hex : ¬ (x * mulL a.per b.per = (cdTy a b).rep.min ∧ y * mulR a.per b.per = -1)) :
    ∃ r, mod a b x y = .ok r ∧
      (r : ℚ) * (cdTy a b).per.toRat =
        Spec.val a.per.toRat x - (Spec.div a.per.toRat b.per.toRat x y : ℚ) * Spec.val b.per.toRat y := by
  have hdiv := div_eq a b h x y hin hy0 hex
  obtain ⟨c1, c2⟩ := both_common a b h x y hin
  have hcd := cd_repOk h
  obtain ⟨ha, hb, hpa, hpb, hc⟩ := h
  obtain ⟨e1, e2, hpos, m1, m2, _⟩ := mul_rat a.per b.per hpa hpb hc.1
  have hr0 : y * mulR a.per b.per ≠ 0 := Int.mul_ne_zero hy0 (by omega)
  have ecd : (pairK a b).cd = cdTy a b := rfl
  -- the quotient the model computes is Spec.div
  have hq : Int.tdiv (x * mulL a.per b.per) (y * mulR a.per b.per) = Spec.div a.per.toRat b.per.toRat x y := by
    unfold div at hdiv
    rw [pairCtx_eq a b ha hb hpa hpb hc] at hdiv
    simp only [bind, Except.bind, divCore, c1, c2] at hdiv
    rw [ecd, repOk_promote hcd, cdiv_ok _ _ _ hr0 hex] at hdiv
    have hq' := tdiv_inR _ (repOk_w hcd) _ _ hin.2.2.1 hin.2.2.2 hr0 (fun hh => hex ⟨hh.2.1, hh.2.2⟩)
    simp only [conv_of_inR _ (repOk_w hcd) _ hq'] at hdiv
    exact Except.ok.inj hdiv
  -- |l % r| ≤ |l| : representable
  have hm : (cdTy a b).rep.inR (Int.tmod (x * mulL a.per b.per) (y * mulR a.per b.per)) = true := by
    have hl := hin.2.2.1
    rw [inR_iff] at hl ⊢
    have hmm := min_max_zero (cdTy a b).rep
    generalize x * mulL a.per b.per = l at *
    generalize y * mulR a.per b.per = r at *
    rcases Int.le_total 0 l with h0 | h0
    · have := Int.tmod_nonneg r h0
      have : Int.tmod l r ≤ l := tmod_le_self l r h0
      omega
    · have h1 : Int.tmod (-l) r = -(Int.tmod l r) := Int.neg_tmod ..
      have := Int.tmod_nonneg r (by omega : 0 ≤ -l)
      have : Int.tmod (-l) r ≤ -l := tmod_le_self (-l) r (by omega)
      omega
  refine ⟨Int.tmod (x * mulL a.per b.per) (y * mulR a.per b.per), ?_, ?_⟩
  · unfold mod
    rw [pairCtx_eq a b ha hb hpa hpb hc]
    simp only [bind, Except.bind, modCore, c1, c2]
    rw [ecd, repOk_promote hcd, cmod_ok _ _ _ hr0 hex]
    simp only [mkCD_id _ hcd _ hm]
  · rw [← hq]
    have hdef : Int.tmod (x * mulL a.per b.per) (y * mulR a.per b.per)
        = x * mulL a.per b.per - (y * mulR a.per b.per) * Int.tdiv (x * mulL a.per b.per) (y * mulR a.per b.per) := by
      have := Int.tmod_add_mul_tdiv (x * mulL a.per b.per) (y * mulR a.per b.per)
      omega
    rw [hdef]
    unfold Spec.val
    have pe : (cdTy a b).per.toRat = (cdPer a.per b.per).toRat := rfl
    rw [pe, ← e1, ← e2]
    push_cast
    ring


/-! ## duration and a tick count: `d * s`, `s * d`, `d / s`, `d % s` -/

/-- run-time precondition of `d * s`: the count and the scalar are values of their types and the exact product is
    representable in `common_type_t<Rep1, Rep2>` -/
def MulIn (d : DurTy) (rs : ITy) (c s : Int) : Prop :=
  d.rep.inR c = true ∧ rs.inR s = true ∧ (ITy.common d.rep rs).inR (c * s) = true
instance (d : DurTy) (rs : ITy) (c s : Int) : Decidable (MulIn d rs c s) := by unfold MulIn; infer_instance

/-- run-time precondition of `d / s` and `d % s`: the divisor is non-zero and the quotient is not `min / -1` -/
def DivIn (d : DurTy) (rs : ITy) (c s : Int) : Prop :=
  d.rep.inR c = true ∧ rs.inR s = true ∧ s ≠ 0 ∧ ¬ (c = (ITy.common d.rep rs).min ∧ s = -1)
instance (d : DurTy) (rs : ITy) (c s : Int) : Decidable (DivIn d rs c s) := by unfold DivIn; infer_instance

/-- `duration * rep` and `rep * duration`: no overflow, and the result is `s` times as long: `c · s` ticks of the same
    period, in the representation `common_type_t<Rep1, Rep2>`. -/
theorem mulRep_exact (d : DurTy) (rs : ITy) (h : ScalarTyOk d rs) (c s : Int) (hin : MulIn d rs c s) :
    mulRep d rs c s = .ok (Spec.mulRep d.per.toRat c s) ∧ repMul rs d s c = .ok (Spec.mulRep d.per.toRat c s) ∧
      Spec.val d.per.toRat (Spec.mulRep d.per.toRat c s) = Spec.val d.per.toRat c * s := by
  obtain ⟨hc, hs, hprod⟩ := hin
  obtain ⟨o1, o2, o3, o4⟩ := scalar_operands d rs h c s hc hs
  have hcr := (common_repOk h.1 h.2.1).1
  have hpos := toRat_pos d.per h.2.2.1
  have key : mulRep d rs c s = .ok (Spec.mulRep d.per.toRat c s) := by
    unfold mulRep
    rw [scalarCtx_eq d rs h]
    simp only [bind, Except.bind, mulRepCore, o1, o2, o3, o4]
    rw [arith_ok _ (repOk_w hcr) _ hprod]
    simp only [spec_mulRep _ hpos]
    exact congrArg Except.ok (conv_of_inR _ (repOk_w hcr) _ hprod)
  refine ⟨key, key, ?_⟩
  rw [spec_mulRep _ hpos]
  unfold Spec.val; push_cast; ring

-- non-vacuity (kernel-evaluated samples: tests): int32 ticks of 1001/30000 s times an int64 scalar -> int64 ticks
example : ScalarTyOk ⟨i32, ⟨1001, 30000⟩⟩ i64 ∧ MulIn ⟨i32, ⟨1001, 30000⟩⟩ i64 (-2147483647) 3 := by decide +kernel
example : mulRep ⟨i32, ⟨1001, 30000⟩⟩ i64 (-2147483647) 3 = .ok (-6442450941) := by
  rw [(mulRep_exact _ _ (by decide +kernel) _ _ (by decide +kernel)).1]
  decide +kernel

/-- `duration / rep`: no trap, and the result is the value divided by `s`, truncated toward zero to whole ticks. -/
theorem divRep_exact (d : DurTy) (rs : ITy) (h : ScalarTyOk d rs) (c s : Int) (hin : DivIn d rs c s) :
    divRep d rs c s = .ok (Spec.divRep d.per.toRat c s) := by
  obtain ⟨hc, hs, hs0, hex⟩ := hin
  obtain ⟨o1, o2, o3, o4⟩ := scalar_operands d rs h c s hc hs
  have hcr := (common_repOk h.1 h.2.1).1
  have hpos := toRat_pos d.per h.2.2.1
  have hc' := inR_sub_common h.1 h.2.1 c hc
  have hs' := inR_sub_common_r h.1 h.2.1 s hs
  have hq := tdiv_inR _ (repOk_w hcr) _ _ hc' hs' hs0 (fun hh => hex ⟨hh.2.1, hh.2.2⟩)
  unfold divRep
  rw [scalarCtx_eq d rs h]
  simp only [bind, Except.bind, divRepCore, o1, o2, o3, o4]
  rw [cdiv_ok _ _ _ hs0 hex]
  simp only [spec_divRep _ hpos _ _ hs0]
  exact congrArg Except.ok (conv_of_inR _ (repOk_w hcr) _ hq)

-- non-vacuity (test on a sample): -7 ticks of 5/7 s (int64) / int32 2
example : ScalarTyOk ⟨i64, ⟨5, 7⟩⟩ i32 ∧ DivIn ⟨i64, ⟨5, 7⟩⟩ i32 (-7) 2 := by decide +kernel
example : divRep ⟨i64, ⟨5, 7⟩⟩ i32 (-7) 2 = .ok (-3) := by
  rw [divRep_exact _ _ (by decide +kernel) _ _ (by decide +kernel)]
  decide +kernel

/-- `duration % rep`: no trap, and the result is exactly what the division leaves over: `d - (d / s) · s`. -/
theorem modRep_exact (d : DurTy) (rs : ITy) (h : ScalarTyOk d rs) (c s : Int) (hin : DivIn d rs c s) :
    modRep d rs c s = .ok (Spec.modRep d.per.toRat c s) ∧
      Spec.val d.per.toRat (Spec.modRep d.per.toRat c s) =
        Spec.val d.per.toRat c - Spec.val d.per.toRat (Spec.divRep d.per.toRat c s) * s := by
  obtain ⟨hc, hs, hs0, hex⟩ := hin
  obtain ⟨o1, o2, o3, o4⟩ := scalar_operands d rs h c s hc hs
  have hcr := (common_repOk h.1 h.2.1).1
  have hpos := toRat_pos d.per h.2.2.1
  have hc' := inR_sub_common h.1 h.2.1 c hc
  have hm := tmod_inR _ c s hc'
  constructor
  · unfold modRep
    rw [scalarCtx_eq d rs h]
    simp only [bind, Except.bind, modRepCore, o1, o2, o3, o4]
    rw [cmod_ok _ _ _ hs0 hex]
    simp only [spec_modRep _ hpos _ _ hs0]
    exact congrArg Except.ok (conv_of_inR _ (repOk_w hcr) _ hm)
  · rw [spec_modRep _ hpos _ _ hs0, spec_divRep _ hpos _ _ hs0]
    have hdef : Int.tmod c s = c - s * Int.tdiv c s := by
      have := Int.tmod_add_mul_tdiv c s
      omega
    rw [hdef]
    unfold Spec.val; push_cast; ring

-- non-vacuity (test on a sample)
example : modRep ⟨i64, ⟨5, 7⟩⟩ i32 (-7) 2 = .ok (-1) := by
  rw [(modRep_exact _ _ (by decide +kernel) _ _ (by decide +kernel)).1]
  decide +kernel

/-! ## time_point and duration -/

/-- `time_point + duration` and `duration + time_point`: no overflow, and the distance of the result from the epoch is
    exactly the sum of the two values (in ticks of the common period). -/
theorem tpPlus_exact (a b : DurTy) (h : PairTyOk a b) (x y : Int) (hin : PairIn a b x y)
    (hsum : (cdTy a b).rep.inR (x * mulL a.per b.per + y * mulR a.per b.per) = true) :
    ∃ r, tpPlus a b x y = .ok r ∧ durPlusTp b a y x = .ok r ∧
      (r : ℚ) * (cdTy a b).per.toRat = Spec.val a.per.toRat x + Spec.val b.per.toRat y := by
  obtain ⟨r, h1, h2⟩ := add_exact a b h x y hin hsum
  exact ⟨r, h1, h1, h2⟩

-- non-vacuity (tests on a sample): 2 minutes (int32) after the epoch plus / minus 5 thirds of a second (int64): 365 / 355 thirds
example : PairTyOk ⟨i32, ⟨60, 1⟩⟩ ⟨i64, ⟨1, 3⟩⟩ ∧ PairIn ⟨i32, ⟨60, 1⟩⟩ ⟨i64, ⟨1, 3⟩⟩ 2 5 ∧
    (cdTy ⟨i32, ⟨60, 1⟩⟩ ⟨i64, ⟨1, 3⟩⟩).rep.inR (2 * mulL ⟨60, 1⟩ ⟨1, 3⟩ + 5 * mulR ⟨60, 1⟩ ⟨1, 3⟩) = true ∧
    (cdTy ⟨i32, ⟨60, 1⟩⟩ ⟨i64, ⟨1, 3⟩⟩).rep.inR (2 * mulL ⟨60, 1⟩ ⟨1, 3⟩ - 5 * mulR ⟨60, 1⟩ ⟨1, 3⟩) = true := by decide +kernel
example : ∃ r, tpPlus ⟨i32, ⟨60, 1⟩⟩ ⟨i64, ⟨1, 3⟩⟩ 2 5 = .ok r ∧ (r : ℚ) * (1 / 3) = 2 * 60 + 5 * (1 / 3) := by
  obtain ⟨r, h1, _, h2⟩ := tpPlus_exact ⟨i32, ⟨60, 1⟩⟩ ⟨i64, ⟨1, 3⟩⟩ (by decide +kernel) 2 5 (by decide +kernel) (by decide +kernel)
  refine ⟨r, h1, ?_⟩
  have e : (cdTy ⟨i32, ⟨60, 1⟩⟩ ⟨i64, ⟨1, 3⟩⟩).per.toRat = 1 / 3 := by
    have : (cdTy ⟨i32, ⟨60, 1⟩⟩ ⟨i64, ⟨1, 3⟩⟩).per = ⟨1, 3⟩ := by decide +kernel
    rw [this]; unfold Ratio.toRat; norm_num
  rw [e] at h2
  rw [h2]; unfold Spec.val Ratio.toRat; norm_num

/-- `time_point - duration`: no overflow, exact difference. -/
theorem tpMinus_exact (a b : DurTy) (h : PairTyOk a b) (x y : Int) (hin : PairIn a b x y)
    (hdiff : (cdTy a b).rep.inR (x * mulL a.per b.per - y * mulR a.per b.per) = true) :
    ∃ r, tpMinus a b x y = .ok r ∧
      (r : ℚ) * (cdTy a b).per.toRat = Spec.val a.per.toRat x - Spec.val b.per.toRat y :=
  sub_exact a b h x y hin hdiff

example : ∃ r, tpMinus ⟨i32, ⟨60, 1⟩⟩ ⟨i64, ⟨1, 3⟩⟩ 2 5 = .ok r ∧ (r : ℚ) * (cdTy ⟨i32, ⟨60, 1⟩⟩ ⟨i64, ⟨1, 3⟩⟩).per.toRat = 2 * 60 - 5 * (1 / 3) := by
  obtain ⟨r, h1, h2⟩ := tpMinus_exact ⟨i32, ⟨60, 1⟩⟩ ⟨i64, ⟨1, 3⟩⟩ (by decide +kernel) 2 5 (by decide +kernel) (by decide +kernel)
  refine ⟨r, h1, ?_⟩
  rw [h2]; unfold Spec.val Ratio.toRat; norm_num

/-- `time_point - time_point`: the duration between the two points is exactly the difference of their distances from the
    epoch. -/
theorem tpDiff_exact (a b : DurTy) (h : PairTyOk a b) (x y : Int) (hin : PairIn a b x y)
    (hdiff : (cdTy a b).rep.inR (x * mulL a.per b.per - y * mulR a.per b.per) = true) :
    ∃ r, tpDiff a b x y = .ok r ∧
      (r : ℚ) * (cdTy a b).per.toRat = Spec.val a.per.toRat x - Spec.val b.per.toRat y :=
  sub_exact a b h x y hin hdiff

example : ∃ r, tpDiff ⟨i32, ⟨60, 1⟩⟩ ⟨i64, ⟨1, 3⟩⟩ 2 5 = .ok r ∧ (r : ℚ) * (cdTy ⟨i32, ⟨60, 1⟩⟩ ⟨i64, ⟨1, 3⟩⟩).per.toRat = 2 * 60 - 5 * (1 / 3) := by
  obtain ⟨r, h1, h2⟩ := tpDiff_exact ⟨i32, ⟨60, 1⟩⟩ ⟨i64, ⟨1, 3⟩⟩ (by decide +kernel) 2 5 (by decide +kernel) (by decide +kernel)
  refine ⟨r, h1, ?_⟩
  rw [h2]; unfold Spec.val Ratio.toRat; norm_num


/-! ## non-vacuity of the hypotheses (kernel-evaluated on samples: tests, not proofs of anything general) -/

/-- milliseconds (int32) and ticks of 1001/30000 s (int64): every static precondition used above holds -/
example : PairTyOk ⟨i32, ⟨1, 1000⟩⟩ ⟨i64, ⟨1001, 30000⟩⟩ ∧ PairTyOk ⟨i64, ⟨1001, 30000⟩⟩ ⟨i32, ⟨1, 1000⟩⟩ ∧
    CastTyOk ⟨i32, ⟨1, 1000⟩⟩ ⟨i64, ⟨1001, 30000⟩⟩ := by decide +kernel

/-- the run-time preconditions on a negative, non-integral quotient: -7 ticks of 1001/30000 s = -233.5666… ms -/
example : PairIn ⟨i64, ⟨1001, 30000⟩⟩ ⟨i32, ⟨1, 1000⟩⟩ (-7) (-233) ∧ PairIn ⟨i32, ⟨1, 1000⟩⟩ ⟨i64, ⟨1001, 30000⟩⟩ (-233) (-7) ∧
    CastIn ⟨i32, ⟨1, 1000⟩⟩ ⟨i64, ⟨1001, 30000⟩⟩ (-7) := by decide +kernel

/-- the theorems instantiated there: floor = -234, ceil = -233, `-7 ticks < -233 ms` -/
example : floorTo ⟨i32, ⟨1, 1000⟩⟩ ⟨i64, ⟨1001, 30000⟩⟩ (-7) = .ok (-234) := by
  rw [floor_eq _ _ (by decide +kernel) (by decide +kernel) _ (by decide +kernel) (by decide +kernel) (fun _ => by decide +kernel)]
  decide +kernel
example : ceilTo ⟨i32, ⟨1, 1000⟩⟩ ⟨i64, ⟨1001, 30000⟩⟩ (-7) = .ok (-233) := by
  rw [ceil_eq _ _ (by decide +kernel) (by decide +kernel) _ (by decide +kernel) (by decide +kernel) (fun _ => by decide +kernel)]
  decide +kernel
example : lt ⟨i64, ⟨1001, 30000⟩⟩ ⟨i32, ⟨1, 1000⟩⟩ (-7) (-233) = .ok true := by
  rw [lt_eq _ _ (by decide +kernel) _ _ (by decide +kernel)]
  decide +kernel

/-- non-vacuity of `round_eq` on an exact tie with a negative count (a kernel-evaluated sample, i.e. a test):
    -90 s to minutes is -1.5, which rounds to the even neighbour -2 -/
example : RoundTyOk ⟨i32, ⟨60, 1⟩⟩ ⟨i64, ⟨1, 1⟩⟩ ∧ RoundIn ⟨i32, ⟨60, 1⟩⟩ ⟨i64, ⟨1, 1⟩⟩ (-90) := by decide +kernel
example : roundTo ⟨i32, ⟨60, 1⟩⟩ ⟨i64, ⟨1, 1⟩⟩ (-90) = .ok (-2) := by
  rw [round_eq _ _ (by decide +kernel) _ (by decide +kernel)]
  decide +kernel


example : absD ⟨i32, ⟨1001, 30000⟩⟩ (-2147483647) = .ok 2147483647 := by
  rw [abs_eq _ (by decide) (by decide) (by decide +kernel) (by decide) _ (by decide) (by decide)]
  rfl


/-- `div_eq` / `mod_exact` on a sample with a negative dividend (test): -100 thirds of a second / 3 ticks of 5/7 s = trunc(-15.55…) = -15 -/
example : div ⟨i64, ⟨1, 3⟩⟩ ⟨i64, ⟨5, 7⟩⟩ (-100) 3 = .ok (-15) := by
  rw [div_eq _ _ (by decide +kernel) _ _ (by decide +kernel) (by decide) (by decide +kernel)]
  decide +kernel

end Tetl.C12.Props
