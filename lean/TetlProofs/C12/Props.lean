/-
C12 — property theorems: on the documented domain (covered representations, well-formed periods, no
intermediate overflow, exact result representable) every modelled operation returns `.ok` — no result
depends on signed overflow, a division by zero or a constructor that does not take part in overload
resolution — of exactly the value that exact rational arithmetic (`Spec`, over ℚ) prescribes.
-/
import TetlProofs.C12.Lemmas
namespace Tetl.C12.Props
open Tetl Tetl.C12 Tetl.C14

def i64 : ITy := ⟨64, true⟩
def i32 : ITy := ⟨32, true⟩

/-- `duration_cast<To>(d)` (all four `duration_cast_impl` bodies) is the exact value `c · p / q` truncated toward zero. -/
theorem durationCast_eq (dst frm : DurTy) (hto : RepOk dst.rep) (hfrm : RepOk frm.rep)
    (hp : PerOk frm.per) (hq : PerOk dst.per) (hdiv : DivOk frm.per dst.per)
    (c : Int) (hc : frm.rep.inR c = true)
    (hmul : imax.inR (c * cfN frm.per dst.per) = true)
    (hres : dst.rep.inR (Spec.cast frm.per.toRat dst.per.toRat c) = true) :
    durationCast dst frm c = .ok (Spec.cast frm.per.toRat dst.per.toRat c) := by
  obtain ⟨hN, hD, hN', hD', _⟩ := cf_facts frm.per dst.per hp hq
  unfold durationCast
  rw [castCtx_eq dst frm hto hfrm hp hq hdiv]
  simp only [bind, Except.bind]
  rw [castCore_eq dst.rep _ _ hN hD (by have := hdiv.1; omega) (by have := hdiv.2; omega) c (repOk_sub hfrm c hc) hmul,
    cast_val _ _ hp hq, conv_of_inR _ (repOk_w hto) _ hres]

-- non-vacuity (a test on one sample, not a proof of anything general): -7 ticks of 1001/30000 s as int32 milliseconds
example : durationCast ⟨i32, ⟨1, 1000⟩⟩ ⟨i64, ⟨1001, 30000⟩⟩ (-7) = .ok (-233) := by
  have h := durationCast_eq ⟨i32, ⟨1, 1000⟩⟩ ⟨i64, ⟨1001, 30000⟩⟩ (by decide) (by decide) (by decide) (by decide) (by decide)
    (-7) (by decide) (by decide)
  rw [h] <;> decide +kernel

end Tetl.C12.Props
