/-
C12 — property theorems: on the documented domain (covered representations, well-formed periods, no
intermediate overflow, exact result representable) every modelled operation returns `.ok` — no result
depends on signed overflow, a division by zero or a constructor that does not take part in overload
resolution — of exactly the value that exact rational arithmetic (`Spec`, over ℚ) prescribes.
-/
import TetlProofs.C12.Lemmas
namespace Tetl.C12.Props
open Tetl Tetl.C12 Tetl.C14

def i64 : ITy := ⟨64, true⟩
def i32 : ITy := ⟨32, true⟩

/-- `duration_cast<To>(d)` (all four `duration_cast_impl` bodies) is the exact value `c · p / q` truncated toward zero. -/
theorem durationCast_eq (dst frm : DurTy) (hto : RepOk dst.rep) (hfrm : RepOk frm.rep)
    (hp : PerOk frm.per) (hq : PerOk dst.per) (hdiv : DivOk frm.per dst.per)
    (c : Int) (hc : frm.rep.inR c = true)
    (hmul : imax.inR (c * cfN frm.per dst.per) = true)
    (hres : dst.rep.inR (Spec.cast frm.per.toRat dst.per.toRat c) = true) :
    durationCast dst frm c = .ok (Spec.cast frm.per.toRat dst.per.toRat c) := by
  obtain ⟨hN, hD, hN', hD', _⟩ := cf_facts frm.per dst.per hp hq
  unfold durationCast
  rw [castCtx_eq dst frm hto hfrm hp hq hdiv]
  simp only [bind, Except.bind]
  rw [castCore_eq dst.rep _ _ hN hD (by have := hdiv.1; omega) (by have := hdiv.2; omega) c (repOk_sub hfrm c hc) hmul,
    cast_val _ _ hp hq, conv_of_inR _ (repOk_w hto) _ hres]

-- non-vacuity (a test on one sample, not a proof of anything general): -7 ticks of 1001/30000 s as int32 milliseconds
example : durationCast ⟨i32, ⟨1, 1000⟩⟩ ⟨i64, ⟨1001, 30000⟩⟩ (-7) = .ok (-233) := by
  have h := durationCast_eq ⟨i32, ⟨1, 1000⟩⟩ ⟨i64, ⟨1001, 30000⟩⟩ (by decide) (by decide) (by decide) (by decide) (by decide)
    (-7) (by decide) (by decide)
  rw [h] <;> decide +kernel

/-! ## the common type and the operators that go through it -/

/-- Conversion to the common type is exact: the converting constructor takes part in overload resolution (its conversion
    factor has denominator 1: never the `.pre` error), does not overflow, and the converted count denotes the same number
    of seconds. -/
theorem common_exact (a b : DurTy) (h : PairTyOk a b) (x y : Int) (hin : PairIn a b x y) :
    ∃ k l r, pairCtx a b = .ok k ∧ k.cd = cdTy a b ∧ convertCore k.ka x = .ok l ∧ convertCore k.kb y = .ok r ∧
      (l : ℚ) * (cdTy a b).per.toRat = Spec.val a.per.toRat x ∧
      (r : ℚ) * (cdTy a b).per.toRat = Spec.val b.per.toRat y := by
  obtain ⟨c1, c2⟩ := both_common a b h x y hin
  obtain ⟨ha, hb, hpa, hpb, hc⟩ := h
  obtain ⟨e1, e2, _⟩ := mul_rat a.per b.per hpa hpb hc.1
  refine ⟨pairK a b, _, _, pairCtx_eq a b ha hb hpa hpb hc, rfl, c1, c2, ?_, ?_⟩
  · unfold Spec.val; push_cast; rw [mul_assoc]; erw [e1]
  · unfold Spec.val; push_cast; rw [mul_assoc]; erw [e2]

/-- `operator<` compares the exact values. -/
theorem lt_eq (a b : DurTy) (h : PairTyOk a b) (x y : Int) (hin : PairIn a b x y) :
    lt a b x y = .ok (Spec.lt a.per.toRat b.per.toRat x y) := by
  obtain ⟨c1, c2⟩ := both_common a b h x y hin
  obtain ⟨ha, hb, hpa, hpb, hc⟩ := h
  obtain ⟨e1, e2, hpos, _⟩ := mul_rat a.per b.per hpa hpb hc.1
  unfold lt
  rw [pairCtx_eq a b ha hb hpa hpb hc]
  simp only [bind, Except.bind, ltCore, c1, c2]
  unfold Spec.lt Spec.val
  congr 1
  rw [decide_eq_decide, ← e1, ← e2]
  constructor
  · intro hlt
    have : ((x * mulL a.per b.per : Int) : ℚ) < ((y * mulR a.per b.per : Int) : ℚ) := by exact_mod_cast hlt
    push_cast at this
    nlinarith [mul_lt_mul_of_pos_right this hpos]
  · intro hlt
    have : ((x : ℚ) * mulL a.per b.per) * (cdPer a.per b.per).toRat < ((y : ℚ) * mulR a.per b.per) * (cdPer a.per b.per).toRat := by
      nlinarith
    have := lt_of_mul_lt_mul_right this (le_of_lt hpos)
    exact_mod_cast this

end Tetl.C12.Props
