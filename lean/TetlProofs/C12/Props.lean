/-
C12 — property theorems: on the documented domain (covered representations, well-formed periods, no
intermediate overflow, exact result representable) every modelled operation returns `.ok` — no result
depends on signed overflow, a division by zero or a constructor that does not take part in overload
resolution — of exactly the value that exact rational arithmetic (`Spec`, over ℚ) prescribes.
-/
import TetlProofs.C12.Lemmas
namespace Tetl.C12.Props
open Tetl Tetl.C12 Tetl.C14

def i64 : ITy := ⟨64, true⟩
def i32 : ITy := ⟨32, true⟩

/-- `duration_cast<To>(d)` (all four `duration_cast_impl` bodies) is the exact value `c · p / q` truncated toward zero. -/
theorem durationCast_eq (dst frm : DurTy) (hto : RepOk dst.rep) (hfrm : RepOk frm.rep)
    (hp : PerOk frm.per) (hq : PerOk dst.per) (hdiv : DivOk frm.per dst.per)
    (c : Int) (hc : frm.rep.inR c = true)
    (hmul : imax.inR (c * cfN frm.per dst.per) = true)
    (hres : dst.rep.inR (Spec.cast frm.per.toRat dst.per.toRat c) = true) :
    durationCast dst frm c = .ok (Spec.cast frm.per.toRat dst.per.toRat c) := by
  obtain ⟨hN, hD, hN', hD', _⟩ := cf_facts frm.per dst.per hp hq
  unfold durationCast
  rw [castCtx_eq dst frm hto hfrm hp hq hdiv]
  simp only [bind, Except.bind]
  rw [castCore_eq dst.rep _ _ hN hD (by have := hdiv.1; omega) (by have := hdiv.2; omega) c (repOk_sub hfrm c hc) hmul,
    cast_val _ _ hp hq, conv_of_inR _ (repOk_w hto) _ hres]

-- non-vacuity (a test on one sample, not a proof of anything general): -7 ticks of 1001/30000 s as int32 milliseconds
example : durationCast ⟨i32, ⟨1, 1000⟩⟩ ⟨i64, ⟨1001, 30000⟩⟩ (-7) = .ok (-233) := by
  have h := durationCast_eq ⟨i32, ⟨1, 1000⟩⟩ ⟨i64, ⟨1001, 30000⟩⟩ (by decide) (by decide) (by decide) (by decide) (by decide)
    (-7) (by decide) (by decide)
  rw [h] <;> decide +kernel

/-! ## the common type and the operators that go through it -/

/-- Conversion to the common type is exact: the converting constructor takes part in overload resolution (its conversion
    factor has denominator 1: never the `.pre` error), does not overflow, and the converted count denotes the same number
    of seconds. -/
theorem common_exact (a b : DurTy) (h : PairTyOk a b) (x y : Int) (hin : PairIn a b x y) :
    ∃ k l r, pairCtx a b = .ok k ∧ k.cd = cdTy a b ∧ convertCore k.ka x = .ok l ∧ convertCore k.kb y = .ok r ∧
      (l : ℚ) * (cdTy a b).per.toRat = Spec.val a.per.toRat x ∧
      (r : ℚ) * (cdTy a b).per.toRat = Spec.val b.per.toRat y := by
  obtain ⟨c1, c2⟩ := both_common a b h x y hin
  obtain ⟨ha, hb, hpa, hpb, hc⟩ := h
  obtain ⟨e1, e2, _⟩ := mul_rat a.per b.per hpa hpb hc.1
  refine ⟨pairK a b, _, _, pairCtx_eq a b ha hb hpa hpb hc, rfl, c1, c2, ?_, ?_⟩
  · unfold Spec.val; push_cast; rw [mul_assoc]; erw [e1]
  · unfold Spec.val; push_cast; rw [mul_assoc]; erw [e2]

/-- `operator<` compares the exact values. -/
theorem lt_eq (a b : DurTy) (h : PairTyOk a b) (x y : Int) (hin : PairIn a b x y) :
    lt a b x y = .ok (Spec.lt a.per.toRat b.per.toRat x y) := by
  obtain ⟨c1, c2⟩ := both_common a b h x y hin
  obtain ⟨ha, hb, hpa, hpb, hc⟩ := h
  obtain ⟨e1, e2, hpos, _⟩ := mul_rat a.per b.per hpa hpb hc.1
  unfold lt
  rw [pairCtx_eq a b ha hb hpa hpb hc]
  simp only [bind, Except.bind, ltCore, c1, c2]
  unfold Spec.lt Spec.val
  congr 1
  rw [decide_eq_decide, ← e1, ← e2]
  constructor
  · intro hlt
    have : ((x * mulL a.per b.per : Int) : ℚ) < ((y * mulR a.per b.per : Int) : ℚ) := by exact_mod_cast hlt
    push_cast at this
    nlinarith [mul_lt_mul_of_pos_right this hpos]
  · intro hlt
    have : ((x : ℚ) * mulL a.per b.per) * (cdPer a.per b.per).toRat < ((y : ℚ) * mulR a.per b.per) * (cdPer a.per b.per).toRat := by
      nlinarith
    have := lt_of_mul_lt_mul_right this (le_of_lt hpos)
    exact_mod_cast this

/-- `operator==` compares the exact values. -/
theorem eq_eq (a b : DurTy) (h : PairTyOk a b) (x y : Int) (hin : PairIn a b x y) :
    eq a b x y = .ok (Spec.eq a.per.toRat b.per.toRat x y) := by
  obtain ⟨c1, c2⟩ := both_common a b h x y hin
  obtain ⟨ha, hb, hpa, hpb, hc⟩ := h
  obtain ⟨e1, e2, hpos, _⟩ := mul_rat a.per b.per hpa hpb hc.1
  unfold eq
  rw [pairCtx_eq a b ha hb hpa hpb hc]
  simp only [bind, Except.bind, eqCore, c1, c2]
  unfold Spec.eq Spec.val
  congr 1
  have hb' : ∀ u v : Int, (u == v) = decide (u = v) := by intro u v; by_cases h : u = v <;> simp [h]
  rw [hb', decide_eq_decide, ← e1, ← e2]
  constructor
  · intro heq
    have : ((x * mulL a.per b.per : Int) : ℚ) = ((y * mulR a.per b.per : Int) : ℚ) := by exact_mod_cast heq
    push_cast at this
    rw [← mul_assoc, ← mul_assoc, this]
  · intro heq
    have h2 : ((x : ℚ) * mulL a.per b.per) * (cdPer a.per b.per).toRat = ((y : ℚ) * mulR a.per b.per) * (cdPer a.per b.per).toRat := by
      rw [mul_assoc, mul_assoc]; exact heq
    have := mul_right_cancel₀ (ne_of_gt hpos) h2
    exact_mod_cast this

/-- The derived comparisons: `!=` is `!(==)`, `<=` is `!(rhs < lhs)`, `>` is `rhs < lhs`, `>=` is `!(lhs < rhs)`,
    all on the exact values (`PairIn b a y x` is the same requirement with the roles exchanged). -/
theorem cmp_derived_eq (a b : DurTy) (h : PairTyOk a b) (h' : PairTyOk b a) (x y : Int) (hin : PairIn a b x y)
    (hin' : PairIn b a y x) :
    ne a b x y = .ok (!Spec.eq a.per.toRat b.per.toRat x y) ∧
    le a b x y = .ok (!Spec.lt b.per.toRat a.per.toRat y x) ∧
    gt a b x y = .ok (Spec.lt b.per.toRat a.per.toRat y x) ∧
    ge a b x y = .ok (!Spec.lt a.per.toRat b.per.toRat x y) := by
  unfold ne le gt ge
  rw [eq_eq a b h x y hin, lt_eq a b h x y hin, lt_eq b a h' y x hin']
  exact ⟨rfl, rfl, rfl, rfl⟩

/-- `operator+`: no overflow, and the sum denotes exactly the sum of the two values (in ticks of the common period). -/
theorem add_exact (a b : DurTy) (h : PairTyOk a b) (x y : Int) (hin : PairIn a b x y)
    (hsum : (cdTy a b).rep.inR (x * mulL a.per b.per + y * mulR a.per b.per) = true) :
    ∃ r, add a b x y = .ok r ∧
      (r : ℚ) * (cdTy a b).per.toRat = Spec.val a.per.toRat x + Spec.val b.per.toRat y := by
  obtain ⟨c1, c2⟩ := both_common a b h x y hin
  have hcd := cd_repOk h
  obtain ⟨ha, hb, hpa, hpb, hc⟩ := h
  obtain ⟨e1, e2, _⟩ := mul_rat a.per b.per hpa hpb hc.1
  refine ⟨x * mulL a.per b.per + y * mulR a.per b.per, ?_, ?_⟩
  · unfold add
    rw [pairCtx_eq a b ha hb hpa hpb hc]
    simp only [bind, Except.bind, addCore, c1, c2]
    have : (pairK a b).cd = cdTy a b := rfl
    rw [this, repOk_promote hcd, arith_ok _ (repOk_w hcd) _ hsum]
    simp only [mkCD_id _ hcd _ hsum]
  · unfold Spec.val; push_cast
    have : (cdTy a b).per.toRat = (cdPer a.per b.per).toRat := rfl
    rw [this, ← e1, ← e2]; ring

/-- `operator-`: no overflow, exact difference. -/
theorem sub_exact (a b : DurTy) (h : PairTyOk a b) (x y : Int) (hin : PairIn a b x y)
    (hdiff : (cdTy a b).rep.inR (x * mulL a.per b.per - y * mulR a.per b.per) = true) :
    ∃ r, sub a b x y = .ok r ∧
      (r : ℚ) * (cdTy a b).per.toRat = Spec.val a.per.toRat x - Spec.val b.per.toRat y := by
  obtain ⟨c1, c2⟩ := both_common a b h x y hin
  have hcd := cd_repOk h
  obtain ⟨ha, hb, hpa, hpb, hc⟩ := h
  obtain ⟨e1, e2, _⟩ := mul_rat a.per b.per hpa hpb hc.1
  refine ⟨x * mulL a.per b.per - y * mulR a.per b.per, ?_, ?_⟩
  · unfold sub
    rw [pairCtx_eq a b ha hb hpa hpb hc]
    simp only [bind, Except.bind, subCore, c1, c2]
    have : (pairK a b).cd = cdTy a b := rfl
    rw [this, repOk_promote hcd, arith_ok _ (repOk_w hcd) _ hdiff]
    simp only [mkCD_id _ hcd _ hdiff]
  · unfold Spec.val; push_cast
    have : (cdTy a b).per.toRat = (cdPer a.per b.per).toRat := rfl
    rw [this, ← e1, ← e2]; ring

/-! ## floor, ceil -/

theorem ltCore_spec (a b : DurTy) (h : PairTyOk a b) (x y : Int) (hin : PairIn a b x y) :
    ltCore (pairK a b) x y = .ok (Spec.lt a.per.toRat b.per.toRat x y) := by
  have := lt_eq a b h x y hin
  obtain ⟨ha, hb, hpa, hpb, hc⟩ := h
  unfold lt at this
  rw [pairCtx_eq a b ha hb hpa hpb hc] at this
  simpa [bind, Except.bind] using this

/-- `floor<To>(d)` is the greatest integer not above the exact quotient `c · p / q`, also for negative counts.
    `hcmp`: the comparison `t > d` converts `d` and the truncated result to their common type; `hstep`: `t - 1` is a value
    of `To::rep`. -/
theorem floor_eq (dst frm : DurTy) (h : CastTyOk dst frm) (hp : PairTyOk frm dst) (c : Int) (hin : CastIn dst frm c)
    (hcmp : PairIn frm dst c (Spec.cast frm.per.toRat dst.per.toRat c))
    (hstep : dst.rep.inR (Spec.cast frm.per.toRat dst.per.toRat c + -1) = true) :
    floorTo dst frm c = .ok (Spec.floor frm.per.toRat dst.per.toRat c) := by
  have hQ := toRat_pos dst.per h.2.2.2.1
  have hcast := castCore_spec dst frm h c hin
  have hlt := ltCore_spec frm dst hp c _ hcmp
  have hctx : floorCtx dst frm = .ok ⟨dst, castK dst frm, pairK frm dst⟩ := by
    unfold floorCtx
    rw [castCtx_eq dst frm h.1 h.2.1 h.2.2.1 h.2.2.2.1 h.2.2.2.2, pairCtx_eq frm dst hp.1 hp.2.1 hp.2.2.1 hp.2.2.2.1 hp.2.2.2.2]
    rfl
  unfold floorTo
  rw [hctx]
  simp only [bind, Except.bind, floorCore, hcast, hlt]
  rw [spec_lt_left _ _ hQ]
  have key := trunc_floor_adjust (Spec.val frm.per.toRat c / dst.per.toRat)
  unfold Spec.floor
  rw [rat_floor_eq, ← key]
  by_cases hx : Spec.val frm.per.toRat c / dst.per.toRat < ((Spec.cast frm.per.toRat dst.per.toRat c : Int) : ℚ)
  · have hx' : Spec.val frm.per.toRat c / dst.per.toRat < ((Spec.trunc (Spec.val frm.per.toRat c / dst.per.toRat) : Int) : ℚ) := hx
    rw [if_pos hx']
    simp only [hx, decide_true, if_true]
    rw [step1_eq dst h.1 _ _ hstep]
    rfl
  · have hx' : ¬ Spec.val frm.per.toRat c / dst.per.toRat < ((Spec.trunc (Spec.val frm.per.toRat c / dst.per.toRat) : Int) : ℚ) := hx
    rw [if_neg hx']
    simp only [hx, decide_false, Bool.false_eq_true, if_false]
    rfl

/-- `ceil<To>(d)` is the least integer not below the exact quotient. -/
theorem ceil_eq (dst frm : DurTy) (h : CastTyOk dst frm) (hp : PairTyOk dst frm) (c : Int) (hin : CastIn dst frm c)
    (hcmp : PairIn dst frm (Spec.cast frm.per.toRat dst.per.toRat c) c)
    (hstep : dst.rep.inR (Spec.cast frm.per.toRat dst.per.toRat c + 1) = true) :
    ceilTo dst frm c = .ok (Spec.ceil frm.per.toRat dst.per.toRat c) := by
  have hQ := toRat_pos dst.per h.2.2.2.1
  have hcast := castCore_spec dst frm h c hin
  have hlt := ltCore_spec dst frm hp _ c hcmp
  have hctx : ceilCtx dst frm = .ok ⟨dst, castK dst frm, pairK dst frm⟩ := by
    unfold ceilCtx
    rw [castCtx_eq dst frm h.1 h.2.1 h.2.2.1 h.2.2.2.1 h.2.2.2.2, pairCtx_eq dst frm hp.1 hp.2.1 hp.2.2.1 hp.2.2.2.1 hp.2.2.2.2]
    rfl
  unfold ceilTo
  rw [hctx]
  simp only [bind, Except.bind, ceilCore, hcast, hlt]
  rw [spec_lt_right _ _ hQ]
  have key := trunc_ceil_adjust (Spec.val frm.per.toRat c / dst.per.toRat)
  unfold Spec.ceil
  rw [rat_ceil_eq, ← key]
  by_cases hx : ((Spec.cast frm.per.toRat dst.per.toRat c : Int) : ℚ) < Spec.val frm.per.toRat c / dst.per.toRat
  · have hx' : ((Spec.trunc (Spec.val frm.per.toRat c / dst.per.toRat) : Int) : ℚ) < Spec.val frm.per.toRat c / dst.per.toRat := hx
    rw [if_pos hx']
    simp only [hx, decide_true, if_true]
    rw [step1_eq dst h.1 _ _ hstep]
    rfl
  · have hx' : ¬ ((Spec.trunc (Spec.val frm.per.toRat c / dst.per.toRat) : Int) : ℚ) < Spec.val frm.per.toRat c / dst.per.toRat := hx
    rw [if_neg hx']
    simp only [hx, decide_false, Bool.false_eq_true, if_false]
    rfl

end Tetl.C12.Props
