/-
C12 — property theorems, second batch.

1. `duration_cast` under the hypothesis the property names — "the exact result is representable" — where
   that is enough (three of the four `duration_cast_impl` bodies; narrow targets), the exact description
   of the inputs for which it is not (the body `c * CF::num / CF::den` when `c * CF::num` leaves
   `intmax_t`: [time.duration.cast] prescribes that very expression), and a counterexample.
2. `floor` / `ceil` under "the exact result is representable" plus the two intermediates the code really
   forms (`c * CF::num` in `intmax_t`, the argument in the common type of the comparison), and a
   counterexample showing that the second one is needed when the common representation is 32 bits wide.
3. `duration_cast`, the converting constructor, unary minus and the compound assignments on the builtin
   representations narrower than `int` and on the unsigned ones (`builtinReps`).
4. The `time_point` functions (each forwards to the duration function), `zero/min/max`, the named aliases.
-/
import TetlProofs.C12.Props
import TetlProofs.C12.Ext
namespace Tetl.C12.Props
open Tetl Tetl.C12 Tetl.C14

/-- static preconditions of `duration_cast<To>(From)` on builtin representations (`builtinReps`) -/
def CastTyOkB (dst frm : DurTy) : Prop :=
  Builtin dst.rep ∧ Builtin frm.rep ∧ PerOk frm.per ∧ PerOk dst.per ∧ DivOk frm.per dst.per
instance (dst frm : DurTy) : Decidable (CastTyOkB dst frm) := by unfold CastTyOkB; infer_instance

theorem ok_of_toOption {α : Type} {x : Except Err α} {v : α} (h : x.toOption = some v) : x = .ok v := by
  cases x with
  | ok a => simp only [Except.toOption] at h; cases h; rfl
  | error e => simp [Except.toOption] at h

/-! ## duration_cast -/

/-- `durationCast_eq` for every builtin representation whose values fit `intmax_t` (int8 … int64, uint8 … uint32). -/
theorem durationCast_eq_builtin (dst frm : DurTy) (h : CastTyOkB dst frm) (c : Int) (hc : frm.rep.inR c = true)
    (hmul : imax.inR (c * cfN frm.per dst.per) = true)
    (hres : dst.rep.inR (Spec.cast frm.per.toRat dst.per.toRat c) = true) :
    durationCast dst frm c = .ok (Spec.cast frm.per.toRat dst.per.toRat c) :=
  durationCast_builtin dst frm h.1 h.2.1 h.2.2.1 h.2.2.2.1 h.2.2.2.2 c hc hmul hres

-- non-vacuity (test on a sample): -7 ticks of 1001/30000 s (uint8 cannot hold -7: int16) as int8 milliseconds = -233 does not
-- fit, as int16 it does
example : CastTyOkB ⟨⟨16, true⟩, ⟨1, 1000⟩⟩ ⟨⟨16, true⟩, ⟨1001, 30000⟩⟩ := by decide +kernel
example : durationCast ⟨⟨16, true⟩, ⟨1, 1000⟩⟩ ⟨⟨16, true⟩, ⟨1001, 30000⟩⟩ (-7) = .ok (-233) := by
  rw [durationCast_eq_builtin _ _ (by decide +kernel) _ (by decide) (by decide +kernel) (by decide +kernel)]
  decide +kernel
example : durationCast ⟨⟨32, false⟩, ⟨1, 1000⟩⟩ ⟨⟨8, false⟩, ⟨60, 1⟩⟩ 255 = .ok 15300000 := by
  rw [durationCast_eq_builtin _ _ (by decide +kernel) _ (by decide) (by decide +kernel) (by decide +kernel)]
  decide +kernel

/-- **The property as worded, bodies 1–3.**  When the conversion factor has numerator 1 or denominator 1 (the
    `duration_cast_impl` specialisations `c`, `c / CF::den`, `c * CF::num`: every cast between two of nano … days, to a
    coarser or a finer unit) the only hypothesis on the count is that the exact result is representable in `To::rep`. -/
theorem durationCast_eq_of_result (dst frm : DurTy) (h : CastTyOkB dst frm)
    (hcf : cfN frm.per dst.per = 1 ∨ cfD frm.per dst.per = 1) (c : Int) (hc : frm.rep.inR c = true)
    (hres : dst.rep.inR (Spec.cast frm.per.toRat dst.per.toRat c) = true) :
    durationCast dst frm c = .ok (Spec.cast frm.per.toRat dst.per.toRat c) := by
  refine durationCast_eq_builtin dst frm h c hc ?_ hres
  obtain ⟨hto, hfrm, hp, hq, _⟩ := h
  rcases hcf with e | e
  · rw [e, Int.mul_one]; exact builtin_sub hfrm c hc
  · have hv := cast_val frm.per dst.per hp hq c
    rw [e, tdiv_one] at hv
    rw [hv]
    exact builtin_sub hto _ hres

-- non-vacuity (tests on samples): int64 min as nanoseconds -> seconds (finer to coarser), and a product that just fits
example : cfN ⟨1, 1000000000⟩ ⟨1, 1⟩ = 1 ∧ cfD ⟨60, 1⟩ ⟨1, 1000⟩ = 1 := by decide +kernel
example : durationCast ⟨i64, ⟨1, 1⟩⟩ ⟨i64, ⟨1, 1000000000⟩⟩ (-9223372036854775808) = .ok (-9223372036) := by
  rw [durationCast_eq_of_result _ _ (by decide +kernel) (by decide +kernel) _ (by decide) (by decide +kernel)]
  decide +kernel
example : durationCast ⟨i64, ⟨1, 1000⟩⟩ ⟨i32, ⟨60, 1⟩⟩ (-2147483648) = .ok (-128849018880000) := by
  rw [durationCast_eq_of_result _ _ (by decide +kernel) (by decide +kernel) _ (by decide) (by decide +kernel)]
  decide +kernel

/-- **Body 4, the bound.**  The intermediate product `c · CF::num` is less than `(|result| + 1) · CF::den` in absolute value:
    whenever that bound fits `intmax_t` the cast is exact, with no other hypothesis on the count. -/
theorem durationCast_eq_of_result_bound (dst frm : DurTy) (h : CastTyOkB dst frm) (c : Int) (hc : frm.rep.inR c = true)
    (hres : dst.rep.inR (Spec.cast frm.per.toRat dst.per.toRat c) = true)
    (hb : (((Spec.cast frm.per.toRat dst.per.toRat c).natAbs : Int) + 1) * cfD frm.per dst.per ≤ imax.max) :
    durationCast dst frm c = .ok (Spec.cast frm.per.toRat dst.per.toRat c) :=
  durationCast_eq_builtin dst frm h c hc (hmul_of_result_bound _ _ h.2.2.1 h.2.2.2.1 c hb) hres

/-- **The property as worded, narrow targets.**  If `(To::rep max + 2) · CF::den` fits `intmax_t` — a condition on the two
    *types*; e.g. every target representation of at most 32 bits with `CF::den < 2^31` — every count whose exact result is
    representable is cast exactly. -/
theorem durationCast_eq_narrow_target (dst frm : DurTy) (h : CastTyOkB dst frm)
    (hty : (dst.rep.max + 2) * cfD frm.per dst.per ≤ imax.max) (c : Int) (hc : frm.rep.inR c = true)
    (hres : dst.rep.inR (Spec.cast frm.per.toRat dst.per.toRat c) = true) :
    durationCast dst frm c = .ok (Spec.cast frm.per.toRat dst.per.toRat c) := by
  refine durationCast_eq_of_result_bound dst frm h c hc hres ?_
  obtain ⟨_, hD, _⟩ := cf_facts frm.per dst.per h.2.2.1 h.2.2.2.1
  have hr := (inR_iff _ _).mp hres
  have hneg : -dst.rep.min ≤ dst.rep.max + 1 := by
    have hp : (0:Int) < 2 ^ dst.rep.w := Int.pow_pos (by decide)
    unfold ITy.min ITy.max; cases dst.rep.sg <;> simp
  have hn : ((Spec.cast frm.per.toRat dst.per.toRat c).natAbs : Int) ≤ dst.rep.max + 1 := by omega
  have := Int.mul_le_mul_of_nonneg_right (by omega : ((Spec.cast frm.per.toRat dst.per.toRat c).natAbs : Int) + 1 ≤ dst.rep.max + 2)
    (by omega : 0 ≤ cfD frm.per dst.per)
  omega

-- non-vacuity (tests on samples): 5/7 s (int64) -> int32 thirds of a second: (2^31 + 1) · 7 fits; 2^30 ticks give 2300875337 > int32 max
-- (outside), 10^9 ticks give 2142857142 (inside)
example : CastTyOkB ⟨i32, ⟨1, 3⟩⟩ ⟨i64, ⟨5, 7⟩⟩ ∧ (i32.max + 2) * cfD ⟨5, 7⟩ ⟨1, 3⟩ ≤ imax.max := by decide +kernel
example : durationCast ⟨i32, ⟨1, 3⟩⟩ ⟨i64, ⟨5, 7⟩⟩ 1000000000 = .ok 2142857142 := by
  rw [durationCast_eq_narrow_target _ _ (by decide +kernel) (by decide +kernel) _ (by decide) (by decide +kernel)]
  decide +kernel

/-- **Body 4, the excluded class.**  If `CF::num ≠ 1` and the product `c · CF::num` leaves `intmax_t`, the expression that
    [time.duration.cast] prescribes (`static_cast<CR>(d.count()) * static_cast<CR>(CF::num) …`) overflows: undefined behaviour,
    whatever the exact result is. -/
theorem durationCast_overflow (dst frm : DurTy) (h : CastTyOkB dst frm) (c : Int) (hc : frm.rep.inR c = true)
    (hov : imax.inR (c * cfN frm.per dst.per) = false) :
    durationCast dst frm c = .error (.pre "ub: signed overflow") := by
  obtain ⟨hto, hfrm, hp, hq, hdiv⟩ := h
  obtain ⟨hN, hD, hN', hD', _⟩ := cf_facts frm.per dst.per hp hq
  have hmm := imax_max
  have hci := builtin_sub hfrm c hc
  have hN1 : cfN frm.per dst.per ≠ 1 := by
    intro e; rw [e, Int.mul_one, hci] at hov; exact Bool.noConfusion hov
  have cN : imax.conv (cfN frm.per dst.per) = cfN frm.per dst.per :=
    imax_conv ((imax_inR _).mpr (by have := hdiv.1; omega))
  have cc : imax.conv c = c := imax_conv hci
  have ha : arith imax (c * cfN frm.per dst.per) = .error (.pre "ub: signed overflow") := by
    unfold arith
    have : imax.sg = true := rfl
    simp only [this, if_true, hov, Bool.false_eq_true, if_false]
    rfl
  unfold durationCast
  rw [castCtx_builtin dst frm hto hfrm hp hq hdiv]
  simp only [bind, Except.bind]
  unfold castCore
  simp only [int_beq_one, cN, cc, hN1, decide_false, Bool.false_and, Bool.false_eq_true, if_false]
  by_cases hD1 : cfD frm.per dst.per = 1
  · simp only [hD1, decide_true, if_true, ha, bind, Except.bind]
  · simp only [hD1, decide_false, Bool.false_eq_true, if_false, ha, bind, Except.bind]

/-- **Exactly when.**  For a count whose exact result is representable, `duration_cast` returns that result if and only if
    the product `c · CF::num` is a value of `intmax_t` (always, by `durationCast_eq_of_result`, when `CF::num = 1` or
    `CF::den = 1`). -/
theorem durationCast_exact_iff (dst frm : DurTy) (h : CastTyOkB dst frm) (c : Int) (hc : frm.rep.inR c = true)
    (hres : dst.rep.inR (Spec.cast frm.per.toRat dst.per.toRat c) = true) :
    durationCast dst frm c = .ok (Spec.cast frm.per.toRat dst.per.toRat c) ↔ imax.inR (c * cfN frm.per dst.per) = true := by
  constructor
  · intro hok
    cases hov : imax.inR (c * cfN frm.per dst.per)
    · rw [durationCast_overflow dst frm h c hc hov] at hok
      cases hok
    · rfl
  · intro hmul
    exact durationCast_eq_builtin dst frm h c hc hmul hres

/-- **Counterexample (finding F-C12-cast-intermediate-overflow).**  `duration_cast<duration<int64_t, ratio<1,3>>>(duration<int64_t,
    ratio<5,7>>{2^60})`: the exact result `2^60 · 15 / 7` truncated, 2470546081300386377, is a value of `int64_t`, but
    `CF = 15/7` and `2^60 · 15` is not: the model (like the code, and like libstdc++, which implements the same expression
    of [time.duration.cast]) runs into signed overflow. -/
theorem durationCast_intermediate_counterexample :
    durationCast ⟨i64, ⟨1, 3⟩⟩ ⟨i64, ⟨5, 7⟩⟩ 1152921504606846976 = .error (.pre "ub: signed overflow") ∧
      i64.inR (Spec.cast (⟨5, 7⟩ : Ratio).toRat (⟨1, 3⟩ : Ratio).toRat 1152921504606846976) = true ∧
      Spec.cast (⟨5, 7⟩ : Ratio).toRat (⟨1, 3⟩ : Ratio).toRat 1152921504606846976 = 2470546081300386377 := by
  refine ⟨durationCast_overflow _ _ (by decide +kernel) _ (by decide) (by decide +kernel), by decide +kernel, by decide +kernel⟩

/-! ## floor, ceil: the exact result representable, and the two intermediates the code forms -/

/-- `floor<To>(d)`: for every count whose *floor* is a value of `To::rep`, provided the two products the code forms are
    representable: `c · CF::num` in `intmax_t` (the cast) and the argument converted to the common type of the comparison
    `t > d`.  (The truncated result, its conversion to the common type and `t - 1` need no hypothesis of their own: they lie
    between the floor and zero, resp. between zero and the converted argument.) -/
theorem floor_eq_of_result (dst frm : DurTy) (h : CastTyOk dst frm) (hp : PairTyOk frm dst) (c : Int)
    (hc : frm.rep.inR c = true) (hmul : imax.inR (c * cfN frm.per dst.per) = true)
    (hcd : (cdTy frm dst).rep.inR (c * mulL frm.per dst.per) = true)
    (hres : dst.rep.inR (Spec.floor frm.per.toRat dst.per.toRat c) = true) :
    floorTo dst frm c = .ok (Spec.floor frm.per.toRat dst.per.toRat c) := by
  have ht : dst.rep.inR (Spec.cast frm.per.toRat dst.per.toRat c) = true :=
    trunc_inR_of_floor dst.rep _ hres
  refine floor_eq dst frm h hp c ⟨hc, hmul, ht⟩
    ⟨hc, ht, hcd, cast_in_common dst frm h.2.2.1 h.2.2.2.1 hp.2.2.2.2.1 c _ hcd⟩ ?_
  intro hx
  have key := trunc_floor_adjust (Spec.val frm.per.toRat c / dst.per.toRat)
  have hx' : Spec.val frm.per.toRat c / dst.per.toRat < ((Spec.trunc (Spec.val frm.per.toRat c / dst.per.toRat) : Int) : ℚ) := hx
  rw [if_pos hx'] at key
  have e : Spec.cast frm.per.toRat dst.per.toRat c + -1 = Spec.floor frm.per.toRat dst.per.toRat c := by
    show Spec.trunc (Spec.val frm.per.toRat c / dst.per.toRat) + -1 = (Spec.val frm.per.toRat c / dst.per.toRat).floor
    rw [rat_floor_eq, ← key]; omega
  rw [e]; exact hres

/-- `ceil<To>(d)`: the same for the ceiling. -/
theorem ceil_eq_of_result (dst frm : DurTy) (h : CastTyOk dst frm) (hp : PairTyOk dst frm) (c : Int)
    (hc : frm.rep.inR c = true) (hmul : imax.inR (c * cfN frm.per dst.per) = true)
    (hcd : (cdTy dst frm).rep.inR (c * mulR dst.per frm.per) = true)
    (hres : dst.rep.inR (Spec.ceil frm.per.toRat dst.per.toRat c) = true) :
    ceilTo dst frm c = .ok (Spec.ceil frm.per.toRat dst.per.toRat c) := by
  have ht : dst.rep.inR (Spec.cast frm.per.toRat dst.per.toRat c) = true :=
    trunc_inR_of_ceil dst.rep _ hres
  have hl : ((Int.lcm frm.per.den dst.per.den : Nat) : Int) ≤ imax.max := by
    have := hp.2.2.2.2.1; rwa [Int.lcm_comm] at this
  have e1 : mulR dst.per frm.per = mulL frm.per dst.per := by unfold mulL mulR; rw [cdPer_comm]
  have e2 : mulL dst.per frm.per = mulR frm.per dst.per := by unfold mulL mulR; rw [cdPer_comm]
  have hcd' : (cdTy dst frm).rep.inR (c * mulL frm.per dst.per) = true := by rw [← e1]; exact hcd
  have hcm := cast_in_common dst frm h.2.2.1 h.2.2.2.1 hl c _ hcd'
  refine ceil_eq dst frm h hp c ⟨hc, hmul, ht⟩ ⟨ht, hc, by rw [e2]; exact hcm, hcd⟩ ?_
  intro hx
  have key := trunc_ceil_adjust (Spec.val frm.per.toRat c / dst.per.toRat)
  have hx' : ((Spec.trunc (Spec.val frm.per.toRat c / dst.per.toRat) : Int) : ℚ) < Spec.val frm.per.toRat c / dst.per.toRat := hx
  rw [if_pos hx'] at key
  have e : Spec.cast frm.per.toRat dst.per.toRat c + 1 = Spec.ceil frm.per.toRat dst.per.toRat c := by
    show Spec.trunc (Spec.val frm.per.toRat c / dst.per.toRat) + 1 = (Spec.val frm.per.toRat c / dst.per.toRat).ceil
    rw [rat_ceil_eq, ← key]
  rw [e]; exact hres

-- non-vacuity (tests on samples): the floor is int32 min (the truncated result is one above it), the ceiling int32 max
example : floorTo ⟨i32, ⟨60, 1⟩⟩ ⟨i64, ⟨1, 1⟩⟩ (-128849018821) = .ok (-2147483648) := by
  rw [floor_eq_of_result _ _ (by decide +kernel) (by decide +kernel) _ (by decide) (by decide +kernel) (by decide +kernel)
    (by decide +kernel)]
  decide +kernel
example : ceilTo ⟨i32, ⟨60, 1⟩⟩ ⟨i64, ⟨1, 1⟩⟩ 128849018761 = .ok 2147483647 := by
  rw [ceil_eq_of_result _ _ (by decide +kernel) (by decide +kernel) _ (by decide) (by decide +kernel) (by decide +kernel)
    (by decide +kernel)]
  decide +kernel

/-- **Counterexample (finding F-C12-rounding-compare-narrow-common-type): `hcd` is needed.**
    `floor<duration<int32_t, ratio<3>>>(duration<int32_t, ratio<2>>{2^30})`: the exact quotient is 715827882.67, its floor
    715827882 is a value of `int32_t`, the cast is exact (`2^30 · 2` fits `intmax_t`) — but the comparison `t > d` converts
    both operands to `duration<int32_t, ratio<1>>`: `2^30 · 2 = 2^31` wraps to `-2^31` in the converting constructor
    (`static_cast<int32_t>` of an `intmax_t` product, no undefined behaviour), `t > d` is true and the result is one too small.
    libstdc++ 12 computes the same value the same way. -/
theorem floor_narrow_common_counterexample :
    floorTo ⟨i32, ⟨3, 1⟩⟩ ⟨i32, ⟨2, 1⟩⟩ 1073741824 = .ok 715827881 ∧
      Spec.floor (⟨2, 1⟩ : Ratio).toRat (⟨3, 1⟩ : Ratio).toRat 1073741824 = 715827882 ∧
      (cdTy ⟨i32, ⟨2, 1⟩⟩ ⟨i32, ⟨3, 1⟩⟩).rep.inR (1073741824 * mulL ⟨2, 1⟩ ⟨3, 1⟩) = false := by
  refine ⟨ok_of_toOption (by decide +kernel), by decide +kernel, by decide +kernel⟩

/-- The same on two periods of the explored table (the witness of the finding in the correspondence run):
    `floor<duration<int32_t, ratio<1001,30000>>>(duration<int32_t, milli>{71582789})`; `71582789 · 30 = 2^31 + 22`. -/
theorem floor_narrow_common_table_counterexample :
    floorTo ⟨i32, ⟨1001, 30000⟩⟩ ⟨i32, ⟨1, 1000⟩⟩ 71582789 = .ok 2145337 ∧
      Spec.floor (⟨1, 1000⟩ : Ratio).toRat (⟨1001, 30000⟩ : Ratio).toRat 71582789 = 2145338 := by
  refine ⟨ok_of_toOption (by decide +kernel), by decide +kernel⟩

/-! ## the converting constructor, unary minus, compound assignments on every builtin representation -/

/-- `convert_exact` (the converting constructor `To(From)`) on every builtin representation of `builtinReps` -/
theorem convert_exact_builtin (dst frm : DurTy) (h : CastTyOkB dst frm) (hden : cfD frm.per dst.per = 1) (c : Int)
    (hc : frm.rep.inR c = true) (hres : dst.rep.inR (c * cfN frm.per dst.per) = true) :
    convert dst frm c = .ok (c * cfN frm.per dst.per) ∧
      Spec.val dst.per.toRat (c * cfN frm.per dst.per) = Spec.val frm.per.toRat c := by
  obtain ⟨hto, hfrm, hp, hq, hdiv⟩ := h
  obtain ⟨hN, _, hN', _, _⟩ := cf_facts frm.per dst.per hp hq
  have hr := cf_rat frm.per dst.per hp hq
  have hQ := toRat_pos dst.per hq
  have hmm := imax_max
  constructor
  · unfold convert
    rw [castCtx_builtin dst frm hto hfrm hp hq hdiv, hden]
    simp only [bind, Except.bind]
    have cm : imax.conv (cfN frm.per dst.per) = cfN frm.per dst.per :=
      imax_conv ((imax_inR _).mpr (by have := hdiv.1; omega))
    have c1 : imax.conv 1 = 1 := by decide
    have hxm' := builtin_sub hto _ hres
    unfold convertCore
    simp only [bne_self_eq_false, Bool.false_eq_true, if_false, imax_conv (builtin_sub hfrm c hc), cm, c1]
    rw [imax_arith hxm']
    simp only [bind, Except.bind]
    rw [cdiv_pos _ _ _ (by decide), tdiv_one]
    simp only [conv_of_inR _ (builtin_w hto) _ hres]
  · rw [hden] at hr
    have e : (cfN frm.per dst.per : ℚ) = frm.per.toRat / dst.per.toRat := by simpa using hr
    unfold Spec.val
    push_cast
    rw [e]
    field_simp

-- non-vacuity (test on a sample): 200 minutes (uint8) as uint16 seconds
example : convert ⟨⟨16, false⟩, ⟨1, 1⟩⟩ ⟨⟨8, false⟩, ⟨60, 1⟩⟩ 200 = .ok 12000 := by
  rw [(convert_exact_builtin _ _ (by decide +kernel) (by decide +kernel) _ (by decide) (by decide +kernel)).1]
  decide +kernel

/-- unary minus, `+=`, `-=`, `*=` (duration and time_point) on every builtin representation: the operator is evaluated in
    the promoted type (`int` for the narrow ones: no trap there) and converted back; exact when the result is representable -/
theorem assign_builtin (t : DurTy) (hr : Builtin t.rep) (c d : Int) :
    (t.rep.inR (-c) = true → neg t c = .ok (-c)) ∧
    (t.rep.inR (c + d) = true → addAssign t c d = .ok (c + d)) ∧
    (t.rep.inR (c - d) = true → subAssign t c d = .ok (c - d)) ∧
    (t.rep.inR (c * d) = true → mulAssign t c d = .ok (c * d)) := by
  have key : ∀ x : Int, t.rep.inR x = true → arith t.rep.promote x = .ok x := by
    intro x hx
    rcases hr with e | e | e | e | e | e | e <;> rw [e] at hx ⊢ <;>
      exact arith_ok _ (by decide) x (by
        rw [inR_iff] at hx ⊢
        simp only [ITy.promote, ITy.min, ITy.max] at hx ⊢
        norm_num at hx ⊢
        omega)
  have hw := builtin_w hr
  refine ⟨?_, ?_, ?_, ?_⟩ <;> intro h
  · unfold neg; rw [key _ h]; simp only [bind, Except.bind, conv_of_inR _ hw _ h]
  · unfold addAssign; rw [key _ h]; simp only [bind, Except.bind, conv_of_inR _ hw _ h]
  · unfold subAssign; rw [key _ h]; simp only [bind, Except.bind, conv_of_inR _ hw _ h]
  · unfold mulAssign; rw [key _ h]; simp only [bind, Except.bind, conv_of_inR _ hw _ h]

-- non-vacuity (test on a sample): int16 -32768 + 32767
example : addAssign ⟨⟨16, true⟩, ⟨1, 1000⟩⟩ (-32768) 32767 = .ok (-1) :=
  (assign_builtin ⟨⟨16, true⟩, ⟨1, 1000⟩⟩ (by decide) (-32768) 32767).2.1 (by decide)

/-! ## time_point: every function forwards to the duration function on `time_since_epoch()` -/

/-- `time_point_cast`, `floor`, `ceil`, `round` of a `time_point` and its converting constructor return the `time_point` whose
    `time_since_epoch()` is what the duration function returns: the theorems about the duration functions carry over verbatim
    (`durationCast_eq…`, `floor_eq…`, `ceil_eq…`, `round_eq`, `convert_exact…`). -/
theorem tp_casts_forward (dst frm : DurTy) (c : Int) :
    tpCast dst frm c = durationCast dst frm c ∧ tpFloor dst frm c = floorTo dst frm c ∧ tpCeil dst frm c = ceilTo dst frm c ∧
      tpRound dst frm c = roundTo dst frm c ∧ tpConvert dst frm c = convert dst frm c :=
  ⟨rfl, rfl, rfl, rfl, rfl⟩

/-- `time_point_cast<To>(tp)`: the time point, in ticks of `To`, truncated toward zero. -/
theorem tpCast_eq (dst frm : DurTy) (h : CastTyOkB dst frm) (c : Int) (hc : frm.rep.inR c = true)
    (hmul : imax.inR (c * cfN frm.per dst.per) = true)
    (hres : dst.rep.inR (Spec.cast frm.per.toRat dst.per.toRat c) = true) :
    tpCast dst frm c = .ok (Spec.cast frm.per.toRat dst.per.toRat c) :=
  durationCast_eq_builtin dst frm h c hc hmul hres

/-- `floor / ceil / round <To>(tp)` -/
theorem tpRounding_eq (dst frm : DurTy) (h : CastTyOk dst frm) (c : Int) (hc : frm.rep.inR c = true)
    (hmul : imax.inR (c * cfN frm.per dst.per) = true) :
    (PairTyOk frm dst → (cdTy frm dst).rep.inR (c * mulL frm.per dst.per) = true →
        dst.rep.inR (Spec.floor frm.per.toRat dst.per.toRat c) = true →
        tpFloor dst frm c = .ok (Spec.floor frm.per.toRat dst.per.toRat c)) ∧
    (PairTyOk dst frm → (cdTy dst frm).rep.inR (c * mulR dst.per frm.per) = true →
        dst.rep.inR (Spec.ceil frm.per.toRat dst.per.toRat c) = true →
        tpCeil dst frm c = .ok (Spec.ceil frm.per.toRat dst.per.toRat c)) ∧
    (RoundTyOk dst frm → RoundIn dst frm c → tpRound dst frm c = .ok (Spec.round frm.per.toRat dst.per.toRat c)) :=
  ⟨fun hp hcd hres => floor_eq_of_result dst frm h hp c hc hmul hcd hres,
   fun hp hcd hres => ceil_eq_of_result dst frm h hp c hc hmul hcd hres,
   fun ht hin => round_eq dst frm ht c hin⟩

/-- the converting constructor of `time_point` -/
theorem tpConvert_exact (dst frm : DurTy) (h : CastTyOkB dst frm) (hden : cfD frm.per dst.per = 1) (c : Int)
    (hc : frm.rep.inR c = true) (hres : dst.rep.inR (c * cfN frm.per dst.per) = true) :
    tpConvert dst frm c = .ok (c * cfN frm.per dst.per) ∧
      Spec.val dst.per.toRat (c * cfN frm.per dst.per) = Spec.val frm.per.toRat c :=
  convert_exact_builtin dst frm h hden c hc hres

/-- the six comparisons of two `time_point`s compare the two points in seconds -/
theorem tpCmp_eq (a b : DurTy) (h : PairTyOk a b) (h' : PairTyOk b a) (x y : Int) (hin : PairIn a b x y) (hin' : PairIn b a y x) :
    tpEq a b x y = .ok (Spec.eq a.per.toRat b.per.toRat x y) ∧
    tpNe a b x y = .ok (!Spec.eq a.per.toRat b.per.toRat x y) ∧
    tpLt a b x y = .ok (Spec.lt a.per.toRat b.per.toRat x y) ∧
    tpLe a b x y = .ok (!Spec.lt b.per.toRat a.per.toRat y x) ∧
    tpGt a b x y = .ok (Spec.lt b.per.toRat a.per.toRat y x) ∧
    tpGe a b x y = .ok (!Spec.lt a.per.toRat b.per.toRat x y) := by
  obtain ⟨d1, d2, d3, d4⟩ := cmp_derived_eq a b h h' x y hin hin'
  exact ⟨eq_eq a b h x y hin, d1, lt_eq a b h x y hin, d2, d3, d4⟩

/-- `+=`, `-=`, `++`, `--` of a `time_point` on every builtin representation -/
theorem tpAssign_eq (t : DurTy) (hr : Builtin t.rep) (c d : Int) :
    (t.rep.inR (c + d) = true → tpAddAssign t c d = .ok (c + d)) ∧
    (t.rep.inR (c - d) = true → tpSubAssign t c d = .ok (c - d)) ∧
    (t.rep.inR (c + 1) = true → tpInc t c = .ok (c + 1)) ∧
    (t.rep.inR (c - 1) = true → tpDec t c = .ok (c - 1)) := by
  obtain ⟨_, a1, a2, _⟩ := assign_builtin t hr c d
  obtain ⟨_, b1, b2, _⟩ := assign_builtin t hr c 1
  exact ⟨a1, a2, b1, b2⟩

/-! ## zero, min, max -/

/-- `duration::zero()` is zero ticks; `duration::min()` / `max()` (and `time_point::min()` / `max()`) are values of the
    representation and bound every value of it: the least and the greatest duration. -/
theorem limits_eq (t : DurTy) (hw : 1 ≤ t.rep.w) :
    durZero t = 0 ∧ t.rep.inR (durMin t) = true ∧ t.rep.inR (durMax t) = true ∧ tpMin t = durMin t ∧ tpMax t = durMax t ∧
      ∀ c : Int, t.rep.inR c = true ↔ durMin t ≤ c ∧ c ≤ durMax t := by
  have hmm := min_max_zero t.rep
  refine ⟨conv_of_inR _ hw 0 ((inR_iff _ _).mpr hmm), ?_, ?_, rfl, rfl, fun c => inR_iff _ _⟩
  · rw [inR_iff]; unfold durMin; omega
  · rw [inR_iff]; unfold durMax; omega

/-! ## the named aliases -/

/-- Every named duration type (a complete check of the ten aliases): its period, computed by `ratio`, is the one [time.syn]
    names (`Spec.namedPeriods`), and its representation is a signed type of at least the number of bits [time.syn] asks for. -/
theorem named_eq :
    (List.zip namedTypes (List.zip Spec.namedPeriods Spec.namedMinBits)).all (fun x =>
      match mkRatio x.1.2.1 x.1.2.2 with
      | .ok r => decide (((r.num : Rat) / (r.den : Rat)) = x.2.1) && x.1.1.sg && decide (x.2.2 ≤ x.1.1.w)
      | .error _ => false) = true ∧ namedTypes.length = 10 ∧ Spec.namedPeriods.length = 10 ∧ Spec.namedMinBits.length = 10 := by
  decide +kernel

end Tetl.C12.Props
