/-
C12, tie T — the GENERATED `duration_cast_impl<ToDuration, CF, CR, CF::num == 1, CF::den == 1>::cast` bodies
(Tetl/C12/Gen.lean, from include/etl/_chrono/duration_cast.hpp) against the hand model `Tetl.C12.castCore`:
for every (to_rep, from rep) in {i16,i32,i64,u32}² and every shape the generated undefined-behaviour obligation is exactly
"the model returns a value", and then the values agree. Instances of the shape lemmas of GenLemmas.lean (written by script).
-/
import TetlProofs.C12.GenLemmas
set_option linter.unusedSimpArgs false
set_option linter.unusedVariables false
namespace Tetl.C12.GenProps
open Tetl Tetl.C12 Tetl.CSem Tetl.C12.GenLemmas
open Tetl.C14 (ITy)

theorem gen_cast_nd_i16_i16 (c num den : Int) (hc : -32768 ≤ c ∧ c < 32768) (hn : -9223372036854775808 ≤ num ∧ num < 9223372036854775808) (hd : -9223372036854775808 ≤ den ∧ den < 9223372036854775808) (hn1 : num ≠ 1) (hd1 : den ≠ 1) :
    (Gen.cast_nd_i16_i16_ub c num den = true → castCore ⟨⟨16, true⟩, imax, ⟨num, den⟩⟩ c = .ok (Gen.cast_nd_i16_i16 c num den)) ∧
    (Gen.cast_nd_i16_i16_ub c num den = false → ∃ e, castCore ⟨⟨16, true⟩, imax, ⟨num, den⟩⟩ c = .error e) :=
  nd_shape _ c (wrapS 64 c) num den _ (imax_conv_wrap c) hn hd hn1 hd1 (by conv_tac)
theorem gen_cast_d_i16_i16 (c den : Int) (hc : -32768 ≤ c ∧ c < 32768) (hd : -9223372036854775808 ≤ den ∧ den < 9223372036854775808) (hd1 : den ≠ 1) :
    (Gen.cast_d_i16_i16_ub c den = true → castCore ⟨⟨16, true⟩, imax, ⟨1, den⟩⟩ c = .ok (Gen.cast_d_i16_i16 c den)) ∧
    (Gen.cast_d_i16_i16_ub c den = false → ∃ e, castCore ⟨⟨16, true⟩, imax, ⟨1, den⟩⟩ c = .error e) :=
  d_shape _ c (wrapS 64 c) den _ (imax_conv_wrap c) (wrapS64_inRange c) hd hd1 (by conv_tac)
theorem gen_cast_n_i16_i16 (c num : Int) (hc : -32768 ≤ c ∧ c < 32768) (hn : -9223372036854775808 ≤ num ∧ num < 9223372036854775808) (hn1 : num ≠ 1) :
    (Gen.cast_n_i16_i16_ub c num = true → castCore ⟨⟨16, true⟩, imax, ⟨num, 1⟩⟩ c = .ok (Gen.cast_n_i16_i16 c num)) ∧
    (Gen.cast_n_i16_i16_ub c num = false → ∃ e, castCore ⟨⟨16, true⟩, imax, ⟨num, 1⟩⟩ c = .error e) :=
  n_shape _ c (wrapS 64 c) num _ (imax_conv_wrap c) hn hn1 (by conv_tac)
theorem gen_cast_id_i16_i16 (c : Int) (hc : -32768 ≤ c ∧ c < 32768) :
    Gen.cast_id_i16_i16_ub c = true ∧ castCore ⟨⟨16, true⟩, imax, ⟨1, 1⟩⟩ c = .ok (Gen.cast_id_i16_i16 c) :=
  id_shape _ c _ (by conv_tac)

theorem gen_cast_nd_i16_i32 (c num den : Int) (hc : -2147483648 ≤ c ∧ c < 2147483648) (hn : -9223372036854775808 ≤ num ∧ num < 9223372036854775808) (hd : -9223372036854775808 ≤ den ∧ den < 9223372036854775808) (hn1 : num ≠ 1) (hd1 : den ≠ 1) :
    (Gen.cast_nd_i16_i32_ub c num den = true → castCore ⟨⟨16, true⟩, imax, ⟨num, den⟩⟩ c = .ok (Gen.cast_nd_i16_i32 c num den)) ∧
    (Gen.cast_nd_i16_i32_ub c num den = false → ∃ e, castCore ⟨⟨16, true⟩, imax, ⟨num, den⟩⟩ c = .error e) :=
  nd_shape _ c (wrapS 64 c) num den _ (imax_conv_wrap c) hn hd hn1 hd1 (by conv_tac)
theorem gen_cast_d_i16_i32 (c den : Int) (hc : -2147483648 ≤ c ∧ c < 2147483648) (hd : -9223372036854775808 ≤ den ∧ den < 9223372036854775808) (hd1 : den ≠ 1) :
    (Gen.cast_d_i16_i32_ub c den = true → castCore ⟨⟨16, true⟩, imax, ⟨1, den⟩⟩ c = .ok (Gen.cast_d_i16_i32 c den)) ∧
    (Gen.cast_d_i16_i32_ub c den = false → ∃ e, castCore ⟨⟨16, true⟩, imax, ⟨1, den⟩⟩ c = .error e) :=
  d_shape _ c (wrapS 64 c) den _ (imax_conv_wrap c) (wrapS64_inRange c) hd hd1 (by conv_tac)
theorem gen_cast_n_i16_i32 (c num : Int) (hc : -2147483648 ≤ c ∧ c < 2147483648) (hn : -9223372036854775808 ≤ num ∧ num < 9223372036854775808) (hn1 : num ≠ 1) :
    (Gen.cast_n_i16_i32_ub c num = true → castCore ⟨⟨16, true⟩, imax, ⟨num, 1⟩⟩ c = .ok (Gen.cast_n_i16_i32 c num)) ∧
    (Gen.cast_n_i16_i32_ub c num = false → ∃ e, castCore ⟨⟨16, true⟩, imax, ⟨num, 1⟩⟩ c = .error e) :=
  n_shape _ c (wrapS 64 c) num _ (imax_conv_wrap c) hn hn1 (by conv_tac)
theorem gen_cast_id_i16_i32 (c : Int) (hc : -2147483648 ≤ c ∧ c < 2147483648) :
    Gen.cast_id_i16_i32_ub c = true ∧ castCore ⟨⟨16, true⟩, imax, ⟨1, 1⟩⟩ c = .ok (Gen.cast_id_i16_i32 c) :=
  id_shape _ c _ (by conv_tac)

theorem gen_cast_nd_i16_i64 (c num den : Int) (hc : -9223372036854775808 ≤ c ∧ c < 9223372036854775808) (hn : -9223372036854775808 ≤ num ∧ num < 9223372036854775808) (hd : -9223372036854775808 ≤ den ∧ den < 9223372036854775808) (hn1 : num ≠ 1) (hd1 : den ≠ 1) :
    (Gen.cast_nd_i16_i64_ub c num den = true → castCore ⟨⟨16, true⟩, imax, ⟨num, den⟩⟩ c = .ok (Gen.cast_nd_i16_i64 c num den)) ∧
    (Gen.cast_nd_i16_i64_ub c num den = false → ∃ e, castCore ⟨⟨16, true⟩, imax, ⟨num, den⟩⟩ c = .error e) :=
  nd_shape _ c c num den _ (imax_conv c hc) hn hd hn1 hd1 (by conv_tac)
theorem gen_cast_d_i16_i64 (c den : Int) (hc : -9223372036854775808 ≤ c ∧ c < 9223372036854775808) (hd : -9223372036854775808 ≤ den ∧ den < 9223372036854775808) (hd1 : den ≠ 1) :
    (Gen.cast_d_i16_i64_ub c den = true → castCore ⟨⟨16, true⟩, imax, ⟨1, den⟩⟩ c = .ok (Gen.cast_d_i16_i64 c den)) ∧
    (Gen.cast_d_i16_i64_ub c den = false → ∃ e, castCore ⟨⟨16, true⟩, imax, ⟨1, den⟩⟩ c = .error e) :=
  d_shape _ c c den _ (imax_conv c hc) (inRange_i64 c hc) hd hd1 (by conv_tac)
theorem gen_cast_n_i16_i64 (c num : Int) (hc : -9223372036854775808 ≤ c ∧ c < 9223372036854775808) (hn : -9223372036854775808 ≤ num ∧ num < 9223372036854775808) (hn1 : num ≠ 1) :
    (Gen.cast_n_i16_i64_ub c num = true → castCore ⟨⟨16, true⟩, imax, ⟨num, 1⟩⟩ c = .ok (Gen.cast_n_i16_i64 c num)) ∧
    (Gen.cast_n_i16_i64_ub c num = false → ∃ e, castCore ⟨⟨16, true⟩, imax, ⟨num, 1⟩⟩ c = .error e) :=
  n_shape _ c c num _ (imax_conv c hc) hn hn1 (by conv_tac)
theorem gen_cast_id_i16_i64 (c : Int) (hc : -9223372036854775808 ≤ c ∧ c < 9223372036854775808) :
    Gen.cast_id_i16_i64_ub c = true ∧ castCore ⟨⟨16, true⟩, imax, ⟨1, 1⟩⟩ c = .ok (Gen.cast_id_i16_i64 c) :=
  id_shape _ c _ (by conv_tac)

theorem gen_cast_nd_i16_u32 (c num den : Int) (hc : 0 ≤ c ∧ c < 4294967296) (hn : -9223372036854775808 ≤ num ∧ num < 9223372036854775808) (hd : -9223372036854775808 ≤ den ∧ den < 9223372036854775808) (hn1 : num ≠ 1) (hd1 : den ≠ 1) :
    (Gen.cast_nd_i16_u32_ub c num den = true → castCore ⟨⟨16, true⟩, imax, ⟨num, den⟩⟩ c = .ok (Gen.cast_nd_i16_u32 c num den)) ∧
    (Gen.cast_nd_i16_u32_ub c num den = false → ∃ e, castCore ⟨⟨16, true⟩, imax, ⟨num, den⟩⟩ c = .error e) :=
  nd_shape _ c (wrapS 64 c) num den _ (imax_conv_wrap c) hn hd hn1 hd1 (by conv_tac)
theorem gen_cast_d_i16_u32 (c den : Int) (hc : 0 ≤ c ∧ c < 4294967296) (hd : -9223372036854775808 ≤ den ∧ den < 9223372036854775808) (hd1 : den ≠ 1) :
    (Gen.cast_d_i16_u32_ub c den = true → castCore ⟨⟨16, true⟩, imax, ⟨1, den⟩⟩ c = .ok (Gen.cast_d_i16_u32 c den)) ∧
    (Gen.cast_d_i16_u32_ub c den = false → ∃ e, castCore ⟨⟨16, true⟩, imax, ⟨1, den⟩⟩ c = .error e) :=
  d_shape _ c (wrapS 64 c) den _ (imax_conv_wrap c) (wrapS64_inRange c) hd hd1 (by conv_tac)
theorem gen_cast_n_i16_u32 (c num : Int) (hc : 0 ≤ c ∧ c < 4294967296) (hn : -9223372036854775808 ≤ num ∧ num < 9223372036854775808) (hn1 : num ≠ 1) :
    (Gen.cast_n_i16_u32_ub c num = true → castCore ⟨⟨16, true⟩, imax, ⟨num, 1⟩⟩ c = .ok (Gen.cast_n_i16_u32 c num)) ∧
    (Gen.cast_n_i16_u32_ub c num = false → ∃ e, castCore ⟨⟨16, true⟩, imax, ⟨num, 1⟩⟩ c = .error e) :=
  n_shape _ c (wrapS 64 c) num _ (imax_conv_wrap c) hn hn1 (by conv_tac)
theorem gen_cast_id_i16_u32 (c : Int) (hc : 0 ≤ c ∧ c < 4294967296) :
    Gen.cast_id_i16_u32_ub c = true ∧ castCore ⟨⟨16, true⟩, imax, ⟨1, 1⟩⟩ c = .ok (Gen.cast_id_i16_u32 c) :=
  id_shape _ c _ (by conv_tac)

theorem gen_cast_nd_i32_i16 (c num den : Int) (hc : -32768 ≤ c ∧ c < 32768) (hn : -9223372036854775808 ≤ num ∧ num < 9223372036854775808) (hd : -9223372036854775808 ≤ den ∧ den < 9223372036854775808) (hn1 : num ≠ 1) (hd1 : den ≠ 1) :
    (Gen.cast_nd_i32_i16_ub c num den = true → castCore ⟨⟨32, true⟩, imax, ⟨num, den⟩⟩ c = .ok (Gen.cast_nd_i32_i16 c num den)) ∧
    (Gen.cast_nd_i32_i16_ub c num den = false → ∃ e, castCore ⟨⟨32, true⟩, imax, ⟨num, den⟩⟩ c = .error e) :=
  nd_shape _ c (wrapS 64 c) num den _ (imax_conv_wrap c) hn hd hn1 hd1 (by conv_tac)
theorem gen_cast_d_i32_i16 (c den : Int) (hc : -32768 ≤ c ∧ c < 32768) (hd : -9223372036854775808 ≤ den ∧ den < 9223372036854775808) (hd1 : den ≠ 1) :
    (Gen.cast_d_i32_i16_ub c den = true → castCore ⟨⟨32, true⟩, imax, ⟨1, den⟩⟩ c = .ok (Gen.cast_d_i32_i16 c den)) ∧
    (Gen.cast_d_i32_i16_ub c den = false → ∃ e, castCore ⟨⟨32, true⟩, imax, ⟨1, den⟩⟩ c = .error e) :=
  d_shape _ c (wrapS 64 c) den _ (imax_conv_wrap c) (wrapS64_inRange c) hd hd1 (by conv_tac)
theorem gen_cast_n_i32_i16 (c num : Int) (hc : -32768 ≤ c ∧ c < 32768) (hn : -9223372036854775808 ≤ num ∧ num < 9223372036854775808) (hn1 : num ≠ 1) :
    (Gen.cast_n_i32_i16_ub c num = true → castCore ⟨⟨32, true⟩, imax, ⟨num, 1⟩⟩ c = .ok (Gen.cast_n_i32_i16 c num)) ∧
    (Gen.cast_n_i32_i16_ub c num = false → ∃ e, castCore ⟨⟨32, true⟩, imax, ⟨num, 1⟩⟩ c = .error e) :=
  n_shape _ c (wrapS 64 c) num _ (imax_conv_wrap c) hn hn1 (by conv_tac)
theorem gen_cast_id_i32_i16 (c : Int) (hc : -32768 ≤ c ∧ c < 32768) :
    Gen.cast_id_i32_i16_ub c = true ∧ castCore ⟨⟨32, true⟩, imax, ⟨1, 1⟩⟩ c = .ok (Gen.cast_id_i32_i16 c) :=
  id_shape _ c _ (by conv_tac)

theorem gen_cast_nd_i32_i32 (c num den : Int) (hc : -2147483648 ≤ c ∧ c < 2147483648) (hn : -9223372036854775808 ≤ num ∧ num < 9223372036854775808) (hd : -9223372036854775808 ≤ den ∧ den < 9223372036854775808) (hn1 : num ≠ 1) (hd1 : den ≠ 1) :
    (Gen.cast_nd_i32_i32_ub c num den = true → castCore ⟨⟨32, true⟩, imax, ⟨num, den⟩⟩ c = .ok (Gen.cast_nd_i32_i32 c num den)) ∧
    (Gen.cast_nd_i32_i32_ub c num den = false → ∃ e, castCore ⟨⟨32, true⟩, imax, ⟨num, den⟩⟩ c = .error e) :=
  nd_shape _ c (wrapS 64 c) num den _ (imax_conv_wrap c) hn hd hn1 hd1 (by conv_tac)
theorem gen_cast_d_i32_i32 (c den : Int) (hc : -2147483648 ≤ c ∧ c < 2147483648) (hd : -9223372036854775808 ≤ den ∧ den < 9223372036854775808) (hd1 : den ≠ 1) :
    (Gen.cast_d_i32_i32_ub c den = true → castCore ⟨⟨32, true⟩, imax, ⟨1, den⟩⟩ c = .ok (Gen.cast_d_i32_i32 c den)) ∧
    (Gen.cast_d_i32_i32_ub c den = false → ∃ e, castCore ⟨⟨32, true⟩, imax, ⟨1, den⟩⟩ c = .error e) :=
  d_shape _ c (wrapS 64 c) den _ (imax_conv_wrap c) (wrapS64_inRange c) hd hd1 (by conv_tac)
theorem gen_cast_n_i32_i32 (c num : Int) (hc : -2147483648 ≤ c ∧ c < 2147483648) (hn : -9223372036854775808 ≤ num ∧ num < 9223372036854775808) (hn1 : num ≠ 1) :
    (Gen.cast_n_i32_i32_ub c num = true → castCore ⟨⟨32, true⟩, imax, ⟨num, 1⟩⟩ c = .ok (Gen.cast_n_i32_i32 c num)) ∧
    (Gen.cast_n_i32_i32_ub c num = false → ∃ e, castCore ⟨⟨32, true⟩, imax, ⟨num, 1⟩⟩ c = .error e) :=
  n_shape _ c (wrapS 64 c) num _ (imax_conv_wrap c) hn hn1 (by conv_tac)
theorem gen_cast_id_i32_i32 (c : Int) (hc : -2147483648 ≤ c ∧ c < 2147483648) :
    Gen.cast_id_i32_i32_ub c = true ∧ castCore ⟨⟨32, true⟩, imax, ⟨1, 1⟩⟩ c = .ok (Gen.cast_id_i32_i32 c) :=
  id_shape _ c _ (by conv_tac)

theorem gen_cast_nd_i32_i64 (c num den : Int) (hc : -9223372036854775808 ≤ c ∧ c < 9223372036854775808) (hn : -9223372036854775808 ≤ num ∧ num < 9223372036854775808) (hd : -9223372036854775808 ≤ den ∧ den < 9223372036854775808) (hn1 : num ≠ 1) (hd1 : den ≠ 1) :
    (Gen.cast_nd_i32_i64_ub c num den = true → castCore ⟨⟨32, true⟩, imax, ⟨num, den⟩⟩ c = .ok (Gen.cast_nd_i32_i64 c num den)) ∧
    (Gen.cast_nd_i32_i64_ub c num den = false → ∃ e, castCore ⟨⟨32, true⟩, imax, ⟨num, den⟩⟩ c = .error e) :=
  nd_shape _ c c num den _ (imax_conv c hc) hn hd hn1 hd1 (by conv_tac)
theorem gen_cast_d_i32_i64 (c den : Int) (hc : -9223372036854775808 ≤ c ∧ c < 9223372036854775808) (hd : -9223372036854775808 ≤ den ∧ den < 9223372036854775808) (hd1 : den ≠ 1) :
    (Gen.cast_d_i32_i64_ub c den = true → castCore ⟨⟨32, true⟩, imax, ⟨1, den⟩⟩ c = .ok (Gen.cast_d_i32_i64 c den)) ∧
    (Gen.cast_d_i32_i64_ub c den = false → ∃ e, castCore ⟨⟨32, true⟩, imax, ⟨1, den⟩⟩ c = .error e) :=
  d_shape _ c c den _ (imax_conv c hc) (inRange_i64 c hc) hd hd1 (by conv_tac)
theorem gen_cast_n_i32_i64 (c num : Int) (hc : -9223372036854775808 ≤ c ∧ c < 9223372036854775808) (hn : -9223372036854775808 ≤ num ∧ num < 9223372036854775808) (hn1 : num ≠ 1) :
    (Gen.cast_n_i32_i64_ub c num = true → castCore ⟨⟨32, true⟩, imax, ⟨num, 1⟩⟩ c = .ok (Gen.cast_n_i32_i64 c num)) ∧
    (Gen.cast_n_i32_i64_ub c num = false → ∃ e, castCore ⟨⟨32, true⟩, imax, ⟨num, 1⟩⟩ c = .error e) :=
  n_shape _ c c num _ (imax_conv c hc) hn hn1 (by conv_tac)
theorem gen_cast_id_i32_i64 (c : Int) (hc : -9223372036854775808 ≤ c ∧ c < 9223372036854775808) :
    Gen.cast_id_i32_i64_ub c = true ∧ castCore ⟨⟨32, true⟩, imax, ⟨1, 1⟩⟩ c = .ok (Gen.cast_id_i32_i64 c) :=
  id_shape _ c _ (by conv_tac)

theorem gen_cast_nd_i32_u32 (c num den : Int) (hc : 0 ≤ c ∧ c < 4294967296) (hn : -9223372036854775808 ≤ num ∧ num < 9223372036854775808) (hd : -9223372036854775808 ≤ den ∧ den < 9223372036854775808) (hn1 : num ≠ 1) (hd1 : den ≠ 1) :
    (Gen.cast_nd_i32_u32_ub c num den = true → castCore ⟨⟨32, true⟩, imax, ⟨num, den⟩⟩ c = .ok (Gen.cast_nd_i32_u32 c num den)) ∧
    (Gen.cast_nd_i32_u32_ub c num den = false → ∃ e, castCore ⟨⟨32, true⟩, imax, ⟨num, den⟩⟩ c = .error e) :=
  nd_shape _ c (wrapS 64 c) num den _ (imax_conv_wrap c) hn hd hn1 hd1 (by conv_tac)
theorem gen_cast_d_i32_u32 (c den : Int) (hc : 0 ≤ c ∧ c < 4294967296) (hd : -9223372036854775808 ≤ den ∧ den < 9223372036854775808) (hd1 : den ≠ 1) :
    (Gen.cast_d_i32_u32_ub c den = true → castCore ⟨⟨32, true⟩, imax, ⟨1, den⟩⟩ c = .ok (Gen.cast_d_i32_u32 c den)) ∧
    (Gen.cast_d_i32_u32_ub c den = false → ∃ e, castCore ⟨⟨32, true⟩, imax, ⟨1, den⟩⟩ c = .error e) :=
  d_shape _ c (wrapS 64 c) den _ (imax_conv_wrap c) (wrapS64_inRange c) hd hd1 (by conv_tac)
theorem gen_cast_n_i32_u32 (c num : Int) (hc : 0 ≤ c ∧ c < 4294967296) (hn : -9223372036854775808 ≤ num ∧ num < 9223372036854775808) (hn1 : num ≠ 1) :
    (Gen.cast_n_i32_u32_ub c num = true → castCore ⟨⟨32, true⟩, imax, ⟨num, 1⟩⟩ c = .ok (Gen.cast_n_i32_u32 c num)) ∧
    (Gen.cast_n_i32_u32_ub c num = false → ∃ e, castCore ⟨⟨32, true⟩, imax, ⟨num, 1⟩⟩ c = .error e) :=
  n_shape _ c (wrapS 64 c) num _ (imax_conv_wrap c) hn hn1 (by conv_tac)
theorem gen_cast_id_i32_u32 (c : Int) (hc : 0 ≤ c ∧ c < 4294967296) :
    Gen.cast_id_i32_u32_ub c = true ∧ castCore ⟨⟨32, true⟩, imax, ⟨1, 1⟩⟩ c = .ok (Gen.cast_id_i32_u32 c) :=
  id_shape _ c _ (by conv_tac)

theorem gen_cast_nd_i64_i16 (c num den : Int) (hc : -32768 ≤ c ∧ c < 32768) (hn : -9223372036854775808 ≤ num ∧ num < 9223372036854775808) (hd : -9223372036854775808 ≤ den ∧ den < 9223372036854775808) (hn1 : num ≠ 1) (hd1 : den ≠ 1) :
    (Gen.cast_nd_i64_i16_ub c num den = true → castCore ⟨⟨64, true⟩, imax, ⟨num, den⟩⟩ c = .ok (Gen.cast_nd_i64_i16 c num den)) ∧
    (Gen.cast_nd_i64_i16_ub c num den = false → ∃ e, castCore ⟨⟨64, true⟩, imax, ⟨num, den⟩⟩ c = .error e) :=
  nd_shape _ c (wrapS 64 c) num den _ (imax_conv_wrap c) hn hd hn1 hd1 (by conv_tac)
theorem gen_cast_d_i64_i16 (c den : Int) (hc : -32768 ≤ c ∧ c < 32768) (hd : -9223372036854775808 ≤ den ∧ den < 9223372036854775808) (hd1 : den ≠ 1) :
    (Gen.cast_d_i64_i16_ub c den = true → castCore ⟨⟨64, true⟩, imax, ⟨1, den⟩⟩ c = .ok (Gen.cast_d_i64_i16 c den)) ∧
    (Gen.cast_d_i64_i16_ub c den = false → ∃ e, castCore ⟨⟨64, true⟩, imax, ⟨1, den⟩⟩ c = .error e) :=
  d_shape _ c (wrapS 64 c) den _ (imax_conv_wrap c) (wrapS64_inRange c) hd hd1 (by conv_tac)
theorem gen_cast_n_i64_i16 (c num : Int) (hc : -32768 ≤ c ∧ c < 32768) (hn : -9223372036854775808 ≤ num ∧ num < 9223372036854775808) (hn1 : num ≠ 1) :
    (Gen.cast_n_i64_i16_ub c num = true → castCore ⟨⟨64, true⟩, imax, ⟨num, 1⟩⟩ c = .ok (Gen.cast_n_i64_i16 c num)) ∧
    (Gen.cast_n_i64_i16_ub c num = false → ∃ e, castCore ⟨⟨64, true⟩, imax, ⟨num, 1⟩⟩ c = .error e) :=
  n_shape _ c (wrapS 64 c) num _ (imax_conv_wrap c) hn hn1 (by conv_tac)
theorem gen_cast_id_i64_i16 (c : Int) (hc : -32768 ≤ c ∧ c < 32768) :
    Gen.cast_id_i64_i16_ub c = true ∧ castCore ⟨⟨64, true⟩, imax, ⟨1, 1⟩⟩ c = .ok (Gen.cast_id_i64_i16 c) :=
  id_shape _ c _ (by conv_tac)

theorem gen_cast_nd_i64_i32 (c num den : Int) (hc : -2147483648 ≤ c ∧ c < 2147483648) (hn : -9223372036854775808 ≤ num ∧ num < 9223372036854775808) (hd : -9223372036854775808 ≤ den ∧ den < 9223372036854775808) (hn1 : num ≠ 1) (hd1 : den ≠ 1) :
    (Gen.cast_nd_i64_i32_ub c num den = true → castCore ⟨⟨64, true⟩, imax, ⟨num, den⟩⟩ c = .ok (Gen.cast_nd_i64_i32 c num den)) ∧
    (Gen.cast_nd_i64_i32_ub c num den = false → ∃ e, castCore ⟨⟨64, true⟩, imax, ⟨num, den⟩⟩ c = .error e) :=
  nd_shape _ c (wrapS 64 c) num den _ (imax_conv_wrap c) hn hd hn1 hd1 (by conv_tac)
theorem gen_cast_d_i64_i32 (c den : Int) (hc : -2147483648 ≤ c ∧ c < 2147483648) (hd : -9223372036854775808 ≤ den ∧ den < 9223372036854775808) (hd1 : den ≠ 1) :
    (Gen.cast_d_i64_i32_ub c den = true → castCore ⟨⟨64, true⟩, imax, ⟨1, den⟩⟩ c = .ok (Gen.cast_d_i64_i32 c den)) ∧
    (Gen.cast_d_i64_i32_ub c den = false → ∃ e, castCore ⟨⟨64, true⟩, imax, ⟨1, den⟩⟩ c = .error e) :=
  d_shape _ c (wrapS 64 c) den _ (imax_conv_wrap c) (wrapS64_inRange c) hd hd1 (by conv_tac)
theorem gen_cast_n_i64_i32 (c num : Int) (hc : -2147483648 ≤ c ∧ c < 2147483648) (hn : -9223372036854775808 ≤ num ∧ num < 9223372036854775808) (hn1 : num ≠ 1) :
    (Gen.cast_n_i64_i32_ub c num = true → castCore ⟨⟨64, true⟩, imax, ⟨num, 1⟩⟩ c = .ok (Gen.cast_n_i64_i32 c num)) ∧
    (Gen.cast_n_i64_i32_ub c num = false → ∃ e, castCore ⟨⟨64, true⟩, imax, ⟨num, 1⟩⟩ c = .error e) :=
  n_shape _ c (wrapS 64 c) num _ (imax_conv_wrap c) hn hn1 (by conv_tac)
theorem gen_cast_id_i64_i32 (c : Int) (hc : -2147483648 ≤ c ∧ c < 2147483648) :
    Gen.cast_id_i64_i32_ub c = true ∧ castCore ⟨⟨64, true⟩, imax, ⟨1, 1⟩⟩ c = .ok (Gen.cast_id_i64_i32 c) :=
  id_shape _ c _ (by conv_tac)

theorem gen_cast_nd_i64_i64 (c num den : Int) (hc : -9223372036854775808 ≤ c ∧ c < 9223372036854775808) (hn : -9223372036854775808 ≤ num ∧ num < 9223372036854775808) (hd : -9223372036854775808 ≤ den ∧ den < 9223372036854775808) (hn1 : num ≠ 1) (hd1 : den ≠ 1) :
    (Gen.cast_nd_i64_i64_ub c num den = true → castCore ⟨⟨64, true⟩, imax, ⟨num, den⟩⟩ c = .ok (Gen.cast_nd_i64_i64 c num den)) ∧
    (Gen.cast_nd_i64_i64_ub c num den = false → ∃ e, castCore ⟨⟨64, true⟩, imax, ⟨num, den⟩⟩ c = .error e) :=
  nd_shape _ c c num den _ (imax_conv c hc) hn hd hn1 hd1 (by conv_tac)
theorem gen_cast_d_i64_i64 (c den : Int) (hc : -9223372036854775808 ≤ c ∧ c < 9223372036854775808) (hd : -9223372036854775808 ≤ den ∧ den < 9223372036854775808) (hd1 : den ≠ 1) :
    (Gen.cast_d_i64_i64_ub c den = true → castCore ⟨⟨64, true⟩, imax, ⟨1, den⟩⟩ c = .ok (Gen.cast_d_i64_i64 c den)) ∧
    (Gen.cast_d_i64_i64_ub c den = false → ∃ e, castCore ⟨⟨64, true⟩, imax, ⟨1, den⟩⟩ c = .error e) :=
  d_shape _ c c den _ (imax_conv c hc) (inRange_i64 c hc) hd hd1 (by conv_tac)
theorem gen_cast_n_i64_i64 (c num : Int) (hc : -9223372036854775808 ≤ c ∧ c < 9223372036854775808) (hn : -9223372036854775808 ≤ num ∧ num < 9223372036854775808) (hn1 : num ≠ 1) :
    (Gen.cast_n_i64_i64_ub c num = true → castCore ⟨⟨64, true⟩, imax, ⟨num, 1⟩⟩ c = .ok (Gen.cast_n_i64_i64 c num)) ∧
    (Gen.cast_n_i64_i64_ub c num = false → ∃ e, castCore ⟨⟨64, true⟩, imax, ⟨num, 1⟩⟩ c = .error e) :=
  n_shape _ c c num _ (imax_conv c hc) hn hn1 (by conv_tac)
theorem gen_cast_id_i64_i64 (c : Int) (hc : -9223372036854775808 ≤ c ∧ c < 9223372036854775808) :
    Gen.cast_id_i64_i64_ub c = true ∧ castCore ⟨⟨64, true⟩, imax, ⟨1, 1⟩⟩ c = .ok (Gen.cast_id_i64_i64 c) :=
  id_shape _ c _ (by conv_tac)

theorem gen_cast_nd_i64_u32 (c num den : Int) (hc : 0 ≤ c ∧ c < 4294967296) (hn : -9223372036854775808 ≤ num ∧ num < 9223372036854775808) (hd : -9223372036854775808 ≤ den ∧ den < 9223372036854775808) (hn1 : num ≠ 1) (hd1 : den ≠ 1) :
    (Gen.cast_nd_i64_u32_ub c num den = true → castCore ⟨⟨64, true⟩, imax, ⟨num, den⟩⟩ c = .ok (Gen.cast_nd_i64_u32 c num den)) ∧
    (Gen.cast_nd_i64_u32_ub c num den = false → ∃ e, castCore ⟨⟨64, true⟩, imax, ⟨num, den⟩⟩ c = .error e) :=
  nd_shape _ c (wrapS 64 c) num den _ (imax_conv_wrap c) hn hd hn1 hd1 (by conv_tac)
theorem gen_cast_d_i64_u32 (c den : Int) (hc : 0 ≤ c ∧ c < 4294967296) (hd : -9223372036854775808 ≤ den ∧ den < 9223372036854775808) (hd1 : den ≠ 1) :
    (Gen.cast_d_i64_u32_ub c den = true → castCore ⟨⟨64, true⟩, imax, ⟨1, den⟩⟩ c = .ok (Gen.cast_d_i64_u32 c den)) ∧
    (Gen.cast_d_i64_u32_ub c den = false → ∃ e, castCore ⟨⟨64, true⟩, imax, ⟨1, den⟩⟩ c = .error e) :=
  d_shape _ c (wrapS 64 c) den _ (imax_conv_wrap c) (wrapS64_inRange c) hd hd1 (by conv_tac)
theorem gen_cast_n_i64_u32 (c num : Int) (hc : 0 ≤ c ∧ c < 4294967296) (hn : -9223372036854775808 ≤ num ∧ num < 9223372036854775808) (hn1 : num ≠ 1) :
    (Gen.cast_n_i64_u32_ub c num = true → castCore ⟨⟨64, true⟩, imax, ⟨num, 1⟩⟩ c = .ok (Gen.cast_n_i64_u32 c num)) ∧
    (Gen.cast_n_i64_u32_ub c num = false → ∃ e, castCore ⟨⟨64, true⟩, imax, ⟨num, 1⟩⟩ c = .error e) :=
  n_shape _ c (wrapS 64 c) num _ (imax_conv_wrap c) hn hn1 (by conv_tac)
theorem gen_cast_id_i64_u32 (c : Int) (hc : 0 ≤ c ∧ c < 4294967296) :
    Gen.cast_id_i64_u32_ub c = true ∧ castCore ⟨⟨64, true⟩, imax, ⟨1, 1⟩⟩ c = .ok (Gen.cast_id_i64_u32 c) :=
  id_shape _ c _ (by conv_tac)

theorem gen_cast_nd_u32_i16 (c num den : Int) (hc : -32768 ≤ c ∧ c < 32768) (hn : -9223372036854775808 ≤ num ∧ num < 9223372036854775808) (hd : -9223372036854775808 ≤ den ∧ den < 9223372036854775808) (hn1 : num ≠ 1) (hd1 : den ≠ 1) :
    (Gen.cast_nd_u32_i16_ub c num den = true → castCore ⟨⟨32, false⟩, imax, ⟨num, den⟩⟩ c = .ok (Gen.cast_nd_u32_i16 c num den)) ∧
    (Gen.cast_nd_u32_i16_ub c num den = false → ∃ e, castCore ⟨⟨32, false⟩, imax, ⟨num, den⟩⟩ c = .error e) :=
  nd_shape _ c (wrapS 64 c) num den _ (imax_conv_wrap c) hn hd hn1 hd1 (by conv_tac)
theorem gen_cast_d_u32_i16 (c den : Int) (hc : -32768 ≤ c ∧ c < 32768) (hd : -9223372036854775808 ≤ den ∧ den < 9223372036854775808) (hd1 : den ≠ 1) :
    (Gen.cast_d_u32_i16_ub c den = true → castCore ⟨⟨32, false⟩, imax, ⟨1, den⟩⟩ c = .ok (Gen.cast_d_u32_i16 c den)) ∧
    (Gen.cast_d_u32_i16_ub c den = false → ∃ e, castCore ⟨⟨32, false⟩, imax, ⟨1, den⟩⟩ c = .error e) :=
  d_shape _ c (wrapS 64 c) den _ (imax_conv_wrap c) (wrapS64_inRange c) hd hd1 (by conv_tac)
theorem gen_cast_n_u32_i16 (c num : Int) (hc : -32768 ≤ c ∧ c < 32768) (hn : -9223372036854775808 ≤ num ∧ num < 9223372036854775808) (hn1 : num ≠ 1) :
    (Gen.cast_n_u32_i16_ub c num = true → castCore ⟨⟨32, false⟩, imax, ⟨num, 1⟩⟩ c = .ok (Gen.cast_n_u32_i16 c num)) ∧
    (Gen.cast_n_u32_i16_ub c num = false → ∃ e, castCore ⟨⟨32, false⟩, imax, ⟨num, 1⟩⟩ c = .error e) :=
  n_shape _ c (wrapS 64 c) num _ (imax_conv_wrap c) hn hn1 (by conv_tac)
theorem gen_cast_id_u32_i16 (c : Int) (hc : -32768 ≤ c ∧ c < 32768) :
    Gen.cast_id_u32_i16_ub c = true ∧ castCore ⟨⟨32, false⟩, imax, ⟨1, 1⟩⟩ c = .ok (Gen.cast_id_u32_i16 c) :=
  id_shape _ c _ (by conv_tac)

theorem gen_cast_nd_u32_i32 (c num den : Int) (hc : -2147483648 ≤ c ∧ c < 2147483648) (hn : -9223372036854775808 ≤ num ∧ num < 9223372036854775808) (hd : -9223372036854775808 ≤ den ∧ den < 9223372036854775808) (hn1 : num ≠ 1) (hd1 : den ≠ 1) :
    (Gen.cast_nd_u32_i32_ub c num den = true → castCore ⟨⟨32, false⟩, imax, ⟨num, den⟩⟩ c = .ok (Gen.cast_nd_u32_i32 c num den)) ∧
    (Gen.cast_nd_u32_i32_ub c num den = false → ∃ e, castCore ⟨⟨32, false⟩, imax, ⟨num, den⟩⟩ c = .error e) :=
  nd_shape _ c (wrapS 64 c) num den _ (imax_conv_wrap c) hn hd hn1 hd1 (by conv_tac)
theorem gen_cast_d_u32_i32 (c den : Int) (hc : -2147483648 ≤ c ∧ c < 2147483648) (hd : -9223372036854775808 ≤ den ∧ den < 9223372036854775808) (hd1 : den ≠ 1) :
    (Gen.cast_d_u32_i32_ub c den = true → castCore ⟨⟨32, false⟩, imax, ⟨1, den⟩⟩ c = .ok (Gen.cast_d_u32_i32 c den)) ∧
    (Gen.cast_d_u32_i32_ub c den = false → ∃ e, castCore ⟨⟨32, false⟩, imax, ⟨1, den⟩⟩ c = .error e) :=
  d_shape _ c (wrapS 64 c) den _ (imax_conv_wrap c) (wrapS64_inRange c) hd hd1 (by conv_tac)
theorem gen_cast_n_u32_i32 (c num : Int) (hc : -2147483648 ≤ c ∧ c < 2147483648) (hn : -9223372036854775808 ≤ num ∧ num < 9223372036854775808) (hn1 : num ≠ 1) :
    (Gen.cast_n_u32_i32_ub c num = true → castCore ⟨⟨32, false⟩, imax, ⟨num, 1⟩⟩ c = .ok (Gen.cast_n_u32_i32 c num)) ∧
    (Gen.cast_n_u32_i32_ub c num = false → ∃ e, castCore ⟨⟨32, false⟩, imax, ⟨num, 1⟩⟩ c = .error e) :=
  n_shape _ c (wrapS 64 c) num _ (imax_conv_wrap c) hn hn1 (by conv_tac)
theorem gen_cast_id_u32_i32 (c : Int) (hc : -2147483648 ≤ c ∧ c < 2147483648) :
    Gen.cast_id_u32_i32_ub c = true ∧ castCore ⟨⟨32, false⟩, imax, ⟨1, 1⟩⟩ c = .ok (Gen.cast_id_u32_i32 c) :=
  id_shape _ c _ (by conv_tac)

theorem gen_cast_nd_u32_i64 (c num den : Int) (hc : -9223372036854775808 ≤ c ∧ c < 9223372036854775808) (hn : -9223372036854775808 ≤ num ∧ num < 9223372036854775808) (hd : -9223372036854775808 ≤ den ∧ den < 9223372036854775808) (hn1 : num ≠ 1) (hd1 : den ≠ 1) :
    (Gen.cast_nd_u32_i64_ub c num den = true → castCore ⟨⟨32, false⟩, imax, ⟨num, den⟩⟩ c = .ok (Gen.cast_nd_u32_i64 c num den)) ∧
    (Gen.cast_nd_u32_i64_ub c num den = false → ∃ e, castCore ⟨⟨32, false⟩, imax, ⟨num, den⟩⟩ c = .error e) :=
  nd_shape _ c c num den _ (imax_conv c hc) hn hd hn1 hd1 (by conv_tac)
theorem gen_cast_d_u32_i64 (c den : Int) (hc : -9223372036854775808 ≤ c ∧ c < 9223372036854775808) (hd : -9223372036854775808 ≤ den ∧ den < 9223372036854775808) (hd1 : den ≠ 1) :
    (Gen.cast_d_u32_i64_ub c den = true → castCore ⟨⟨32, false⟩, imax, ⟨1, den⟩⟩ c = .ok (Gen.cast_d_u32_i64 c den)) ∧
    (Gen.cast_d_u32_i64_ub c den = false → ∃ e, castCore ⟨⟨32, false⟩, imax, ⟨1, den⟩⟩ c = .error e) :=
  d_shape _ c c den _ (imax_conv c hc) (inRange_i64 c hc) hd hd1 (by conv_tac)
theorem gen_cast_n_u32_i64 (c num : Int) (hc : -9223372036854775808 ≤ c ∧ c < 9223372036854775808) (hn : -9223372036854775808 ≤ num ∧ num < 9223372036854775808) (hn1 : num ≠ 1) :
    (Gen.cast_n_u32_i64_ub c num = true → castCore ⟨⟨32, false⟩, imax, ⟨num, 1⟩⟩ c = .ok (Gen.cast_n_u32_i64 c num)) ∧
    (Gen.cast_n_u32_i64_ub c num = false → ∃ e, castCore ⟨⟨32, false⟩, imax, ⟨num, 1⟩⟩ c = .error e) :=
  n_shape _ c c num _ (imax_conv c hc) hn hn1 (by conv_tac)
theorem gen_cast_id_u32_i64 (c : Int) (hc : -9223372036854775808 ≤ c ∧ c < 9223372036854775808) :
    Gen.cast_id_u32_i64_ub c = true ∧ castCore ⟨⟨32, false⟩, imax, ⟨1, 1⟩⟩ c = .ok (Gen.cast_id_u32_i64 c) :=
  id_shape _ c _ (by conv_tac)

theorem gen_cast_nd_u32_u32 (c num den : Int) (hc : 0 ≤ c ∧ c < 4294967296) (hn : -9223372036854775808 ≤ num ∧ num < 9223372036854775808) (hd : -9223372036854775808 ≤ den ∧ den < 9223372036854775808) (hn1 : num ≠ 1) (hd1 : den ≠ 1) :
    (Gen.cast_nd_u32_u32_ub c num den = true → castCore ⟨⟨32, false⟩, imax, ⟨num, den⟩⟩ c = .ok (Gen.cast_nd_u32_u32 c num den)) ∧
    (Gen.cast_nd_u32_u32_ub c num den = false → ∃ e, castCore ⟨⟨32, false⟩, imax, ⟨num, den⟩⟩ c = .error e) :=
  nd_shape _ c (wrapS 64 c) num den _ (imax_conv_wrap c) hn hd hn1 hd1 (by conv_tac)
theorem gen_cast_d_u32_u32 (c den : Int) (hc : 0 ≤ c ∧ c < 4294967296) (hd : -9223372036854775808 ≤ den ∧ den < 9223372036854775808) (hd1 : den ≠ 1) :
    (Gen.cast_d_u32_u32_ub c den = true → castCore ⟨⟨32, false⟩, imax, ⟨1, den⟩⟩ c = .ok (Gen.cast_d_u32_u32 c den)) ∧
    (Gen.cast_d_u32_u32_ub c den = false → ∃ e, castCore ⟨⟨32, false⟩, imax, ⟨1, den⟩⟩ c = .error e) :=
  d_shape _ c (wrapS 64 c) den _ (imax_conv_wrap c) (wrapS64_inRange c) hd hd1 (by conv_tac)
theorem gen_cast_n_u32_u32 (c num : Int) (hc : 0 ≤ c ∧ c < 4294967296) (hn : -9223372036854775808 ≤ num ∧ num < 9223372036854775808) (hn1 : num ≠ 1) :
    (Gen.cast_n_u32_u32_ub c num = true → castCore ⟨⟨32, false⟩, imax, ⟨num, 1⟩⟩ c = .ok (Gen.cast_n_u32_u32 c num)) ∧
    (Gen.cast_n_u32_u32_ub c num = false → ∃ e, castCore ⟨⟨32, false⟩, imax, ⟨num, 1⟩⟩ c = .error e) :=
  n_shape _ c (wrapS 64 c) num _ (imax_conv_wrap c) hn hn1 (by conv_tac)
theorem gen_cast_id_u32_u32 (c : Int) (hc : 0 ≤ c ∧ c < 4294967296) :
    Gen.cast_id_u32_u32_ub c = true ∧ castCore ⟨⟨32, false⟩, imax, ⟨1, 1⟩⟩ c = .ok (Gen.cast_id_u32_u32 c) :=
  id_shape _ c _ (by conv_tac)

end Tetl.C12.GenProps
