/-
C12 — property theorems, third batch: the binary operators on MIXED representations.

[time.duration.nonmember] and [time.point.nonmember] define `lhs - rhs` as `CD(CD(lhs).count() - CD(rhs).count())`
resp. `CT(lhs.time_since_epoch() - rhs)`: BOTH operands are converted to the common type FIRST, and only then is the
operator applied.  The theorems of `Props.lean` (`add_exact`, `sub_exact`, `tpMinus_exact`, …) cover signed
representations of 32 to 64 bits; here the same statements are proved for every pair of the builtin representations
int8 … int64, uint8 … uint32 (`Builtin`), in particular for an unsigned or narrow operand next to a wider one
(`time_point<milliseconds> - duration<uint32_t, milli>`), under the hypothesis "both converted operands and the exact
result are values of the common representation" — and nothing else: in particular `x - y` does NOT need `-y` to be a
value of the representation of `y` (`tpMinus_ne_plus_neg_counterexample`).
The compound assignments `+= -= %=` with a duration of another type (converted by the implicit constructor first).
-/
import TetlProofs.C12.PropsExt
import TetlProofs.C12.Mixed
namespace Tetl.C12.Props
open Tetl Tetl.C12 Tetl.C14

def u32 : ITy := ⟨32, false⟩
def i16 : ITy := ⟨16, true⟩

/-- Conversion to the common type on every pair of builtin representations: the two converting constructors take part in
    overload resolution, and each converted count is the count times an integer factor and denotes the same time. -/
theorem common_exact_builtin (a b : DurTy) (h : PairTyOkB a b) (x y : Int) (hin : PairIn a b x y) :
    ∃ k, pairCtx a b = .ok k ∧ k.cd = cdTy a b ∧ convertCore k.ka x = .ok (x * mulL a.per b.per) ∧
      convertCore k.kb y = .ok (y * mulR a.per b.per) ∧
      ((x * mulL a.per b.per : Int) : ℚ) * (cdTy a b).per.toRat = Spec.val a.per.toRat x ∧
      ((y * mulR a.per b.per : Int) : ℚ) * (cdTy a b).per.toRat = Spec.val b.per.toRat y := by
  obtain ⟨c1, c2⟩ := both_common_b a b h x y hin
  obtain ⟨e1, e2, _⟩ := mul_rat a.per b.per h.2.2.1 h.2.2.2.1 h.2.2.2.2.1
  refine ⟨pairK a b, pairCtx_eq_b a b h, rfl, c1, c2, ?_, ?_⟩
  · unfold Spec.val; push_cast; rw [mul_assoc]; erw [e1]
  · unfold Spec.val; push_cast; rw [mul_assoc]; erw [e2]

/-- `operator+` on mixed builtin representations: `CD(lhs).count() + CD(rhs).count()`, no overflow, exact sum. -/
theorem add_exact_builtin (a b : DurTy) (h : PairTyOkB a b) (x y : Int) (hin : PairIn a b x y)
    (hsum : (cdTy a b).rep.inR (x * mulL a.per b.per + y * mulR a.per b.per) = true) :
    add a b x y = .ok (x * mulL a.per b.per + y * mulR a.per b.per) ∧
      ((x * mulL a.per b.per + y * mulR a.per b.per : Int) : ℚ) * (cdTy a b).per.toRat
        = Spec.val a.per.toRat x + Spec.val b.per.toRat y := by
  obtain ⟨e1, e2, _⟩ := mul_rat a.per b.per h.2.2.1 h.2.2.2.1 h.2.2.2.2.1
  constructor
  · unfold add
    rw [pairCtx_eq_b a b h]
    simp only [bind, Except.bind]
    exact addCore_b a b h x y hin hsum
  · unfold Spec.val; push_cast
    have : (cdTy a b).per.toRat = (cdPer a.per b.per).toRat := rfl
    rw [this, ← e1, ← e2]; ring

/-- `operator-` on mixed builtin representations: `CD(lhs).count() - CD(rhs).count()`; only the two converted operands and
    the DIFFERENCE have to be representable. -/
theorem sub_exact_builtin (a b : DurTy) (h : PairTyOkB a b) (x y : Int) (hin : PairIn a b x y)
    (hdiff : (cdTy a b).rep.inR (x * mulL a.per b.per - y * mulR a.per b.per) = true) :
    sub a b x y = .ok (x * mulL a.per b.per - y * mulR a.per b.per) ∧
      ((x * mulL a.per b.per - y * mulR a.per b.per : Int) : ℚ) * (cdTy a b).per.toRat
        = Spec.val a.per.toRat x - Spec.val b.per.toRat y := by
  obtain ⟨e1, e2, _⟩ := mul_rat a.per b.per h.2.2.1 h.2.2.2.1 h.2.2.2.2.1
  constructor
  · unfold sub
    rw [pairCtx_eq_b a b h]
    simp only [bind, Except.bind]
    exact subCore_b a b h x y hin hdiff
  · unfold Spec.val; push_cast
    have : (cdTy a b).per.toRat = (cdPer a.per b.per).toRat := rfl
    rw [this, ← e1, ← e2]; ring

/-- `operator<` on mixed builtin representations compares the exact values. -/
theorem lt_eq_builtin (a b : DurTy) (h : PairTyOkB a b) (x y : Int) (hin : PairIn a b x y) :
    lt a b x y = .ok (Spec.lt a.per.toRat b.per.toRat x y) := by
  unfold lt
  rw [pairCtx_eq_b a b h]
  simp only [bind, Except.bind]
  exact ltCore_b a b h x y hin

/-- `operator==` on mixed builtin representations compares the exact values. -/
theorem eq_eq_builtin (a b : DurTy) (h : PairTyOkB a b) (x y : Int) (hin : PairIn a b x y) :
    eq a b x y = .ok (Spec.eq a.per.toRat b.per.toRat x y) := by
  unfold eq
  rw [pairCtx_eq_b a b h]
  simp only [bind, Except.bind]
  exact eqCore_b a b h x y hin

/-- the derived comparisons on mixed builtin representations -/
theorem cmp_derived_eq_builtin (a b : DurTy) (h : PairTyOkB a b) (h' : PairTyOkB b a) (x y : Int) (hin : PairIn a b x y)
    (hin' : PairIn b a y x) :
    ne a b x y = .ok (!Spec.eq a.per.toRat b.per.toRat x y) ∧
    le a b x y = .ok (!Spec.lt b.per.toRat a.per.toRat y x) ∧
    gt a b x y = .ok (Spec.lt b.per.toRat a.per.toRat y x) ∧
    ge a b x y = .ok (!Spec.lt a.per.toRat b.per.toRat x y) := by
  unfold ne le gt ge
  rw [eq_eq_builtin a b h x y hin, lt_eq_builtin a b h x y hin, lt_eq_builtin b a h' y x hin']
  exact ⟨rfl, rfl, rfl, rfl⟩

/-- `duration / duration` on mixed builtin representations: the truncated quotient of the exact values (evaluated in the
    promoted common representation; `min / -1` of the common representation is excluded: not representable). -/
theorem div_eq_builtin (a b : DurTy) (h : PairTyOkB a b) (x y : Int) (hin : PairIn a b x y) (hy0 : y ≠ 0)
    (hex : ¬ (x * mulL a.per b.per = (cdTy a b).rep.min ∧ y * mulR a.per b.per = -1)) :
    div a b x y = .ok (Spec.div a.per.toRat b.per.toRat x y) := by
  obtain ⟨c1, c2⟩ := both_common_b a b h x y hin
  have hcd := cd_builtin h
  obtain ⟨_, _, _, m1, m2, _⟩ := mul_rat a.per b.per h.2.2.1 h.2.2.2.1 h.2.2.2.2.1
  have hr0 : y * mulR a.per b.per ≠ 0 := Int.mul_ne_zero hy0 (by omega)
  unfold div
  rw [pairCtx_eq_b a b h]
  simp only [bind, Except.bind, divCore, c1, c2]
  have ecd : (pairK a b).cd = cdTy a b := rfl
  rw [ecd, cdiv_promote hcd _ _ hin.2.2.1 hr0 hex]
  have hq := tdiv_inR _ (builtin_w hcd) _ _ hin.2.2.1 hin.2.2.2 hr0 (fun hh => hex ⟨hh.2.1, hh.2.2⟩)
  simp only [conv_of_inR _ (builtin_w hcd) _ hq]
  rw [scaled_div _ _ h.2.2.1 h.2.2.2.1 h.2.2.2.2.1 x y hy0]

/-- `duration % duration` on mixed builtin representations: no trap, and the remainder denotes exactly `d1 - (d1 / d2) · d2`. -/
theorem mod_exact_builtin (a b : DurTy) (h : PairTyOkB a b) (x y : Int) (hin : PairIn a b x y) (hy0 : y ≠ 0)
    (hex : ¬ (x * mulL a.per b.per = (cdTy a b).rep.min ∧ y * mulR a.per b.per = -1)) :
    mod a b x y = .ok (Int.tmod (x * mulL a.per b.per) (y * mulR a.per b.per)) ∧
      ((Int.tmod (x * mulL a.per b.per) (y * mulR a.per b.per) : Int) : ℚ) * (cdTy a b).per.toRat =
        Spec.val a.per.toRat x - (Spec.div a.per.toRat b.per.toRat x y : ℚ) * Spec.val b.per.toRat y := by
  obtain ⟨c1, c2⟩ := both_common_b a b h x y hin
  have hcd := cd_builtin h
  obtain ⟨e1, e2, hpos, m1, m2, _⟩ := mul_rat a.per b.per h.2.2.1 h.2.2.2.1 h.2.2.2.2.1
  have hr0 : y * mulR a.per b.per ≠ 0 := Int.mul_ne_zero hy0 (by omega)
  have hm := tmod_inR _ (x * mulL a.per b.per) (y * mulR a.per b.per) hin.2.2.1
  constructor
  · unfold mod
    rw [pairCtx_eq_b a b h]
    simp only [bind, Except.bind, modCore, c1, c2]
    have ecd : (pairK a b).cd = cdTy a b := rfl
    rw [ecd, cmod_promote hcd _ _ hin.2.2.1 hr0 hex]
    simp only [mkCD_id_b _ hcd _ hm]
  · rw [← scaled_div _ _ h.2.2.1 h.2.2.2.1 h.2.2.2.2.1 x y hy0]
    have hdef : Int.tmod (x * mulL a.per b.per) (y * mulR a.per b.per)
        = x * mulL a.per b.per - (y * mulR a.per b.per) * Int.tdiv (x * mulL a.per b.per) (y * mulR a.per b.per) := by
      have := Int.tmod_add_mul_tdiv (x * mulL a.per b.per) (y * mulR a.per b.per)
      omega
    rw [hdef]
    unfold Spec.val
    have pe : (cdTy a b).per.toRat = (cdPer a.per b.per).toRat := rfl
    rw [pe, ← e1, ← e2]
    push_cast
    ring

/-! ## time_point and duration, mixed representations -/

/-- `time_point + duration` and `duration + time_point` on mixed builtin representations -/
theorem tpPlus_exact_builtin (a b : DurTy) (h : PairTyOkB a b) (x y : Int) (hin : PairIn a b x y)
    (hsum : (cdTy a b).rep.inR (x * mulL a.per b.per + y * mulR a.per b.per) = true) :
    tpPlus a b x y = .ok (x * mulL a.per b.per + y * mulR a.per b.per) ∧
    durPlusTp b a y x = .ok (x * mulL a.per b.per + y * mulR a.per b.per) ∧
      ((x * mulL a.per b.per + y * mulR a.per b.per : Int) : ℚ) * (cdTy a b).per.toRat
        = Spec.val a.per.toRat x + Spec.val b.per.toRat y := by
  obtain ⟨h1, h2⟩ := add_exact_builtin a b h x y hin hsum
  exact ⟨h1, h1, h2⟩

/-- **`time_point - duration` on mixed builtin representations** ([time.point.nonmember]: `CT(lhs.time_since_epoch() - rhs)`):
    the duration is converted to the common type first and then subtracted — an unsigned or most-negative `rhs` is not
    negated in its own representation.  Hypotheses: both converted operands and the difference are values of the common
    representation. -/
theorem tpMinus_exact_builtin (a b : DurTy) (h : PairTyOkB a b) (x y : Int) (hin : PairIn a b x y)
    (hdiff : (cdTy a b).rep.inR (x * mulL a.per b.per - y * mulR a.per b.per) = true) :
    tpMinus a b x y = .ok (x * mulL a.per b.per - y * mulR a.per b.per) ∧
      ((x * mulL a.per b.per - y * mulR a.per b.per : Int) : ℚ) * (cdTy a b).per.toRat
        = Spec.val a.per.toRat x - Spec.val b.per.toRat y :=
  sub_exact_builtin a b h x y hin hdiff

/-- `time_point - time_point` on mixed builtin representations -/
theorem tpDiff_exact_builtin (a b : DurTy) (h : PairTyOkB a b) (x y : Int) (hin : PairIn a b x y)
    (hdiff : (cdTy a b).rep.inR (x * mulL a.per b.per - y * mulR a.per b.per) = true) :
    tpDiff a b x y = .ok (x * mulL a.per b.per - y * mulR a.per b.per) ∧
      ((x * mulL a.per b.per - y * mulR a.per b.per : Int) : ℚ) * (cdTy a b).per.toRat
        = Spec.val a.per.toRat x - Spec.val b.per.toRat y :=
  sub_exact_builtin a b h x y hin hdiff

/-- the six comparisons of two time_points on mixed builtin representations -/
theorem tpCmp_eq_builtin (a b : DurTy) (h : PairTyOkB a b) (h' : PairTyOkB b a) (x y : Int) (hin : PairIn a b x y)
    (hin' : PairIn b a y x) :
    tpEq a b x y = .ok (Spec.eq a.per.toRat b.per.toRat x y) ∧
    tpNe a b x y = .ok (!Spec.eq a.per.toRat b.per.toRat x y) ∧
    tpLt a b x y = .ok (Spec.lt a.per.toRat b.per.toRat x y) ∧
    tpLe a b x y = .ok (!Spec.lt b.per.toRat a.per.toRat y x) ∧
    tpGt a b x y = .ok (Spec.lt b.per.toRat a.per.toRat y x) ∧
    tpGe a b x y = .ok (!Spec.lt a.per.toRat b.per.toRat x y) := by
  obtain ⟨d1, d2, d3, d4⟩ := cmp_derived_eq_builtin a b h h' x y hin hin'
  exact ⟨eq_eq_builtin a b h x y hin, d1, lt_eq_builtin a b h x y hin, d2, d3, d4⟩

-- non-vacuity (kernel-evaluated samples: tests).  time_point<int64 ms>{1000} - duration<uint32, milli>{5} = 995 ms; and
-- time_point<int32 minutes>{-1} - duration<int32 minutes>{INT32_MIN} = INT32_MAX minutes (the sum is NOT representable)
example : PairTyOkB ⟨i64, ⟨1, 1000⟩⟩ ⟨u32, ⟨1, 1000⟩⟩ ∧ PairIn ⟨i64, ⟨1, 1000⟩⟩ ⟨u32, ⟨1, 1000⟩⟩ 1000 5 ∧
    mulL ⟨1, 1000⟩ ⟨1, 1000⟩ = 1 ∧ mulR ⟨1, 1000⟩ ⟨1, 1000⟩ = 1 := by decide +kernel
example : tpMinus ⟨i64, ⟨1, 1000⟩⟩ ⟨u32, ⟨1, 1000⟩⟩ 1000 5 = .ok 995 := by
  rw [(tpMinus_exact_builtin _ _ (by decide +kernel) _ _ (by decide +kernel) (by decide +kernel)).1]
  decide +kernel
example : tpMinus ⟨i32, ⟨60, 1⟩⟩ ⟨i32, ⟨60, 1⟩⟩ (-1) (-2147483648) = .ok 2147483647 := by
  rw [(tpMinus_exact_builtin _ _ (by decide +kernel) _ _ (by decide +kernel) (by decide +kernel)).1]
  decide +kernel
example : ¬ ((cdTy ⟨i32, ⟨60, 1⟩⟩ ⟨i32, ⟨60, 1⟩⟩).rep.inR (-1 * mulL ⟨60, 1⟩ ⟨60, 1⟩ + -2147483648 * mulR ⟨60, 1⟩ ⟨60, 1⟩) = true) := by
  decide +kernel
-- time_point<int32 ms> - duration<int16, 1001/30000 s>{-32768}: the common type is int32 ticks of 1/30000 s
example : tpMinus ⟨i32, ⟨1, 1000⟩⟩ ⟨i16, ⟨1001, 30000⟩⟩ 60256830 (-32768) = .ok 1840505668 := by
  rw [(tpMinus_exact_builtin _ _ (by decide +kernel) _ _ (by decide +kernel) (by decide +kernel)).1]
  decide +kernel

/-- **`lhs - rhs` is not `lhs + (-rhs)`.**  Unary minus is evaluated in the representation of `rhs` (`neg`): for an unsigned
    representation narrower than the common one it wraps (first pair: 4294968291 ms instead of 995 ms), for the most negative
    value of a signed representation it is undefined behaviour although the difference is representable (second pair), and
    for a representation narrower than `int` the negated value is converted back modulo 2^16 (third pair). -/
theorem tpMinus_ne_plus_neg_counterexample :
    tpMinus ⟨i64, ⟨1, 1000⟩⟩ ⟨u32, ⟨1, 1000⟩⟩ 1000 5 = .ok 995 ∧
    (do let n ← neg ⟨u32, ⟨1, 1000⟩⟩ 5; tpPlus ⟨i64, ⟨1, 1000⟩⟩ ⟨u32, ⟨1, 1000⟩⟩ 1000 n) = .ok 4294968291 ∧
    tpMinus ⟨i32, ⟨60, 1⟩⟩ ⟨i32, ⟨60, 1⟩⟩ (-1) (-2147483648) = .ok 2147483647 ∧
    (∃ e, neg ⟨i32, ⟨60, 1⟩⟩ (-2147483648) = .error e) ∧
    tpMinus ⟨i32, ⟨1, 1000⟩⟩ ⟨i16, ⟨1, 1000⟩⟩ 0 (-32768) = .ok 32768 ∧
    (do let n ← neg ⟨i16, ⟨1, 1000⟩⟩ (-32768); tpPlus ⟨i32, ⟨1, 1000⟩⟩ ⟨i16, ⟨1, 1000⟩⟩ 0 n) = .ok (-32768) := by
  refine ⟨ok_of_toOption (by decide +kernel), ok_of_toOption (by decide +kernel), ok_of_toOption (by decide +kernel),
    ⟨_, rfl⟩, ok_of_toOption (by decide +kernel), ok_of_toOption (by decide +kernel)⟩

/-! ## compound assignment with a duration of another type -/

/-- `x += d2`, `x -= d2`, `x %= d2` on `duration<Rep1, Period1> x` with `d2 : duration<Rep2, Period2>` (and `+=`, `-=` of
    `time_point<Clock, duration<Rep1, Period1>>`): the argument is converted by the implicit converting constructor (it takes
    part in overload resolution: `ratio_divide<Period2, Period1>::den == 1`) to `d · CF::num` ticks of `Period1`, which denote
    the same time; then the member works on the two counts.  Exact whenever the converted argument and the result are values
    of `Rep1`. -/
theorem assign2_eq (t frm : DurTy) (h : CastTyOkB t frm) (hden : cfD frm.per t.per = 1) (c d : Int)
    (hd : frm.rep.inR d = true) (he : t.rep.inR (d * cfN frm.per t.per) = true) :
    (t.rep.inR (c + d * cfN frm.per t.per) = true →
      addAssign2 t frm c d = .ok (c + d * cfN frm.per t.per) ∧ tpAddAssign2 t frm c d = .ok (c + d * cfN frm.per t.per)) ∧
    (t.rep.inR (c - d * cfN frm.per t.per) = true →
      subAssign2 t frm c d = .ok (c - d * cfN frm.per t.per) ∧ tpSubAssign2 t frm c d = .ok (c - d * cfN frm.per t.per)) ∧
    (t.rep.inR c = true → d * cfN frm.per t.per ≠ 0 → ¬ (c = t.rep.min ∧ d * cfN frm.per t.per = -1) →
      modAssign2 t frm c d = .ok (Int.tmod c (d * cfN frm.per t.per))) ∧
    Spec.val t.per.toRat (d * cfN frm.per t.per) = Spec.val frm.per.toRat d := by
  have hval := (convert_exact_builtin t frm h hden d hd he).2
  obtain ⟨hto, hfrm, hp, hq, hdiv⟩ := h
  obtain ⟨hN, _, hN', _, _⟩ := cf_facts frm.per t.per hp hq
  have hmm := imax_max
  have hctx : assign2Ctx t frm = .ok ⟨t.rep, imax, ⟨cfN frm.per t.per, 1⟩⟩ := by
    unfold assign2Ctx
    rw [castCtx_builtin t frm hto hfrm hp hq hdiv, hden]
  have hconv : convertCore ⟨t.rep, imax, ⟨cfN frm.per t.per, 1⟩⟩ d = .ok (d * cfN frm.per t.per) :=
    convertCore_eq_b _ hto _ hN (by have := hdiv.1; omega) d (builtin_sub hfrm d hd) he
  have hw := builtin_w hto
  refine ⟨?_, ?_, ?_, hval⟩
  · intro hs
    have : addAssign2 t frm c d = .ok (c + d * cfN frm.per t.per) := by
      unfold addAssign2
      rw [hctx]
      simp only [bind, Except.bind, addAssign2Core, hconv]
      rw [arith_promote hto _ hs]
      simp only [conv_of_inR _ hw _ hs]
    exact ⟨this, this⟩
  · intro hs
    have : subAssign2 t frm c d = .ok (c - d * cfN frm.per t.per) := by
      unfold subAssign2
      rw [hctx]
      simp only [bind, Except.bind, subAssign2Core, hconv]
      rw [arith_promote hto _ hs]
      simp only [conv_of_inR _ hw _ hs]
    exact ⟨this, this⟩
  · intro hc h0 hex
    have hm := tmod_inR _ c (d * cfN frm.per t.per) hc
    unfold modAssign2
    rw [hctx]
    simp only [bind, Except.bind, modAssign2Core, hconv]
    rw [cmod_promote hto _ _ hc h0 hex]
    simp only [conv_of_inR _ hw _ hm]

-- non-vacuity (test on a sample): duration<int64, milli> x{1000}; x -= duration<uint32, ratio<60>>{2}  ->  -119000 ms
example : CastTyOkB ⟨i64, ⟨1, 1000⟩⟩ ⟨u32, ⟨60, 1⟩⟩ ∧ cfD ⟨60, 1⟩ ⟨1, 1000⟩ = 1 ∧ cfN ⟨60, 1⟩ ⟨1, 1000⟩ = 60000 := by decide +kernel
example : subAssign2 ⟨i64, ⟨1, 1000⟩⟩ ⟨u32, ⟨60, 1⟩⟩ 1000 2 = .ok (-119000) := by
  rw [((assign2_eq ⟨i64, ⟨1, 1000⟩⟩ ⟨u32, ⟨60, 1⟩⟩ (by decide +kernel) (by decide +kernel) 1000 2 (by decide) (by decide +kernel)).2.1
    (by decide +kernel)).1]
  decide +kernel

/-! ## floor, ceil, round, abs on builtin representations -/


/-- `floor<To>(d)` on every pair of builtin representations (int8 … int64, uint8 … uint32) -/
theorem floor_eq_builtin (dst frm : DurTy) (hdiv : DivOk frm.per dst.per) (hp : PairTyOkB frm dst) (c : Int)
    (hin : CastIn dst frm c)
    (hcmp : PairIn frm dst c (Spec.cast frm.per.toRat dst.per.toRat c))
    (hstep : Spec.val frm.per.toRat c / dst.per.toRat < ((Spec.cast frm.per.toRat dst.per.toRat c : Int) : ℚ) →
      dst.rep.inR (Spec.cast frm.per.toRat dst.per.toRat c + -1) = true) :
    floorTo dst frm c = .ok (Spec.floor frm.per.toRat dst.per.toRat c) := by
  unfold floorTo
  rw [floorCtx_eq_b dst frm hdiv hp]
  simp only [bind, Except.bind]
  exact floorCore_spec_b dst frm hdiv hp c hin hcmp hstep

/-- `ceil<To>(d)` on every pair of builtin representations -/
theorem ceil_eq_builtin (dst frm : DurTy) (hdiv : DivOk frm.per dst.per) (hp : PairTyOkB dst frm) (c : Int)
    (hin : CastIn dst frm c)
    (hcmp : PairIn dst frm (Spec.cast frm.per.toRat dst.per.toRat c) c)
    (hstep : ((Spec.cast frm.per.toRat dst.per.toRat c : Int) : ℚ) < Spec.val frm.per.toRat c / dst.per.toRat →
      dst.rep.inR (Spec.cast frm.per.toRat dst.per.toRat c + 1) = true) :
    ceilTo dst frm c = .ok (Spec.ceil frm.per.toRat dst.per.toRat c) := by
  have hQ := toRat_pos dst.per hp.2.2.1
  have hcast := castCore_spec_b dst frm hp.1 hp.2.1 hp.2.2.2.1 hp.2.2.1 hdiv c hin
  have hlt := ltCore_b dst frm hp _ c hcmp
  have hctx : ceilCtx dst frm = .ok ⟨dst, castK dst frm, pairK dst frm⟩ := by
    unfold ceilCtx
    rw [castCtx_builtin dst frm hp.1 hp.2.1 hp.2.2.2.1 hp.2.2.1 hdiv, pairCtx_eq_b dst frm hp]
    rfl
  unfold ceilTo
  rw [hctx]
  simp only [bind, Except.bind, ceilCore, hcast, hlt]
  rw [spec_lt_right _ _ hQ]
  have key := trunc_ceil_adjust (Spec.val frm.per.toRat c / dst.per.toRat)
  unfold Spec.ceil
  rw [rat_ceil_eq, ← key]
  by_cases hx : ((Spec.cast frm.per.toRat dst.per.toRat c : Int) : ℚ) < Spec.val frm.per.toRat c / dst.per.toRat
  · have hx' : ((Spec.trunc (Spec.val frm.per.toRat c / dst.per.toRat) : Int) : ℚ) < Spec.val frm.per.toRat c / dst.per.toRat := hx
    rw [if_pos hx']
    simp only [hx, decide_true, if_true]
    rw [step1_eq_b dst hp.1 _ _ (hstep hx)]
    rfl
  · have hx' : ¬ ((Spec.trunc (Spec.val frm.per.toRat c / dst.per.toRat) : Int) : ℚ) < Spec.val frm.per.toRat c / dst.per.toRat := hx
    rw [if_neg hx']
    simp only [hx, decide_false, Bool.false_eq_true, if_false]
    rfl

-- non-vacuity (tests on samples): -7 ticks of 1001/30000 s (int16) to uint32 / int16 milliseconds
example : floorTo ⟨i16, ⟨1, 1000⟩⟩ ⟨i16, ⟨1001, 30000⟩⟩ (-7) = .ok (-234) := by
  rw [floor_eq_builtin _ _ (by decide +kernel) (by decide +kernel) _ (by decide +kernel) (by decide +kernel) (fun _ => by decide +kernel)]
  decide +kernel
example : ceilTo ⟨u32, ⟨1, 1000⟩⟩ ⟨u32, ⟨1001, 30000⟩⟩ 7 = .ok 234 := by
  rw [ceil_eq_builtin _ _ (by decide +kernel) (by decide +kernel) _ (by decide +kernel) (by decide +kernel) (fun _ => by decide +kernel)]
  decide +kernel

/-- `floor<To>(d)` on builtin representations under "the exact result is representable" plus the two products the code forms
    (`floor_eq_of_result` for every pair of int8 … int64, uint8 … uint32) -/
theorem floor_eq_of_result_builtin (dst frm : DurTy) (hdiv : DivOk frm.per dst.per) (hp : PairTyOkB frm dst) (c : Int)
    (hc : frm.rep.inR c = true) (hmul : imax.inR (c * cfN frm.per dst.per) = true)
    (hcd : (cdTy frm dst).rep.inR (c * mulL frm.per dst.per) = true)
    (hres : dst.rep.inR (Spec.floor frm.per.toRat dst.per.toRat c) = true) :
    floorTo dst frm c = .ok (Spec.floor frm.per.toRat dst.per.toRat c) := by
  have ht : dst.rep.inR (Spec.cast frm.per.toRat dst.per.toRat c) = true :=
    trunc_inR_of_floor dst.rep _ hres
  refine floor_eq_builtin dst frm hdiv hp c ⟨hc, hmul, ht⟩
    ⟨hc, ht, hcd, cast_in_common dst frm hp.2.2.1 hp.2.2.2.1 hp.2.2.2.2.1 c _ hcd⟩ ?_
  intro hx
  have key := trunc_floor_adjust (Spec.val frm.per.toRat c / dst.per.toRat)
  have hx' : Spec.val frm.per.toRat c / dst.per.toRat < ((Spec.trunc (Spec.val frm.per.toRat c / dst.per.toRat) : Int) : ℚ) := hx
  rw [if_pos hx'] at key
  have e : Spec.cast frm.per.toRat dst.per.toRat c + -1 = Spec.floor frm.per.toRat dst.per.toRat c := by
    show Spec.trunc (Spec.val frm.per.toRat c / dst.per.toRat) + -1 = (Spec.val frm.per.toRat c / dst.per.toRat).floor
    rw [rat_floor_eq, ← key]; omega
  rw [e]; exact hres

/-- `ceil<To>(d)`: the same for the ceiling. -/
theorem ceil_eq_of_result_builtin (dst frm : DurTy) (hdiv : DivOk frm.per dst.per) (hp : PairTyOkB dst frm) (c : Int)
    (hc : frm.rep.inR c = true) (hmul : imax.inR (c * cfN frm.per dst.per) = true)
    (hcd : (cdTy dst frm).rep.inR (c * mulR dst.per frm.per) = true)
    (hres : dst.rep.inR (Spec.ceil frm.per.toRat dst.per.toRat c) = true) :
    ceilTo dst frm c = .ok (Spec.ceil frm.per.toRat dst.per.toRat c) := by
  have ht : dst.rep.inR (Spec.cast frm.per.toRat dst.per.toRat c) = true :=
    trunc_inR_of_ceil dst.rep _ hres
  have hl : ((Int.lcm frm.per.den dst.per.den : Nat) : Int) ≤ imax.max := by
    have := hp.2.2.2.2.1; rwa [Int.lcm_comm] at this
  have e1 : mulR dst.per frm.per = mulL frm.per dst.per := by unfold mulL mulR; rw [cdPer_comm]
  have e2 : mulL dst.per frm.per = mulR frm.per dst.per := by unfold mulL mulR; rw [cdPer_comm]
  have hcd' : (cdTy dst frm).rep.inR (c * mulL frm.per dst.per) = true := by rw [← e1]; exact hcd
  have hcm := cast_in_common dst frm hp.2.2.2.1 hp.2.2.1 hl c _ hcd'
  refine ceil_eq_builtin dst frm hdiv hp c ⟨hc, hmul, ht⟩ ⟨ht, hc, by rw [e2]; exact hcm, hcd⟩ ?_
  intro hx
  have key := trunc_ceil_adjust (Spec.val frm.per.toRat c / dst.per.toRat)
  have hx' : ((Spec.trunc (Spec.val frm.per.toRat c / dst.per.toRat) : Int) : ℚ) < Spec.val frm.per.toRat c / dst.per.toRat := hx
  rw [if_pos hx'] at key
  have e : Spec.cast frm.per.toRat dst.per.toRat c + 1 = Spec.ceil frm.per.toRat dst.per.toRat c := by
    show Spec.trunc (Spec.val frm.per.toRat c / dst.per.toRat) + 1 = (Spec.val frm.per.toRat c / dst.per.toRat).ceil
    rw [rat_ceil_eq, ← key]
  rw [e]; exact hres

-- non-vacuity (test on a sample): the floor is int16 min (the truncated result is one above it)
example : floorTo ⟨i16, ⟨60, 1⟩⟩ ⟨i32, ⟨1, 1⟩⟩ (-1966021) = .ok (-32768) := by
  rw [floor_eq_of_result_builtin _ _ (by decide +kernel) (by decide +kernel) _ (by decide) (by decide +kernel) (by decide +kernel)
    (by decide +kernel)]
  decide +kernel

/-- static preconditions of `round<To>(From)` on builtin representations -/
def RoundTyOkB (dst frm : DurTy) : Prop :=
  DivOk frm.per dst.per ∧ PairTyOkB frm dst ∧ PairTyOkB dst frm ∧ PairTyOkB dst dst ∧ Coprime dst.per ∧
    PairTyOkB (cdTy frm dst) (cdTy dst frm) ∧ PairTyOkB (cdTy dst frm) (cdTy frm dst)
instance (dst frm : DurTy) : Decidable (RoundTyOkB dst frm) := by unfold RoundTyOkB; infer_instance

/-- `round<To>(d)` (nearest, ties to even) on every pair of builtin representations, every intermediate representable -/
theorem round_eq_builtin (dst frm : DurTy) (h : RoundTyOkB dst frm) (c : Int) (hin : RoundIn dst frm c) :
    roundTo dst frm c = .ok (Spec.round frm.per.toRat dst.per.toRat c) := by
  obtain ⟨hdv, hfd, hdf, hdd, hco, hlh, hhl⟩ := h
  obtain ⟨i1, i2, i3, i4, i5, i6, i7, i8, i9, i10, i11⟩ := hin
  have hpd : PerOk dst.per := hfd.2.2.2.1
  have hpf : PerOk frm.per := hfd.2.2.1
  have hrd : Builtin dst.rep := hfd.2.1
  have hQ := toRat_pos dst.per hpd
  -- static context
  have hctx : roundCtx dst frm = .ok ⟨⟨dst, castK dst frm, pairK frm dst⟩, pairK dst dst, castK dst dst, pairK frm dst,
      pairK dst frm, pairK (cdTy frm dst) (cdTy dst frm), pairK (cdTy dst frm) (cdTy frm dst)⟩ := by
    unfold roundCtx
    rw [floorCtx_eq_b dst frm hdv hfd, pairCtx_eq_b dst dst hdd]
    simp only [bind, Except.bind]
    have e : (pairK dst dst).cd = dst := cdTy_self dst hpd hco
    rw [e]
    have hself : DivOk dst.per dst.per := by
      have := hdd.2.2.2.2.2.1
      rwa [cdPer_self _ hpd hco] at this
    rw [castCtx_builtin dst dst hrd hrd hpd hpd hself, pairCtx_eq_b frm dst hfd, pairCtx_eq_b dst frm hdf]
    simp only
    have e1 : (pairK frm dst).cd = cdTy frm dst := rfl
    have e2 : (pairK dst frm).cd = cdTy dst frm := rfl
    rw [e1, e2, pairCtx_eq_b _ _ hlh, pairCtx_eq_b _ _ hhl]
    rfl
  -- run-time steps
  have s1 := floorCore_spec_b dst frm hdv hfd c i1 i2 (fun _ => i3)
  have h1r : dst.rep.inR 1 = true := one_inR hrd
  have c1 : dst.rep.conv 1 = 1 := conv_of_inR _ (builtin_w hrd) _ h1r
  have cv : ∀ x : Int, dst.rep.inR x = true → convertCore ⟨dst.rep, imax, ⟨1, 1⟩⟩ x = .ok x := by
    intro x hx
    have := convertCore_eq_b dst.rep hrd 1 (by decide) (by decide) x (builtin_sub hrd x hx) (by rwa [Int.mul_one])
    rwa [Int.mul_one] at this
  have s2 : addCore (pairK dst dst) (Spec.floor frm.per.toRat dst.per.toRat c) (dst.rep.conv 1)
      = .ok (Spec.floor frm.per.toRat dst.per.toRat c + 1) := by
    rw [pairK_self dst hpd hco, c1]
    simp only [addCore, cv _ i4, cv _ h1r, bind, Except.bind]
    rw [arith_promote hrd _ i5]
    simp only [mkCD_id_b _ hrd _ i5]
  have s3 : convertCore (castK dst dst) (Spec.floor frm.per.toRat dst.per.toRat c + 1)
      = .ok (Spec.floor frm.per.toRat dst.per.toRat c + 1) := by
    rw [castK_self dst hpd]; exact cv _ i5
  have s4 := subCore_b frm dst hfd c _ i6 i7
  have s5 := subCore_b dst frm hdf _ c i8 i9
  have s6 := ltCore_b _ _ hlh _ _ i10
  have s7 := ltCore_b _ _ hhl _ _ i11
  unfold roundTo
  rw [hctx]
  simp only [bind, Except.bind, roundCore, s1, s2, s3]
  have e4 : subCore (pairK frm dst) c (Spec.floor frm.per.toRat dst.per.toRat c) = .ok (lowDiff dst frm c) := s4
  have e5 : subCore (pairK dst frm) (Spec.floor frm.per.toRat dst.per.toRat c + 1) c = .ok (highDiff dst frm c) := s5
  simp only [e4, e5, s6, s7]
  -- the two comparisons, in ℚ
  obtain ⟨a1, a2, hcp, _⟩ := mul_rat frm.per dst.per hpf hpd hfd.2.2.2.2.1
  obtain ⟨b1, b2, hcp', _⟩ := mul_rat dst.per frm.per hpd hpf hdf.2.2.2.2.1
  have hcomm : (cdPer dst.per frm.per) = (cdPer frm.per dst.per) := cdPer_comm _ _
  rw [hcomm] at b1 b2
  have pL : (cdTy frm dst).per.toRat = (cdPer frm.per dst.per).toRat := rfl
  have pH : (cdTy dst frm).per.toRat = (cdPer frm.per dst.per).toRat := by show (cdPer dst.per frm.per).toRat = _; rw [hcomm]
  set CP := (cdPer frm.per dst.per).toRat with hCP
  set X := Spec.val frm.per.toRat c / dst.per.toRat with hX
  have hfl : Spec.floor frm.per.toRat dst.per.toRat c = ⌊X⌋ := rfl
  set f := Spec.floor frm.per.toRat dst.per.toRat c with hf
  have hXQ : X * dst.per.toRat = (c : ℚ) * frm.per.toRat := by
    rw [hX]; unfold Spec.val; field_simp
  have vL : (lowDiff dst frm c : ℚ) * CP = (c : ℚ) * frm.per.toRat - (f : ℚ) * dst.per.toRat := by
    have e : lowDiff dst frm c = c * mulL frm.per dst.per - f * mulR frm.per dst.per := rfl
    rw [e]; push_cast; linear_combination (c : ℚ) * a1 - (f : ℚ) * a2
  have vH : (highDiff dst frm c : ℚ) * CP = ((f : ℚ) + 1) * dst.per.toRat - (c : ℚ) * frm.per.toRat := by
    have e : highDiff dst frm c = (f + 1) * mulL dst.per frm.per - c * mulR dst.per frm.per := rfl
    rw [e]; push_cast; linear_combination ((f : ℚ) + 1) * b1 - (c : ℚ) * b2
  have hA : Spec.lt (cdTy frm dst).per.toRat (cdTy dst frm).per.toRat (lowDiff dst frm c) (highDiff dst frm c) = true
      ↔ X - f < 1 / 2 := by
    unfold Spec.lt Spec.val
    rw [decide_eq_true_eq, pL, pH, vL, vH, ← hXQ]
    constructor
    · intro hh; nlinarith
    · intro hh; nlinarith
  have hB : Spec.lt (cdTy dst frm).per.toRat (cdTy frm dst).per.toRat (highDiff dst frm c) (lowDiff dst frm c) = true
      ↔ 1 / 2 < X - f := by
    unfold Spec.lt Spec.val
    rw [decide_eq_true_eq, pL, pH, vL, vH, ← hXQ]
    constructor
    · intro hh; nlinarith
    · intro hh; nlinarith
  have key := roundEven_cases X f hfl _ _ hA hB
  unfold Spec.round
  rw [← key]
  simp only [Bool.decide_eq_true]
  split <;> [rfl; (split <;> [rfl; (split <;> rfl)])]

-- non-vacuity (test on a sample): an exact tie with a negative count on int16: -90 s to minutes is -1.5 -> -2
example : RoundTyOkB ⟨i16, ⟨60, 1⟩⟩ ⟨i16, ⟨1, 1⟩⟩ ∧ RoundIn ⟨i16, ⟨60, 1⟩⟩ ⟨i16, ⟨1, 1⟩⟩ (-90) := by decide +kernel
example : roundTo ⟨i16, ⟨60, 1⟩⟩ ⟨i16, ⟨1, 1⟩⟩ (-90) = .ok (-2) := by
  rw [round_eq_builtin _ _ (by decide +kernel) _ (by decide +kernel)]
  decide +kernel

/-- `abs(d)` on every builtin representation ([time.duration.alg]: the overload takes part in overload resolution only for a
    signed representation; the model function is total and returns `c` for an unsigned one, where `d < zero()` is never true) -/
theorem abs_eq_builtin (t : DurTy) (hr : Builtin t.rep) (hp : PerOk t.per) (hco : Coprime t.per) (hdiv : DivOk t.per t.per)
    (c : Int) (hc : t.rep.inR c = true) (hn : 0 ≤ c ∨ t.rep.inR (-c) = true) :
    absD t c = .ok (Spec.abs c) := by
  have hl : ((Int.lcm t.per.den t.per.den : Nat) : Int) ≤ imax.max := by
    rw [Int.lcm_self]; have := hp.2.1; have := hp.2.2.2; omega
  have hcomm : CommonOk t.per t.per := by
    unfold CommonOk; rw [cdPer_self _ hp hco]; exact ⟨hl, hdiv, hdiv⟩
  have hctx : absCtx t = .ok ⟨t, pairK t t, castK t t⟩ := by
    unfold absCtx
    rw [pairCtx_eq_b t t ⟨hr, hr, hp, hp, hcomm⟩]
    simp only [bind, Except.bind]
    have e : (pairK t t).cd = t := cdTy_self t hp hco
    rw [e, castCtx_builtin t t hr hr hp hp hdiv]
    rfl
  have h0 : t.rep.inR 0 = true := by
    have := min_max_zero t.rep; rw [inR_iff]; exact this
  have c0 : t.rep.conv 0 = 0 := conv_of_inR _ (builtin_w hr) _ h0
  have cv : ∀ x : Int, t.rep.inR x = true → convertCore ⟨t.rep, imax, ⟨1, 1⟩⟩ x = .ok x := by
    intro x hx
    have := convertCore_eq_b t.rep hr 1 (by decide) (by decide) x (builtin_sub hr x hx) (by rwa [Int.mul_one])
    rwa [Int.mul_one] at this
  unfold absD
  rw [hctx]
  simp only [bind, Except.bind, absCore, c0, pairK_self t hp hco, castK_self t hp, ltCore, subCore, cv _ hc, cv _ h0]
  unfold Spec.abs
  by_cases hneg : c < 0
  · simp only [hneg, decide_true, if_true]
    have hn' : t.rep.inR (0 - c) = true := by
      rw [Int.zero_sub]; rcases hn with h | h
      · omega
      · exact h
    rw [arith_promote hr _ hn']
    simp only [mkCD_id_b _ hr _ hn', cv _ hn']
    congr 1; omega
  · simp only [hneg, decide_false, Bool.false_eq_true, if_false]
    congr 1; omega

example : absD ⟨i16, ⟨1001, 30000⟩⟩ (-32767) = .ok 32767 := by
  rw [abs_eq_builtin _ (by decide) (by decide) (by decide +kernel) (by decide) _ (by decide) (Or.inr (by decide))]
  rfl

/-! ## duration and a tick count on builtin representations -/


/-- run-time precondition of `d * s` on builtin representations: both operands and the exact product are values of
    `common_type_t<Rep1, Rep2>` (a negative operand next to an unsigned common type is outside) -/
def MulInB (d : DurTy) (rs : ITy) (c s : Int) : Prop :=
  d.rep.inR c = true ∧ rs.inR s = true ∧ (ITy.common d.rep rs).inR c = true ∧ (ITy.common d.rep rs).inR s = true ∧
    (ITy.common d.rep rs).inR (c * s) = true
instance (d : DurTy) (rs : ITy) (c s : Int) : Decidable (MulInB d rs c s) := by unfold MulInB; infer_instance

def DivInB (d : DurTy) (rs : ITy) (c s : Int) : Prop :=
  d.rep.inR c = true ∧ rs.inR s = true ∧ (ITy.common d.rep rs).inR c = true ∧ (ITy.common d.rep rs).inR s = true ∧
    s ≠ 0 ∧ ¬ (c = (ITy.common d.rep rs).min ∧ s = -1)
instance (d : DurTy) (rs : ITy) (c s : Int) : Decidable (DivInB d rs c s) := by unfold DivInB; infer_instance

/-- `duration * rep`, `rep * duration` on every pair of builtin representations -/
theorem mulRep_exact_builtin (d : DurTy) (rs : ITy) (h : ScalarTyOkB d rs) (c s : Int) (hin : MulInB d rs c s) :
    mulRep d rs c s = .ok (Spec.mulRep d.per.toRat c s) ∧ repMul rs d s c = .ok (Spec.mulRep d.per.toRat c s) ∧
      Spec.val d.per.toRat (Spec.mulRep d.per.toRat c s) = Spec.val d.per.toRat c * s := by
  obtain ⟨hc, hs, hc', hs', hprod⟩ := hin
  obtain ⟨o1, o2, o3, sup⟩ := scalar_operands_b d rs h c s hc hc' hs'
  have hcr := common_builtin h.1 h.2.1
  have hpos := toRat_pos d.per h.2.2.1
  have e1 : ITy.usual (scalarK d rs).cd.rep (scalarK d rs).rs = ITy.usual (ITy.common d.rep rs) rs := rfl
  have e2 : (scalarK d rs).cd.rep = ITy.common d.rep rs := rfl
  have hw := (usual_sup h.1 h.2.1).2.2
  have key : mulRep d rs c s = .ok (Spec.mulRep d.per.toRat c s) := by
    unfold mulRep
    rw [scalarCtx_eq_b d rs h]
    simp only [bind, Except.bind, mulRepCore, o1, o2, o3]
    rw [e1, e2, arith_ok _ hw _ (sup _ hprod)]
    simp only [spec_mulRep _ hpos]
    exact congrArg Except.ok (conv_of_inR _ (builtin_w hcr) _ hprod)
  refine ⟨key, key, ?_⟩
  rw [spec_mulRep _ hpos]
  unfold Spec.val; push_cast; ring

/-- `duration / rep` on every pair of builtin representations -/
theorem divRep_exact_builtin (d : DurTy) (rs : ITy) (h : ScalarTyOkB d rs) (c s : Int) (hin : DivInB d rs c s) :
    divRep d rs c s = .ok (Spec.divRep d.per.toRat c s) := by
  obtain ⟨hc, hs, hc', hs', hs0, hex⟩ := hin
  obtain ⟨o1, o2, o3, sup⟩ := scalar_operands_b d rs h c s hc hc' hs'
  have hcr := common_builtin h.1 h.2.1
  have hpos := toRat_pos d.per h.2.2.1
  have e1 : ITy.usual (scalarK d rs).cd.rep (scalarK d rs).rs = ITy.usual (ITy.common d.rep rs) rs := rfl
  have e2 : (scalarK d rs).cd.rep = ITy.common d.rep rs := rfl
  have hq := tdiv_inR _ (builtin_w hcr) _ _ hc' hs' hs0 (fun hh => hex ⟨hh.2.1, hh.2.2⟩)
  unfold divRep
  rw [scalarCtx_eq_b d rs h]
  simp only [bind, Except.bind, divRepCore, o1, o2, o3]
  rw [e1, e2, cdiv_ok _ _ _ hs0 (scalar_hex h c s hc' hex)]
  simp only [spec_divRep _ hpos _ _ hs0]
  exact congrArg Except.ok (conv_of_inR _ (builtin_w hcr) _ hq)

/-- `duration % rep` on every pair of builtin representations -/
theorem modRep_exact_builtin (d : DurTy) (rs : ITy) (h : ScalarTyOkB d rs) (c s : Int) (hin : DivInB d rs c s) :
    modRep d rs c s = .ok (Spec.modRep d.per.toRat c s) ∧
      Spec.val d.per.toRat (Spec.modRep d.per.toRat c s) =
        Spec.val d.per.toRat c - Spec.val d.per.toRat (Spec.divRep d.per.toRat c s) * s := by
  obtain ⟨hc, hs, hc', hs', hs0, hex⟩ := hin
  obtain ⟨o1, o2, o3, sup⟩ := scalar_operands_b d rs h c s hc hc' hs'
  have hcr := common_builtin h.1 h.2.1
  have hpos := toRat_pos d.per h.2.2.1
  have e1 : ITy.usual (scalarK d rs).cd.rep (scalarK d rs).rs = ITy.usual (ITy.common d.rep rs) rs := rfl
  have e2 : (scalarK d rs).cd.rep = ITy.common d.rep rs := rfl
  have hm := tmod_inR _ c s hc'
  constructor
  · unfold modRep
    rw [scalarCtx_eq_b d rs h]
    simp only [bind, Except.bind, modRepCore, o1, o2, o3]
    rw [e1, e2, cmod_ok _ _ _ hs0 (scalar_hex h c s hc' hex)]
    simp only [spec_modRep _ hpos _ _ hs0]
    exact congrArg Except.ok (conv_of_inR _ (builtin_w hcr) _ hm)
  · rw [spec_modRep _ hpos _ _ hs0, spec_divRep _ hpos _ _ hs0]
    have hdef : Int.tmod c s = c - s * Int.tdiv c s := by
      have := Int.tmod_add_mul_tdiv c s
      omega
    rw [hdef]
    unfold Spec.val; push_cast; ring

-- non-vacuity (tests on samples): uint32 ticks times an int32 scalar -> uint32; int16 / int32 -> int32
example : ScalarTyOkB ⟨u32, ⟨1001, 30000⟩⟩ i32 ∧ MulInB ⟨u32, ⟨1001, 30000⟩⟩ i32 1431655765 3 := by decide +kernel
example : mulRep ⟨u32, ⟨1001, 30000⟩⟩ i32 1431655765 3 = .ok 4294967295 := by
  rw [(mulRep_exact_builtin _ _ (by decide +kernel) _ _ (by decide +kernel)).1]
  decide +kernel
example : divRep ⟨i16, ⟨5, 7⟩⟩ i32 (-32768) (-1) = .ok 32768 := by
  rw [divRep_exact_builtin _ _ (by decide +kernel) _ _ (by decide +kernel)]
  decide +kernel

end Tetl.C12.Props
