/-
C12 — property theorems, third batch: the binary operators on MIXED representations.

[time.duration.nonmember] and [time.point.nonmember] define `lhs - rhs` as `CD(CD(lhs).count() - CD(rhs).count())`
resp. `CT(lhs.time_since_epoch() - rhs)`: BOTH operands are converted to the common type FIRST, and only then is the
operator applied.  The theorems of `Props.lean` (`add_exact`, `sub_exact`, `tpMinus_exact`, …) cover signed
representations of 32 to 64 bits; here the same statements are proved for every pair of the builtin representations
int8 … int64, uint8 … uint32 (`Builtin`), in particular for an unsigned or narrow operand next to a wider one
(`time_point<milliseconds> - duration<uint32_t, milli>`), under the hypothesis "both converted operands and the exact
result are values of the common representation" — and nothing else: in particular `x - y` does NOT need `-y` to be a
value of the representation of `y` (`tpMinus_ne_plus_neg_counterexample`).
The compound assignments `+= -= %=` with a duration of another type (converted by the implicit constructor first).
-/
import TetlProofs.C12.PropsExt
import TetlProofs.C12.Mixed
namespace Tetl.C12.Props
open Tetl Tetl.C12 Tetl.C14

def u32 : ITy := ⟨32, false⟩
def i16 : ITy := ⟨16, true⟩

/-- Conversion to the common type on every pair of builtin representations: the two converting constructors take part in
    overload resolution, and each converted count is the count times an integer factor and denotes the same time. -/
theorem common_exact_builtin (a b : DurTy) (h : PairTyOkB a b) (x y : Int) (hin : PairIn a b x y) :
    ∃ k, pairCtx a b = .ok k ∧ k.cd = cdTy a b ∧ convertCore k.ka x = .ok (x * mulL a.per b.per) ∧
      convertCore k.kb y = .ok (y * mulR a.per b.per) ∧
      ((x * mulL a.per b.per : Int) : ℚ) * (cdTy a b).per.toRat = Spec.val a.per.toRat x ∧
      ((y * mulR a.per b.per : Int) : ℚ) * (cdTy a b).per.toRat = Spec.val b.per.toRat y := by
  obtain ⟨c1, c2⟩ := both_common_b a b h x y hin
  obtain ⟨e1, e2, _⟩ := mul_rat a.per b.per h.2.2.1 h.2.2.2.1 h.2.2.2.2.1
  refine ⟨pairK a b, pairCtx_eq_b a b h, rfl, c1, c2, ?_, ?_⟩
  · unfold Spec.val; push_cast; rw [mul_assoc]; erw [e1]
  · unfold Spec.val; push_cast; rw [mul_assoc]; erw [e2]

/-- `operator+` on mixed builtin representations: `CD(lhs).count() + CD(rhs).count()`, no overflow, exact sum. -/
theorem add_exact_builtin (a b : DurTy) (h : PairTyOkB a b) (x y : Int) (hin : PairIn a b x y)
    (hsum : (cdTy a b).rep.inR (x * mulL a.per b.per + y * mulR a.per b.per) = true) :
    add a b x y = .ok (x * mulL a.per b.per + y * mulR a.per b.per) ∧
      ((x * mulL a.per b.per + y * mulR a.per b.per : Int) : ℚ) * (cdTy a b).per.toRat
        = Spec.val a.per.toRat x + Spec.val b.per.toRat y := by
  obtain ⟨e1, e2, _⟩ := mul_rat a.per b.per h.2.2.1 h.2.2.2.1 h.2.2.2.2.1
  constructor
  · unfold add
    rw [pairCtx_eq_b a b h]
    simp only [bind, Except.bind]
    exact addCore_b a b h x y hin hsum
  · unfold Spec.val; push_cast
    have : (cdTy a b).per.toRat = (cdPer a.per b.per).toRat := rfl
    rw [this, ← e1, ← e2]; ring

/-- `operator-` on mixed builtin representations: `CD(lhs).count() - CD(rhs).count()`; only the two converted operands and
    the DIFFERENCE have to be representable. -/
theorem sub_exact_builtin (a b : DurTy) (h : PairTyOkB a b) (x y : Int) (hin : PairIn a b x y)
    (hdiff : (cdTy a b).rep.inR (x * mulL a.per b.per - y * mulR a.per b.per) = true) :
    sub a b x y = .ok (x * mulL a.per b.per - y * mulR a.per b.per) ∧
      ((x * mulL a.per b.per - y * mulR a.per b.per : Int) : ℚ) * (cdTy a b).per.toRat
        = Spec.val a.per.toRat x - Spec.val b.per.toRat y := by
  obtain ⟨e1, e2, _⟩ := mul_rat a.per b.per h.2.2.1 h.2.2.2.1 h.2.2.2.2.1
  constructor
  · unfold sub
    rw [pairCtx_eq_b a b h]
    simp only [bind, Except.bind]
    exact subCore_b a b h x y hin hdiff
  · unfold Spec.val; push_cast
    have : (cdTy a b).per.toRat = (cdPer a.per b.per).toRat := rfl
    rw [this, ← e1, ← e2]; ring

/-- `operator<` on mixed builtin representations compares the exact values. -/
theorem lt_eq_builtin (a b : DurTy) (h : PairTyOkB a b) (x y : Int) (hin : PairIn a b x y) :
    lt a b x y = .ok (Spec.lt a.per.toRat b.per.toRat x y) := by
  unfold lt
  rw [pairCtx_eq_b a b h]
  simp only [bind, Except.bind]
  exact ltCore_b a b h x y hin

/-- `operator==` on mixed builtin representations compares the exact values. -/
theorem eq_eq_builtin (a b : DurTy) (h : PairTyOkB a b) (x y : Int) (hin : PairIn a b x y) :
    eq a b x y = .ok (Spec.eq a.per.toRat b.per.toRat x y) := by
  unfold eq
  rw [pairCtx_eq_b a b h]
  simp only [bind, Except.bind]
  exact eqCore_b a b h x y hin

/-- the derived comparisons on mixed builtin representations -/
theorem cmp_derived_eq_builtin (a b : DurTy) (h : PairTyOkB a b) (h' : PairTyOkB b a) (x y : Int) (hin : PairIn a b x y)
    (hin' : PairIn b a y x) :
    ne a b x y = .ok (!Spec.eq a.per.toRat b.per.toRat x y) ∧
    le a b x y = .ok (!Spec.lt b.per.toRat a.per.toRat y x) ∧
    gt a b x y = .ok (Spec.lt b.per.toRat a.per.toRat y x) ∧
    ge a b x y = .ok (!Spec.lt a.per.toRat b.per.toRat x y) := by
  unfold ne le gt ge
  rw [eq_eq_builtin a b h x y hin, lt_eq_builtin a b h x y hin, lt_eq_builtin b a h' y x hin']
  exact ⟨rfl, rfl, rfl, rfl⟩

/-- `duration / duration` on mixed builtin representations: the truncated quotient of the exact values (evaluated in the
    promoted common representation; `min / -1` of the common representation is excluded: not representable). -/
theorem div_eq_builtin (a b : DurTy) (h : PairTyOkB a b) (x y : Int) (hin : PairIn a b x y) (hy0 : y ≠ 0)
    (hex : ¬ (x * mulL a.per b.per = (cdTy a b).rep.min ∧ y * mulR a.per b.per = -1)) :
    div a b x y = .ok (Spec.div a.per.toRat b.per.toRat x y) := by
  obtain ⟨c1, c2⟩ := both_common_b a b h x y hin
  have hcd := cd_builtin h
  obtain ⟨_, _, _, m1, m2, _⟩ := mul_rat a.per b.per h.2.2.1 h.2.2.2.1 h.2.2.2.2.1
  have hr0 : y * mulR a.per b.per ≠ 0 := Int.mul_ne_zero hy0 (by omega)
  unfold div
  rw [pairCtx_eq_b a b h]
  simp only [bind, Except.bind, divCore, c1, c2]
  have ecd : (pairK a b).cd = cdTy a b := rfl
  rw [ecd, cdiv_promote hcd _ _ hin.2.2.1 hr0 hex]
  have hq := tdiv_inR _ (builtin_w hcd) _ _ hin.2.2.1 hin.2.2.2 hr0 (fun hh => hex ⟨hh.2.1, hh.2.2⟩)
  simp only [conv_of_inR _ (builtin_w hcd) _ hq]
  rw [scaled_div _ _ h.2.2.1 h.2.2.2.1 h.2.2.2.2.1 x y hy0]

/-- `duration % duration` on mixed builtin representations: no trap, and the remainder denotes exactly `d1 - (d1 / d2) · d2`. -/
theorem mod_exact_builtin (a b : DurTy) (h : PairTyOkB a b) (x y : Int) (hin : PairIn a b x y) (hy0 : y ≠ 0)
    (hex : ¬ (x * mulL a.per b.per = (cdTy a b).rep.min ∧ y * mulR a.per b.per = -1)) :
    mod a b x y = .ok (Int.tmod (x * mulL a.per b.per) (y * mulR a.per b.per)) ∧
      ((Int.tmod (x * mulL a.per b.per) (y * mulR a.per b.per) : Int) : ℚ) * (cdTy a b).per.toRat =
        Spec.val a.per.toRat x - (Spec.div a.per.toRat b.per.toRat x y : ℚ) * Spec.val b.per.toRat y := by
  obtain ⟨c1, c2⟩ := both_common_b a b h x y hin
  have hcd := cd_builtin h
  obtain ⟨e1, e2, hpos, m1, m2, _⟩ := mul_rat a.per b.per h.2.2.1 h.2.2.2.1 h.2.2.2.2.1
  have hr0 : y * mulR a.per b.per ≠ 0 := Int.mul_ne_zero hy0 (by omega)
  have hm := tmod_inR _ (x * mulL a.per b.per) (y * mulR a.per b.per) hin.2.2.1
  constructor
  · unfold mod
    rw [pairCtx_eq_b a b h]
    simp only [bind, Except.bind, modCore, c1, c2]
    have ecd : (pairK a b).cd = cdTy a b := rfl
    rw [ecd, cmod_promote hcd _ _ hin.2.2.1 hr0 hex]
    simp only [mkCD_id_b _ hcd _ hm]
  · rw [← scaled_div _ _ h.2.2.1 h.2.2.2.1 h.2.2.2.2.1 x y hy0]
    have hdef : Int.tmod (x * mulL a.per b.per) (y * mulR a.per b.per)
        = x * mulL a.per b.per - (y * mulR a.per b.per) * Int.tdiv (x * mulL a.per b.per) (y * mulR a.per b.per) := by
      have := Int.tmod_add_mul_tdiv (x * mulL a.per b.per) (y * mulR a.per b.per)
      omega
    rw [hdef]
    unfold Spec.val
    have pe : (cdTy a b).per.toRat = (cdPer a.per b.per).toRat := rfl
    rw [pe, ← e1, ← e2]
    push_cast
    ring

/-! ## time_point and duration, mixed representations -/

/-- `time_point + duration` and `duration + time_point` on mixed builtin representations -/
theorem tpPlus_exact_builtin (a b : DurTy) (h : PairTyOkB a b) (x y : Int) (hin : PairIn a b x y)
    (hsum : (cdTy a b).rep.inR (x * mulL a.per b.per + y * mulR a.per b.per) = true) :
    tpPlus a b x y = .ok (x * mulL a.per b.per + y * mulR a.per b.per) ∧
    durPlusTp b a y x = .ok (x * mulL a.per b.per + y * mulR a.per b.per) ∧
      ((x * mulL a.per b.per + y * mulR a.per b.per : Int) : ℚ) * (cdTy a b).per.toRat
        = Spec.val a.per.toRat x + Spec.val b.per.toRat y := by
  obtain ⟨h1, h2⟩ := add_exact_builtin a b h x y hin hsum
  exact ⟨h1, h1, h2⟩

/-- **`time_point - duration` on mixed builtin representations** ([time.point.nonmember]: `CT(lhs.time_since_epoch() - rhs)`):
    the duration is converted to the common type first and then subtracted — an unsigned or most-negative `rhs` is not
    negated in its own representation.  Hypotheses: both converted operands and the difference are values of the common
    representation. -/
theorem tpMinus_exact_builtin (a b : DurTy) (h : PairTyOkB a b) (x y : Int) (hin : PairIn a b x y)
    (hdiff : (cdTy a b).rep.inR (x * mulL a.per b.per - y * mulR a.per b.per) = true) :
    tpMinus a b x y = .ok (x * mulL a.per b.per - y * mulR a.per b.per) ∧
      ((x * mulL a.per b.per - y * mulR a.per b.per : Int) : ℚ) * (cdTy a b).per.toRat
        = Spec.val a.per.toRat x - Spec.val b.per.toRat y :=
  sub_exact_builtin a b h x y hin hdiff

/-- `time_point - time_point` on mixed builtin representations -/
theorem tpDiff_exact_builtin (a b : DurTy) (h : PairTyOkB a b) (x y : Int) (hin : PairIn a b x y)
    (hdiff : (cdTy a b).rep.inR (x * mulL a.per b.per - y * mulR a.per b.per) = true) :
    tpDiff a b x y = .ok (x * mulL a.per b.per - y * mulR a.per b.per) ∧
      ((x * mulL a.per b.per - y * mulR a.per b.per : Int) : ℚ) * (cdTy a b).per.toRat
        = Spec.val a.per.toRat x - Spec.val b.per.toRat y :=
  sub_exact_builtin a b h x y hin hdiff

/-- the six comparisons of two time_points on mixed builtin representations -/
theorem tpCmp_eq_builtin (a b : DurTy) (h : PairTyOkB a b) (h' : PairTyOkB b a) (x y : Int) (hin : PairIn a b x y)
    (hin' : PairIn b a y x) :
    tpEq a b x y = .ok (Spec.eq a.per.toRat b.per.toRat x y) ∧
    tpNe a b x y = .ok (!Spec.eq a.per.toRat b.per.toRat x y) ∧
    tpLt a b x y = .ok (Spec.lt a.per.toRat b.per.toRat x y) ∧
    tpLe a b x y = .ok (!Spec.lt b.per.toRat a.per.toRat y x) ∧
    tpGt a b x y = .ok (Spec.lt b.per.toRat a.per.toRat y x) ∧
    tpGe a b x y = .ok (!Spec.lt a.per.toRat b.per.toRat x y) := by
  obtain ⟨d1, d2, d3, d4⟩ := cmp_derived_eq_builtin a b h h' x y hin hin'
  exact ⟨eq_eq_builtin a b h x y hin, d1, lt_eq_builtin a b h x y hin, d2, d3, d4⟩

-- non-vacuity (kernel-evaluated samples: tests).  time_point<int64 ms>{1000} - duration<uint32, milli>{5} = 995 ms; and
-- time_point<int32 minutes>{-1} - duration<int32 minutes>{INT32_MIN} = INT32_MAX minutes (the sum is NOT representable)
example : PairTyOkB ⟨i64, ⟨1, 1000⟩⟩ ⟨u32, ⟨1, 1000⟩⟩ ∧ PairIn ⟨i64, ⟨1, 1000⟩⟩ ⟨u32, ⟨1, 1000⟩⟩ 1000 5 ∧
    mulL ⟨1, 1000⟩ ⟨1, 1000⟩ = 1 ∧ mulR ⟨1, 1000⟩ ⟨1, 1000⟩ = 1 := by decide +kernel
example : tpMinus ⟨i64, ⟨1, 1000⟩⟩ ⟨u32, ⟨1, 1000⟩⟩ 1000 5 = .ok 995 := by
  rw [(tpMinus_exact_builtin _ _ (by decide +kernel) _ _ (by decide +kernel) (by decide +kernel)).1]
  decide +kernel
example : tpMinus ⟨i32, ⟨60, 1⟩⟩ ⟨i32, ⟨60, 1⟩⟩ (-1) (-2147483648) = .ok 2147483647 := by
  rw [(tpMinus_exact_builtin _ _ (by decide +kernel) _ _ (by decide +kernel) (by decide +kernel)).1]
  decide +kernel
example : ¬ ((cdTy ⟨i32, ⟨60, 1⟩⟩ ⟨i32, ⟨60, 1⟩⟩).rep.inR (-1 * mulL ⟨60, 1⟩ ⟨60, 1⟩ + -2147483648 * mulR ⟨60, 1⟩ ⟨60, 1⟩) = true) := by
  decide +kernel
-- time_point<int32 ms> - duration<int16, 1001/30000 s>{-32768}: the common type is int32 ticks of 1/30000 s
example : tpMinus ⟨i32, ⟨1, 1000⟩⟩ ⟨i16, ⟨1001, 30000⟩⟩ 60256830 (-32768) = .ok 1840505668 := by
  rw [(tpMinus_exact_builtin _ _ (by decide +kernel) _ _ (by decide +kernel) (by decide +kernel)).1]
  decide +kernel

/-- **`lhs - rhs` is not `lhs + (-rhs)`.**  Unary minus is evaluated in the representation of `rhs` (`neg`): for an unsigned
    representation narrower than the common one it wraps (first pair: 4294968291 ms instead of 995 ms), for the most negative
    value of a signed representation it is undefined behaviour although the difference is representable (second pair), and
    for a representation narrower than `int` the negated value is converted back modulo 2^16 (third pair). -/
theorem tpMinus_ne_plus_neg_counterexample :
    tpMinus ⟨i64, ⟨1, 1000⟩⟩ ⟨u32, ⟨1, 1000⟩⟩ 1000 5 = .ok 995 ∧
    (do let n ← neg ⟨u32, ⟨1, 1000⟩⟩ 5; tpPlus ⟨i64, ⟨1, 1000⟩⟩ ⟨u32, ⟨1, 1000⟩⟩ 1000 n) = .ok 4294968291 ∧
    tpMinus ⟨i32, ⟨60, 1⟩⟩ ⟨i32, ⟨60, 1⟩⟩ (-1) (-2147483648) = .ok 2147483647 ∧
    (∃ e, neg ⟨i32, ⟨60, 1⟩⟩ (-2147483648) = .error e) ∧
    tpMinus ⟨i32, ⟨1, 1000⟩⟩ ⟨i16, ⟨1, 1000⟩⟩ 0 (-32768) = .ok 32768 ∧
    (do let n ← neg ⟨i16, ⟨1, 1000⟩⟩ (-32768); tpPlus ⟨i32, ⟨1, 1000⟩⟩ ⟨i16, ⟨1, 1000⟩⟩ 0 n) = .ok (-32768) := by
  refine ⟨ok_of_toOption (by decide +kernel), ok_of_toOption (by decide +kernel), ok_of_toOption (by decide +kernel),
    ⟨_, rfl⟩, ok_of_toOption (by decide +kernel), ok_of_toOption (by decide +kernel)⟩

/-! ## compound assignment with a duration of another type -/

/-- `x += d2`, `x -= d2`, `x %= d2` on `duration<Rep1, Period1> x` with `d2 : duration<Rep2, Period2>` (and `+=`, `-=` of
    `time_point<Clock, duration<Rep1, Period1>>`): the argument is converted by the implicit converting constructor (it takes
    part in overload resolution: `ratio_divide<Period2, Period1>::den == 1`) to `d · CF::num` ticks of `Period1`, which denote
    the same time; then the member works on the two counts.  Exact whenever the converted argument and the result are values
    of `Rep1`. -/
theorem assign2_eq (t frm : DurTy) (h : CastTyOkB t frm) (hden : cfD frm.per t.per = 1) (c d : Int)
    (hd : frm.rep.inR d = true) (he : t.rep.inR (d * cfN frm.per t.per) = true) :
    (t.rep.inR (c + d * cfN frm.per t.per) = true →
      addAssign2 t frm c d = .ok (c + d * cfN frm.per t.per) ∧ tpAddAssign2 t frm c d = .ok (c + d * cfN frm.per t.per)) ∧
    (t.rep.inR (c - d * cfN frm.per t.per) = true →
      subAssign2 t frm c d = .ok (c - d * cfN frm.per t.per) ∧ tpSubAssign2 t frm c d = .ok (c - d * cfN frm.per t.per)) ∧
    (t.rep.inR c = true → d * cfN frm.per t.per ≠ 0 → ¬ (c = t.rep.min ∧ d * cfN frm.per t.per = -1) →
      modAssign2 t frm c d = .ok (Int.tmod c (d * cfN frm.per t.per))) ∧
    Spec.val t.per.toRat (d * cfN frm.per t.per) = Spec.val frm.per.toRat d := by
  have hval := (convert_exact_builtin t frm h hden d hd he).2
  obtain ⟨hto, hfrm, hp, hq, hdiv⟩ := h
  obtain ⟨hN, _, hN', _, _⟩ := cf_facts frm.per t.per hp hq
  have hmm := imax_max
  have hctx : assign2Ctx t frm = .ok ⟨t.rep, imax, ⟨cfN frm.per t.per, 1⟩⟩ := by
    unfold assign2Ctx
    rw [castCtx_builtin t frm hto hfrm hp hq hdiv, hden]
  have hconv : convertCore ⟨t.rep, imax, ⟨cfN frm.per t.per, 1⟩⟩ d = .ok (d * cfN frm.per t.per) :=
    convertCore_eq_b _ hto _ hN (by have := hdiv.1; omega) d (builtin_sub hfrm d hd) he
  have hw := builtin_w hto
  refine ⟨?_, ?_, ?_, hval⟩
  · intro hs
    have : addAssign2 t frm c d = .ok (c + d * cfN frm.per t.per) := by
      unfold addAssign2
      rw [hctx]
      simp only [bind, Except.bind, addAssign2Core, hconv]
      rw [arith_promote hto _ hs]
      simp only [conv_of_inR _ hw _ hs]
    exact ⟨this, this⟩
  · intro hs
    have : subAssign2 t frm c d = .ok (c - d * cfN frm.per t.per) := by
      unfold subAssign2
      rw [hctx]
      simp only [bind, Except.bind, subAssign2Core, hconv]
      rw [arith_promote hto _ hs]
      simp only [conv_of_inR _ hw _ hs]
    exact ⟨this, this⟩
  · intro hc h0 hex
    have hm := tmod_inR _ c (d * cfN frm.per t.per) hc
    unfold modAssign2
    rw [hctx]
    simp only [bind, Except.bind, modAssign2Core, hconv]
    rw [cmod_promote hto _ _ hc h0 hex]
    simp only [conv_of_inR _ hw _ hm]

-- non-vacuity (test on a sample): duration<int64, milli> x{1000}; x -= duration<uint32, ratio<60>>{2}  ->  -119000 ms
example : CastTyOkB ⟨i64, ⟨1, 1000⟩⟩ ⟨u32, ⟨60, 1⟩⟩ ∧ cfD ⟨60, 1⟩ ⟨1, 1000⟩ = 1 ∧ cfN ⟨60, 1⟩ ⟨1, 1000⟩ = 60000 := by decide +kernel
example : subAssign2 ⟨i64, ⟨1, 1000⟩⟩ ⟨u32, ⟨60, 1⟩⟩ 1000 2 = .ok (-119000) := by
  rw [((assign2_eq ⟨i64, ⟨1, 1000⟩⟩ ⟨u32, ⟨60, 1⟩⟩ (by decide +kernel) (by decide +kernel) 1000 2 (by decide) (by decide +kernel)).2.1
    (by decide +kernel)).1]
  decide +kernel

end Tetl.C12.Props
