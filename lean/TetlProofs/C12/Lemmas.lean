/-
C12 — helper lemmas: the compile-time stage (`mkRatio`, `ratioDivide`, `commonTy`, `castCtx`, `pairCtx`)
evaluates to the expected constants; integer facts about truncating division; the scalar operators.
-/
import Mathlib.Data.Rat.Floor
import Mathlib.Tactic.Ring
import Mathlib.Tactic.Linarith
import Mathlib.Tactic.FieldSimp
import Mathlib.Tactic.LinearCombination
import Tetl.C12.Model
import Tetl.C12.Spec
import TetlProofs.C14.Props
namespace Tetl.C12
open Tetl Tetl.C14

/-! ## documented preconditions, as decidable predicates -/

/-- a representation the model covers: a signed builtin integer type of 32 to 64 bits -/
def RepOk (r : ITy) : Prop := r.sg = true ∧ 32 ≤ r.w ∧ r.w ≤ 64
instance (r : ITy) : Decidable (RepOk r) := by unfold RepOk; infer_instance

/-- a period as `ratio<…>::type` produces it: positive numerator and denominator (values of `intmax_t`) -/
def PerOk (p : Ratio) : Prop := 0 < p.num ∧ 0 < p.den ∧ p.num ≤ imax.max ∧ p.den ≤ imax.max
instance (p : Ratio) : Decidable (PerOk p) := by unfold PerOk; infer_instance

/-- `ratio_divide<p, q>` is a well-formed constant expression: both products fit `intmax_t` -/
def DivOk (p q : Ratio) : Prop := p.num * q.den ≤ imax.max ∧ p.den * q.num ≤ imax.max
instance (p q : Ratio) : Decidable (DivOk p q) := by unfold DivOk; infer_instance

/-- the rational value of a period -/
def Ratio.toRat (p : Ratio) : ℚ := (p.num : ℚ) / (p.den : ℚ)

theorem imax_max : imax.max = 9223372036854775807 := by decide
theorem imax_min : imax.min = -9223372036854775808 := by decide

theorem imax_inR (x : Int) : imax.inR x = true ↔ -9223372036854775808 ≤ x ∧ x ≤ 9223372036854775807 := by
  rw [inR_iff, imax_max, imax_min]

theorem repOk_w {r : ITy} (h : RepOk r) : 1 ≤ r.w := by unfold RepOk at h; omega

theorem repOk_promote {r : ITy} (h : RepOk r) : r.promote = r := by
  unfold ITy.promote; unfold RepOk at h
  have : ¬ r.w < 32 := by omega
  simp [this]

/-- every value of a covered representation is a value of `intmax_t` -/
theorem repOk_sub {r : ITy} (h : RepOk r) (x : Int) (hx : r.inR x = true) : imax.inR x = true := by
  obtain ⟨hs, h1, h2⟩ := h
  rw [inR_iff] at hx
  rw [imax_inR]
  unfold ITy.min ITy.max at hx
  simp only [hs, if_true] at hx
  have hp : (2:Int) ^ (r.w - 1) ≤ 2 ^ 63 := pow_mono _ _ (by omega)
  have : (2:Int) ^ 63 = 9223372036854775808 := by norm_num
  omega

theorem ity_beq (a b : ITy) : (a == b) = true ↔ a = b := by
  cases a with | mk w1 s1 => cases b with | mk w2 s2 =>
  show (instBEqITy.beq _ _) = true ↔ _
  simp [ITy.mk.injEq, instBEqITy.beq]

theorem ity_beq_false (a b : ITy) : (a == b) = false ↔ a ≠ b := by
  have h := ity_beq a b
  cases hb : (a == b)
  · simp only [true_iff]; intro e; rw [← h, hb] at e; exact Bool.noConfusion e
  · simp only [Bool.true_eq_false, false_iff, ne_eq, not_not]; exact h.mp hb

/-- `common_type_t<A, B>` of two covered representations is the wider one, again covered -/
theorem common_repOk {a b : ITy} (ha : RepOk a) (hb : RepOk b) :
    RepOk (ITy.common a b) ∧ a.w ≤ (ITy.common a b).w ∧ b.w ≤ (ITy.common a b).w := by
  have pa := repOk_promote ha
  have pb := repOk_promote hb
  obtain ⟨hsa, ha1, ha2⟩ := ha
  obtain ⟨hsb, hb1, hb2⟩ := hb
  unfold ITy.common
  by_cases hab : a = b
  · subst hab
    have : (a == a) = true := (ity_beq a a).mpr rfl
    simp only [this, if_true]
    exact ⟨⟨hsa, ha1, ha2⟩, Nat.le_refl _, Nat.le_refl _⟩
  · have : (a == b) = false := (ity_beq_false a b).mpr hab
    simp only [this, Bool.false_eq_true, if_false]
    unfold ITy.usual
    simp only [pa, pb, hsa, hsb, beq_self_eq_true, if_true]
    by_cases hw : a.w ≥ b.w
    · rw [if_pos hw]; exact ⟨⟨hsa, ha1, ha2⟩, Nat.le_refl _, hw⟩
    · rw [if_neg hw]; exact ⟨⟨hsb, hb1, hb2⟩, by omega, Nat.le_refl _⟩

/-- `CR = common_type_t<to_rep, Rep, intmax_t>` is `intmax_t` for covered representations -/
theorem cr_eq {a b : ITy} (ha : RepOk a) (hb : RepOk b) : ITy.common (ITy.common a b) imax = imax := by
  obtain ⟨⟨hs, h1, h2⟩, _, _⟩ := common_repOk ha hb
  generalize ITy.common a b = c at *
  have pc := repOk_promote (r := c) ⟨hs, h1, h2⟩
  unfold ITy.common
  by_cases hc : c = imax
  · subst hc; rfl
  · have : (c == imax) = false := (ity_beq_false c imax).mpr hc
    simp only [this, Bool.false_eq_true, if_false]
    unfold ITy.usual
    have pi : imax.promote = imax := by decide
    simp only [pc, pi, hs]
    have hw : ¬ c.w ≥ imax.w := by
      intro hge
      apply hc
      have h64 : c.w = 64 := by have : imax.w = 64 := rfl; omega
      cases c with | mk w s => simp only at hs h64; subst hs; subst h64; rfl
    have hsg : (true == imax.sg) = true := by decide
    simp only [hsg, hw, if_true, if_false]

theorem inR_sub_common {a b : ITy} (ha : RepOk a) (hb : RepOk b) (x : Int) (hx : a.inR x = true) :
    (ITy.common a b).inR x = true := by
  obtain ⟨⟨hs, h1, h2⟩, hwa, _⟩ := common_repOk ha hb
  obtain ⟨hsa, ha1, ha2⟩ := ha
  generalize ITy.common a b = c at *
  rw [inR_iff] at hx ⊢
  unfold ITy.min ITy.max at hx ⊢
  simp only [hs, hsa, if_true] at hx ⊢
  have hp : (2:Int) ^ (a.w - 1) ≤ 2 ^ (c.w - 1) := pow_mono _ _ (by omega)
  omega

/-! ## the run-time primitives on in-range values -/

theorem imax_conv {x : Int} (h : imax.inR x = true) : imax.conv x = x := conv_of_inR imax (by decide) x h

theorem imax_arith {x : Int} (h : imax.inR x = true) : arith imax x = .ok x := arith_ok imax (by decide) x h

theorem cdiv_pos (t : ITy) (a b : Int) (hb : 0 < b) : cdiv t a b = .ok (Int.tdiv a b) := by
  unfold cdiv
  have h1 : (b == 0) = false := by simpa using (by omega : b ≠ 0)
  have h2 : (b == -1) = false := by simpa using (by omega : b ≠ -1)
  simp [h1, h2]

theorem tdiv_one (a : Int) : Int.tdiv a 1 = a := by simp

/-! ## truncating division and the rationals -/

theorem floor_div (m D : Int) (hD : 0 < D) : ⌊(m : ℚ) / (D : ℚ)⌋ = m / D := by
  have := Rat.floor_intCast_div_natCast m D.toNat
  have hD' : ((D.toNat : ℕ) : ℤ) = D := Int.toNat_of_nonneg (by omega)
  have h2 : ((D.toNat : ℕ) : ℚ) = (D : ℚ) := by exact_mod_cast congrArg (fun z : ℤ => (z : ℚ)) hD'
  rw [h2, hD'] at this
  exact this

theorem ceil_div (m D : Int) (hD : 0 < D) : ⌈(m : ℚ) / (D : ℚ)⌉ = -((-m) / D) := by
  have h := floor_div (-m) D hD
  have e : (((-m : Int)) : ℚ) / D = -((m : ℚ) / D) := by push_cast; ring
  rw [e, Int.floor_neg] at h
  omega

theorem rat_floor_eq (x : ℚ) : x.floor = ⌊x⌋ := rfl
theorem rat_ceil_eq (x : ℚ) : x.ceil = ⌈x⌉ := by
  rw [Rat.ceil_eq_neg_floor_neg]
  show -⌊-x⌋ = _
  rw [Int.floor_neg]; simp

/-! ## the compile-time stage -/

theorem gcd_imax (n d : Int) (hn : 0 ≤ n) (hd : 0 ≤ d) (hn' : n ≤ imax.max) (hd' : d ≤ imax.max) :
    C14.gcd imax imax n d = .ok ((Int.gcd n d : Nat) : Int) := by
  have hc : ITy.common imax imax = imax := by decide
  have := C14.Props.gcd_eq imax imax (by decide) (by decide) n d (by rw [hc]; omega) (by rw [hc]; omega)
  rw [this]; rfl

theorem lcm_imax (n d : Int) (hn : 0 ≤ n) (hd : 0 ≤ d) (hn' : n ≤ imax.max) (hd' : d ≤ imax.max)
    (hl : ((Int.lcm n d : Nat) : Int) ≤ imax.max) :
    C14.lcm imax imax n d = .ok ((Int.lcm n d : Nat) : Int) := by
  have hc : ITy.common imax imax = imax := by decide
  have := C14.Props.lcm_eq imax imax (by decide) (by decide) n d (by rw [hc]; omega) (by rw [hc]; omega) (by rw [hc]; exact hl)
  rw [this]; rfl

theorem gcd_pos_int (n d : Int) (hn : 0 < n) : 0 < ((Int.gcd n d : Nat) : Int) := by
  have : 0 < Int.gcd n d := Int.gcd_pos_of_ne_zero_left _ (by omega)
  exact_mod_cast this

theorem gcd_le_left_int (n d : Int) (hn : 0 < n) : ((Int.gcd n d : Nat) : Int) ≤ n := by
  exact Int.le_of_dvd hn (Int.gcd_dvd_left n d)

/-- `ratio<n, d>` for positive template arguments: both divided by their gcd -/
theorem mkRatio_pos (n d : Int) (hn : 0 < n) (hd : 0 < d) (hn' : n ≤ imax.max) (hd' : d ≤ imax.max) :
    mkRatio n d = .ok ⟨n / ((Int.gcd n d : Nat) : Int), d / ((Int.gcd n d : Nat) : Int)⟩ := by
  have hg := gcd_pos_int n d hn
  have hgn := gcd_le_left_int n d hn
  have hd0 : (d == 0) = false := by simpa using (by omega : d ≠ 0)
  unfold mkRatio
  rw [hd0]
  simp only [Bool.false_eq_true, if_false]
  rw [gcd_imax n d (by omega) (by omega) hn' hd']
  have hs : sign n * sign d = 1 := by unfold sign; rw [if_neg (by omega), if_neg (by omega)]; rfl
  have ha1 : absImpl n = .ok n := by unfold absImpl; rw [if_pos (by omega)]
  have ha2 : absImpl d = .ok d := by unfold absImpl; rw [if_pos (by omega)]
  have hmm := imax_max
  have hmin := imax_min
  have i1 : arith imax (1 : Int) = .ok 1 := imax_arith (by decide)
  have i2 : arith imax (1 * n) = .ok n := by rw [Int.one_mul]; exact imax_arith ((imax_inR n).mpr (by omega))
  simp only [ha1, ha2, hs, i1, i2, bind, Except.bind, cdiv_pos _ _ _ hg]
  rw [Int.tdiv_eq_ediv_of_nonneg (by omega), Int.tdiv_eq_ediv_of_nonneg (by omega)]

/-- a positive number divided by one of its positive divisors: positive, not larger, and the division is exact -/
theorem ediv_dvd_facts (n g : Int) (hn : 0 < n) (hg : 0 < g) (hd : g ∣ n) : 0 < n / g ∧ n / g ≤ n ∧ n / g * g = n :=
  ⟨Int.ediv_pos_of_pos_of_dvd hn (by omega) hd, Int.ediv_le_self g (by omega), Int.ediv_mul_cancel hd⟩

/-- `ratio<n, d>::type`: computing the members again from the reduced arguments changes nothing -/
theorem ratioType_pos (n d : Int) (hn : 0 < n) (hd : 0 < d) (hn' : n ≤ imax.max) (hd' : d ≤ imax.max) :
    ratioType n d = .ok ⟨n / ((Int.gcd n d : Nat) : Int), d / ((Int.gcd n d : Nat) : Int)⟩ := by
  have hg := gcd_pos_int n d hn
  obtain ⟨a1, a2, _⟩ := ediv_dvd_facts n _ hn hg (Int.gcd_dvd_left n d)
  obtain ⟨b1, b2, _⟩ := ediv_dvd_facts d _ hd hg (Int.gcd_dvd_right n d)
  have h1 : Int.gcd (n / ((Int.gcd n d : Nat) : Int)) (d / ((Int.gcd n d : Nat) : Int)) = 1 :=
    Int.gcd_div_gcd_div_gcd (Int.gcd_pos_of_ne_zero_left _ (by omega))
  unfold ratioType
  rw [mkRatio_pos n d hn hd hn' hd']
  simp only [bind, Except.bind]
  rw [mkRatio_pos _ _ a1 b1 (by omega) (by omega), h1]
  simp

/-- numerator / denominator of `ratio_divide<p, q>` -/
def cfN (p q : Ratio) : Int := (p.num * q.den) / ((Int.gcd (p.num * q.den) (p.den * q.num) : Nat) : Int)
def cfD (p q : Ratio) : Int := (p.den * q.num) / ((Int.gcd (p.num * q.den) (p.den * q.num) : Nat) : Int)

/-- cancelling a common positive factor first does not change the reduced fraction -/
theorem ediv_gcd_scale (n d k : Int) (hk : 0 < k) :
    (n * k) / ((Int.gcd (n * k) (d * k) : Nat) : Int) = n / ((Int.gcd n d : Nat) : Int) := by
  rw [Int.gcd_mul_right]
  have : ((Int.gcd n d * k.natAbs : Nat) : Int) = ((Int.gcd n d : Nat) : Int) * k := by
    rw [Nat.cast_mul, Int.natAbs_of_nonneg (by omega)]
  rw [this, Int.mul_ediv_mul_of_pos_left _ _ hk]

/-- `ratio_divide<p, q>` (= `ratio_multiply_impl<p, ratio<q.den, q.num>>::type`, common factors cancelled before the
    products are formed) is the quotient in lowest terms; no intermediate exceeds the unreduced products -/
theorem ratioDivide_eq (p q : Ratio) (hp : PerOk p) (hq : PerOk q) (h : DivOk p q) :
    ratioDivide p q = .ok ⟨cfN p q, cfD p q⟩ := by
  obtain ⟨p1, p2, p3, p4⟩ := hp
  obtain ⟨q1, q2, q3, q4⟩ := hq
  obtain ⟨h1, h2⟩ := h
  have hmm := imax_max
  -- ratio<q.den, q.num>
  have hg := gcd_pos_int q.den q.num q2
  obtain ⟨i1, i2, i3⟩ := ediv_dvd_facts q.den _ q2 hg (Int.gcd_dvd_left q.den q.num)
  obtain ⟨j1, j2, j3⟩ := ediv_dvd_facts q.num _ q1 hg (Int.gcd_dvd_right q.den q.num)
  have hq0 : (q.num == 0) = false := by simpa using (by omega : q.num ≠ 0)
  unfold ratioDivide
  rw [hq0]
  simp only [Bool.false_eq_true, if_false]
  rw [mkRatio_pos q.den q.num q2 q1 q4 q3]
  simp only [bind, Except.bind]
  generalize ((Int.gcd q.den q.num : Nat) : Int) = g at *
  generalize hqd : q.den / g = qd at *
  generalize hqn : q.num / g = qn at *
  -- gcd1, gcd2 and the four quotients
  have hg1 := gcd_pos_int p.num qn p1
  have hg2 := gcd_pos_int qd p.den i1
  obtain ⟨a1, a2, a3⟩ := ediv_dvd_facts p.num _ p1 hg1 (Int.gcd_dvd_left p.num qn)
  obtain ⟨e1, e2, e3⟩ := ediv_dvd_facts qn _ j1 hg1 (Int.gcd_dvd_right p.num qn)
  obtain ⟨b1, b2, b3⟩ := ediv_dvd_facts qd _ i1 hg2 (Int.gcd_dvd_left qd p.den)
  obtain ⟨c1, c2, c3⟩ := ediv_dvd_facts p.den _ p2 hg2 (Int.gcd_dvd_right qd p.den)
  unfold ratioMultiply
  simp only
  rw [gcd_imax p.num qn (by omega) (by omega) p3 (by omega), gcd_imax qd p.den (by omega) (by omega) (by omega) p4]
  simp only [bind, Except.bind, cdiv_pos _ _ _ hg1, cdiv_pos _ _ _ hg2]
  rw [Int.tdiv_eq_ediv_of_nonneg (by omega : 0 ≤ p.num), Int.tdiv_eq_ediv_of_nonneg (by omega : 0 ≤ qd),
    Int.tdiv_eq_ediv_of_nonneg (by omega : 0 ≤ p.den), Int.tdiv_eq_ediv_of_nonneg (by omega : 0 ≤ qn)]
  generalize ((Int.gcd p.num qn : Nat) : Int) = g1 at *
  generalize ((Int.gcd qd p.den : Nat) : Int) = g2 at *
  generalize ha : p.num / g1 = a at *
  generalize hb : qd / g2 = b at *
  generalize hc : p.den / g2 = c at *
  generalize he : qn / g1 = e at *
  -- the products are the unreduced products divided by k = g * g1 * g2
  have hk : 0 < g * g1 * g2 := Int.mul_pos (Int.mul_pos hg hg1) hg2
  have eA : p.num * q.den = (a * b) * (g * g1 * g2) := by rw [← a3, ← i3, ← b3]; ring
  have eB : p.den * q.num = (c * e) * (g * g1 * g2) := by rw [← c3, ← j3, ← e3]; ring
  have hab : 0 < a * b := Int.mul_pos a1 b1
  have hce : 0 < c * e := Int.mul_pos c1 e1
  have lab : a * b ≤ p.num * q.den := by
    have : 1 * (a * b) ≤ (g * g1 * g2) * (a * b) := Int.mul_le_mul_of_nonneg_right (by omega) (by omega)
    rw [eA]; linarith
  have lce : c * e ≤ p.den * q.num := by
    have : 1 * (c * e) ≤ (g * g1 * g2) * (c * e) := Int.mul_le_mul_of_nonneg_right (by omega) (by omega)
    rw [eB]; linarith
  rw [imax_arith ((imax_inR _).mpr (by omega)), imax_arith ((imax_inR _).mpr (by omega))]
  simp only
  rw [ratioType_pos _ _ hab hce (by omega) (by omega)]
  unfold cfN cfD
  rw [eA, eB, ediv_gcd_scale _ _ _ hk]
  congr 2
  rw [Int.gcd_comm (a * b * (g * g1 * g2)), ediv_gcd_scale _ _ _ hk, Int.gcd_comm]

/-- cross-multiplied form of `cfN / cfD = (p.num * q.den) / (p.den * q.num)`; positivity; bounds -/
theorem cf_facts (p q : Ratio) (hp : PerOk p) (hq : PerOk q) :
    0 < cfN p q ∧ 0 < cfD p q ∧ cfN p q ≤ p.num * q.den ∧ cfD p q ≤ p.den * q.num ∧
      cfN p q * (p.den * q.num) = cfD p q * (p.num * q.den) := by
  obtain ⟨p1, p2, _, _⟩ := hp
  obtain ⟨q1, q2, _, _⟩ := hq
  have hA : 0 < p.num * q.den := Int.mul_pos p1 q2
  have hB : 0 < p.den * q.num := Int.mul_pos p2 q1
  unfold cfN cfD
  generalize p.num * q.den = A at *
  generalize p.den * q.num = B at *
  have hg := gcd_pos_int A B hA
  have dA : ((Int.gcd A B : Nat) : Int) ∣ A := Int.gcd_dvd_left A B
  have dB : ((Int.gcd A B : Nat) : Int) ∣ B := Int.gcd_dvd_right A B
  generalize ((Int.gcd A B : Nat) : Int) = g at *
  obtain ⟨a, rfl⟩ := dA
  obtain ⟨b, rfl⟩ := dB
  rw [Int.mul_ediv_cancel_left _ (by omega), Int.mul_ediv_cancel_left _ (by omega)]
  have ha : 0 < a := by
    rcases Int.lt_trichotomy a 0 with h | h | h
    · have := Int.mul_neg_of_pos_of_neg hg h; omega
    · subst h; omega
    · exact h
  have hb : 0 < b := by
    rcases Int.lt_trichotomy b 0 with h | h | h
    · have := Int.mul_neg_of_pos_of_neg hg h; omega
    · subst h; omega
    · exact h
  refine ⟨ha, hb, ?_, ?_, by ring⟩
  · have : 1 * a ≤ g * a := Int.mul_le_mul_of_nonneg_right (by omega) (by omega)
    omega
  · have : 1 * b ≤ g * b := Int.mul_le_mul_of_nonneg_right (by omega) (by omega)
    omega

/-- the conversion factor as a rational number -/
theorem cf_rat (p q : Ratio) (hp : PerOk p) (hq : PerOk q) :
    (cfN p q : ℚ) / (cfD p q : ℚ) = p.toRat / q.toRat := by
  obtain ⟨hN, hD, _, _, hx⟩ := cf_facts p q hp hq
  obtain ⟨p1, p2, _, _⟩ := hp
  obtain ⟨q1, q2, _, _⟩ := hq
  unfold Ratio.toRat
  have e1 : (cfD p q : ℚ) ≠ 0 := by exact_mod_cast (by omega : cfD p q ≠ 0)
  have e2 : (p.den : ℚ) ≠ 0 := by exact_mod_cast (by omega : p.den ≠ 0)
  have e3 : (q.den : ℚ) ≠ 0 := by exact_mod_cast (by omega : q.den ≠ 0)
  have e4 : (q.num : ℚ) ≠ 0 := by exact_mod_cast (by omega : q.num ≠ 0)
  have hxq : (cfN p q : ℚ) * ((p.den : ℚ) * (q.num : ℚ)) = (cfD p q : ℚ) * ((p.num : ℚ) * (q.den : ℚ)) := by
    exact_mod_cast congrArg (fun z : ℤ => (z : ℚ)) hx
  field_simp
  linarith

theorem castCtx_eq (dst frm : DurTy) (hto : RepOk dst.rep) (hfrm : RepOk frm.rep) (hp : PerOk frm.per) (hq : PerOk dst.per)
    (h : DivOk frm.per dst.per) :
    castCtx dst frm = .ok ⟨dst.rep, imax, ⟨cfN frm.per dst.per, cfD frm.per dst.per⟩⟩ := by
  unfold castCtx
  rw [ratioDivide_eq _ _ hp hq h, cr_eq hto hfrm]
  rfl

/-! ## the run-time stage -/

theorem int_beq_one (x : Int) : (x == 1) = decide (x = 1) := by
  by_cases h : x = 1 <;> simp [h]

/-- the four cast bodies all compute `trunc(c * N / D)` -/
theorem castCore_eq (toRep : ITy) (N D : Int) (hN : 0 < N) (hD : 0 < D) (hN' : N ≤ imax.max) (hD' : D ≤ imax.max)
    (c : Int) (hc : imax.inR c = true) (hm : imax.inR (c * N) = true) :
    castCore ⟨toRep, imax, ⟨N, D⟩⟩ c = .ok (toRep.conv (Int.tdiv (c * N) D)) := by
  have hmm := imax_max
  have cN : imax.conv N = N := imax_conv ((imax_inR N).mpr (by omega))
  have cD : imax.conv D = D := imax_conv ((imax_inR D).mpr (by omega))
  have cc : imax.conv c = c := imax_conv hc
  unfold castCore
  simp only [int_beq_one, cN, cD, cc]
  by_cases hN1 : N = 1
  · by_cases hD1 : D = 1
    · subst hN1; subst hD1; simp
    · subst hN1
      simp only [hD1, decide_true, decide_false, Bool.and_false, Bool.false_eq_true, if_false, if_true, Int.mul_one]
      rw [cdiv_pos _ _ _ hD]; rfl
  · by_cases hD1 : D = 1
    · subst hD1
      simp only [hN1, decide_true, decide_false, Bool.false_and, Bool.false_eq_true, if_false, if_true]
      rw [imax_arith hm]; simp [bind, Except.bind]
    · simp only [hN1, hD1, decide_false, Bool.false_and, Bool.false_eq_true, if_false]
      rw [imax_arith hm]
      simp only [bind, Except.bind]
      rw [cdiv_pos _ _ _ hD]

/-- truncating integer division is truncation of the rational quotient -/
theorem tdiv_trunc (m D : Int) (hD : 0 < D) : Int.tdiv m D = Spec.trunc ((m : ℚ) / (D : ℚ)) := by
  have hDq : (0 : ℚ) < (D : ℚ) := by exact_mod_cast hD
  unfold Spec.trunc
  by_cases hm : 0 ≤ m
  · have : (0 : ℚ) ≤ (m : ℚ) / (D : ℚ) := div_nonneg (by exact_mod_cast hm) (le_of_lt hDq)
    rw [if_pos this, rat_floor_eq, floor_div m D hD, Int.tdiv_eq_ediv_of_nonneg hm]
  · have hneg : (m : ℚ) / (D : ℚ) < 0 := div_neg_of_neg_of_pos (by exact_mod_cast (by omega : m < 0)) hDq
    rw [if_neg (not_le.mpr hneg), rat_ceil_eq, ceil_div m D hD]
    have h1 : Int.tdiv (-m) D = (-m) / D := Int.tdiv_eq_ediv_of_nonneg (by omega)
    have h2 : Int.tdiv (-m) D = -(Int.tdiv m D) := Int.neg_tdiv ..
    omega

/-- `c` ticks of `p`, expressed in ticks of `q`, as a rational number -/
theorem scaled_rat (p q : Ratio) (hp : PerOk p) (hq : PerOk q) (c : Int) :
    (((c * cfN p q : Int)) : ℚ) / (cfD p q : ℚ) = Spec.val p.toRat c / q.toRat := by
  have h := cf_rat p q hp hq
  unfold Spec.val
  push_cast
  rw [mul_div_assoc, h, mul_div_assoc]

theorem cast_val (p q : Ratio) (hp : PerOk p) (hq : PerOk q) (c : Int) :
    Int.tdiv (c * cfN p q) (cfD p q) = Spec.cast p.toRat q.toRat c := by
  obtain ⟨_, hD, _⟩ := cf_facts p q hp hq
  rw [tdiv_trunc _ _ hD, scaled_rat p q hp hq]
  rfl

/-! ## the common type -/

/-- the period of `common_type_t<duration<_, p>, duration<_, q>>`: `ratio<gcd(num), lcm(den)>::type` -/
def cdPer (p q : Ratio) : Ratio :=
  let G : Int := ((Int.gcd p.num q.num : Nat) : Int)
  let L : Int := ((Int.lcm p.den q.den : Nat) : Int)
  ⟨G / ((Int.gcd G L : Nat) : Int), L / ((Int.gcd G L : Nat) : Int)⟩

def cdTy (a b : DurTy) : DurTy := ⟨ITy.common a.rep b.rep, cdPer a.per b.per⟩

/-- `common_type` and the two converting constructors into it are well-formed constant expressions -/
def CommonOk (p q : Ratio) : Prop :=
  ((Int.lcm p.den q.den : Nat) : Int) ≤ imax.max ∧ DivOk p (cdPer p q) ∧ DivOk q (cdPer p q)
instance (p q : Ratio) : Decidable (CommonOk p q) := by unfold CommonOk; infer_instance

theorem cdPer_comm (p q : Ratio) : cdPer p q = cdPer q p := by
  unfold cdPer; rw [Int.gcd_comm p.num q.num, Int.lcm_comm p.den q.den]

theorem lcm_pos_int (a b : Int) (ha : 0 < a) (hb : 0 < b) : 0 < ((Int.lcm a b : Nat) : Int) := by
  have : 0 < Int.lcm a b := Int.lcm_pos (by omega) (by omega)
  exact_mod_cast this

/-- the common period and the multipliers into it, in factored form:
    `p.num = h·g·u`, `q.num = h·g·u'`, `lcm = h·l = p.den·v = q.den·v'`, common period `g / l` -/
theorem cdPer_facts (p q : Ratio) (hp : PerOk p) (hq : PerOk q) (hl : ((Int.lcm p.den q.den : Nat) : Int) ≤ imax.max) :
    PerOk (cdPer p q) ∧
    (p.den * (cdPer p q).num ∣ p.num * (cdPer p q).den) ∧ (q.den * (cdPer p q).num ∣ q.num * (cdPer p q).den) := by
  obtain ⟨p1, p2, p3, p4⟩ := hp
  obtain ⟨q1, q2, q3, q4⟩ := hq
  have hG := gcd_pos_int p.num q.num p1
  have hGle := gcd_le_left_int p.num q.num p1
  have hL := lcm_pos_int p.den q.den p2 q2
  have dGp : ((Int.gcd p.num q.num : Nat) : Int) ∣ p.num := Int.gcd_dvd_left _ _
  have dGq : ((Int.gcd p.num q.num : Nat) : Int) ∣ q.num := Int.gcd_dvd_right _ _
  have dLp : p.den ∣ ((Int.lcm p.den q.den : Nat) : Int) := Int.dvd_lcm_left _ _
  have dLq : q.den ∣ ((Int.lcm p.den q.den : Nat) : Int) := Int.dvd_lcm_right _ _
  unfold cdPer
  dsimp only
  generalize ((Int.gcd p.num q.num : Nat) : Int) = G at *
  generalize ((Int.lcm p.den q.den : Nat) : Int) = L at *
  have hh := gcd_pos_int G L hG
  have dhG : ((Int.gcd G L : Nat) : Int) ∣ G := Int.gcd_dvd_left _ _
  have dhL : ((Int.gcd G L : Nat) : Int) ∣ L := Int.gcd_dvd_right _ _
  generalize ((Int.gcd G L : Nat) : Int) = h at *
  obtain ⟨g, rfl⟩ := dhG
  obtain ⟨l, rfl⟩ := dhL
  rw [Int.mul_ediv_cancel_left _ (by omega), Int.mul_ediv_cancel_left _ (by omega)]
  have hg : 0 < g := by
    rcases Int.lt_trichotomy g 0 with hneg | hz | hpos
    · have := Int.mul_neg_of_pos_of_neg hh hneg; omega
    · subst hz; omega
    · exact hpos
  have hl' : 0 < l := by
    rcases Int.lt_trichotomy l 0 with hneg | hz | hpos
    · have := Int.mul_neg_of_pos_of_neg hh hneg; omega
    · subst hz; omega
    · exact hpos
  have hgle : g ≤ h * g := by
    have : 1 * g ≤ h * g := Int.mul_le_mul_of_nonneg_right (by omega) (by omega)
    omega
  have hlle : l ≤ h * l := by
    have : 1 * l ≤ h * l := Int.mul_le_mul_of_nonneg_right (by omega) (by omega)
    omega
  refine ⟨⟨hg, hl', by show g ≤ _; omega, by show l ≤ _; omega⟩, ?_, ?_⟩
  · obtain ⟨u, hu⟩ := dGp
    obtain ⟨v, hv⟩ := dLp
    exact ⟨u * v, by linear_combination (l) * hu + (g * u) * hv⟩
  · obtain ⟨u, hu⟩ := dGq
    obtain ⟨v, hv⟩ := dLq
    exact ⟨u * v, by linear_combination (l) * hu + (g * u) * hv⟩

theorem commonTy_eq (a b : DurTy) (hpa : PerOk a.per) (hpb : PerOk b.per)
    (hl : ((Int.lcm a.per.den b.per.den : Nat) : Int) ≤ imax.max) :
    commonTy a b = .ok (cdTy a b) := by
  obtain ⟨p1, p2, p3, p4⟩ := hpa
  obtain ⟨q1, q2, q3, q4⟩ := hpb
  have hG := gcd_pos_int a.per.num b.per.num p1
  have hGle := gcd_le_left_int a.per.num b.per.num p1
  have hL := lcm_pos_int a.per.den b.per.den p2 q2
  unfold commonTy
  rw [gcd_imax _ _ (by omega) (by omega) p3 q3, lcm_imax _ _ (by omega) (by omega) p4 q4 hl]
  simp only [bind, Except.bind]
  rw [mkRatio_pos _ _ hG hL (by omega) hl]
  rfl

/-- a divisor of the numerator that equals the denominator part: the normalised denominator is 1 -/
theorem cfD_one_of_dvd (p q : Ratio) (hp : PerOk p) (hq : PerOk q) (hd : p.den * q.num ∣ p.num * q.den) :
    cfD p q = 1 := by
  obtain ⟨_, p2, _, _⟩ := hp
  obtain ⟨q1, _, _, _⟩ := hq
  have hB : 0 < p.den * q.num := Int.mul_pos p2 q1
  unfold cfD
  have : ((Int.gcd (p.num * q.den) (p.den * q.num) : Nat) : Int) = p.den * q.num := by
    rw [Int.gcd_comm]
    have := Int.gcd_eq_left_iff_dvd (a := p.den * q.num) (b := p.num * q.den) (by omega)
    have h2 := this.mpr hd
    omega
  rw [this, Int.ediv_self (by omega)]

/-- the integer multiplier that converts ticks of `p` into ticks of the common period of `p` and `q` -/
def mulL (p q : Ratio) : Int := cfN p (cdPer p q)
def mulR (p q : Ratio) : Int := cfN q (cdPer p q)

/-- the static context of a binary operator: both conversion factors have denominator 1 -/
def pairK (a b : DurTy) : PairCtx :=
  ⟨cdTy a b, ⟨(cdTy a b).rep, imax, ⟨mulL a.per b.per, 1⟩⟩, ⟨(cdTy a b).rep, imax, ⟨mulR a.per b.per, 1⟩⟩⟩

theorem pairCtx_eq (a b : DurTy) (ha : RepOk a.rep) (hb : RepOk b.rep) (hpa : PerOk a.per) (hpb : PerOk b.per)
    (hc : CommonOk a.per b.per) : pairCtx a b = .ok (pairK a b) := by
  obtain ⟨hl, hda, hdb⟩ := hc
  obtain ⟨hcd, dva, dvb⟩ := cdPer_facts a.per b.per hpa hpb hl
  have hrep := (common_repOk ha hb).1
  unfold pairCtx
  rw [commonTy_eq a b hpa hpb hl]
  simp only [bind, Except.bind]
  rw [castCtx_eq (cdTy a b) a hrep ha hpa hcd hda, castCtx_eq (cdTy a b) b hrep hb hpb hcd hdb]
  simp only
  have e1 : cfD a.per (cdTy a b).per = 1 := cfD_one_of_dvd _ _ hpa hcd dva
  have e2 : cfD b.per (cdTy a b).per = 1 := cfD_one_of_dvd _ _ hpb hcd dvb
  rw [e1, e2]
  rfl

/-- the multipliers as rational numbers: `p / common period` -/
theorem mul_rat (p q : Ratio) (hp : PerOk p) (hq : PerOk q) (hl : ((Int.lcm p.den q.den : Nat) : Int) ≤ imax.max) :
    (mulL p q : ℚ) * (cdPer p q).toRat = p.toRat ∧ (mulR p q : ℚ) * (cdPer p q).toRat = q.toRat ∧
      0 < (cdPer p q).toRat ∧ 0 < mulL p q ∧ 0 < mulR p q ∧
      mulL p q ≤ p.num * (cdPer p q).den ∧ mulR p q ≤ q.num * (cdPer p q).den := by
  obtain ⟨hcd, dva, dvb⟩ := cdPer_facts p q hp hq hl
  have e1 := cfD_one_of_dvd _ _ hp hcd dva
  have e2 := cfD_one_of_dvd _ _ hq hcd dvb
  have r1 := cf_rat p (cdPer p q) hp hcd
  have r2 := cf_rat q (cdPer p q) hq hcd
  obtain ⟨n1, _, b1, _, _⟩ := cf_facts p (cdPer p q) hp hcd
  obtain ⟨n2, _, b2, _, _⟩ := cf_facts q (cdPer p q) hq hcd
  rw [e1] at r1
  rw [e2] at r2
  have hpos : 0 < (cdPer p q).toRat := by
    unfold Ratio.toRat
    exact div_pos (by exact_mod_cast hcd.1) (by exact_mod_cast hcd.2.1)
  have hne : (cdPer p q).toRat ≠ 0 := ne_of_gt hpos
  unfold mulL mulR
  refine ⟨?_, ?_, hpos, n1, n2, b1, b2⟩
  · have : (cfN p (cdPer p q) : ℚ) = p.toRat / (cdPer p q).toRat := by simpa using r1
    rw [this]; field_simp
  · have : (cfN q (cdPer p q) : ℚ) = q.toRat / (cdPer p q).toRat := by simpa using r2
    rw [this]; field_simp

/-- the converting constructor into the common type: multiplication by the integer factor -/
theorem convertCore_eq (rep : ITy) (hrep : RepOk rep) (m : Int) (hm : 0 < m) (hm' : m ≤ imax.max)
    (x : Int) (hx : imax.inR x = true) (hxm : rep.inR (x * m) = true) :
    convertCore ⟨rep, imax, ⟨m, 1⟩⟩ x = .ok (x * m) := by
  have hmm := imax_max
  have cm : imax.conv m = m := imax_conv ((imax_inR m).mpr (by omega))
  have c1 : imax.conv 1 = 1 := by decide
  have hxm' := repOk_sub hrep _ hxm
  unfold convertCore
  simp only [bne_self_eq_false, Bool.false_eq_true, if_false, imax_conv hx, cm, c1]
  rw [imax_arith hxm']
  simp only [bind, Except.bind]
  rw [cdiv_pos _ _ _ (by decide), tdiv_one]
  simp only [conv_of_inR _ (repOk_w hrep) _ hxm]

/-- static preconditions of a binary operator on `duration<…> a`, `duration<…> b` -/
def PairTyOk (a b : DurTy) : Prop :=
  RepOk a.rep ∧ RepOk b.rep ∧ PerOk a.per ∧ PerOk b.per ∧ CommonOk a.per b.per
instance (a b : DurTy) : Decidable (PairTyOk a b) := by unfold PairTyOk; infer_instance

/-- run-time precondition: both counts are values of their representation and representable in the common type -/
def PairIn (a b : DurTy) (x y : Int) : Prop :=
  a.rep.inR x = true ∧ b.rep.inR y = true ∧ (cdTy a b).rep.inR (x * mulL a.per b.per) = true ∧
    (cdTy a b).rep.inR (y * mulR a.per b.per) = true
instance (a b : DurTy) (x y : Int) : Decidable (PairIn a b x y) := by unfold PairIn; infer_instance

theorem cd_repOk {a b : DurTy} (h : PairTyOk a b) : RepOk (cdTy a b).rep := (common_repOk h.1 h.2.1).1

theorem both_common (a b : DurTy) (h : PairTyOk a b) (x y : Int) (hin : PairIn a b x y) :
    convertCore (pairK a b).ka x = .ok (x * mulL a.per b.per) ∧
    convertCore (pairK a b).kb y = .ok (y * mulR a.per b.per) := by
  have hcd := cd_repOk h
  obtain ⟨ha, hb, hpa, hpb, hl, hda, hdb⟩ := h
  obtain ⟨hx, hy, hxm, hym⟩ := hin
  obtain ⟨_, _, _, m1, m2, b1, b2⟩ := mul_rat a.per b.per hpa hpb hl
  have := hda.1
  have := hdb.1
  exact ⟨convertCore_eq _ hcd _ m1 (by omega) x (repOk_sub ha x hx) hxm,
         convertCore_eq _ hcd _ m2 (by omega) y (repOk_sub hb y hy) hym⟩

theorem mkCD_id (cd : DurTy) (hr : RepOk cd.rep) (s : Int) (hs : cd.rep.inR s = true) : mkCD cd s = s := by
  unfold mkCD; rw [conv_of_inR _ (repOk_w hr) _ hs, conv_of_inR _ (repOk_w hr) _ hs]

/-! ## rounding: rational facts -/

theorem trunc_floor_adjust (X : ℚ) :
    (if X < (Spec.trunc X : ℚ) then Spec.trunc X - 1 else Spec.trunc X) = ⌊X⌋ := by
  unfold Spec.trunc
  by_cases h0 : 0 ≤ X
  · simp only [if_pos h0, rat_floor_eq]
    rw [if_neg (not_lt.mpr (Int.floor_le X))]
  · simp only [if_neg h0, rat_ceil_eq]
    by_cases hlt : X < (⌈X⌉ : ℚ)
    · rw [if_pos hlt]
      symm
      rw [Int.floor_eq_iff]
      have := Int.ceil_lt_add_one X
      push_cast
      constructor <;> linarith
    · rw [if_neg hlt]
      have : (⌈X⌉ : ℚ) = X := le_antisymm (not_lt.mp hlt) (Int.le_ceil X)
      rw [← this, Int.floor_intCast, Int.ceil_intCast]

theorem trunc_ceil_adjust (X : ℚ) :
    (if (Spec.trunc X : ℚ) < X then Spec.trunc X + 1 else Spec.trunc X) = ⌈X⌉ := by
  unfold Spec.trunc
  by_cases h0 : 0 ≤ X
  · simp only [if_pos h0, rat_floor_eq]
    by_cases hlt : (⌊X⌋ : ℚ) < X
    · rw [if_pos hlt]
      symm
      rw [Int.ceil_eq_iff]
      have := Int.lt_floor_add_one X
      push_cast
      constructor <;> linarith
    · rw [if_neg hlt]
      have : (⌊X⌋ : ℚ) = X := le_antisymm (Int.floor_le X) (not_lt.mp hlt)
      rw [← this, Int.ceil_intCast, Int.floor_intCast]
  · simp only [if_neg h0, rat_ceil_eq]
    rw [if_neg (not_lt.mpr (Int.le_ceil X))]

/-- comparing `c` ticks of `P` with `t` ticks of `Q` is comparing `c·P/Q` with `t` -/
theorem spec_lt_left (P Q : ℚ) (hQ : 0 < Q) (c t : Int) :
    Spec.lt P Q c t = decide (Spec.val P c / Q < (t : ℚ)) := by
  unfold Spec.lt
  rw [decide_eq_decide, div_lt_iff₀ hQ]
  rfl

theorem spec_lt_right (P Q : ℚ) (hQ : 0 < Q) (c t : Int) :
    Spec.lt Q P t c = decide ((t : ℚ) < Spec.val P c / Q) := by
  unfold Spec.lt
  rw [decide_eq_decide, lt_div_iff₀ hQ]
  rfl

theorem toRat_pos (p : Ratio) (hp : PerOk p) : 0 < p.toRat := by
  unfold Ratio.toRat
  exact div_pos (by exact_mod_cast hp.1) (by exact_mod_cast hp.2.1)

theorem step1_eq (dst : DurTy) (hr : RepOk dst.rep) (t d : Int) (h : dst.rep.inR (t + d) = true) :
    step1 dst t d = .ok (t + d) := by
  have h1 : dst.rep.inR 1 = true := by
    obtain ⟨hs, h1, h2⟩ := hr
    rw [inR_iff]; unfold ITy.min ITy.max; simp only [hs, if_true]
    have : (2:Int) ^ 31 ≤ 2 ^ (dst.rep.w - 1) := pow_mono _ _ (by omega)
    have : (2:Int) ^ 31 = 2147483648 := by norm_num
    omega
  unfold step1
  rw [conv_of_inR _ (repOk_w hr) _ h1, Int.mul_one, repOk_promote hr, arith_ok _ (repOk_w hr) _ h]
  simp only [bind, Except.bind, conv_of_inR _ (repOk_w hr) _ h]

/-- static preconditions of `duration_cast / floor / ceil / round <To>(From)` -/
def CastTyOk (dst frm : DurTy) : Prop :=
  RepOk dst.rep ∧ RepOk frm.rep ∧ PerOk frm.per ∧ PerOk dst.per ∧ DivOk frm.per dst.per
instance (dst frm : DurTy) : Decidable (CastTyOk dst frm) := by unfold CastTyOk; infer_instance

/-- run-time precondition of the cast: the count is a value of its representation, the product `c · CF::num` does not
    overflow `intmax_t`, the exact (truncated) result is representable in `To::rep` -/
def CastIn (dst frm : DurTy) (c : Int) : Prop :=
  frm.rep.inR c = true ∧ imax.inR (c * cfN frm.per dst.per) = true ∧
    dst.rep.inR (Spec.cast frm.per.toRat dst.per.toRat c) = true
instance (dst frm : DurTy) (c : Int) : Decidable (CastIn dst frm c) := by unfold CastIn; infer_instance

def castK (dst frm : DurTy) : CastCtx := ⟨dst.rep, imax, ⟨cfN frm.per dst.per, cfD frm.per dst.per⟩⟩

theorem castCore_spec (dst frm : DurTy) (h : CastTyOk dst frm) (c : Int) (hin : CastIn dst frm c) :
    castCore (castK dst frm) c = .ok (Spec.cast frm.per.toRat dst.per.toRat c) := by
  obtain ⟨hto, hfrm, hp, hq, hdiv⟩ := h
  obtain ⟨hc, hmul, hres⟩ := hin
  obtain ⟨hN, hD, hN', hD', _⟩ := cf_facts frm.per dst.per hp hq
  unfold castK
  rw [castCore_eq dst.rep _ _ hN hD (by have := hdiv.1; omega) (by have := hdiv.2; omega) c (repOk_sub hfrm c hc) hmul,
    cast_val _ _ hp hq, conv_of_inR _ (repOk_w hto) _ hres]

/-! ## `round`: self common type -/

/-- the period is in lowest terms (always true of `ratio<…>::type`) -/
def Coprime (p : Ratio) : Prop := Int.gcd p.num p.den = 1
instance (p : Ratio) : Decidable (Coprime p) := by unfold Coprime; infer_instance

theorem cdPer_self (p : Ratio) (hp : PerOk p) (hc : Coprime p) : cdPer p p = p := by
  obtain ⟨p1, p2, _, _⟩ := hp
  unfold Coprime at hc
  unfold cdPer
  dsimp only
  have e1 : ((Int.gcd p.num p.num : Nat) : Int) = p.num := by rw [Int.gcd_self]; omega
  have e2 : ((Int.lcm p.den p.den : Nat) : Int) = p.den := by rw [Int.lcm_self]; omega
  rw [e1, e2, hc]
  simp

theorem cf_self (p : Ratio) (hp : PerOk p) : cfN p p = 1 ∧ cfD p p = 1 := by
  obtain ⟨p1, p2, _, _⟩ := hp
  have hA : 0 < p.num * p.den := Int.mul_pos p1 p2
  unfold cfN cfD
  rw [Int.mul_comm p.den p.num, Int.gcd_self]
  have : ((p.num * p.den).natAbs : Int) = p.num * p.den := by omega
  rw [this, Int.ediv_self (by omega)]
  exact ⟨rfl, rfl⟩

theorem cdPer_coprime (p q : Ratio) (hp : PerOk p) (hq : PerOk q) : Coprime (cdPer p q) := by
  unfold Coprime cdPer
  dsimp only
  have hG := gcd_pos_int p.num q.num hp.1
  generalize ((Int.gcd p.num q.num : Nat) : Int) = G at *
  generalize ((Int.lcm p.den q.den : Nat) : Int) = L at *
  exact Int.gcd_div_gcd_div_gcd (Int.gcd_pos_of_ne_zero_left _ (by omega))


/-! ## helper lemmas for the property theorems (run-time bodies on a known static context) -/

/-- the run-time body of `operator<` compares the exact values -/
theorem ltCore_spec (a b : DurTy) (h : PairTyOk a b) (x y : Int) (hin : PairIn a b x y) :
    ltCore (pairK a b) x y = .ok (Spec.lt a.per.toRat b.per.toRat x y) := by
  obtain ⟨c1, c2⟩ := both_common a b h x y hin
  obtain ⟨ha, hb, hpa, hpb, hc⟩ := h
  obtain ⟨e1, e2, hpos, _⟩ := mul_rat a.per b.per hpa hpb hc.1
  simp only [bind, Except.bind, ltCore, c1, c2]
  unfold Spec.lt Spec.val
  congr 1
  rw [decide_eq_decide, ← e1, ← e2]
  constructor
  · intro hlt
    have : ((x * mulL a.per b.per : Int) : ℚ) < ((y * mulR a.per b.per : Int) : ℚ) := by exact_mod_cast hlt
    push_cast at this
    nlinarith [mul_lt_mul_of_pos_right this hpos]
  · intro hlt
    have : ((x : ℚ) * mulL a.per b.per) * (cdPer a.per b.per).toRat < ((y : ℚ) * mulR a.per b.per) * (cdPer a.per b.per).toRat := by
      nlinarith
    have := lt_of_mul_lt_mul_right this (le_of_lt hpos)
    exact_mod_cast this


theorem common_self (r : ITy) : ITy.common r r = r := by
  unfold ITy.common; rw [(ity_beq r r).mpr rfl]; rfl

theorem cdTy_self (d : DurTy) (hp : PerOk d.per) (hc : Coprime d.per) : cdTy d d = d := by
  unfold cdTy; rw [common_self, cdPer_self _ hp hc]

theorem pairK_self (d : DurTy) (hp : PerOk d.per) (hc : Coprime d.per) :
    pairK d d = ⟨d, ⟨d.rep, imax, ⟨1, 1⟩⟩, ⟨d.rep, imax, ⟨1, 1⟩⟩⟩ := by
  unfold pairK mulL mulR
  rw [cdTy_self d hp hc, cdPer_self _ hp hc, (cf_self _ hp).1]

theorem castK_self (d : DurTy) (hp : PerOk d.per) : castK d d = ⟨d.rep, imax, ⟨1, 1⟩⟩ := by
  unfold castK; rw [(cf_self _ hp).1, (cf_self _ hp).2]


theorem floorCtx_eq (dst frm : DurTy) (h : CastTyOk dst frm) (hp : PairTyOk frm dst) :
    floorCtx dst frm = .ok ⟨dst, castK dst frm, pairK frm dst⟩ := by
  unfold floorCtx
  rw [castCtx_eq dst frm h.1 h.2.1 h.2.2.1 h.2.2.2.1 h.2.2.2.2, pairCtx_eq frm dst hp.1 hp.2.1 hp.2.2.1 hp.2.2.2.1 hp.2.2.2.2]
  rfl


theorem floorCore_spec (dst frm : DurTy) (h : CastTyOk dst frm) (hp : PairTyOk frm dst) (c : Int) (hin : CastIn dst frm c)
    (hcmp : PairIn frm dst c (Spec.cast frm.per.toRat dst.per.toRat c))
    (hstep : Spec.val frm.per.toRat c / dst.per.toRat < ((Spec.cast frm.per.toRat dst.per.toRat c : Int) : ℚ) →
      dst.rep.inR (Spec.cast frm.per.toRat dst.per.toRat c + -1) = true) :
    floorCore ⟨dst, castK dst frm, pairK frm dst⟩ c = .ok (Spec.floor frm.per.toRat dst.per.toRat c) := by
  have hQ := toRat_pos dst.per h.2.2.2.1
  have hcast := castCore_spec dst frm h c hin
  have hlt := ltCore_spec frm dst hp c _ hcmp
  simp only [bind, Except.bind, floorCore, hcast, hlt]
  rw [spec_lt_left _ _ hQ]
  have key := trunc_floor_adjust (Spec.val frm.per.toRat c / dst.per.toRat)
  unfold Spec.floor
  rw [rat_floor_eq, ← key]
  by_cases hx : Spec.val frm.per.toRat c / dst.per.toRat < ((Spec.cast frm.per.toRat dst.per.toRat c : Int) : ℚ)
  · have hx' : Spec.val frm.per.toRat c / dst.per.toRat < ((Spec.trunc (Spec.val frm.per.toRat c / dst.per.toRat) : Int) : ℚ) := hx
    rw [if_pos hx']
    simp only [hx, decide_true, if_true]
    rw [step1_eq dst h.1 _ _ (hstep hx)]
    rfl
  · have hx' : ¬ Spec.val frm.per.toRat c / dst.per.toRat < ((Spec.trunc (Spec.val frm.per.toRat c / dst.per.toRat) : Int) : ℚ) := hx
    rw [if_neg hx']
    simp only [hx, decide_false, Bool.false_eq_true, if_false]
    rfl


/-- one side of a subtraction through the common type -/
theorem subCore_spec (a b : DurTy) (h : PairTyOk a b) (x y : Int) (hin : PairIn a b x y)
    (hdiff : (cdTy a b).rep.inR (x * mulL a.per b.per - y * mulR a.per b.per) = true) :
    subCore (pairK a b) x y = .ok (x * mulL a.per b.per - y * mulR a.per b.per) := by
  obtain ⟨c1, c2⟩ := both_common a b h x y hin
  have hcd := cd_repOk h
  simp only [bind, Except.bind, subCore, c1, c2]
  have : (pairK a b).cd = cdTy a b := rfl
  rw [this, repOk_promote hcd, arith_ok _ (repOk_w hcd) _ hdiff]
  simp only [mkCD_id _ hcd _ hdiff]


theorem roundEven_cases (X : ℚ) (f : Int) (hf : f = ⌊X⌋) (A B : Prop) [Decidable A] [Decidable B]
    (hA : A ↔ X - f < 1 / 2) (hB : B ↔ 1 / 2 < X - f) :
    (if decide A = true then f else if decide B = true then f + 1 else if (f % 2 != 0) = true then f + 1 else f)
      = Spec.roundEven X := by
  unfold Spec.roundEven
  simp only [rat_floor_eq, ← hf, decide_eq_true_eq]
  by_cases h1 : X - (f : ℚ) < 1 / 2
  · rw [if_pos (hA.mpr h1), if_pos h1]
  · rw [if_neg (fun h => h1 (hA.mp h)), if_neg h1]
    by_cases h2 : 1 / 2 < X - (f : ℚ)
    · rw [if_pos (hB.mpr h2), if_pos h2]
    · rw [if_neg (fun h => h2 (hB.mp h)), if_neg h2]
      by_cases h3 : f % 2 = 0
      · simp [h3]
      · simp [h3]


/-! ## division and remainder -/

theorem trunc_neg (x : ℚ) : Spec.trunc (-x) = -Spec.trunc x := by
  unfold Spec.trunc
  simp only [rat_floor_eq, rat_ceil_eq]
  rcases lt_trichotomy x 0 with h | h | h
  · rw [if_pos (by linarith), if_neg (by linarith), Int.floor_neg]
  · subst h; simp
  · rw [if_neg (by linarith), if_pos (by linarith), Int.ceil_neg]

/-- truncating division by any non-zero divisor is truncation of the rational quotient -/
theorem tdiv_trunc' (m D : Int) (hD : D ≠ 0) : Int.tdiv m D = Spec.trunc ((m : ℚ) / (D : ℚ)) := by
  rcases Int.lt_trichotomy D 0 with h | h | h
  · have e : (m : ℚ) / (D : ℚ) = -((m : ℚ) / ((-D : Int) : ℚ)) := by push_cast; rw [div_neg, neg_neg]
    rw [e, trunc_neg, ← tdiv_trunc m (-D) (by omega), Int.tdiv_neg, Int.neg_neg]
  · exact absurd h hD
  · exact tdiv_trunc m D h

theorem tmod_le_self (l r : Int) (h0 : 0 ≤ l) : Int.tmod l r ≤ l := by
  have h := Int.tmod_add_mul_tdiv l r
  have : 0 ≤ r * Int.tdiv l r := by
    rcases Int.le_total 0 r with hr | hr
    · exact Int.mul_nonneg hr (Int.tdiv_nonneg h0 hr)
    · have e : Int.tdiv l r = -(Int.tdiv l (-r)) := by rw [Int.tdiv_neg, Int.neg_neg]
      have h1 : 0 ≤ Int.tdiv l (-r) := Int.tdiv_nonneg h0 (by omega)
      have h2 : 0 ≤ (-r) * Int.tdiv l (-r) := Int.mul_nonneg (by omega) h1
      rw [e, Int.mul_neg, ← Int.neg_mul]; exact h2
  omega

theorem cdiv_ok (t : ITy) (a b : Int) (hb : b ≠ 0) (hex : ¬ (a = t.min ∧ b = -1)) : cdiv t a b = .ok (Int.tdiv a b) := by
  unfold cdiv
  have h1 : (b == 0) = false := by simpa using hb
  rw [h1]
  simp only [Bool.false_eq_true, if_false]
  by_cases h2 : a = t.min ∧ b = -1
  · exact absurd h2 hex
  · have : (t.sg && a == t.min && b == -1) = false := by
      rcases not_and_or.mp h2 with h | h
      · have : (a == t.min) = false := by simpa using h
        simp [this]
      · have : (b == -1) = false := by simpa using h
        simp [this]
    rw [this]; simp

theorem cmod_ok (t : ITy) (a b : Int) (hb : b ≠ 0) (hex : ¬ (a = t.min ∧ b = -1)) : cmod t a b = .ok (Int.tmod a b) := by
  unfold cmod
  have h1 : (b == 0) = false := by simpa using hb
  rw [h1]
  simp only [Bool.false_eq_true, if_false]
  by_cases h2 : a = t.min ∧ b = -1
  · exact absurd h2 hex
  · have : (t.sg && a == t.min && b == -1) = false := by
      rcases not_and_or.mp h2 with h | h
      · have : (a == t.min) = false := by simpa using h
        simp [this]
      · have : (b == -1) = false := by simpa using h
        simp [this]
    rw [this]; simp

/-! ## duration and a tick count -/

/-- `CR op Rep2` with `CR = common_type_t<Rep1, Rep2>` is evaluated in `CR` -/
theorem usual_common {a b : ITy} (ha : RepOk a) (hb : RepOk b) : ITy.usual (ITy.common a b) b = ITy.common a b := by
  have pa := repOk_promote ha
  have pb := repOk_promote hb
  obtain ⟨hsa, ha1, ha2⟩ := ha
  obtain ⟨hsb, hb1, hb2⟩ := hb
  unfold ITy.common
  by_cases hab : a = b
  · subst hab
    have : (a == a) = true := (ity_beq a a).mpr rfl
    simp only [this, if_true]
    unfold ITy.usual
    simp only [pa, hsa, beq_self_eq_true, if_true, ge_iff_le, Nat.le_refl]
  · have : (a == b) = false := (ity_beq_false a b).mpr hab
    simp only [this, Bool.false_eq_true, if_false]
    unfold ITy.usual
    simp only [pa, pb, hsa, hsb, beq_self_eq_true, if_true]
    by_cases hw : a.w ≥ b.w
    · simp only [if_pos hw, pa, hsa, beq_self_eq_true, if_true]
    · simp only [if_neg hw, pb, hsb, beq_self_eq_true, if_true, ge_iff_le, Nat.le_refl]

theorem inR_sub_common_r {a b : ITy} (ha : RepOk a) (hb : RepOk b) (x : Int) (hx : b.inR x = true) :
    (ITy.common a b).inR x = true := by
  obtain ⟨⟨hs, h1, h2⟩, _, hwb⟩ := common_repOk ha hb
  obtain ⟨hsb, hb1, hb2⟩ := hb
  generalize ITy.common a b = c at *
  rw [inR_iff] at hx ⊢
  unfold ITy.min ITy.max at hx ⊢
  simp only [hs, hsb, if_true] at hx ⊢
  have hp : (2:Int) ^ (b.w - 1) ≤ 2 ^ (c.w - 1) := pow_mono _ _ (by omega)
  omega

/-- `|l % r| ≤ |l|`: the remainder is a value of the type of the dividend -/
theorem tmod_inR (t : ITy) (l r : Int) (hl : t.inR l = true) : t.inR (Int.tmod l r) = true := by
  rw [inR_iff] at hl ⊢
  have hmm := min_max_zero t
  rcases Int.le_total 0 l with h0 | h0
  · have := Int.tmod_nonneg r h0
    have : Int.tmod l r ≤ l := tmod_le_self l r h0
    omega
  · have h1 : Int.tmod (-l) r = -(Int.tmod l r) := Int.neg_tmod ..
    have := Int.tmod_nonneg r (by omega : 0 ≤ -l)
    have : Int.tmod (-l) r ≤ -l := tmod_le_self (-l) r (by omega)
    omega

/-- static preconditions of `duration<Rep1, Period> op Rep2` -/
def ScalarTyOk (d : DurTy) (rs : ITy) : Prop := RepOk d.rep ∧ RepOk rs ∧ PerOk d.per ∧ DivOk d.per d.per
instance (d : DurTy) (rs : ITy) : Decidable (ScalarTyOk d rs) := by unfold ScalarTyOk; infer_instance

/-- the static context of `duration<Rep1, Period> op Rep2`: the conversion `CD(d)` keeps the period -/
def scalarK (d : DurTy) (rs : ITy) : ScalarCtx :=
  ⟨⟨ITy.common d.rep rs, d.per⟩, ⟨ITy.common d.rep rs, imax, ⟨1, 1⟩⟩, rs⟩

theorem scalarCtx_eq (d : DurTy) (rs : ITy) (h : ScalarTyOk d rs) : scalarCtx d rs = .ok (scalarK d rs) := by
  obtain ⟨hr, hs, hp, hdiv⟩ := h
  have hc := (common_repOk hr hs).1
  unfold scalarCtx
  simp only
  rw [castCtx_eq ⟨ITy.common d.rep rs, d.per⟩ d hc hr hp hp hdiv]
  simp only [bind, Except.bind, (cf_self _ hp).1, (cf_self _ hp).2]
  rfl

/-- the three run-time facts every scalar operator starts from: `CD(d).count()` is the count, and both operands are
    values of the type the operator is evaluated in -/
theorem scalar_operands (d : DurTy) (rs : ITy) (h : ScalarTyOk d rs) (c s : Int) (hc : d.rep.inR c = true)
    (hs : rs.inR s = true) :
    convertCore (scalarK d rs).k c = .ok c ∧ ITy.usual (scalarK d rs).cd.rep (scalarK d rs).rs = ITy.common d.rep rs ∧
      (ITy.common d.rep rs).conv c = c ∧ (ITy.common d.rep rs).conv s = s := by
  obtain ⟨hr, hrs, hp, hdiv⟩ := h
  have hcr := (common_repOk hr hrs).1
  have hc' := inR_sub_common hr hrs c hc
  have hs' := inR_sub_common_r hr hrs s hs
  refine ⟨?_, usual_common hr hrs, conv_of_inR _ (repOk_w hcr) _ hc', conv_of_inR _ (repOk_w hcr) _ hs'⟩
  have := convertCore_eq (ITy.common d.rep rs) hcr 1 (by decide) (by decide) c (repOk_sub hr c hc) (by rwa [Int.mul_one])
  rwa [Int.mul_one] at this

/-! ### the scalar operators in ℚ -/

theorem spec_mulRep (p : ℚ) (hp : 0 < p) (c s : Int) : Spec.mulRep p c s = c * s := by
  unfold Spec.mulRep Spec.inPeriod Spec.val
  have : (c : ℚ) * p * (s : ℚ) / p = ((c * s : Int) : ℚ) := by push_cast; field_simp
  rw [this, rat_floor_eq, Int.floor_intCast]

theorem spec_divRep (p : ℚ) (hp : 0 < p) (c s : Int) (hs : s ≠ 0) : Spec.divRep p c s = Int.tdiv c s := by
  unfold Spec.divRep Spec.val
  rw [tdiv_trunc' c s hs]
  congr 1
  have : (s : ℚ) ≠ 0 := by exact_mod_cast hs
  field_simp

theorem spec_modRep (p : ℚ) (hp : 0 < p) (c s : Int) (hs : s ≠ 0) : Spec.modRep p c s = Int.tmod c s := by
  unfold Spec.modRep
  rw [spec_divRep p hp c s hs]
  unfold Spec.inPeriod Spec.val
  have hdef : Int.tmod c s = c - s * Int.tdiv c s := by
    have := Int.tmod_add_mul_tdiv c s
    omega
  have : ((c : ℚ) * p - ((Int.tdiv c s : Int) : ℚ) * p * (s : ℚ)) / p = ((c - s * Int.tdiv c s : Int) : ℚ) := by
    push_cast; field_simp
  rw [this, rat_floor_eq, Int.floor_intCast, hdef]

end Tetl.C12
