/-
C12 — helper lemmas: the compile-time stage (`mkRatio`, `ratioDivide`, `commonTy`, `castCtx`, `pairCtx`)
evaluates to the expected constants; integer facts about truncating division.
-/
import Mathlib.Data.Rat.Floor
import Mathlib.Tactic.Ring
import Mathlib.Tactic.Linarith
import Mathlib.Tactic.FieldSimp
import Tetl.C12.Model
import Tetl.C12.Spec
import TetlProofs.C14.Props
namespace Tetl.C12
open Tetl Tetl.C14

/-! ## documented preconditions, as decidable predicates -/

/-- a representation the model covers: a signed builtin integer type of 32 to 64 bits -/
def RepOk (r : ITy) : Prop := r.sg = true ∧ 32 ≤ r.w ∧ r.w ≤ 64
instance (r : ITy) : Decidable (RepOk r) := by unfold RepOk; infer_instance

/-- a period as `ratio<…>::type` produces it: positive numerator and denominator (values of `intmax_t`) -/
def PerOk (p : Ratio) : Prop := 0 < p.num ∧ 0 < p.den ∧ p.num ≤ imax.max ∧ p.den ≤ imax.max
instance (p : Ratio) : Decidable (PerOk p) := by unfold PerOk; infer_instance

/-- `ratio_divide<p, q>` is a well-formed constant expression: both products fit `intmax_t` -/
def DivOk (p q : Ratio) : Prop := p.num * q.den ≤ imax.max ∧ p.den * q.num ≤ imax.max
instance (p q : Ratio) : Decidable (DivOk p q) := by unfold DivOk; infer_instance

/-- the rational value of a period -/
def Ratio.toRat (p : Ratio) : ℚ := (p.num : ℚ) / (p.den : ℚ)

theorem imax_max : imax.max = 9223372036854775807 := by decide
theorem imax_min : imax.min = -9223372036854775808 := by decide

theorem imax_inR (x : Int) : imax.inR x = true ↔ -9223372036854775808 ≤ x ∧ x ≤ 9223372036854775807 := by
  rw [inR_iff, imax_max, imax_min]

theorem repOk_w {r : ITy} (h : RepOk r) : 1 ≤ r.w := by unfold RepOk at h; omega

theorem repOk_promote {r : ITy} (h : RepOk r) : r.promote = r := by
  unfold ITy.promote; unfold RepOk at h
  have : ¬ r.w < 32 := by omega
  simp [this]

/-- every value of a covered representation is a value of `intmax_t` -/
theorem repOk_sub {r : ITy} (h : RepOk r) (x : Int) (hx : r.inR x = true) : imax.inR x = true := by
  obtain ⟨hs, h1, h2⟩ := h
  rw [inR_iff] at hx
  rw [imax_inR]
  unfold ITy.min ITy.max at hx
  simp only [hs, if_true] at hx
  have hp : (2:Int) ^ (r.w - 1) ≤ 2 ^ 63 := pow_mono _ _ (by omega)
  have : (2:Int) ^ 63 = 9223372036854775808 := by norm_num
  omega

theorem ity_beq (a b : ITy) : (a == b) = true ↔ a = b := by
  cases a with | mk w1 s1 => cases b with | mk w2 s2 =>
  show (instBEqITy.beq _ _) = true ↔ _
  simp [ITy.mk.injEq, instBEqITy.beq]

theorem ity_beq_false (a b : ITy) : (a == b) = false ↔ a ≠ b := by
  have h := ity_beq a b
  cases hb : (a == b)
  · simp only [true_iff]; intro e; rw [← h, hb] at e; exact Bool.noConfusion e
  · simp only [Bool.true_eq_false, false_iff, ne_eq, not_not]; exact h.mp hb

/-- `common_type_t<A, B>` of two covered representations is the wider one, again covered -/
theorem common_repOk {a b : ITy} (ha : RepOk a) (hb : RepOk b) :
    RepOk (ITy.common a b) ∧ a.w ≤ (ITy.common a b).w ∧ b.w ≤ (ITy.common a b).w := by
  have pa := repOk_promote ha
  have pb := repOk_promote hb
  obtain ⟨hsa, ha1, ha2⟩ := ha
  obtain ⟨hsb, hb1, hb2⟩ := hb
  unfold ITy.common
  by_cases hab : a = b
  · subst hab
    have : (a == a) = true := (ity_beq a a).mpr rfl
    simp only [this, if_true]
    exact ⟨⟨hsa, ha1, ha2⟩, Nat.le_refl _, Nat.le_refl _⟩
  · have : (a == b) = false := (ity_beq_false a b).mpr hab
    simp only [this, Bool.false_eq_true, if_false]
    unfold ITy.usual
    simp only [pa, pb, hsa, hsb, beq_self_eq_true, if_true]
    by_cases hw : a.w ≥ b.w
    · rw [if_pos hw]; exact ⟨⟨hsa, ha1, ha2⟩, Nat.le_refl _, hw⟩
    · rw [if_neg hw]; exact ⟨⟨hsb, hb1, hb2⟩, by omega, Nat.le_refl _⟩

/-- `CR = common_type_t<to_rep, Rep, intmax_t>` is `intmax_t` for covered representations -/
theorem cr_eq {a b : ITy} (ha : RepOk a) (hb : RepOk b) : ITy.common (ITy.common a b) imax = imax := by
  obtain ⟨⟨hs, h1, h2⟩, _, _⟩ := common_repOk ha hb
  generalize ITy.common a b = c at *
  have pc := repOk_promote (r := c) ⟨hs, h1, h2⟩
  unfold ITy.common
  by_cases hc : c = imax
  · subst hc; rfl
  · have : (c == imax) = false := (ity_beq_false c imax).mpr hc
    simp only [this, Bool.false_eq_true, if_false]
    unfold ITy.usual
    have pi : imax.promote = imax := by decide
    simp only [pc, pi, hs]
    have hw : ¬ c.w ≥ imax.w := by
      intro hge
      apply hc
      have h64 : c.w = 64 := by have : imax.w = 64 := rfl; omega
      cases c with | mk w s => simp only at hs h64; subst hs; subst h64; rfl
    have hsg : (true == imax.sg) = true := by decide
    simp only [hsg, hw, if_true, if_false]

theorem inR_sub_common {a b : ITy} (ha : RepOk a) (hb : RepOk b) (x : Int) (hx : a.inR x = true) :
    (ITy.common a b).inR x = true := by
  obtain ⟨⟨hs, h1, h2⟩, hwa, _⟩ := common_repOk ha hb
  obtain ⟨hsa, ha1, ha2⟩ := ha
  generalize ITy.common a b = c at *
  rw [inR_iff] at hx ⊢
  unfold ITy.min ITy.max at hx ⊢
  simp only [hs, hsa, if_true] at hx ⊢
  have hp : (2:Int) ^ (a.w - 1) ≤ 2 ^ (c.w - 1) := pow_mono _ _ (by omega)
  omega

/-! ## the run-time primitives on in-range values -/

theorem imax_conv {x : Int} (h : imax.inR x = true) : imax.conv x = x := conv_of_inR imax (by decide) x h

theorem imax_arith {x : Int} (h : imax.inR x = true) : arith imax x = .ok x := arith_ok imax (by decide) x h

theorem cdiv_pos (t : ITy) (a b : Int) (hb : 0 < b) : cdiv t a b = .ok (Int.tdiv a b) := by
  unfold cdiv
  have h1 : (b == 0) = false := by simpa using (by omega : b ≠ 0)
  have h2 : (b == -1) = false := by simpa using (by omega : b ≠ -1)
  simp [h1, h2]

theorem tdiv_one (a : Int) : Int.tdiv a 1 = a := by simp

/-! ## truncating division and the rationals -/

theorem floor_div (m D : Int) (hD : 0 < D) : ⌊(m : ℚ) / (D : ℚ)⌋ = m / D := by
  have := Rat.floor_intCast_div_natCast m D.toNat
  have hD' : ((D.toNat : ℕ) : ℤ) = D := Int.toNat_of_nonneg (by omega)
  have h2 : ((D.toNat : ℕ) : ℚ) = (D : ℚ) := by exact_mod_cast congrArg (fun z : ℤ => (z : ℚ)) hD'
  rw [h2, hD'] at this
  exact this

theorem ceil_div (m D : Int) (hD : 0 < D) : ⌈(m : ℚ) / (D : ℚ)⌉ = -((-m) / D) := by
  have h := floor_div (-m) D hD
  have e : (((-m : Int)) : ℚ) / D = -((m : ℚ) / D) := by push_cast; ring
  rw [e, Int.floor_neg] at h
  omega

theorem rat_floor_eq (x : ℚ) : x.floor = ⌊x⌋ := rfl
theorem rat_ceil_eq (x : ℚ) : x.ceil = ⌈x⌉ := by
  rw [Rat.ceil_eq_neg_floor_neg]
  show -⌊-x⌋ = _
  rw [Int.floor_neg]; simp

/-! ## the compile-time stage -/

theorem gcd_imax (n d : Int) (hn : 0 ≤ n) (hd : 0 ≤ d) (hn' : n ≤ imax.max) (hd' : d ≤ imax.max) :
    C14.gcd imax imax n d = .ok ((Int.gcd n d : Nat) : Int) := by
  have hc : ITy.common imax imax = imax := by decide
  have := C14.Props.gcd_eq imax imax (by decide) (by decide) n d (by rw [hc]; omega) (by rw [hc]; omega)
  rw [this]; rfl

theorem lcm_imax (n d : Int) (hn : 0 ≤ n) (hd : 0 ≤ d) (hn' : n ≤ imax.max) (hd' : d ≤ imax.max)
    (hl : ((Int.lcm n d : Nat) : Int) ≤ imax.max) :
    C14.lcm imax imax n d = .ok ((Int.lcm n d : Nat) : Int) := by
  have hc : ITy.common imax imax = imax := by decide
  have := C14.Props.lcm_eq imax imax (by decide) (by decide) n d (by rw [hc]; omega) (by rw [hc]; omega) (by rw [hc]; exact hl)
  rw [this]; rfl

theorem gcd_pos_int (n d : Int) (hn : 0 < n) : 0 < ((Int.gcd n d : Nat) : Int) := by
  have : 0 < Int.gcd n d := Int.gcd_pos_of_ne_zero_left _ (by omega)
  exact_mod_cast this

theorem gcd_le_left_int (n d : Int) (hn : 0 < n) : ((Int.gcd n d : Nat) : Int) ≤ n := by
  exact Int.le_of_dvd hn (Int.gcd_dvd_left n d)

/-- `ratio<n, d>` for positive template arguments: both divided by their gcd -/
theorem mkRatio_pos (n d : Int) (hn : 0 < n) (hd : 0 < d) (hn' : n ≤ imax.max) (hd' : d ≤ imax.max) :
    mkRatio n d = .ok ⟨n / ((Int.gcd n d : Nat) : Int), d / ((Int.gcd n d : Nat) : Int)⟩ := by
  have hg := gcd_pos_int n d hn
  have hgn := gcd_le_left_int n d hn
  unfold mkRatio
  rw [gcd_imax n d (by omega) (by omega) hn' hd']
  have hs : sign n * sign d = 1 := by unfold sign; rw [if_neg (by omega), if_neg (by omega)]; rfl
  have ha1 : absImpl n = .ok n := by unfold absImpl; rw [if_pos (by omega)]
  have ha2 : absImpl d = .ok d := by unfold absImpl; rw [if_pos (by omega)]
  have hmm := imax_max
  have hmin := imax_min
  have i1 : arith imax (1 : Int) = .ok 1 := imax_arith (by decide)
  have i2 : arith imax (1 * n) = .ok n := by rw [Int.one_mul]; exact imax_arith ((imax_inR n).mpr (by omega))
  simp only [ha1, ha2, hs, i1, i2, bind, Except.bind, cdiv_pos _ _ _ hg]
  rw [Int.tdiv_eq_ediv_of_nonneg (by omega), Int.tdiv_eq_ediv_of_nonneg (by omega)]

/-- numerator / denominator of `ratio_divide<p, q>` -/
def cfN (p q : Ratio) : Int := (p.num * q.den) / ((Int.gcd (p.num * q.den) (p.den * q.num) : Nat) : Int)
def cfD (p q : Ratio) : Int := (p.den * q.num) / ((Int.gcd (p.num * q.den) (p.den * q.num) : Nat) : Int)

theorem ratioDivide_eq (p q : Ratio) (hp : PerOk p) (hq : PerOk q) (h : DivOk p q) :
    ratioDivide p q = .ok ⟨cfN p q, cfD p q⟩ := by
  obtain ⟨p1, p2, p3, p4⟩ := hp
  obtain ⟨q1, q2, q3, q4⟩ := hq
  obtain ⟨h1, h2⟩ := h
  have hA : 0 < p.num * q.den := Int.mul_pos p1 q2
  have hB : 0 < p.den * q.num := Int.mul_pos p2 q1
  have hmm := imax_max
  unfold ratioDivide
  rw [imax_arith ((imax_inR _).mpr (by omega)), imax_arith ((imax_inR _).mpr (by omega))]
  simp only [bind, Except.bind]
  rw [mkRatio_pos _ _ hA hB h1 h2]
  rfl

/-- cross-multiplied form of `cfN / cfD = (p.num * q.den) / (p.den * q.num)`; positivity; bounds -/
theorem cf_facts (p q : Ratio) (hp : PerOk p) (hq : PerOk q) :
    0 < cfN p q ∧ 0 < cfD p q ∧ cfN p q ≤ p.num * q.den ∧ cfD p q ≤ p.den * q.num ∧
      cfN p q * (p.den * q.num) = cfD p q * (p.num * q.den) := by
  obtain ⟨p1, p2, _, _⟩ := hp
  obtain ⟨q1, q2, _, _⟩ := hq
  have hA : 0 < p.num * q.den := Int.mul_pos p1 q2
  have hB : 0 < p.den * q.num := Int.mul_pos p2 q1
  unfold cfN cfD
  generalize p.num * q.den = A at *
  generalize p.den * q.num = B at *
  have hg := gcd_pos_int A B hA
  have dA : ((Int.gcd A B : Nat) : Int) ∣ A := Int.gcd_dvd_left A B
  have dB : ((Int.gcd A B : Nat) : Int) ∣ B := Int.gcd_dvd_right A B
  generalize ((Int.gcd A B : Nat) : Int) = g at *
  obtain ⟨a, rfl⟩ := dA
  obtain ⟨b, rfl⟩ := dB
  rw [Int.mul_ediv_cancel_left _ (by omega), Int.mul_ediv_cancel_left _ (by omega)]
  have ha : 0 < a := by
    rcases Int.lt_trichotomy a 0 with h | h | h
    · have := Int.mul_neg_of_pos_of_neg hg h; omega
    · subst h; omega
    · exact h
  have hb : 0 < b := by
    rcases Int.lt_trichotomy b 0 with h | h | h
    · have := Int.mul_neg_of_pos_of_neg hg h; omega
    · subst h; omega
    · exact h
  refine ⟨ha, hb, ?_, ?_, by ring⟩
  · have : 1 * a ≤ g * a := Int.mul_le_mul_of_nonneg_right (by omega) (by omega)
    omega
  · have : 1 * b ≤ g * b := Int.mul_le_mul_of_nonneg_right (by omega) (by omega)
    omega

/-- the conversion factor as a rational number -/
theorem cf_rat (p q : Ratio) (hp : PerOk p) (hq : PerOk q) :
    (cfN p q : ℚ) / (cfD p q : ℚ) = p.toRat / q.toRat := by
  obtain ⟨hN, hD, _, _, hx⟩ := cf_facts p q hp hq
  obtain ⟨p1, p2, _, _⟩ := hp
  obtain ⟨q1, q2, _, _⟩ := hq
  unfold Ratio.toRat
  have e1 : (cfD p q : ℚ) ≠ 0 := by exact_mod_cast (by omega : cfD p q ≠ 0)
  have e2 : (p.den : ℚ) ≠ 0 := by exact_mod_cast (by omega : p.den ≠ 0)
  have e3 : (q.den : ℚ) ≠ 0 := by exact_mod_cast (by omega : q.den ≠ 0)
  have e4 : (q.num : ℚ) ≠ 0 := by exact_mod_cast (by omega : q.num ≠ 0)
  have hxq : (cfN p q : ℚ) * ((p.den : ℚ) * (q.num : ℚ)) = (cfD p q : ℚ) * ((p.num : ℚ) * (q.den : ℚ)) := by
    exact_mod_cast congrArg (fun z : ℤ => (z : ℚ)) hx
  field_simp
  linarith

theorem castCtx_eq (dst frm : DurTy) (hto : RepOk dst.rep) (hfrm : RepOk frm.rep) (hp : PerOk frm.per) (hq : PerOk dst.per)
    (h : DivOk frm.per dst.per) :
    castCtx dst frm = .ok ⟨dst.rep, imax, ⟨cfN frm.per dst.per, cfD frm.per dst.per⟩⟩ := by
  unfold castCtx
  rw [ratioDivide_eq _ _ hp hq h, cr_eq hto hfrm]
  rfl

/-! ## the run-time stage -/

theorem int_beq_one (x : Int) : (x == 1) = decide (x = 1) := by
  by_cases h : x = 1 <;> simp [h]

/-- the four cast bodies all compute `trunc(c * N / D)` -/
theorem castCore_eq (toRep : ITy) (N D : Int) (hN : 0 < N) (hD : 0 < D) (hN' : N ≤ imax.max) (hD' : D ≤ imax.max)
    (c : Int) (hc : imax.inR c = true) (hm : imax.inR (c * N) = true) :
    castCore ⟨toRep, imax, ⟨N, D⟩⟩ c = .ok (toRep.conv (Int.tdiv (c * N) D)) := by
  have hmm := imax_max
  have cN : imax.conv N = N := imax_conv ((imax_inR N).mpr (by omega))
  have cD : imax.conv D = D := imax_conv ((imax_inR D).mpr (by omega))
  have cc : imax.conv c = c := imax_conv hc
  unfold castCore
  simp only [int_beq_one, cN, cD, cc]
  by_cases hN1 : N = 1
  · by_cases hD1 : D = 1
    · subst hN1; subst hD1; simp
    · subst hN1
      simp only [hD1, decide_true, decide_false, Bool.and_false, Bool.false_eq_true, if_false, if_true, Int.mul_one]
      rw [cdiv_pos _ _ _ hD]; rfl
  · by_cases hD1 : D = 1
    · subst hD1
      simp only [hN1, decide_true, decide_false, Bool.false_and, Bool.false_eq_true, if_false, if_true]
      rw [imax_arith hm]; simp [bind, Except.bind]
    · simp only [hN1, hD1, decide_false, Bool.false_and, Bool.false_eq_true, if_false]
      rw [imax_arith hm]
      simp only [bind, Except.bind]
      rw [cdiv_pos _ _ _ hD]

/-- truncating integer division is truncation of the rational quotient -/
theorem tdiv_trunc (m D : Int) (hD : 0 < D) : Int.tdiv m D = Spec.trunc ((m : ℚ) / (D : ℚ)) := by
  have hDq : (0 : ℚ) < (D : ℚ) := by exact_mod_cast hD
  unfold Spec.trunc
  by_cases hm : 0 ≤ m
  · have : (0 : ℚ) ≤ (m : ℚ) / (D : ℚ) := div_nonneg (by exact_mod_cast hm) (le_of_lt hDq)
    rw [if_pos this, rat_floor_eq, floor_div m D hD, Int.tdiv_eq_ediv_of_nonneg hm]
  · have hneg : (m : ℚ) / (D : ℚ) < 0 := div_neg_of_neg_of_pos (by exact_mod_cast (by omega : m < 0)) hDq
    rw [if_neg (not_le.mpr hneg), rat_ceil_eq, ceil_div m D hD]
    have h1 : Int.tdiv (-m) D = (-m) / D := Int.tdiv_eq_ediv_of_nonneg (by omega)
    have h2 : Int.tdiv (-m) D = -(Int.tdiv m D) := Int.neg_tdiv ..
    omega

/-- `c` ticks of `p`, expressed in ticks of `q`, as a rational number -/
theorem scaled_rat (p q : Ratio) (hp : PerOk p) (hq : PerOk q) (c : Int) :
    (((c * cfN p q : Int)) : ℚ) / (cfD p q : ℚ) = Spec.val p.toRat c / q.toRat := by
  have h := cf_rat p q hp hq
  unfold Spec.val
  push_cast
  rw [mul_div_assoc, h, mul_div_assoc]

theorem cast_val (p q : Ratio) (hp : PerOk p) (hq : PerOk q) (c : Int) :
    Int.tdiv (c * cfN p q) (cfD p q) = Spec.cast p.toRat q.toRat c := by
  obtain ⟨_, hD, _⟩ := cf_facts p q hp hq
  rw [tdiv_trunc _ _ hD, scaled_rat p q hp hq]
  rfl

end Tetl.C12
