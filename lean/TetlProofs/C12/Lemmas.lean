import Tetl.C12.Model
import Tetl.C12.Spec
namespace Tetl.C12
end Tetl.C12
