/-
C12 — helper lemmas for the second batch of property theorems (`PropsExt.lean`):

* the cast under the hypothesis the property names ("the exact result is representable") instead of
  "every intermediate is representable": where that is enough, and the bound that relates the two;
* `floor` / `ceil` without a separate hypothesis on the truncated result in the common type;
* the builtin representations narrower than `int` and the unsigned ones whose values fit `intmax_t`.
-/
import TetlProofs.C12.Lemmas
namespace Tetl.C12
open Tetl Tetl.C14

/-! ## the builtin integer types whose values all fit `intmax_t` -/

/-- `int8_t, int16_t, int32_t, int64_t, uint8_t, uint16_t, uint32_t` (for these `CR = common_type_t<to_rep, Rep, intmax_t>` is
    `intmax_t`; `uint64_t` is not covered: its `CR` is `uint64_t` and the arithmetic of the cast is modular) -/
def builtinReps : List ITy := [⟨8, true⟩, ⟨16, true⟩, ⟨32, true⟩, ⟨64, true⟩, ⟨8, false⟩, ⟨16, false⟩, ⟨32, false⟩]

/-- membership in `builtinReps`, spelled out (decidable through `DecidableEq ITy`) -/
def Builtin (r : ITy) : Prop :=
  r = ⟨8, true⟩ ∨ r = ⟨16, true⟩ ∨ r = ⟨32, true⟩ ∨ r = ⟨64, true⟩ ∨ r = ⟨8, false⟩ ∨ r = ⟨16, false⟩ ∨ r = ⟨32, false⟩
instance (r : ITy) : Decidable (Builtin r) := by unfold Builtin; infer_instance

theorem builtin_iff (r : ITy) : Builtin r ↔ r ∈ builtinReps := by
  unfold Builtin builtinReps; simp

theorem builtin_w {r : ITy} (h : Builtin r) : 1 ≤ r.w := by
  rcases h with e | e | e | e | e | e | e <;> subst e <;> decide

/-- every value of a builtin representation of the list is a value of `intmax_t` -/
theorem builtin_sub {r : ITy} (h : Builtin r) (x : Int) (hx : r.inR x = true) : imax.inR x = true := by
  rw [inR_iff] at hx
  rw [imax_inR]
  rcases h with e | e | e | e | e | e | e <;> subst e <;>
    (simp only [ITy.min, ITy.max] at hx; norm_num at hx; omega)

/-- `CR = common_type_t<to_rep, Rep, intmax_t>` is `intmax_t` for every pair of builtin representations of the list
    (a complete finite check: 49 pairs) -/
theorem cr_builtin {a b : ITy} (ha : Builtin a) (hb : Builtin b) : ITy.common (ITy.common a b) imax = imax := by
  rcases ha with e | e | e | e | e | e | e <;> subst e <;>
    rcases hb with e | e | e | e | e | e | e <;> subst e <;> decide

theorem castCtx_builtin (dst frm : DurTy) (hto : Builtin dst.rep) (hfrm : Builtin frm.rep) (hp : PerOk frm.per) (hq : PerOk dst.per)
    (h : DivOk frm.per dst.per) :
    castCtx dst frm = .ok ⟨dst.rep, imax, ⟨cfN frm.per dst.per, cfD frm.per dst.per⟩⟩ := by
  unfold castCtx
  rw [ratioDivide_eq _ _ hp hq h, cr_builtin hto hfrm]
  rfl

/-- `duration_cast` on every covered representation, under the "every intermediate representable" hypothesis -/
theorem durationCast_builtin (dst frm : DurTy) (hto : Builtin dst.rep) (hfrm : Builtin frm.rep)
    (hp : PerOk frm.per) (hq : PerOk dst.per) (hdiv : DivOk frm.per dst.per)
    (c : Int) (hc : frm.rep.inR c = true)
    (hmul : imax.inR (c * cfN frm.per dst.per) = true)
    (hres : dst.rep.inR (Spec.cast frm.per.toRat dst.per.toRat c) = true) :
    durationCast dst frm c = .ok (Spec.cast frm.per.toRat dst.per.toRat c) := by
  obtain ⟨hN, hD, hN', hD', _⟩ := cf_facts frm.per dst.per hp hq
  unfold durationCast
  rw [castCtx_builtin dst frm hto hfrm hp hq hdiv]
  simp only [bind, Except.bind]
  rw [castCore_eq dst.rep _ _ hN hD (by have := hdiv.1; omega) (by have := hdiv.2; omega) c (builtin_sub hfrm c hc) hmul,
    cast_val _ _ hp hq, conv_of_inR _ (builtin_w hto) _ hres]

/-! ## the intermediate product is bounded by the result -/

/-- `|m| < (|m /ₜ D| + 1) · D`: the dividend of a truncating division is less than one divisor away from quotient · divisor -/
theorem mul_bound_of_tdiv (m D : Int) (hD : 0 < D) :
    -((((Int.tdiv m D).natAbs : Int) + 1) * D) < m ∧ m < (((Int.tdiv m D).natAbs : Int) + 1) * D := by
  rcases Int.le_total 0 m with h | h
  · have e : Int.tdiv m D = m / D := Int.tdiv_eq_ediv_of_nonneg h
    have h1 := Int.emod_lt_of_pos m hD
    have h2 := Int.emod_nonneg m (by omega : D ≠ 0)
    have h3 := Int.emod_add_mul_ediv m D
    have hq : 0 ≤ m / D := Int.ediv_nonneg h (by omega)
    rw [e]
    have hn : ((m / D).natAbs : Int) = m / D := Int.natAbs_of_nonneg hq
    rw [hn]
    generalize m / D = q at *
    generalize m % D = r at *
    have e2 : (q + 1) * D = D * q + D := by ring
    have hqd : 0 ≤ D * q := Int.mul_nonneg (by omega) hq
    rw [e2]
    constructor <;> omega
  · have e1 : Int.tdiv (-m) D = (-m) / D := Int.tdiv_eq_ediv_of_nonneg (by omega)
    have e2 : Int.tdiv (-m) D = -(Int.tdiv m D) := Int.neg_tdiv ..
    have h1 := Int.emod_lt_of_pos (-m) hD
    have h2 := Int.emod_nonneg (-m) (by omega : D ≠ 0)
    have h3 := Int.emod_add_mul_ediv (-m) D
    have hq : 0 ≤ (-m) / D := Int.ediv_nonneg (by omega) (by omega)
    have et : Int.tdiv m D = -((-m) / D) := by omega
    rw [et, Int.natAbs_neg]
    have hn : (((-m) / D).natAbs : Int) = (-m) / D := Int.natAbs_of_nonneg hq
    rw [hn]
    generalize (-m) / D = q at *
    generalize (-m) % D = r at *
    have e3 : (q + 1) * D = D * q + D := by ring
    have hqd : 0 ≤ D * q := Int.mul_nonneg (by omega) hq
    rw [e3]
    constructor <;> omega

/-- if `(|result| + 1) · CF::den` fits `intmax_t`, so does the intermediate product `c · CF::num` -/
theorem hmul_of_result_bound (p q : Ratio) (hp : PerOk p) (hq : PerOk q) (c : Int)
    (hb : (((Spec.cast p.toRat q.toRat c).natAbs : Int) + 1) * cfD p q ≤ imax.max) :
    imax.inR (c * cfN p q) = true := by
  obtain ⟨_, hD, _⟩ := cf_facts p q hp hq
  have h := mul_bound_of_tdiv (c * cfN p q) (cfD p q) hD
  rw [cast_val p q hp hq] at h
  rw [imax_inR]
  have := imax_max
  omega

/-! ## truncation lies between zero and the value -/

theorem trunc_between (X : ℚ) :
    (0 ≤ X → 0 ≤ ((Spec.trunc X : Int) : ℚ) ∧ ((Spec.trunc X : Int) : ℚ) ≤ X) ∧
    (X ≤ 0 → X ≤ ((Spec.trunc X : Int) : ℚ) ∧ ((Spec.trunc X : Int) : ℚ) ≤ 0) := by
  unfold Spec.trunc
  constructor
  · intro h
    rw [if_pos h, rat_floor_eq]
    exact ⟨by exact_mod_cast Int.floor_nonneg.mpr h, Int.floor_le X⟩
  · intro h
    by_cases h0 : 0 ≤ X
    · have : X = 0 := le_antisymm h h0
      subst this
      simp [rat_floor_eq]
    · rw [if_neg h0, rat_ceil_eq]
      exact ⟨Int.le_ceil X, by exact_mod_cast Int.ceil_le.mpr (by simpa using h)⟩

/-- the truncated result, converted to the common type of `(From, To)`, lies between zero and the converted argument: if the
    argument is representable there, so is the result -/
theorem cast_in_common (dst frm : DurTy) (hpf : PerOk frm.per) (hpd : PerOk dst.per)
    (hl : ((Int.lcm frm.per.den dst.per.den : Nat) : Int) ≤ imax.max) (c : Int) (r : ITy)
    (hx : r.inR (c * mulL frm.per dst.per) = true) :
    r.inR (Spec.cast frm.per.toRat dst.per.toRat c * mulR frm.per dst.per) = true := by
  obtain ⟨e1, e2, hpos, m1, m2, _⟩ := mul_rat frm.per dst.per hpf hpd hl
  have hQ := toRat_pos dst.per hpd
  have hmm := min_max_zero r
  rw [inR_iff] at hx ⊢
  set t := Spec.cast frm.per.toRat dst.per.toRat c with ht
  set X := Spec.val frm.per.toRat c / dst.per.toRat with hX
  have htX : t = Spec.trunc X := rfl
  -- value identities: (c·mulL)·cd = X·q,  (t·mulR)·cd = t·q
  have hXq : X * dst.per.toRat = (c : ℚ) * frm.per.toRat := by
    rw [hX]; unfold Spec.val; field_simp
  have vL : ((c * mulL frm.per dst.per : Int) : ℚ) * (cdPer frm.per dst.per).toRat = X * dst.per.toRat := by
    rw [hXq]; push_cast; rw [mul_assoc, e1]
  have vR : ((t * mulR frm.per dst.per : Int) : ℚ) * (cdPer frm.per dst.per).toRat = (t : ℚ) * dst.per.toRat := by
    push_cast; rw [mul_assoc, e2]
  obtain ⟨hnn, hnp⟩ := trunc_between X
  rcases le_total 0 X with h0 | h0
  · obtain ⟨a, b⟩ := hnn h0
    rw [← htX] at a b
    have lo : (0 : ℚ) ≤ ((t * mulR frm.per dst.per : Int) : ℚ) := by
      have : (0:ℚ) ≤ (t : ℚ) * dst.per.toRat := mul_nonneg a (le_of_lt hQ)
      rw [← vR] at this
      exact nonneg_of_mul_nonneg_left this hpos
    have hi : ((t * mulR frm.per dst.per : Int) : ℚ) ≤ ((c * mulL frm.per dst.per : Int) : ℚ) := by
      have : (t : ℚ) * dst.per.toRat ≤ X * dst.per.toRat := mul_le_mul_of_nonneg_right b (le_of_lt hQ)
      rw [← vR, ← vL] at this
      exact le_of_mul_le_mul_right this hpos
    have lo' : 0 ≤ t * mulR frm.per dst.per := by exact_mod_cast lo
    have hi' : t * mulR frm.per dst.per ≤ c * mulL frm.per dst.per := by exact_mod_cast hi
    omega
  · obtain ⟨a, b⟩ := hnp h0
    rw [← htX] at a b
    have hi : ((t * mulR frm.per dst.per : Int) : ℚ) ≤ 0 := by
      have : (t : ℚ) * dst.per.toRat ≤ 0 := mul_nonpos_of_nonpos_of_nonneg b (le_of_lt hQ)
      rw [← vR] at this
      by_contra hc
      have := mul_pos (not_le.mp hc) hpos
      linarith
    have lo : ((c * mulL frm.per dst.per : Int) : ℚ) ≤ ((t * mulR frm.per dst.per : Int) : ℚ) := by
      have : X * dst.per.toRat ≤ (t : ℚ) * dst.per.toRat := mul_le_mul_of_nonneg_right a (le_of_lt hQ)
      rw [← vR, ← vL] at this
      exact le_of_mul_le_mul_right this hpos
    have hi' : t * mulR frm.per dst.per ≤ 0 := by exact_mod_cast hi
    have lo' : c * mulL frm.per dst.per ≤ t * mulR frm.per dst.per := by exact_mod_cast lo
    omega

/-- if the floor of the quotient is a value of the representation, so is the truncated quotient (it lies between the floor and zero) -/
theorem trunc_inR_of_floor (r : ITy) (X : ℚ) (h : r.inR X.floor = true) : r.inR (Spec.trunc X) = true := by
  have hmm := min_max_zero r
  unfold Spec.trunc
  by_cases h0 : 0 ≤ X
  · rw [if_pos h0]; exact h
  · rw [if_neg h0]
    rw [rat_floor_eq] at h
    rw [rat_ceil_eq]
    rw [inR_iff] at h ⊢
    have h1 : ⌊X⌋ ≤ ⌈X⌉ := Int.floor_le_ceil X
    have h2 : ⌈X⌉ ≤ 0 := Int.ceil_le.mpr (by simpa using le_of_lt (not_le.mp h0))
    omega

/-- … and likewise if the ceiling is (the truncated quotient lies between zero and the ceiling) -/
theorem trunc_inR_of_ceil (r : ITy) (X : ℚ) (h : r.inR X.ceil = true) : r.inR (Spec.trunc X) = true := by
  have hmm := min_max_zero r
  unfold Spec.trunc
  by_cases h0 : 0 ≤ X
  · rw [if_pos h0]
    rw [rat_ceil_eq] at h
    rw [rat_floor_eq]
    rw [inR_iff] at h ⊢
    have h1 : ⌊X⌋ ≤ ⌈X⌉ := Int.floor_le_ceil X
    have h2 : 0 ≤ ⌊X⌋ := Int.floor_nonneg.mpr h0
    omega
  · rw [if_neg h0]; exact h

end Tetl.C12
