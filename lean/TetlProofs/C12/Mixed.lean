/-
C12 — helper lemmas for the binary operators on MIXED builtin representations (`PropsMixed.lean`): the common type of
two builtin representations of `builtinReps` is again one of them, its values are values of the promoted type the
operator is evaluated in, and the two converting constructors `CD(lhs)`, `CD(rhs)` multiply by the integer factors.
-/
import TetlProofs.C12.Ext
namespace Tetl.C12
open Tetl Tetl.C14

/-- `common_type_t<A, B>` of two builtin representations is a builtin representation (complete finite check: 49 pairs) -/
theorem common_builtin {a b : ITy} (ha : Builtin a) (hb : Builtin b) : Builtin (ITy.common a b) := by
  rcases ha with e | e | e | e | e | e | e <;> subst e <;>
    rcases hb with e | e | e | e | e | e | e <;> subst e <;> decide

/-- the values of a builtin representation are values of its promoted type, in which `+ - / %` are evaluated -/
theorem inR_promote {r : ITy} (h : Builtin r) (x : Int) (hx : r.inR x = true) : r.promote.inR x = true := by
  rcases h with e | e | e | e | e | e | e <;> rw [e] at hx ⊢ <;>
    (rw [inR_iff] at hx ⊢
     simp only [ITy.promote, ITy.min, ITy.max] at hx ⊢
     norm_num at hx ⊢
     omega)

theorem promote_w {r : ITy} (h : Builtin r) : 1 ≤ r.promote.w := by
  rcases h with e | e | e | e | e | e | e <;> subst e <;> decide

/-- no value of a builtin representation other than its own minimum is the minimum of the promoted type -/
theorem promote_min {r : ITy} (h : Builtin r) (x : Int) (hx : r.inR x = true) (e : x = r.promote.min) : x = r.min := by
  rcases h with e' | e' | e' | e' | e' | e' | e' <;> rw [e'] at hx e ⊢ <;>
    (rw [inR_iff] at hx
     simp only [ITy.promote, ITy.min, ITy.max] at hx e ⊢
     norm_num at hx e ⊢
     omega)

theorem arith_promote {r : ITy} (h : Builtin r) (x : Int) (hx : r.inR x = true) : arith r.promote x = .ok x :=
  arith_ok _ (promote_w h) x (inR_promote h x hx)

theorem cdiv_promote {r : ITy} (h : Builtin r) (l d : Int) (hl : r.inR l = true) (hd : d ≠ 0)
    (hex : ¬ (l = r.min ∧ d = -1)) : cdiv r.promote l d = .ok (Int.tdiv l d) :=
  cdiv_ok _ _ _ hd (fun hh => hex ⟨promote_min h l hl hh.1, hh.2⟩)

theorem cmod_promote {r : ITy} (h : Builtin r) (l d : Int) (hl : r.inR l = true) (hd : d ≠ 0)
    (hex : ¬ (l = r.min ∧ d = -1)) : cmod r.promote l d = .ok (Int.tmod l d) :=
  cmod_ok _ _ _ hd (fun hh => hex ⟨promote_min h l hl hh.1, hh.2⟩)

/-- the converting constructor into a builtin representation with an integer factor: multiplication by the factor -/
theorem convertCore_eq_b (rep : ITy) (hrep : Builtin rep) (m : Int) (hm : 0 < m) (hm' : m ≤ imax.max)
    (x : Int) (hx : imax.inR x = true) (hxm : rep.inR (x * m) = true) :
    convertCore ⟨rep, imax, ⟨m, 1⟩⟩ x = .ok (x * m) := by
  have hmm := imax_max
  have cm : imax.conv m = m := imax_conv ((imax_inR m).mpr (by omega))
  have c1 : imax.conv 1 = 1 := by decide
  have hxm' := builtin_sub hrep _ hxm
  unfold convertCore
  simp only [bne_self_eq_false, Bool.false_eq_true, if_false, imax_conv hx, cm, c1]
  rw [imax_arith hxm']
  simp only [bind, Except.bind]
  rw [cdiv_pos _ _ _ (by decide), tdiv_one]
  simp only [conv_of_inR _ (builtin_w hrep) _ hxm]

/-- static preconditions of a binary operator on two durations with builtin representations (any mixture of
    int8 … int64, uint8 … uint32) -/
def PairTyOkB (a b : DurTy) : Prop :=
  Builtin a.rep ∧ Builtin b.rep ∧ PerOk a.per ∧ PerOk b.per ∧ CommonOk a.per b.per
instance (a b : DurTy) : Decidable (PairTyOkB a b) := by unfold PairTyOkB; infer_instance

theorem cd_builtin {a b : DurTy} (h : PairTyOkB a b) : Builtin (cdTy a b).rep := common_builtin h.1 h.2.1

theorem pairCtx_eq_b (a b : DurTy) (h : PairTyOkB a b) : pairCtx a b = .ok (pairK a b) := by
  obtain ⟨ha, hb, hpa, hpb, hl, hda, hdb⟩ := h
  obtain ⟨hcd, dva, dvb⟩ := cdPer_facts a.per b.per hpa hpb hl
  have hrep := common_builtin ha hb
  unfold pairCtx
  rw [commonTy_eq a b hpa hpb hl]
  simp only [bind, Except.bind]
  rw [castCtx_builtin (cdTy a b) a hrep ha hpa hcd hda, castCtx_builtin (cdTy a b) b hrep hb hpb hcd hdb]
  simp only
  have e1 : cfD a.per (cdTy a b).per = 1 := cfD_one_of_dvd _ _ hpa hcd dva
  have e2 : cfD b.per (cdTy a b).per = 1 := cfD_one_of_dvd _ _ hpb hcd dvb
  rw [e1, e2]
  rfl

/-- both operands are converted to the common type FIRST (`CD(lhs)`, `CD(rhs)`): each count times its integer factor -/
theorem both_common_b (a b : DurTy) (h : PairTyOkB a b) (x y : Int) (hin : PairIn a b x y) :
    convertCore (pairK a b).ka x = .ok (x * mulL a.per b.per) ∧
    convertCore (pairK a b).kb y = .ok (y * mulR a.per b.per) := by
  have hcd := cd_builtin h
  obtain ⟨ha, hb, hpa, hpb, hl, hda, hdb⟩ := h
  obtain ⟨hx, hy, hxm, hym⟩ := hin
  obtain ⟨_, _, _, m1, m2, b1, b2⟩ := mul_rat a.per b.per hpa hpb hl
  have := hda.1
  have := hdb.1
  exact ⟨convertCore_eq_b _ hcd _ m1 (by omega) x (builtin_sub ha x hx) hxm,
         convertCore_eq_b _ hcd _ m2 (by omega) y (builtin_sub hb y hy) hym⟩

theorem mkCD_id_b (cd : DurTy) (hr : Builtin cd.rep) (s : Int) (hs : cd.rep.inR s = true) : mkCD cd s = s := by
  unfold mkCD; rw [conv_of_inR _ (builtin_w hr) _ hs, conv_of_inR _ (builtin_w hr) _ hs]

/-- the run-time bodies on the known static context -/
theorem addCore_b (a b : DurTy) (h : PairTyOkB a b) (x y : Int) (hin : PairIn a b x y)
    (hsum : (cdTy a b).rep.inR (x * mulL a.per b.per + y * mulR a.per b.per) = true) :
    addCore (pairK a b) x y = .ok (x * mulL a.per b.per + y * mulR a.per b.per) := by
  obtain ⟨c1, c2⟩ := both_common_b a b h x y hin
  have hcd := cd_builtin h
  simp only [bind, Except.bind, addCore, c1, c2]
  have : (pairK a b).cd = cdTy a b := rfl
  rw [this, arith_promote hcd _ hsum]
  simp only [mkCD_id_b _ hcd _ hsum]

theorem subCore_b (a b : DurTy) (h : PairTyOkB a b) (x y : Int) (hin : PairIn a b x y)
    (hdiff : (cdTy a b).rep.inR (x * mulL a.per b.per - y * mulR a.per b.per) = true) :
    subCore (pairK a b) x y = .ok (x * mulL a.per b.per - y * mulR a.per b.per) := by
  obtain ⟨c1, c2⟩ := both_common_b a b h x y hin
  have hcd := cd_builtin h
  simp only [bind, Except.bind, subCore, c1, c2]
  have : (pairK a b).cd = cdTy a b := rfl
  rw [this, arith_promote hcd _ hdiff]
  simp only [mkCD_id_b _ hcd _ hdiff]

/-- comparing the converted counts is comparing the exact values -/
theorem scaled_lt (p q : Ratio) (hp : PerOk p) (hq : PerOk q) (hl : ((Int.lcm p.den q.den : Nat) : Int) ≤ imax.max)
    (x y : Int) : decide (x * mulL p q < y * mulR p q) = Spec.lt p.toRat q.toRat x y := by
  obtain ⟨e1, e2, hpos, _⟩ := mul_rat p q hp hq hl
  unfold Spec.lt Spec.val
  rw [decide_eq_decide, ← e1, ← e2]
  constructor
  · intro hlt
    have : ((x * mulL p q : Int) : ℚ) < ((y * mulR p q : Int) : ℚ) := by exact_mod_cast hlt
    push_cast at this
    nlinarith [mul_lt_mul_of_pos_right this hpos]
  · intro hlt
    have : ((x : ℚ) * mulL p q) * (cdPer p q).toRat < ((y : ℚ) * mulR p q) * (cdPer p q).toRat := by
      nlinarith
    have := lt_of_mul_lt_mul_right this (le_of_lt hpos)
    exact_mod_cast this

theorem scaled_eq (p q : Ratio) (hp : PerOk p) (hq : PerOk q) (hl : ((Int.lcm p.den q.den : Nat) : Int) ≤ imax.max)
    (x y : Int) : (x * mulL p q == y * mulR p q) = Spec.eq p.toRat q.toRat x y := by
  obtain ⟨e1, e2, hpos, _⟩ := mul_rat p q hp hq hl
  unfold Spec.eq Spec.val
  have hb' : ∀ u v : Int, (u == v) = decide (u = v) := by intro u v; by_cases h : u = v <;> simp [h]
  rw [hb', decide_eq_decide, ← e1, ← e2]
  constructor
  · intro heq
    have : ((x * mulL p q : Int) : ℚ) = ((y * mulR p q : Int) : ℚ) := by exact_mod_cast heq
    push_cast at this
    rw [← mul_assoc, ← mul_assoc, this]
  · intro heq
    have h2 : ((x : ℚ) * mulL p q) * (cdPer p q).toRat = ((y : ℚ) * mulR p q) * (cdPer p q).toRat := by
      rw [mul_assoc, mul_assoc]; exact heq
    have := mul_right_cancel₀ (ne_of_gt hpos) h2
    exact_mod_cast this

theorem ltCore_b (a b : DurTy) (h : PairTyOkB a b) (x y : Int) (hin : PairIn a b x y) :
    ltCore (pairK a b) x y = .ok (Spec.lt a.per.toRat b.per.toRat x y) := by
  obtain ⟨c1, c2⟩ := both_common_b a b h x y hin
  simp only [bind, Except.bind, ltCore, c1, c2]
  rw [scaled_lt _ _ h.2.2.1 h.2.2.2.1 h.2.2.2.2.1]

theorem eqCore_b (a b : DurTy) (h : PairTyOkB a b) (x y : Int) (hin : PairIn a b x y) :
    eqCore (pairK a b) x y = .ok (Spec.eq a.per.toRat b.per.toRat x y) := by
  obtain ⟨c1, c2⟩ := both_common_b a b h x y hin
  simp only [bind, Except.bind, eqCore, c1, c2]
  rw [scaled_eq _ _ h.2.2.1 h.2.2.2.1 h.2.2.2.2.1]

/-- the truncated quotient of the converted counts is the truncated quotient of the exact values -/
theorem scaled_div (p q : Ratio) (hp : PerOk p) (hq : PerOk q) (hl : ((Int.lcm p.den q.den : Nat) : Int) ≤ imax.max)
    (x y : Int) (hy0 : y ≠ 0) :
    Int.tdiv (x * mulL p q) (y * mulR p q) = Spec.div p.toRat q.toRat x y := by
  obtain ⟨e1, e2, hpos, m1, m2, _⟩ := mul_rat p q hp hq hl
  have hr0 : y * mulR p q ≠ 0 := Int.mul_ne_zero hy0 (by omega)
  rw [tdiv_trunc' _ _ hr0]
  unfold Spec.div Spec.val
  congr 1
  rw [← e1, ← e2]
  push_cast
  have hne : (cdPer p q).toRat ≠ 0 := ne_of_gt hpos
  have hrq : ((y : ℚ) * (mulR p q : ℚ)) ≠ 0 := by exact_mod_cast hr0
  field_simp

/-! ## floor / ceil / round on builtin representations -/

theorem one_inR {r : ITy} (h : Builtin r) : r.inR 1 = true := by
  rcases h with e | e | e | e | e | e | e <;> subst e <;> decide

theorem step1_eq_b (dst : DurTy) (hr : Builtin dst.rep) (t d : Int) (h : dst.rep.inR (t + d) = true) :
    step1 dst t d = .ok (t + d) := by
  unfold step1
  rw [conv_of_inR _ (builtin_w hr) _ (one_inR hr), Int.mul_one, arith_promote hr _ h]
  simp only [bind, Except.bind, conv_of_inR _ (builtin_w hr) _ h]

theorem castCore_spec_b (dst frm : DurTy) (hto : Builtin dst.rep) (hfrm : Builtin frm.rep) (hp : PerOk frm.per)
    (hq : PerOk dst.per) (hdiv : DivOk frm.per dst.per) (c : Int) (hin : CastIn dst frm c) :
    castCore (castK dst frm) c = .ok (Spec.cast frm.per.toRat dst.per.toRat c) := by
  obtain ⟨hc, hmul, hres⟩ := hin
  obtain ⟨hN, hD, hN', hD', _⟩ := cf_facts frm.per dst.per hp hq
  unfold castK
  rw [castCore_eq dst.rep _ _ hN hD (by have := hdiv.1; omega) (by have := hdiv.2; omega) c (builtin_sub hfrm c hc) hmul,
    cast_val _ _ hp hq, conv_of_inR _ (builtin_w hto) _ hres]

theorem floorCore_spec_b (dst frm : DurTy) (hdiv : DivOk frm.per dst.per) (hp : PairTyOkB frm dst) (c : Int)
    (hin : CastIn dst frm c)
    (hcmp : PairIn frm dst c (Spec.cast frm.per.toRat dst.per.toRat c))
    (hstep : Spec.val frm.per.toRat c / dst.per.toRat < ((Spec.cast frm.per.toRat dst.per.toRat c : Int) : ℚ) →
      dst.rep.inR (Spec.cast frm.per.toRat dst.per.toRat c + -1) = true) :
    floorCore ⟨dst, castK dst frm, pairK frm dst⟩ c = .ok (Spec.floor frm.per.toRat dst.per.toRat c) := by
  have hQ := toRat_pos dst.per hp.2.2.2.1
  have hcast := castCore_spec_b dst frm hp.2.1 hp.1 hp.2.2.1 hp.2.2.2.1 hdiv c hin
  have hlt := ltCore_b frm dst hp c _ hcmp
  simp only [bind, Except.bind, floorCore, hcast, hlt]
  rw [spec_lt_left _ _ hQ]
  have key := trunc_floor_adjust (Spec.val frm.per.toRat c / dst.per.toRat)
  unfold Spec.floor
  rw [rat_floor_eq, ← key]
  by_cases hx : Spec.val frm.per.toRat c / dst.per.toRat < ((Spec.cast frm.per.toRat dst.per.toRat c : Int) : ℚ)
  · have hx' : Spec.val frm.per.toRat c / dst.per.toRat < ((Spec.trunc (Spec.val frm.per.toRat c / dst.per.toRat) : Int) : ℚ) := hx
    rw [if_pos hx']
    simp only [hx, decide_true, if_true]
    rw [step1_eq_b dst hp.2.1 _ _ (hstep hx)]
    rfl
  · have hx' : ¬ Spec.val frm.per.toRat c / dst.per.toRat < ((Spec.trunc (Spec.val frm.per.toRat c / dst.per.toRat) : Int) : ℚ) := hx
    rw [if_neg hx']
    simp only [hx, decide_false, Bool.false_eq_true, if_false]
    rfl

theorem floorCtx_eq_b (dst frm : DurTy) (hdiv : DivOk frm.per dst.per) (hp : PairTyOkB frm dst) :
    floorCtx dst frm = .ok ⟨dst, castK dst frm, pairK frm dst⟩ := by
  unfold floorCtx
  rw [castCtx_builtin dst frm hp.2.1 hp.1 hp.2.2.1 hp.2.2.2.1 hdiv, pairCtx_eq_b frm dst hp]
  rfl

/-! ## duration and a tick count on builtin representations -/

/-- `CR op Rep2` with `CR = common_type_t<Rep1, Rep2>` is evaluated in a type that contains every value of `CR`
    (`CR` itself, or `int` when `CR` is narrower than `int`); complete finite check: 49 pairs -/
theorem usual_sup {a b : ITy} (ha : Builtin a) (hb : Builtin b) :
    (ITy.usual (ITy.common a b) b).min ≤ (ITy.common a b).min ∧ (ITy.common a b).max ≤ (ITy.usual (ITy.common a b) b).max ∧
      1 ≤ (ITy.usual (ITy.common a b) b).w := by
  rcases ha with e | e | e | e | e | e | e <;> subst e <;>
    rcases hb with e | e | e | e | e | e | e <;> subst e <;> decide

/-- static preconditions of `duration<Rep1, Period> op Rep2` on builtin representations -/
def ScalarTyOkB (d : DurTy) (rs : ITy) : Prop := Builtin d.rep ∧ Builtin rs ∧ PerOk d.per ∧ DivOk d.per d.per
instance (d : DurTy) (rs : ITy) : Decidable (ScalarTyOkB d rs) := by unfold ScalarTyOkB; infer_instance

theorem scalarCtx_eq_b (d : DurTy) (rs : ITy) (h : ScalarTyOkB d rs) : scalarCtx d rs = .ok (scalarK d rs) := by
  obtain ⟨hr, hs, hp, hdiv⟩ := h
  have hc := common_builtin hr hs
  unfold scalarCtx
  simp only
  rw [castCtx_builtin ⟨ITy.common d.rep rs, d.per⟩ d hc hr hp hp hdiv]
  simp only [bind, Except.bind, (cf_self _ hp).1, (cf_self _ hp).2]
  rfl

/-- the run-time facts every scalar operator starts from, for operands that are values of `common_type_t<Rep1, Rep2>` -/
theorem scalar_operands_b (d : DurTy) (rs : ITy) (h : ScalarTyOkB d rs) (c s : Int) (hc : d.rep.inR c = true)
    (hc' : (ITy.common d.rep rs).inR c = true) (hs' : (ITy.common d.rep rs).inR s = true) :
    convertCore (scalarK d rs).k c = .ok c ∧
      (ITy.usual (scalarK d rs).cd.rep (scalarK d rs).rs).conv c = c ∧
      (ITy.usual (scalarK d rs).cd.rep (scalarK d rs).rs).conv s = s ∧
      (∀ x, (ITy.common d.rep rs).inR x = true → (ITy.usual (scalarK d rs).cd.rep (scalarK d rs).rs).inR x = true) := by
  obtain ⟨hr, hrs, hp, hdiv⟩ := h
  have hcr := common_builtin hr hrs
  obtain ⟨u1, u2, u3⟩ := usual_sup hr hrs
  have sup : ∀ x, (ITy.common d.rep rs).inR x = true → (ITy.usual (ITy.common d.rep rs) rs).inR x = true := by
    intro x hx
    rw [inR_iff] at hx ⊢
    omega
  refine ⟨?_, conv_of_inR _ u3 _ (sup c hc'), conv_of_inR _ u3 _ (sup s hs'), sup⟩
  have := convertCore_eq_b (ITy.common d.rep rs) hcr 1 (by decide) (by decide) c (builtin_sub hr c hc) (by rwa [Int.mul_one])
  rwa [Int.mul_one] at this

theorem scalar_hex {d : DurTy} {rs : ITy} (h : ScalarTyOkB d rs) (c s : Int) (hc' : (ITy.common d.rep rs).inR c = true)
    (hex : ¬ (c = (ITy.common d.rep rs).min ∧ s = -1)) :
    ¬ (c = (ITy.usual (ITy.common d.rep rs) rs).min ∧ s = -1) := by
  obtain ⟨u1, _, _⟩ := usual_sup h.1 h.2.1
  intro hh
  apply hex
  rw [inR_iff] at hc'
  exact ⟨by omega, hh.2⟩

end Tetl.C12
