/-
C12 — helper lemmas for the binary operators on MIXED builtin representations (`PropsMixed.lean`): the common type of
two builtin representations of `builtinReps` is again one of them, its values are values of the promoted type the
operator is evaluated in, and the two converting constructors `CD(lhs)`, `CD(rhs)` multiply by the integer factors.
-/
import TetlProofs.C12.Ext
namespace Tetl.C12
open Tetl Tetl.C14

/-- `common_type_t<A, B>` of two builtin representations is a builtin representation (complete finite check: 49 pairs) -/
theorem common_builtin {a b : ITy} (ha : Builtin a) (hb : Builtin b) : Builtin (ITy.common a b) := by
  rcases ha with e | e | e | e | e | e | e <;> subst e <;>
    rcases hb with e | e | e | e | e | e | e <;> subst e <;> decide

/-- the values of a builtin representation are values of its promoted type, in which `+ - / %` are evaluated -/
theorem inR_promote {r : ITy} (h : Builtin r) (x : Int) (hx : r.inR x = true) : r.promote.inR x = true := by
  rcases h with e | e | e | e | e | e | e <;> rw [e] at hx ⊢ <;>
    (rw [inR_iff] at hx ⊢
     simp only [ITy.promote, ITy.min, ITy.max] at hx ⊢
     norm_num at hx ⊢
     omega)

theorem promote_w {r : ITy} (h : Builtin r) : 1 ≤ r.promote.w := by
  rcases h with e | e | e | e | e | e | e <;> subst e <;> decide

/-- no value of a builtin representation other than its own minimum is the minimum of the promoted type -/
theorem promote_min {r : ITy} (h : Builtin r) (x : Int) (hx : r.inR x = true) (e : x = r.promote.min) : x = r.min := by
  rcases h with e' | e' | e' | e' | e' | e' | e' <;> rw [e'] at hx e ⊢ <;>
    (rw [inR_iff] at hx
     simp only [ITy.promote, ITy.min, ITy.max] at hx e ⊢
     norm_num at hx e ⊢
     omega)

theorem arith_promote {r : ITy} (h : Builtin r) (x : Int) (hx : r.inR x = true) : arith r.promote x = .ok x :=
  arith_ok _ (promote_w h) x (inR_promote h x hx)

theorem cdiv_promote {r : ITy} (h : Builtin r) (l d : Int) (hl : r.inR l = true) (hd : d ≠ 0)
    (hex : ¬ (l = r.min ∧ d = -1)) : cdiv r.promote l d = .ok (Int.tdiv l d) :=
  cdiv_ok _ _ _ hd (fun hh => hex ⟨promote_min h l hl hh.1, hh.2⟩)

theorem cmod_promote {r : ITy} (h : Builtin r) (l d : Int) (hl : r.inR l = true) (hd : d ≠ 0)
    (hex : ¬ (l = r.min ∧ d = -1)) : cmod r.promote l d = .ok (Int.tmod l d) :=
  cmod_ok _ _ _ hd (fun hh => hex ⟨promote_min h l hl hh.1, hh.2⟩)

/-- the converting constructor into a builtin representation with an integer factor: multiplication by the factor -/
theorem convertCore_eq_b (rep : ITy) (hrep : Builtin rep) (m : Int) (hm : 0 < m) (hm' : m ≤ imax.max)
    (x : Int) (hx : imax.inR x = true) (hxm : rep.inR (x * m) = true) :
    convertCore ⟨rep, imax, ⟨m, 1⟩⟩ x = .ok (x * m) := by
  have hmm := imax_max
  have cm : imax.conv m = m := imax_conv ((imax_inR m).mpr (by omega))
  have c1 : imax.conv 1 = 1 := by decide
  have hxm' := builtin_sub hrep _ hxm
  unfold convertCore
  simp only [bne_self_eq_false, Bool.false_eq_true, if_false, imax_conv hx, cm, c1]
  rw [imax_arith hxm']
  simp only [bind, Except.bind]
  rw [cdiv_pos _ _ _ (by decide), tdiv_one]
  simp only [conv_of_inR _ (builtin_w hrep) _ hxm]

/-- static preconditions of a binary operator on two durations with builtin representations (any mixture of
    int8 … int64, uint8 … uint32) -/
def PairTyOkB (a b : DurTy) : Prop :=
  Builtin a.rep ∧ Builtin b.rep ∧ PerOk a.per ∧ PerOk b.per ∧ CommonOk a.per b.per
instance (a b : DurTy) : Decidable (PairTyOkB a b) := by unfold PairTyOkB; infer_instance

theorem cd_builtin {a b : DurTy} (h : PairTyOkB a b) : Builtin (cdTy a b).rep := common_builtin h.1 h.2.1

theorem pairCtx_eq_b (a b : DurTy) (h : PairTyOkB a b) : pairCtx a b = .ok (pairK a b) := by
  obtain ⟨ha, hb, hpa, hpb, hl, hda, hdb⟩ := h
  obtain ⟨hcd, dva, dvb⟩ := cdPer_facts a.per b.per hpa hpb hl
  have hrep := common_builtin ha hb
  unfold pairCtx
  rw [commonTy_eq a b hpa hpb hl]
  simp only [bind, Except.bind]
  rw [castCtx_builtin (cdTy a b) a hrep ha hpa hcd hda, castCtx_builtin (cdTy a b) b hrep hb hpb hcd hdb]
  simp only
  have e1 : cfD a.per (cdTy a b).per = 1 := cfD_one_of_dvd _ _ hpa hcd dva
  have e2 : cfD b.per (cdTy a b).per = 1 := cfD_one_of_dvd _ _ hpb hcd dvb
  rw [e1, e2]
  rfl

/-- both operands are converted to the common type FIRST (`CD(lhs)`, `CD(rhs)`): each count times its integer factor -/
theorem both_common_b (a b : DurTy) (h : PairTyOkB a b) (x y : Int) (hin : PairIn a b x y) :
    convertCore (pairK a b).ka x = .ok (x * mulL a.per b.per) ∧
    convertCore (pairK a b).kb y = .ok (y * mulR a.per b.per) := by
  have hcd := cd_builtin h
  obtain ⟨ha, hb, hpa, hpb, hl, hda, hdb⟩ := h
  obtain ⟨hx, hy, hxm, hym⟩ := hin
  obtain ⟨_, _, _, m1, m2, b1, b2⟩ := mul_rat a.per b.per hpa hpb hl
  have := hda.1
  have := hdb.1
  exact ⟨convertCore_eq_b _ hcd _ m1 (by omega) x (builtin_sub ha x hx) hxm,
         convertCore_eq_b _ hcd _ m2 (by omega) y (builtin_sub hb y hy) hym⟩

theorem mkCD_id_b (cd : DurTy) (hr : Builtin cd.rep) (s : Int) (hs : cd.rep.inR s = true) : mkCD cd s = s := by
  unfold mkCD; rw [conv_of_inR _ (builtin_w hr) _ hs, conv_of_inR _ (builtin_w hr) _ hs]

/-- the run-time bodies on the known static context -/
theorem addCore_b (a b : DurTy) (h : PairTyOkB a b) (x y : Int) (hin : PairIn a b x y)
    (hsum : (cdTy a b).rep.inR (x * mulL a.per b.per + y * mulR a.per b.per) = true) :
    addCore (pairK a b) x y = .ok (x * mulL a.per b.per + y * mulR a.per b.per) := by
  obtain ⟨c1, c2⟩ := both_common_b a b h x y hin
  have hcd := cd_builtin h
  simp only [bind, Except.bind, addCore, c1, c2]
  have : (pairK a b).cd = cdTy a b := rfl
  rw [this, arith_promote hcd _ hsum]
  simp only [mkCD_id_b _ hcd _ hsum]

theorem subCore_b (a b : DurTy) (h : PairTyOkB a b) (x y : Int) (hin : PairIn a b x y)
    (hdiff : (cdTy a b).rep.inR (x * mulL a.per b.per - y * mulR a.per b.per) = true) :
    subCore (pairK a b) x y = .ok (x * mulL a.per b.per - y * mulR a.per b.per) := by
  obtain ⟨c1, c2⟩ := both_common_b a b h x y hin
  have hcd := cd_builtin h
  simp only [bind, Except.bind, subCore, c1, c2]
  have : (pairK a b).cd = cdTy a b := rfl
  rw [this, arith_promote hcd _ hdiff]
  simp only [mkCD_id_b _ hcd _ hdiff]

/-- comparing the converted counts is comparing the exact values -/
theorem scaled_lt (p q : Ratio) (hp : PerOk p) (hq : PerOk q) (hl : ((Int.lcm p.den q.den : Nat) : Int) ≤ imax.max)
    (x y : Int) : decide (x * mulL p q < y * mulR p q) = Spec.lt p.toRat q.toRat x y := by
  obtain ⟨e1, e2, hpos, _⟩ := mul_rat p q hp hq hl
  unfold Spec.lt Spec.val
  rw [decide_eq_decide, ← e1, ← e2]
  constructor
  · intro hlt
    have : ((x * mulL p q : Int) : ℚ) < ((y * mulR p q : Int) : ℚ) := by exact_mod_cast hlt
    push_cast at this
    nlinarith [mul_lt_mul_of_pos_right this hpos]
  · intro hlt
    have : ((x : ℚ) * mulL p q) * (cdPer p q).toRat < ((y : ℚ) * mulR p q) * (cdPer p q).toRat := by
      nlinarith
    have := lt_of_mul_lt_mul_right this (le_of_lt hpos)
    exact_mod_cast this

theorem scaled_eq (p q : Ratio) (hp : PerOk p) (hq : PerOk q) (hl : ((Int.lcm p.den q.den : Nat) : Int) ≤ imax.max)
    (x y : Int) : (x * mulL p q == y * mulR p q) = Spec.eq p.toRat q.toRat x y := by
  obtain ⟨e1, e2, hpos, _⟩ := mul_rat p q hp hq hl
  unfold Spec.eq Spec.val
  have hb' : ∀ u v : Int, (u == v) = decide (u = v) := by intro u v; by_cases h : u = v <;> simp [h]
  rw [hb', decide_eq_decide, ← e1, ← e2]
  constructor
  · intro heq
    have : ((x * mulL p q : Int) : ℚ) = ((y * mulR p q : Int) : ℚ) := by exact_mod_cast heq
    push_cast at this
    rw [← mul_assoc, ← mul_assoc, this]
  · intro heq
    have h2 : ((x : ℚ) * mulL p q) * (cdPer p q).toRat = ((y : ℚ) * mulR p q) * (cdPer p q).toRat := by
      rw [mul_assoc, mul_assoc]; exact heq
    have := mul_right_cancel₀ (ne_of_gt hpos) h2
    exact_mod_cast this

theorem ltCore_b (a b : DurTy) (h : PairTyOkB a b) (x y : Int) (hin : PairIn a b x y) :
    ltCore (pairK a b) x y = .ok (Spec.lt a.per.toRat b.per.toRat x y) := by
  obtain ⟨c1, c2⟩ := both_common_b a b h x y hin
  simp only [bind, Except.bind, ltCore, c1, c2]
  rw [scaled_lt _ _ h.2.2.1 h.2.2.2.1 h.2.2.2.2.1]

theorem eqCore_b (a b : DurTy) (h : PairTyOkB a b) (x y : Int) (hin : PairIn a b x y) :
    eqCore (pairK a b) x y = .ok (Spec.eq a.per.toRat b.per.toRat x y) := by
  obtain ⟨c1, c2⟩ := both_common_b a b h x y hin
  simp only [bind, Except.bind, eqCore, c1, c2]
  rw [scaled_eq _ _ h.2.2.1 h.2.2.2.1 h.2.2.2.2.1]

/-- the truncated quotient of the converted counts is the truncated quotient of the exact values -/
theorem scaled_div (p q : Ratio) (hp : PerOk p) (hq : PerOk q) (hl : ((Int.lcm p.den q.den : Nat) : Int) ≤ imax.max)
    (x y : Int) (hy0 : y ≠ 0) :
    Int.tdiv (x * mulL p q) (y * mulR p q) = Spec.div p.toRat q.toRat x y := by
  obtain ⟨e1, e2, hpos, m1, m2, _⟩ := mul_rat p q hp hq hl
  have hr0 : y * mulR p q ≠ 0 := Int.mul_ne_zero hy0 (by omega)
  rw [tdiv_trunc' _ _ hr0]
  unfold Spec.div Spec.val
  congr 1
  rw [← e1, ← e2]
  push_cast
  have hne : (cdPer p q).toRat ≠ 0 := ne_of_gt hpos
  have hrq : ((y : ℚ) * (mulR p q : ℚ)) ≠ 0 := by exact_mod_cast hr0
  field_simp

end Tetl.C12
