/-
C12, tie T — shape lemmas for the theorems over the GENERATED `duration_cast_impl<…>::cast` bodies (Tetl/C12/Gen.lean):
one lemma per body shape (general, `NumIsOne`, `DenIsOne`, both), generic in the destination representation `T`, over
`c'` = `static_cast<CR>(count)` and `r` = the converted result.
-/
import TetlProofs.C14.GenArithLemmas
import Tetl.C12.Gen
import Tetl.C12.Model
set_option linter.unusedSimpArgs false
set_option linter.unusedVariables false
namespace Tetl.C12.GenLemmas
open Tetl Tetl.C12 Tetl.CSem Tetl.C14.GenProps
open Tetl.C14 (ITy arith ub)

theorem imax_conv (x : Int) (h : -9223372036854775808 ≤ x ∧ x < 9223372036854775808) : imax.conv x = x := by
  simp [imax, ITy.conv]; omega
theorem imax_conv_wrap (x : Int) : imax.conv x = wrapS 64 x := by
  simp [imax, ITy.conv, wrapS]; omega

theorem conv_i16 (x : Int) : (⟨16, true⟩ : ITy).conv x = wrapS 16 (wrapS 16 x) := by
  simp [ITy.conv, wrapS]; omega
theorem conv_i32 (x : Int) : (⟨32, true⟩ : ITy).conv x = wrapS 32 (wrapS 32 x) := by
  simp [ITy.conv, wrapS]; omega
theorem conv_i16' (x : Int) : (⟨16, true⟩ : ITy).conv x = wrapS 16 x := by
  simp [ITy.conv, wrapS]; omega
theorem conv_i32' (x : Int) : (⟨32, true⟩ : ITy).conv x = wrapS 32 x := by
  simp [ITy.conv, wrapS]; omega
theorem conv_i64 (x : Int) : (⟨64, true⟩ : ITy).conv x = wrapS 64 x := by
  simp [ITy.conv, wrapS]; omega
theorem conv_i64' (x : Int) : (⟨64, true⟩ : ITy).conv x = wrapS 64 (wrapS 64 x) := by
  simp [ITy.conv, wrapS]; omega
theorem conv_u32 (x : Int) : (⟨32, false⟩ : ITy).conv x = wrapU 32 (wrapU 32 x) := by
  simp [ITy.conv, wrapU]
theorem conv_u32' (x : Int) : (⟨32, false⟩ : ITy).conv x = wrapU 32 x := by
  simp [ITy.conv, wrapU]

/-- product in `intmax_t`: `arith` returns it iff it is representable -/
theorem arith_imax_ok (p : Int) (hp : inRangeS 64 p = true) : arith imax p = .ok p := by
  have hpr : imax.inR p = true := by
    simp [inRangeS] at hp; simp [imax, ITy.inR, ITy.min, ITy.max]; omega
  simp only [arith, hpr, show imax.sg = true from rfl, if_true]
theorem arith_imax_err (p : Int) (hp : ¬ inRangeS 64 p = true) : ∃ e, arith imax p = .error e := by
  have hpr : imax.inR p = false := by
    simp [inRangeS] at hp; simp [imax, ITy.inR, ITy.min, ITy.max]; omega
  simp [arith, hpr, show imax.sg = true from rfl, ub]

/-- quotient in `intmax_t` of an `intmax_t` value `p`: the three generated obligations are the model's "returns" -/
theorem cdiv_imax (p den : Int) (hp : inRangeS 64 p = true) :
    (((den != 0) && (!(p == (-9223372036854775808 : Int) && den == -1)) && (inRangeS 64 (CSem.cdiv p den))) = true →
        C12.cdiv imax p den = .ok (CSem.cdiv p den)) ∧
    (((den != 0) && (!(p == (-9223372036854775808 : Int) && den == -1)) && (inRangeS 64 (CSem.cdiv p den))) = false →
        ∃ e, C12.cdiv imax p den = .error e) := by
  by_cases hd0 : den = 0
  · subst hd0; simp [C12.cdiv, ub]
  · by_cases hm : p = -9223372036854775808 ∧ den = -1
    · obtain ⟨rfl, rfl⟩ := hm
      simp [C12.cdiv, ub, imax, ITy.min]
    · have hr := tdiv_signed_range 9223372036854775808 p den (by simp [inRangeS] at hp; omega) hd0 hm
      have h4 : inRangeS 64 (CSem.cdiv p den) = true := by
        unfold inRangeS; b2p; simp [CSem.cdiv]; omega
      refine ⟨fun _ => ?_, fun h => ?_⟩
      · simp [C12.cdiv, hd0, CSem.cdiv]
        intro _ h1 h2; exact absurd ⟨by simpa [imax, ITy.min] using h1, h2⟩ hm
      · exfalso
        simp [h4, hd0] at h
        exact hm ⟨h.1, h.2⟩

/-- general body `to_rep(CR(count) * CR(num) / CR(den))` -/
theorem nd_shape (T : ITy) (c c' num den r : Int) (hc : imax.conv c = c')
    (hn : -9223372036854775808 ≤ num ∧ num < 9223372036854775808)
    (hd : -9223372036854775808 ≤ den ∧ den < 9223372036854775808)
    (hn1 : num ≠ 1) (hd1 : den ≠ 1) (hr : T.conv (CSem.cdiv (c' * num) den) = r) :
    (((inRangeS 64 (c' * num)) && (den != 0) && (!((c' * num) == (-9223372036854775808 : Int) && den == -1)) &&
        (inRangeS 64 (CSem.cdiv (c' * num) den))) = true → castCore ⟨T, imax, ⟨num, den⟩⟩ c = .ok r) ∧
    (((inRangeS 64 (c' * num)) && (den != 0) && (!((c' * num) == (-9223372036854775808 : Int) && den == -1)) &&
        (inRangeS 64 (CSem.cdiv (c' * num) den))) = false → ∃ e, castCore ⟨T, imax, ⟨num, den⟩⟩ c = .error e) := by
  have e2 := imax_conv num hn
  have e3 := imax_conv den hd
  subst hr
  unfold castCore
  dsimp only
  simp only [beq_iff_eq, hn1, hd1, Bool.false_and, Bool.false_eq_true, if_false, hc, e2, e3]
  generalize c' * num = p
  by_cases hp : inRangeS 64 p = true
  · obtain ⟨q1, q2⟩ := cdiv_imax p den hp
    rw [arith_imax_ok p hp]
    simp only [hp, Bool.true_and, Bool.and_assoc] at q1 q2 ⊢
    refine ⟨fun h => ?_, fun h => ?_⟩
    · simp [hn1, hd1, bind, Except.bind, q1 h]
    · obtain ⟨e, he⟩ := q2 h
      exact ⟨e, by simp [hn1, hd1, bind, Except.bind, he]⟩
  · obtain ⟨e, he⟩ := arith_imax_err p hp
    simp [hp, he, hn1, hd1, bind, Except.bind]

/-- `NumIsOne` body `to_rep(CR(count) / CR(den))` -/
theorem d_shape (T : ITy) (c c' den r : Int) (hc : imax.conv c = c') (hc' : inRangeS 64 c' = true)
    (hd : -9223372036854775808 ≤ den ∧ den < 9223372036854775808)
    (hd1 : den ≠ 1) (hr : T.conv (CSem.cdiv c' den) = r) :
    (((den != 0) && (!(c' == (-9223372036854775808 : Int) && den == -1)) &&
        (inRangeS 64 (CSem.cdiv c' den))) = true → castCore ⟨T, imax, ⟨1, den⟩⟩ c = .ok r) ∧
    (((den != 0) && (!(c' == (-9223372036854775808 : Int) && den == -1)) &&
        (inRangeS 64 (CSem.cdiv c' den))) = false → ∃ e, castCore ⟨T, imax, ⟨1, den⟩⟩ c = .error e) := by
  have e3 := imax_conv den hd
  subst hr
  unfold castCore
  dsimp only
  simp only [beq_iff_eq, hd1, Bool.and_false, Bool.false_eq_true, if_false, if_true, hc, e3, beq_self_eq_true]
  obtain ⟨q1, q2⟩ := cdiv_imax c' den hc'
  refine ⟨fun h => ?_, fun h => ?_⟩
  · simp [hd1, bind, Except.bind, q1 h]
  · obtain ⟨e, he⟩ := q2 h
    exact ⟨e, by simp [hd1, bind, Except.bind, he]⟩

/-- `DenIsOne` body `to_rep(CR(count) * CR(num))` -/
theorem n_shape (T : ITy) (c c' num r : Int) (hc : imax.conv c = c')
    (hn : -9223372036854775808 ≤ num ∧ num < 9223372036854775808)
    (hn1 : num ≠ 1) (hr : T.conv (c' * num) = r) :
    (inRangeS 64 (c' * num) = true → castCore ⟨T, imax, ⟨num, 1⟩⟩ c = .ok r) ∧
    (inRangeS 64 (c' * num) = false → ∃ e, castCore ⟨T, imax, ⟨num, 1⟩⟩ c = .error e) := by
  have e2 := imax_conv num hn
  subst hr
  unfold castCore
  dsimp only
  simp only [beq_iff_eq, hn1, Bool.false_and, Bool.false_eq_true, if_false, if_true, hc, e2, beq_self_eq_true]
  generalize c' * num = p
  by_cases hp : inRangeS 64 p = true
  · rw [arith_imax_ok p hp]; simp [hp, hn1, bind, Except.bind]
  · obtain ⟨e, he⟩ := arith_imax_err p hp
    simp [hp, he, hn1, bind, Except.bind]

/-- both: `to_rep(count)` -/
theorem id_shape (T : ITy) (c r : Int) (hr : T.conv c = r) :
    true = true ∧ castCore ⟨T, imax, ⟨1, 1⟩⟩ c = .ok r := by
  subst hr
  simp [castCore]

theorem wrapS64_inRange (c : Int) : inRangeS 64 (wrapS 64 c) = true := by
  unfold inRangeS; b2p; simp [wrapS]; omega
theorem inRange_i64 (c : Int) (h : -9223372036854775808 ≤ c ∧ c < 9223372036854775808) : inRangeS 64 c = true := by
  simp [inRangeS]; omega

/-- `T.conv x` = the generated `static_cast<to_rep>` + constructor wraps -/
macro "conv_tac" : tactic => `(tactic| first
  | exact conv_i16 _ | exact conv_i32 _ | exact conv_i64 _ | exact conv_u32 _
  | exact conv_i16' _ | exact conv_i32' _ | exact conv_i64' _ | exact conv_u32' _)

end Tetl.C12.GenLemmas
