/-
C15 (a) ratio — the specification and the model, stated in Mathlib's rational numbers `ℚ`.
-/
import Mathlib.Data.Rat.Defs
import Mathlib.Data.Rat.Lemmas
import Mathlib.Algebra.Order.Field.Basic
import Mathlib.Algebra.Order.Field.Rat
import Mathlib.Tactic.FieldSimp
import Mathlib.Tactic.Ring
import Mathlib.Tactic.Linarith
import Mathlib.Tactic.LinearCombination
import Mathlib.Tactic.Positivity
import Mathlib.Tactic.NormNum
import TetlProofs.C15.RatioDefs
import TetlProofs.C15.RatioMul
import TetlProofs.C15.RatioAsm
import TetlProofs.C15.RatioLess
namespace Tetl.C15.RQ
open Tetl Tetl.C15

/-- the rational number of a pair / of a specialisation -/
def qval (q : Spec.Q) : ℚ := (q.1 : ℚ) / (q.2 : ℚ)
def rval (r : Tetl.C15.Rat) : ℚ := (r.num : ℚ) / (r.den : ℚ)
/-- a rational number is representable as a `ratio`: numerator and denominator of its lowest-terms form lie
    in [-(2^63-1), 2^63-1] -/
def Representable (x : ℚ) : Prop := Spec.argOk x.num = true ∧ Spec.argOk (x.den : Int) = true

theorem reduce_rat (n d : Int) (hd : d ≠ 0) : qval (Spec.reduce n d) = (n : ℚ) / (d : ℚ) := by
  obtain ⟨h1, _, h3⟩ := RA.reduce_spec n d hd
  unfold qval
  have hV : ((Spec.reduce n d).2 : ℚ) ≠ 0 := by exact_mod_cast (ne_of_gt h1)
  have hD : (d : ℚ) ≠ 0 := by exact_mod_cast hd
  rw [div_eq_div_iff hV hD]
  exact_mod_cast h3

/-- a pair in lowest terms with positive denominator is the `num`/`den` of its value -/
theorem lowest_num_den (n d : Int) (hd : 0 < d) (hg : Int.gcd n d = 1) :
    ((n : ℚ) / (d : ℚ)).num = n ∧ (((n : ℚ) / (d : ℚ)).den : Int) = d := by
  have hco : Nat.Coprime n.natAbs d.natAbs := hg
  exact ⟨Rat.num_div_eq_of_coprime hd hco, Rat.den_div_eq_of_coprime hd hco⟩

theorem less_rat (a b : Spec.Q) (ha : 0 < a.2) (hb : 0 < b.2) : Spec.less a b = decide (qval a < qval b) := by
  unfold Spec.less qval
  have ha' : (0 : ℚ) < (a.2 : ℚ) := by exact_mod_cast ha
  have hb' : (0 : ℚ) < (b.2 : ℚ) := by exact_mod_cast hb
  apply decide_eq_decide.2
  rw [div_lt_div_iff₀ ha' hb']
  constructor
  · intro h; exact_mod_cast h
  · intro h; exact_mod_cast h

theorem equal_rat (a b : Spec.Q) (ha : 0 < a.2) (hb : 0 < b.2) : Spec.equal a b = decide (qval a = qval b) := by
  unfold Spec.equal qval
  have ha' : (a.2 : ℚ) ≠ 0 := by exact_mod_cast (ne_of_gt ha)
  have hb' : (b.2 : ℚ) ≠ 0 := by exact_mod_cast (ne_of_gt hb)
  apply decide_eq_decide.2
  rw [div_eq_div_iff ha' hb']
  constructor
  · intro h; exact_mod_cast h
  · intro h; exact_mod_cast h

/-! ## the arithmetic of the specification is the arithmetic of ℚ -/

/-- `reduce n d` is the pair (`num`, `den`) of the rational number `n / d` -/
theorem reduce_num_den (n d : Int) (hd : d ≠ 0) (x : ℚ) (hx : (n : ℚ) / (d : ℚ) = x) :
    Spec.reduce n d = (x.num, (x.den : Int)) := by
  obtain ⟨h1, h2, _⟩ := RA.reduce_spec n d hd
  have hv := reduce_rat n d hd
  unfold qval at hv
  obtain ⟨e1, e2⟩ := lowest_num_den _ _ h1 h2
  rw [hv, hx] at e1 e2
  rw [e1, e2]

theorem named_rat (n d : Int) (hd : d ≠ 0) (x : ℚ) (hx : (n : ℚ) / (d : ℚ) = x) :
    (Representable x → Spec.named (Spec.reduce n d) = .ok (x.num, (x.den : Int))) ∧
    (¬ Representable x → isErr (Spec.named (Spec.reduce n d))) := by
  rw [reduce_num_den n d hd x hx]
  unfold Spec.named Representable
  dsimp only
  constructor
  · intro h
    rw [if_pos (by rw [Bool.and_eq_true]; exact h)]
  · intro h
    rw [if_neg (by rw [Bool.and_eq_true]; exact h)]
    exact trivial

theorem add_val (a b : Spec.Q) (ha : 0 < a.2) (hb : 0 < b.2) :
    (((a.1 * b.2 + b.1 * a.2 : Int) : ℚ) / ((a.2 * b.2 : Int) : ℚ)) = qval a + qval b := by
  have ha' : (a.2 : ℚ) ≠ 0 := by exact_mod_cast (ne_of_gt ha)
  have hb' : (b.2 : ℚ) ≠ 0 := by exact_mod_cast (ne_of_gt hb)
  unfold qval
  push_cast
  field_simp

theorem sub_val (a b : Spec.Q) (ha : 0 < a.2) (hb : 0 < b.2) :
    (((a.1 * b.2 - b.1 * a.2 : Int) : ℚ) / ((a.2 * b.2 : Int) : ℚ)) = qval a - qval b := by
  have ha' : (a.2 : ℚ) ≠ 0 := by exact_mod_cast (ne_of_gt ha)
  have hb' : (b.2 : ℚ) ≠ 0 := by exact_mod_cast (ne_of_gt hb)
  unfold qval
  push_cast
  field_simp

theorem mul_val (a b : Spec.Q) (ha : 0 < a.2) (hb : 0 < b.2) :
    (((a.1 * b.1 : Int) : ℚ) / ((a.2 * b.2 : Int) : ℚ)) = qval a * qval b := by
  have ha' : (a.2 : ℚ) ≠ 0 := by exact_mod_cast (ne_of_gt ha)
  have hb' : (b.2 : ℚ) ≠ 0 := by exact_mod_cast (ne_of_gt hb)
  unfold qval
  push_cast
  field_simp

theorem div_val (a b : Spec.Q) (ha : 0 < a.2) (hb : 0 < b.2) (h0 : b.1 ≠ 0) :
    (((a.1 * b.2 : Int) : ℚ) / ((a.2 * b.1 : Int) : ℚ)) = qval a / qval b := by
  have ha' : (a.2 : ℚ) ≠ 0 := by exact_mod_cast (ne_of_gt ha)
  have hb' : (b.2 : ℚ) ≠ 0 := by exact_mod_cast (ne_of_gt hb)
  have h0' : (b.1 : ℚ) ≠ 0 := by exact_mod_cast h0
  unfold qval
  push_cast
  field_simp

theorem den_ne (a b : Spec.Q) (ha : 0 < a.2) (hb : 0 < b.2) : a.2 * b.2 ≠ 0 :=
  Int.mul_ne_zero (ne_of_gt ha) (ne_of_gt hb)

/-- `Spec.add` is exact addition in ℚ, defined exactly on the representable sums -/
theorem add_rat (a b : Spec.Q) (ha : 0 < a.2) (hb : 0 < b.2) :
    (Representable (qval a + qval b) →
      Spec.add a b = .ok ((qval a + qval b).num, ((qval a + qval b).den : Int))) ∧
    (¬ Representable (qval a + qval b) → isErr (Spec.add a b)) :=
  named_rat _ _ (den_ne a b ha hb) _ (add_val a b ha hb)

theorem sub_rat (a b : Spec.Q) (ha : 0 < a.2) (hb : 0 < b.2) :
    (Representable (qval a - qval b) →
      Spec.sub a b = .ok ((qval a - qval b).num, ((qval a - qval b).den : Int))) ∧
    (¬ Representable (qval a - qval b) → isErr (Spec.sub a b)) :=
  named_rat _ _ (den_ne a b ha hb) _ (sub_val a b ha hb)

theorem mul_rat (a b : Spec.Q) (ha : 0 < a.2) (hb : 0 < b.2) :
    (Representable (qval a * qval b) →
      Spec.mul a b = .ok ((qval a * qval b).num, ((qval a * qval b).den : Int))) ∧
    (¬ Representable (qval a * qval b) → isErr (Spec.mul a b)) :=
  named_rat _ _ (den_ne a b ha hb) _ (mul_val a b ha hb)

theorem div_rat (a b : Spec.Q) (ha : 0 < a.2) (hb : 0 < b.2) :
    (b.1 ≠ 0 → Representable (qval a / qval b) →
      Spec.div a b = .ok ((qval a / qval b).num, ((qval a / qval b).den : Int))) ∧
    (b.1 = 0 ∨ ¬ Representable (qval a / qval b) → isErr (Spec.div a b)) := by
  constructor
  · intro h0 hr
    unfold Spec.div
    rw [if_neg h0]
    exact (named_rat _ _ (Int.mul_ne_zero (ne_of_gt ha) h0) _ (div_val a b ha hb h0)).1 hr
  · intro h
    unfold Spec.div
    by_cases h0 : b.1 = 0
    · rw [if_pos h0]; exact trivial
    · rw [if_neg h0]
      rcases h with h | h
      · exact absurd h h0
      · exact (named_rat _ _ (Int.mul_ne_zero (ne_of_gt ha) h0) _ (div_val a b ha hb h0)).2 h

/-! ## the model, in ℚ -/

theorem rval_q (r : Tetl.C15.Rat) : qval r.q = rval r := rfl

theorem mkRatio_rat (n d : Int) (hn : Spec.argOk n = true) (hd : Spec.argOk d = true) (h0 : d ≠ 0) :
    ∃ r, mkRatio n d = .ok r ∧ r.Valid ∧ rval r = (n : ℚ) / (d : ℚ) := by
  have hm := RA.mkRatio_eq n d hn hd h0
  obtain ⟨v, -, -, -⟩ := RA.mkRatio_valid n d _ (RA.inI_of_argOk hn) (RA.inI_of_argOk hd) hm
  exact ⟨_, hm, v, reduce_rat n d h0⟩

theorem valid_num_den (r : Tetl.C15.Rat) (h : r.Valid) :
    (rval r).num = r.num ∧ ((rval r).den : Int) = r.den :=
  lowest_num_den r.num r.den h.1 h.2.1

/-- the specialisation named by a representable rational number -/
theorem ofQ_rat (x : ℚ) (hr : Representable x) :
    (Rat.ofQ (x.num, (x.den : Int))).Valid ∧ (Rat.ofQ (x.num, (x.den : Int))).canonical = true ∧
    rval (Rat.ofQ (x.num, (x.den : Int))) = x := by
  refine ⟨⟨?_, ?_, hr.1, hr.2⟩, ?_, ?_⟩
  · show (0 : Int) < (x.den : Int)
    exact_mod_cast x.den_pos
  · show Int.gcd x.num (x.den : Int) = 1
    exact x.reduced
  · simp [Rat.canonical, Rat.ofQ]
  · show (x.num : ℚ) / ((x.den : Int) : ℚ) = x
    push_cast
    exact Rat.num_div_den x

theorem ratioAdd_rat (a b : Tetl.C15.Rat) (ha : a.Valid) (hb : b.Valid) :
    (Representable (rval a + rval b) →
      ∃ r, ratioAdd a b = .ok r ∧ r.Valid ∧ r.canonical = true ∧ rval r = rval a + rval b) ∧
    (¬ Representable (rval a + rval b) → isErr (ratioAdd a b)) := by
  obtain ⟨h1, h2⟩ := add_rat a.q b.q ha.1 hb.1
  constructor
  · intro hr
    obtain ⟨v, c, e⟩ := ofQ_rat _ hr
    exact ⟨_, RatioAsm.ratioAdd_ok a b ha hb _ (h1 hr), v, c, e⟩
  · intro hr
    exact RatioAsm.ratioAdd_err a b ha hb (h2 hr)

theorem ratioSub_rat (a b : Tetl.C15.Rat) (ha : a.Valid) (hb : b.Valid) :
    (Representable (rval a - rval b) →
      ∃ r, ratioSub a b = .ok r ∧ r.Valid ∧ r.canonical = true ∧ rval r = rval a - rval b) ∧
    (¬ Representable (rval a - rval b) → isErr (ratioSub a b)) := by
  obtain ⟨h1, h2⟩ := sub_rat a.q b.q ha.1 hb.1
  constructor
  · intro hr
    obtain ⟨v, c, e⟩ := ofQ_rat _ hr
    exact ⟨_, RatioAsm.ratioSub_ok a b ha hb _ (h1 hr), v, c, e⟩
  · intro hr
    exact RatioAsm.ratioSub_err a b ha hb (h2 hr)

theorem ratioMul_rat (a b : Tetl.C15.Rat) (ha : a.Valid) (hb : b.Valid) :
    (Representable (rval a * rval b) →
      ∃ r, ratioMul a b = .ok r ∧ r.Valid ∧ r.canonical = true ∧ rval r = rval a * rval b) ∧
    (¬ Representable (rval a * rval b) → isErr (ratioMul a b)) := by
  obtain ⟨h1, h2⟩ := mul_rat a.q b.q ha.1 hb.1
  constructor
  · intro hr
    obtain ⟨v, c, e⟩ := ofQ_rat _ hr
    exact ⟨_, RA.ratioMul_ok a b ha hb _ (h1 hr), v, c, e⟩
  · intro hr
    exact RA.ratioMul_err a b ha hb (h2 hr)

theorem ratioDiv_rat (a b : Tetl.C15.Rat) (ha : a.Valid) (hb : b.Valid) :
    (b.num ≠ 0 → Representable (rval a / rval b) →
      ∃ r, ratioDiv a b = .ok r ∧ r.Valid ∧ r.canonical = true ∧ rval r = rval a / rval b) ∧
    (b.num = 0 ∨ ¬ Representable (rval a / rval b) → isErr (ratioDiv a b)) := by
  obtain ⟨h1, h2⟩ := div_rat a.q b.q ha.1 hb.1
  constructor
  · intro h0 hr
    obtain ⟨v, c, e⟩ := ofQ_rat _ hr
    exact ⟨_, RA.ratioDiv_ok a b ha hb _ (h1 h0 hr), v, c, e⟩
  · intro hr
    exact RA.ratioDiv_err a b ha hb (h2 hr)

/-! ## the comparisons, in ℚ -/

theorem ord_of_valid {r : Tetl.C15.Rat} (h : r.Valid) : RC.Ord r.num r.den := ⟨h.1, h.2.2.1, h.2.2.2⟩

theorem ratioEqual_rat (a b : Tetl.C15.Rat) (ha : a.Valid) (hb : b.Valid) :
    ratioEqual a b = decide (rval a = rval b) := by
  rw [RA.ratioEqual_eq a b ha hb]
  exact equal_rat a.q b.q ha.1 hb.1

theorem ratioNotEqual_rat (a b : Tetl.C15.Rat) (ha : a.Valid) (hb : b.Valid) :
    ratioNotEqual a b = decide (rval a ≠ rval b) := by
  unfold ratioNotEqual
  rw [ratioEqual_rat a b ha hb]
  exact (decide_not).symm

theorem ratioLess_rat (a b : Tetl.C15.Rat) (ha : a.Valid) (hb : b.Valid) :
    ratioLess a b = .ok (decide (rval a < rval b)) := by
  rw [RC.ratioLess_eq a b (ord_of_valid ha) (ord_of_valid hb), less_rat a.q b.q ha.1 hb.1]
  rfl

theorem ratioLessEqual_rat (a b : Tetl.C15.Rat) (ha : a.Valid) (hb : b.Valid) :
    ratioLessEqual a b = .ok (decide (rval a ≤ rval b)) := by
  rw [RC.ratioLessEqual_eq a b (ord_of_valid ha) (ord_of_valid hb), less_rat b.q a.q hb.1 ha.1,
    ← decide_not]
  exact congrArg _ (decide_eq_decide.2 not_lt)

theorem ratioGreater_rat (a b : Tetl.C15.Rat) (ha : a.Valid) (hb : b.Valid) :
    ratioGreater a b = .ok (decide (rval a > rval b)) := by
  rw [RC.ratioGreater_eq a b (ord_of_valid ha) (ord_of_valid hb), less_rat b.q a.q hb.1 ha.1]
  rfl

theorem ratioGreaterEqual_rat (a b : Tetl.C15.Rat) (ha : a.Valid) (hb : b.Valid) :
    ratioGreaterEqual a b = .ok (decide (rval a ≥ rval b)) := by
  rw [RC.ratioGreaterEqual_eq a b (ord_of_valid ha) (ord_of_valid hb), less_rat a.q b.q ha.1 hb.1,
    ← decide_not]
  exact congrArg _ (decide_eq_decide.2 not_lt)

end Tetl.C15.RQ
