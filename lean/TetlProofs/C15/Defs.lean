/-
C15 — the extracted trait definitions (Tetl/C15/GenBuiltins.lean) against the hand model: which generated entry is
claimed to be which model function.  Helper lemmas only; the property theorems are in Props.lean.
-/
import Tetl.C15.GenBuiltins
import Tetl.C15.DefnSpec
import TetlProofs.C15.Lemmas
import TetlProofs.C15.Limits
namespace Tetl.C15.Defs
open Tetl Tetl.C15 CType Defn

theorem withCV_shape (t : CType) (q : CV) :
    isRef (withCV t q) = isRef t ∧ CType.isVoid (withCV t q) = CType.isVoid t ∧ isFn (withCV t q) = isFn t ∧
    isUarr (withCV t q) = isUarr t ∧ isQualFn (withCV t q) = isQualFn t ∧ isArr (withCV t q) = isArr t := by
  cases t with
  | base b q' => cases b <;> simp [withCV, isRef, CType.isVoid, isFn, isUarr, isQualFn, isArr]
  | _ => simp [withCV, isRef, CType.isVoid, isFn, isUarr, isQualFn, isArr]

/-- cv-qualification does not change whether a type can be formed -/
theorem wf_withCV (t : CType) (q : CV) : wf (withCV t q) = wf t := by
  induction t with
  | arr u n ih =>
    obtain ⟨h1, h2, h3, h4, _, _⟩ := withCV_shape u q
    simp only [withCV, wf, ih, h1, h2, h3, h4]
  | uarr u ih =>
    obtain ⟨h1, h2, h3, h4, _, _⟩ := withCV_shape u q
    simp only [withCV, wf, ih, h1, h2, h3, h4]
  | _ => simp [withCV, wf]

theorem wf_addConst {t : CType} (h : wf t = true) : wf (M.addConst t) = true := by
  unfold M.addConst; rw [wf_withCV]; exact h

/-- the traits and concepts whose whole definition (no specialisation) is a formula over other traits, a `meta::contains`
    test or one of the three builtins the grammar interprets (`__is_enum`, `__is_class`, `__is_union`):
    extracted entry ↦ the function of Model.lean that claims to be it -/
def formulaTraits : List (Entry × (CType → Bool)) := [
  (Gen.Gcc.is_void_struct, M.isVoid), (Gen.Gcc.is_void_var, M.isVoid),
  (Gen.Gcc.is_null_pointer_struct, M.isNullPointer), (Gen.Gcc.is_null_pointer_var, M.isNullPointer),
  (Gen.Gcc.is_integral_struct, M.isIntegral), (Gen.Gcc.is_integral_var, M.isIntegral),
  (Gen.Gcc.is_floating_point_struct, M.isFloatingPoint), (Gen.Gcc.is_floating_point_var, M.isFloatingPoint),
  (Gen.Gcc.is_enum_struct, M.isEnum), (Gen.Gcc.is_enum_var, M.isEnum),
  (Gen.Gcc.is_union_struct, M.isUnion), (Gen.Gcc.is_union_var, M.isUnion),
  (Gen.Gcc.is_class_struct, M.isClass), (Gen.Gcc.is_class_var, M.isClass),
  (Gen.Gcc.is_function_struct, M.isFunction), (Gen.Gcc.is_function_var, M.isFunction),
  (Gen.Gcc.is_member_object_pointer_struct, M.isMemberObjectPointer),
  (Gen.Gcc.is_member_object_pointer_var, M.isMemberObjectPointer),
  (Gen.Gcc.is_fundamental_struct, M.isFundamental), (Gen.Gcc.is_fundamental_var, M.isFundamental),
  (Gen.Gcc.is_arithmetic_struct, M.isArithmetic), (Gen.Gcc.is_arithmetic_var, M.isArithmetic),
  (Gen.Gcc.is_scalar_struct, M.isScalar), (Gen.Gcc.is_scalar_var, M.isScalar),
  (Gen.Gcc.is_object_struct, M.isObject), (Gen.Gcc.is_object_var, M.isObject),
  (Gen.Gcc.is_compound_struct, M.isCompound), (Gen.Gcc.is_compound_var, M.isCompound),
  (Gen.Gcc.integral_concept, M.integral), (Gen.Gcc.signed_integral_concept, M.signedIntegral),
  (Gen.Gcc.unsigned_integral_concept, M.unsignedIntegral), (Gen.Gcc.floating_point_concept, M.floatingPoint)]

/-- the `_v` forms of the traits that are defined by partial specialisation: they forward to the class template -/
def forwardingVars : List (Entry × (CType → Bool)) := [
  (Gen.Gcc.is_array_var, M.isArray), (Gen.Gcc.is_pointer_var, M.isPointer),
  (Gen.Gcc.is_lvalue_reference_var, M.isLvalueReference), (Gen.Gcc.is_rvalue_reference_var, M.isRvalueReference),
  (Gen.Gcc.is_member_function_pointer_var, M.isMemberFunctionPointer), (Gen.Gcc.is_reference_var, M.isReference),
  (Gen.Gcc.is_member_pointer_var, M.isMemberPointer), (Gen.Gcc.is_const_var, M.isConst),
  (Gen.Gcc.is_volatile_var, M.isVolatile), (Gen.Gcc.is_signed_var, M.isSigned), (Gen.Gcc.is_unsigned_var, M.isUnsigned),
  (Gen.Gcc.is_bounded_array_var, M.isBoundedArray), (Gen.Gcc.is_unbounded_array_var, M.isUnboundedArray),
  (Gen.Gcc.is_scoped_enum_var, M.isScopedEnum)]

/-- traits defined as "helper applied to `remove_cv_t<T>`" (the helper is a set of partial specialisations) -/
def helperTraits : List (Entry × String) := [
  (Gen.Gcc.is_pointer_struct, "detail::is_pointer"), (Gen.Gcc.is_member_pointer_struct, "detail::is_member_pointer_helper"),
  (Gen.Gcc.is_member_function_pointer_struct, "detail::is_member_function_pointer_helper"),
  (Gen.Gcc.is_signed_struct, "detail::is_signed"), (Gen.Gcc.is_unsigned_struct, "detail::is_unsigned")]

/-- the default/copy/move families: extracted entry ↦ the trait it is defined through and the template arguments that
    trait receives for `T := t`, in the standard's terms ([meta.unary.prop]: `is_copy_constructible_v<T>` is
    `is_constructible_v<T, const T&>` for a referenceable `T`, ...; `Spec.addLvalueReference` is "`T&` if referenceable,
    else `T`") -/
def familyTraits : List (Entry × String × (CType → List CType)) :=
  let dflt := fun t => [t]
  let copyC := fun t => [t, Spec.addLvalueReference (Spec.addConst t)]
  let moveC := fun t => [t, Spec.addRvalueReference t]
  let copyA := fun t => [Spec.addLvalueReference t, Spec.addLvalueReference (Spec.addConst t)]
  let moveA := fun t => [Spec.addLvalueReference t, Spec.addRvalueReference t]
  let swp := fun t => [Spec.addLvalueReference t, Spec.addLvalueReference t]
  [(Gen.Gcc.is_default_constructible_struct, "is_constructible", dflt),
   (Gen.Gcc.is_trivially_default_constructible_struct, "is_trivially_constructible", dflt),
   (Gen.Gcc.is_nothrow_default_constructible_struct, "is_nothrow_constructible", dflt),
   (Gen.Gcc.is_copy_constructible_struct, "is_constructible", copyC),
   (Gen.Gcc.is_trivially_copy_constructible_struct, "is_trivially_constructible", copyC),
   (Gen.Gcc.is_nothrow_copy_constructible_struct, "is_nothrow_constructible", copyC),
   (Gen.Gcc.is_move_constructible_struct, "is_constructible", moveC),
   (Gen.Gcc.is_trivially_move_constructible_struct, "is_trivially_constructible", moveC),
   (Gen.Gcc.is_nothrow_move_constructible_struct, "is_nothrow_constructible", moveC),
   (Gen.Gcc.is_copy_assignable_struct, "is_assignable", copyA),
   (Gen.Gcc.is_trivially_copy_assignable_struct, "is_trivially_assignable", copyA),
   (Gen.Gcc.is_nothrow_copy_assignable_struct, "is_nothrow_assignable", copyA),
   (Gen.Gcc.is_move_assignable_struct, "is_assignable", moveA),
   (Gen.Gcc.is_trivially_move_assignable_struct, "is_trivially_assignable", moveA),
   (Gen.Gcc.is_nothrow_move_assignable_struct, "is_nothrow_assignable", moveA),
   (Gen.Gcc.is_swappable_struct, "is_swappable_with", swp),
   (Gen.Gcc.is_nothrow_swappable_struct, "is_nothrow_swappable_with", swp)]

/-- names of `_v` variables that are not traits of the standard or wrap the class template's value in a cast -/
def notATraitVar : List String := ["extent", "index", "is_specialized"]

/-! ### numeric_limits: the hand model of Model.lean against the members as the header spells them -/

open Tetl.C15.LimExpr in
/-- how Model.lean classifies the specialisation of a type -/
def kindOf : String → IntKind
  | "bool" => .bool
  | "char" => .char
  | "char8_t" => .char8
  | _ => .plain

open Tetl.C15.LimExpr in
/-- all eight modelled members of `intLimits` (what the driver prints for R1) are the values the header's expressions
    evaluate to, without undefined behaviour -/
def modelOk (s : LimSpec) : Bool :=
  match typeInfo s.ty, ityOf s.ty with
  | some (_, bits, sg), some T =>
    let m := intLimits (kindOf s.ty) bits sg
    memberIs T s "is_signed" (Limits.b2i m.isSigned) && memberIs T s "digits" m.digits &&
    memberIs T s "digits10" m.digits10 && memberIs T s "min" m.min && memberIs T s "max" m.max &&
    memberIs T s "lowest" m.lowest && memberIs T s "is_modulo" (Limits.b2i m.isModulo) &&
    memberIs T s "traps" (Limits.b2i m.traps)
  | _, _ => false

end Tetl.C15.Defs
