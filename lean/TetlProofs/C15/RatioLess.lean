import Tetl.C15.Model
import Tetl.C15.Spec
import TetlProofs.C15.RatioDefs
import TetlProofs.C15.Lemmas
import Mathlib.Tactic.Linarith
import Mathlib.Tactic.Ring

namespace Tetl.C15.RC
open Tetl Tetl.C15

/-- an operand of a comparison: positive denominator, members in [-(2^63-1), 2^63-1] (lowest terms not needed) -/
def Ord (n d : Int) : Prop := 0 < d ∧ Spec.argOk n = true ∧ Spec.argOk d = true

/-- `x ∈ [-(2^63-1), 2^63-1]` with literal bounds (for `omega`) -/
def Rg (x : Int) : Prop := -9223372036854775807 ≤ x ∧ x ≤ 9223372036854775807

theorem rg_of_argOk {x : Int} (h : Spec.argOk x = true) : Rg x := by
  unfold Spec.argOk Spec.intmaxMax at h
  simp only [Bool.and_eq_true, decide_eq_true_eq] at h
  unfold Rg
  have : (2:Int)^63 = 9223372036854775808 := by norm_num
  rw [this] at h
  omega

theorem ck_ok {x : Int} (h1 : -9223372036854775808 ≤ x) (h2 : x ≤ 9223372036854775807) : ck x = .ok x := by
  apply ck_of_fits
  unfold fits
  simp only [C14.ITy.inR, imax, C14.ITy.min, C14.ITy.max, Bool.and_eq_true, decide_eq_true_eq, if_true]
  have : (2:Int)^(64-1) = 9223372036854775808 := by norm_num
  rw [this]
  omega

/-- bounds of the floor quotient -/
theorem ediv_bounds {n d : Int} (hd : 0 < d) : (0 ≤ n → 0 ≤ n / d ∧ n / d ≤ n) ∧ (n < 0 → n ≤ n / d ∧ n / d < 0) := by
  have h1 := Int.mul_ediv_add_emod n d
  have h2 := Int.emod_nonneg n (Int.ne_of_gt hd)
  have h3 := Int.emod_lt_of_pos n hd
  generalize n / d = q at *
  generalize n % d = f at *
  constructor
  · intro hn
    constructor
    · by_contra hq
      have : d * q ≤ d * (-1) := Int.mul_le_mul_of_nonneg_left (by omega) (Int.le_of_lt hd)
      omega
    · by_contra hq
      have hq0 : 0 ≤ q := by omega
      have : 1 * q ≤ d * q := Int.mul_le_mul_of_nonneg_right (by omega) hq0
      omega
  · intro hn
    constructor
    · by_contra hq
      have : d * (q + 1) ≤ 1 * (q + 1) := by
        have := Int.mul_le_mul_of_nonpos_right (show (1:Int) ≤ d by omega) (show q + 1 ≤ 0 by omega)
        exact this
      have e : d * (q + 1) = d * q + d := by ring
      omega
    · by_contra hq
      have : d * 0 ≤ d * q := Int.mul_le_mul_of_nonneg_left (by omega) (Int.le_of_lt hd)
      omega

theorem floorParts_eq {n d : Int} (hd : 0 < d) (hn : Rg n) (hdr : Rg d) :
    floorParts n d = .ok (n / d, n % d) := by
  unfold Rg at hn hdr
  unfold floorParts modI divI
  have hd0 : d ≠ 0 := Int.ne_of_gt hd
  have e1 := Int.mul_tdiv_add_tmod n d
  have e2 := Int.tmod_lt_of_pos n hd
  have e3 := Int.lt_tmod_of_pos n hd
  have b := @ediv_bounds n d hd
  have e4 : 0 ≤ n → 0 ≤ Int.tmod n d := fun h => Int.tmod_nonneg d h
  have hq : (0 ≤ Int.tmod n d → n / d = Int.tdiv n d ∧ n % d = Int.tmod n d) ∧
      (Int.tmod n d < 0 → n / d = Int.tdiv n d - 1 ∧ n % d = Int.tmod n d + d) := by
    constructor
    · intro h
      exact (Int.ediv_emod_unique hd).2 ⟨by omega, h, e2⟩
    · intro h
      refine (Int.ediv_emod_unique hd).2 ⟨?_, by omega, by omega⟩
      have : d * (Int.tdiv n d - 1) = d * Int.tdiv n d - d := by ring
      omega
  generalize Int.tdiv n d = t at *
  generalize Int.tmod n d = r at *
  generalize n / d = q at *
  generalize n % d = f at *
  have ht : ck t = .ok t := by
    apply ck_ok <;> omega
  simp only [hd0, if_false, ht, bind, Except.bind]
  by_cases hr : r < 0
  · have h := hq.2 hr
    have hc1 : ck (t - 1) = .ok (t - 1) := by apply ck_ok <;> omega
    have hc2 : ck (r + d) = .ok (r + d) := by apply ck_ok <;> omega
    simp only [hr, if_true, hc1, hc2]
    rw [h.1, h.2]
  · have h := hq.1 (by omega)
    simp only [hr, if_false]
    rw [h.1, h.2]

/-- different floors decide -/
theorem lt_of_floor_lt {d1 d2 q1 q2 f1 f2 : Int} (hd1 : 0 < d1) (hd2 : 0 < d2)
    (hf1 : f1 < d1) (hf2 : 0 ≤ f2) (hq : q1 < q2) :
    (d1 * q1 + f1) * d2 < (d2 * q2 + f2) * d1 := by
  have h1 : f1 * d2 < d1 * d2 := Int.mul_lt_mul_of_pos_right hf1 hd2
  have h2 : 0 ≤ f2 * d1 := Int.mul_nonneg hf2 (Int.le_of_lt hd1)
  have h3 : (d1 * d2) * (q1 + 1) ≤ (d1 * d2) * q2 :=
    Int.mul_le_mul_of_nonneg_left (by omega) (Int.le_of_lt (Int.mul_pos hd1 hd2))
  nlinarith [h1, h2, h3]

/-- equal floors: compare the fractional parts -/
theorem lt_iff_frac {d1 d2 q f1 f2 : Int} :
    (d1 * q + f1) * d2 < (d2 * q + f2) * d1 ↔ f1 * d2 < f2 * d1 := by
  have e : (d1 * q + f1) * d2 - (d2 * q + f2) * d1 = f1 * d2 - f2 * d1 := by ring
  constructor <;> intro h <;> linarith

theorem loop_eq : ∀ (fuel : Nat) (flip : Bool) (n1 d1 n2 d2 : Int), 0 < d1 → 0 < d2 → d1.toNat < fuel →
    Rg n1 → Rg d1 → Rg n2 → Rg d2 →
    ratioLessLoop fuel flip n1 d1 n2 d2 =
      .ok (if flip then decide (n2 * d1 < n1 * d2) else decide (n1 * d2 < n2 * d1)) := by
  intro fuel
  induction fuel with
  | zero => intro flip n1 d1 n2 d2 _ _ h; omega
  | succ fuel ih =>
    intro flip n1 d1 n2 d2 hd1 hd2 hfu hn1 hr1 hn2 hr2
    rw [ratioLessLoop, floorParts_eq hd1 hn1 hr1, floorParts_eq hd2 hn2 hr2]
    simp only [bind, Except.bind]
    have a1 := Int.mul_ediv_add_emod n1 d1
    have a2 := Int.emod_nonneg n1 (Int.ne_of_gt hd1)
    have a3 := Int.emod_lt_of_pos n1 hd1
    have b1 := Int.mul_ediv_add_emod n2 d2
    have b2 := Int.emod_nonneg n2 (Int.ne_of_gt hd2)
    have b3 := Int.emod_lt_of_pos n2 hd2
    generalize n1 / d1 = q1 at *
    generalize n1 % d1 = f1 at *
    generalize n2 / d2 = q2 at *
    generalize n2 % d2 = f2 at *
    subst a1 b1
    by_cases hq : q1 = q2
    · subst hq
      simp only [ne_eq, not_true_eq_false, if_false]
      simp only [lt_iff_frac]
      by_cases h1 : f1 = 0
      · subst h1
        simp only [Int.zero_mul]
        have l1 : 0 ≤ f2 * d1 := Int.mul_nonneg b2 (Int.le_of_lt hd1)
        have l2 : 0 < f2 * d1 ↔ f2 ≠ 0 := by
          constructor
          · intro h e; subst e; omega
          · intro h
            have := Int.mul_pos (show 0 < f2 by omega) hd1; omega
        cases flip <;> simp [l1, l2]
      · by_cases h2 : f2 = 0
        · subst h2
          simp only [Int.zero_mul]
          have l1 : 0 ≤ f1 * d2 := Int.mul_nonneg a2 (Int.le_of_lt hd2)
          have l2 : 0 < f1 * d2 := Int.mul_pos (show 0 < f1 by omega) hd2
          cases flip <;> simp [l1, l2, h1]
        · simp only [h1, h2, or_self, if_false]
          unfold Rg at hr1 hr2
          rw [ih (!flip) d1 f1 d2 f2 (by omega) (by omega) (by omega) hr1 (by unfold Rg; omega) hr2 (by unfold Rg; omega)]
          have c1 : d2 * f1 = f1 * d2 := Int.mul_comm _ _
          have c2 : d1 * f2 = f2 * d1 := Int.mul_comm _ _
          rw [c1, c2]
          cases flip <;> simp
    · simp only [ne_eq, hq, not_false_eq_true, if_true]
      rcases Int.lt_or_gt_of_ne hq with h | h
      · have l := lt_of_floor_lt hd1 hd2 a3 b2 h
        have l' : ¬ (d2 * q2 + f2) * d1 < (d1 * q1 + f1) * d2 := by omega
        have h' : ¬ q2 < q1 := by omega
        simp [h, h', l, l']
      · have l := lt_of_floor_lt hd2 hd1 b3 a2 h
        have l' : ¬ (d1 * q1 + f1) * d2 < (d2 * q2 + f2) * d1 := by omega
        have h' : ¬ q1 < q2 := by omega
        simp [h, h', l, l']

theorem ratioLess_eq (a b : Rat) (ha : Ord a.num a.den) (hb : Ord b.num b.den) :
    ratioLess a b = .ok (Spec.less a.q b.q) := by
  obtain ⟨ha0, ha1, ha2⟩ := ha
  obtain ⟨hb0, hb1, hb2⟩ := hb
  unfold ratioLess
  rw [loop_eq _ false _ _ _ _ ha0 hb0 (Nat.lt_succ_self _) (rg_of_argOk ha1) (rg_of_argOk ha2)
    (rg_of_argOk hb1) (rg_of_argOk hb2)]
  simp only [Spec.less, Rat.q, Bool.false_eq_true, if_false]
  exact congrArg _ (decide_eq_decide.2 Iff.rfl)

theorem ratioLessEqual_eq (a b : Rat) (ha : Ord a.num a.den) (hb : Ord b.num b.den) :
    ratioLessEqual a b = .ok (!Spec.less b.q a.q) := by
  unfold ratioLessEqual
  rw [ratioLess_eq b a hb ha]
  rfl

theorem ratioGreater_eq (a b : Rat) (ha : Ord a.num a.den) (hb : Ord b.num b.den) :
    ratioGreater a b = .ok (Spec.less b.q a.q) := by
  unfold ratioGreater
  exact ratioLess_eq b a hb ha

theorem ratioGreaterEqual_eq (a b : Rat) (ha : Ord a.num a.den) (hb : Ord b.num b.den) :
    ratioGreaterEqual a b = .ok (!Spec.less a.q b.q) := by
  unfold ratioGreaterEqual
  rw [ratioLess_eq a b ha hb]
  rfl

end Tetl.C15.RC
