import TetlProofs.C15.Lemmas
namespace Tetl.C15.Props
open Tetl Tetl.C15

/-- `is_same_v<T, U>` holds exactly for identical types -/
theorem isSame_iff (a b : CType) : M.isSame a b = true ↔ a = b := by
  unfold M.isSame; simp

end Tetl.C15.Props
