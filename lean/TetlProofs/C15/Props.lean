import TetlProofs.C15.Lemmas
import TetlProofs.C15.RatioAsm
import TetlProofs.C15.RatioLess
import TetlProofs.C15.RatioRat
namespace Tetl.C15.Props
open Tetl Tetl.C15 CType

macro "base_cases" b:ident q:ident : tactic =>
  `(tactic| (rcases $q:ident with ⟨_ | _, _ | _⟩ <;> cases $b:ident <;> rfl))

/-- after `remove_cv` the outermost constructor is unchanged and unqualified -/
macro "shape" : tactic =>
  `(tactic| simp (decide := true) [beqD, withCV, Spec.cat, CV.none, M.contains, M.integralList, M.isFunction, M.isConst,
      M.addConst, M.isReference, cvOf, Spec.isFunction])

theorem isVoid_eq (t : CType) : M.isVoid t = Spec.isVoid t := by
  unfold M.isVoid M.isSame; rw [M_removeCv_eq]; unfold Spec.removeCv Spec.isVoid
  cases t with
  | base b q => base_cases b q
  | mptr u q => cases u <;> shape
  | _ => shape

theorem isNullPointer_eq (t : CType) : M.isNullPointer t = Spec.isNullPointer t := by
  unfold M.isNullPointer M.isSame; rw [M_removeCv_eq]; unfold Spec.removeCv Spec.isNullPointer
  cases t with
  | base b q => base_cases b q
  | mptr u q => cases u <;> shape
  | _ => shape

theorem isIntegral_eq (t : CType) : M.isIntegral t = Spec.isIntegral t := by
  unfold M.isIntegral; rw [M_removeCv_eq]; unfold Spec.removeCv Spec.isIntegral
  cases t with
  | base b q => base_cases b q
  | mptr u q => cases u <;> shape
  | _ => shape

theorem isFloatingPoint_eq (t : CType) : M.isFloatingPoint t = Spec.isFloatingPoint t := by
  unfold M.isFloatingPoint; rw [M_removeCv_eq]; unfold Spec.removeCv Spec.isFloatingPoint
  cases t with
  | base b q => base_cases b q
  | mptr u q => cases u <;> shape
  | _ => shape

theorem isArray_eq (t : CType) : M.isArray t = Spec.isArray t := by
  unfold M.isArray Spec.isArray
  cases t with
  | base b q => cases b <;> rfl
  | mptr u q => cases u <;> rfl
  | _ => rfl

theorem isEnum_eq (t : CType) : M.isEnum t = Spec.isEnum t := by
  unfold M.isEnum Spec.isEnum
  cases t with
  | base b q => cases b <;> rfl
  | mptr u q => cases u <;> rfl
  | _ => rfl

theorem isClass_eq (t : CType) : M.isClass t = Spec.isClass t := by
  unfold M.isClass Spec.isClass
  cases t with
  | base b q => cases b <;> rfl
  | mptr u q => cases u <;> rfl
  | _ => rfl

theorem isUnion_eq (t : CType) : M.isUnion t = Spec.isUnion t := by
  unfold M.isUnion Spec.isUnion
  cases t with
  | base b q => cases b <;> rfl
  | mptr u q => cases u <;> rfl
  | _ => rfl

/-- `not is_const_v<T const> and not is_reference_v<T>` singles out the function types among the
    well-formed types -/
theorem isFunction_eq (t : CType) (h : wf t = true) : M.isFunction t = Spec.isFunction t := by
  unfold M.isFunction M.isConst M.addConst Spec.isFunction
  rw [cvOf_withCV]
  cases t with
  | base b q => cases b <;> simp (decide := true) [cvable, Spec.cat, Spec.baseCat, M.isReference]
  | mptr u q => cases u <;> simp (decide := true) [cvable, Spec.cat, M.isReference]
  | arr u n =>
    have hc : cvable (arr u n) = true := cvable_of_wf h rfl rfl
    simp (decide := true) [hc, Spec.cat, M.isReference]
  | uarr u =>
    have hc : cvable (uarr u) = true := cvable_of_wf h rfl rfl
    simp (decide := true) [hc, Spec.cat, M.isReference]
  | _ => simp (decide := true) [cvable, Spec.cat, M.isReference, CV.none]

theorem isPointer_eq (t : CType) : M.isPointer t = Spec.isPointer t := by
  unfold M.isPointer; rw [M_removeCv_eq]; unfold Spec.removeCv Spec.isPointer
  cases t with
  | base b q => cases b <;> rfl
  | mptr u q => cases u <;> rfl
  | _ => simp (decide := true) [withCV, Spec.cat, CV.none]

theorem isLvalueReference_eq (t : CType) : M.isLvalueReference t = Spec.isLvalueReference t := by
  unfold M.isLvalueReference Spec.isLvalueReference
  cases t with
  | base b q => cases b <;> rfl
  | mptr u q => cases u <;> rfl
  | _ => rfl

theorem isRvalueReference_eq (t : CType) : M.isRvalueReference t = Spec.isRvalueReference t := by
  unfold M.isRvalueReference Spec.isRvalueReference
  cases t with
  | base b q => cases b <;> rfl
  | mptr u q => cases u <;> rfl
  | _ => rfl

theorem isMemberPointer_eq (t : CType) : M.isMemberPointer t = Spec.isMemberPointer t := by
  unfold M.isMemberPointer; rw [M_removeCv_eq]
  unfold Spec.removeCv Spec.isMemberPointer Spec.isMemberObjectPointer Spec.isMemberFunctionPointer
  cases t with
  | base b q => cases b <;> rfl
  | mptr u q => cases u <;> rfl
  | _ => simp (decide := true) [withCV, Spec.cat, CV.none]

theorem isMemberFunctionPointer_eq (t : CType) (h : wf t = true) :
    M.isMemberFunctionPointer t = Spec.isMemberFunctionPointer t := by
  unfold M.isMemberFunctionPointer; rw [M_removeCv_eq]
  unfold Spec.removeCv Spec.isMemberFunctionPointer
  cases t with
  | base b q => cases b <;> rfl
  | mptr u q =>
    have hu : wf u = true := by simp only [wf, Bool.and_eq_true] at h; exact h.1.1
    have := isFunction_eq u hu
    simp only [withCV, CV.none]
    rw [this]; unfold Spec.isFunction
    rw [cat_function, cat_mptr]
  | _ => simp (decide := true) [withCV, Spec.cat, CV.none]

theorem isMemberObjectPointer_eq (t : CType) (h : wf t = true) :
    M.isMemberObjectPointer t = Spec.isMemberObjectPointer t := by
  unfold M.isMemberObjectPointer
  rw [isMemberPointer_eq, isMemberFunctionPointer_eq t h]
  unfold Spec.isMemberPointer Spec.isMemberObjectPointer Spec.isMemberFunctionPointer
  cases Spec.cat t <;> rfl

/-! ### composite categories ([meta.unary.comp]) and properties -/

theorem isReference_eq (t : CType) : M.isReference t = Spec.isReference t := by
  unfold M.isReference Spec.isReference Spec.isLvalueReference Spec.isRvalueReference
  cases t with
  | base b q => cases b <;> rfl
  | mptr u q => cases u <;> rfl
  | _ => rfl

theorem isArithmetic_eq (t : CType) : M.isArithmetic t = Spec.isArithmetic t := by
  unfold M.isArithmetic Spec.isArithmetic; rw [isIntegral_eq, isFloatingPoint_eq]

theorem isFundamental_eq (t : CType) : M.isFundamental t = Spec.isFundamental t := by
  unfold M.isFundamental Spec.isFundamental; rw [isArithmetic_eq, isVoid_eq, isNullPointer_eq]

/-- `is_compound = not is_fundamental` agrees with the standard's enumeration of the compound categories -/
theorem isCompound_eq (t : CType) : M.isCompound t = Spec.isCompound t := by
  unfold M.isCompound; rw [isFundamental_eq]
  unfold Spec.isCompound Spec.isFundamental Spec.isArithmetic Spec.isIntegral Spec.isFloatingPoint Spec.isVoid
    Spec.isNullPointer Spec.isArray Spec.isFunction Spec.isPointer Spec.isReference Spec.isLvalueReference
    Spec.isRvalueReference Spec.isClass Spec.isUnion Spec.isEnum Spec.isMemberPointer Spec.isMemberObjectPointer
    Spec.isMemberFunctionPointer
  cases Spec.cat t <;> rfl

theorem isScalar_eq (t : CType) : M.isScalar t = Spec.isScalar t := by
  unfold M.isScalar Spec.isScalar
  rw [isArithmetic_eq, isEnum_eq, isPointer_eq, isMemberPointer_eq, isNullPointer_eq]

/-- `is_scalar or is_array or is_union or is_class` is "not a function, not a reference, not void" -/
theorem isObject_eq (t : CType) : M.isObject t = Spec.isObject t := by
  unfold M.isObject; rw [isScalar_eq, isArray_eq, isUnion_eq, isClass_eq]
  unfold Spec.isObject Spec.isScalar Spec.isArithmetic Spec.isIntegral Spec.isFloatingPoint Spec.isVoid
    Spec.isNullPointer Spec.isArray Spec.isFunction Spec.isPointer Spec.isReference Spec.isLvalueReference
    Spec.isRvalueReference Spec.isClass Spec.isUnion Spec.isEnum Spec.isMemberPointer Spec.isMemberObjectPointer
    Spec.isMemberFunctionPointer
  cases Spec.cat t <;> rfl

theorem isConst_eq (t : CType) : M.isConst t = Spec.isConst t := rfl
theorem isVolatile_eq (t : CType) : M.isVolatile t = Spec.isVolatile t := rfl

theorem isSigned_eq (t : CType) : M.isSigned t = Spec.isSigned t := by
  unfold M.isSigned; simp only [isArithmetic_eq, M_removeCv_eq]; unfold Spec.removeCv
  cases t with
  | base b q => base_cases b q
  | _ => simp (decide := true) [withCV, Spec.isSigned, Spec.isArithmetic, Spec.isIntegral, Spec.isFloatingPoint, Spec.cat]

theorem isUnsigned_eq (t : CType) : M.isUnsigned t = Spec.isUnsigned t := by
  unfold M.isUnsigned; simp only [isArithmetic_eq, M_removeCv_eq]; unfold Spec.removeCv
  cases t with
  | base b q => base_cases b q
  | _ => simp (decide := true) [withCV, Spec.isUnsigned, Spec.isArithmetic, Spec.isIntegral, Spec.isFloatingPoint, Spec.cat]

theorem isBoundedArray_eq (t : CType) : M.isBoundedArray t = Spec.isBoundedArray t := by
  cases t <;> rfl
theorem isUnboundedArray_eq (t : CType) : M.isUnboundedArray t = Spec.isUnboundedArray t := by
  cases t <;> rfl

theorem isScopedEnum_eq (t : CType) : M.isScopedEnum t = Spec.isScopedEnum t := by
  cases t with
  | base b q => cases b <;> rfl
  | _ => rfl

theorem integral_eq (t : CType) : M.integral t = Spec.integral t := isIntegral_eq t
theorem floatingPoint_eq (t : CType) : M.floatingPoint t = Spec.floatingPoint t := isFloatingPoint_eq t
theorem signedIntegral_eq (t : CType) : M.signedIntegral t = Spec.signedIntegral t := by
  unfold M.signedIntegral Spec.signedIntegral M.integral; rw [isIntegral_eq, isSigned_eq]
/-- `integral and is_unsigned` is `integral and not signed_integral` -/
theorem unsignedIntegral_eq (t : CType) : M.unsignedIntegral t = Spec.unsignedIntegral t := by
  unfold M.unsignedIntegral Spec.unsignedIntegral Spec.signedIntegral M.integral; rw [isIntegral_eq, isUnsigned_eq]
  cases t with
  | base b q => cases b <;> rfl
  | mptr u q => cases u <;> rfl
  | _ => rfl

theorem rank_eq (t : CType) : M.rank t = Spec.rank t := by
  induction t with
  | arr u n ih => simp [M.rank, Spec.rank, Spec.dims] at *; exact ih
  | uarr u ih => simp [M.rank, Spec.rank, Spec.dims] at *; exact ih
  | _ => rfl

theorem extent_eq (t : CType) (i : Nat) : M.extent t i = Spec.extent t i := by
  induction t generalizing i with
  | arr u n ih => cases i with
    | zero => simp [M.extent, Spec.extent, Spec.dims]
    | succ k => simpa [M.extent, Spec.extent, Spec.dims] using ih k
  | uarr u ih => cases i with
    | zero => simp [M.extent, Spec.extent, Spec.dims]
    | succ k => simpa [M.extent, Spec.extent, Spec.dims] using ih k
  | _ => cases i <;> simp [M.extent, Spec.extent, Spec.dims]

/-! ### transformations ([meta.trans]) -/

theorem removeConst_eq (t : CType) : M.removeConst t = Spec.removeConst t := M_removeConst_eq t
theorem removeVolatile_eq (t : CType) : M.removeVolatile t = Spec.removeVolatile t := M_removeVolatile_eq t
/-- `remove_const_t<remove_volatile_t<T>>` removes exactly the top-level cv-qualifiers -/
theorem removeCv_eq (t : CType) : M.removeCv t = Spec.removeCv t := M_removeCv_eq t

theorem removeReference_eq (t : CType) : M.removeReference t = Spec.removeReference t := by
  cases t <;> rfl
theorem removePointer_eq (t : CType) : M.removePointer t = Spec.removePointer t := by
  cases t <;> rfl
theorem removeExtent_eq (t : CType) : M.removeExtent t = Spec.removeExtent t := by
  cases t <;> rfl
theorem removeAllExtents_eq (t : CType) : M.removeAllExtents t = Spec.removeAllExtents t := by
  induction t with
  | arr u n ih => simpa [M.removeAllExtents, Spec.removeAllExtents] using ih
  | uarr u ih => simpa [M.removeAllExtents, Spec.removeAllExtents] using ih
  | _ => rfl

/-- `remove_cvref_t<T>` is `remove_cv_t<remove_reference_t<T>>` -/
theorem removeCvref_eq (t : CType) : M.removeCvref t = Spec.removeCv (Spec.removeReference t) := by
  unfold M.removeCvref; rw [removeCv_eq, removeReference_eq]
theorem typeIdentity_eq (t : CType) : M.typeIdentity t = t := rfl


theorem addConst_eq (t : CType) : M.addConst t = Spec.addConst t := by
  unfold M.addConst Spec.addConst Spec.isConst
  rw [← isReference_eq, ← isFunction_spec_isFn]
  cases t with
  | lref u => rfl
  | rref u => rfl
  | fn r a q rq ne => rfl
  | _ =>
    simp only [M.isReference, isFn, Bool.false_or]
    split
    · rename_i h
      exact withCV_setC _ h
    · rfl

theorem addVolatile_eq (t : CType) : M.addVolatile t = Spec.addVolatile t := by
  unfold M.addVolatile Spec.addVolatile Spec.isVolatile
  rw [← isReference_eq, ← isFunction_spec_isFn]
  cases t with
  | lref u => rfl
  | rref u => rfl
  | fn r a q rq ne => rfl
  | _ =>
    simp only [M.isReference, isFn, Bool.false_or]
    split
    · rename_i h
      exact withCV_setV _ h
    · rfl

/-- reference collapsing ([dcl.ref]/6) as performed by `add_lvalue_reference` / `add_rvalue_reference` -/
theorem reference_collapsing (u : CType) :
    M.addLvalueReference (lref u) = lref u ∧ M.addLvalueReference (rref u) = lref u ∧
    M.addRvalueReference (lref u) = lref u ∧ M.addRvalueReference (rref u) = rref u := by
  simp [M.addLvalueReference, M.addRvalueReference, mkLref, mkRref]

/-- the SFINAE helper `try_add_lvalue_reference` picks `T&` exactly for the referenceable types -/
theorem addLvalueReference_eq (t : CType) (h : wf t = true) : M.addLvalueReference t = Spec.addLvalueReference t := by
  unfold M.addLvalueReference Spec.addLvalueReference Spec.referenceable Spec.isObject
  rw [← isReference_eq, ← isFunction_spec_isFn, ← isVoid_spec]
  cases t with
  | lref u => simp [mkLref, M.isReference]
  | rref u => simp [mkLref, M.isReference]
  | fn r a q rq ne => simp only [mkLref, wf_lref, h, M.isReference, isFn, isRef, CType.isVoid]; cases hq : isQualFn (fn r a q rq ne) <;> simp
  | base b q => cases b <;> simp [mkLref, wf, M.isReference, isFn, isRef, CType.isVoid, isQualFn]
  | _ => simp_all [mkLref, wf, M.isReference, isFn, isRef, CType.isVoid, isQualFn]

theorem addRvalueReference_eq (t : CType) (h : wf t = true) : M.addRvalueReference t = Spec.addRvalueReference t := by
  unfold M.addRvalueReference Spec.addRvalueReference Spec.referenceable Spec.isObject
  rw [← isReference_eq, ← isFunction_spec_isFn, ← isVoid_spec]
  cases t with
  | lref u => simp [mkRref, M.isReference]
  | rref u => simp [mkRref, M.isReference]
  | fn r a q rq ne => simp only [mkRref, wf_rref, h, M.isReference, isFn, isRef, CType.isVoid]; cases hq : isQualFn (fn r a q rq ne) <;> simp
  | base b q => cases b <;> simp [mkRref, wf, M.isReference, isFn, isRef, CType.isVoid, isQualFn]
  | _ => simp_all [mkRref, wf, M.isReference, isFn, isRef, CType.isVoid, isQualFn]

/-- `try_add_pointer` forms `remove_reference_t<T>*` exactly for the referenceable types and cv void -/
theorem addPointer_eq (t : CType) (h : wf t = true) : M.addPointer t = Spec.addPointer t := by
  unfold M.addPointer Spec.addPointer Spec.referenceable Spec.isObject
  rw [← isReference_eq, ← isFunction_spec_isFn, ← isVoid_spec, ← removeReference_eq]
  cases t with
  | lref u => simp_all [mkPtr, wf, M.isReference, M.removeReference, isFn, isRef, CType.isVoid]
  | rref u => simp_all [mkPtr, wf, M.isReference, M.removeReference, isFn, isRef, CType.isVoid]
  | fn r a q rq ne => simp only [mkPtr, wf_ptr, h, M.isReference, M.removeReference, isFn, isRef, CType.isVoid]; cases hq : isQualFn (fn r a q rq ne) <;> simp
  | base b q => cases b <;> simp [mkPtr, wf, M.isReference, M.removeReference, isFn, isRef, CType.isVoid, isQualFn]
  | _ => simp_all [mkPtr, wf, M.isReference, M.removeReference, isFn, isRef, CType.isVoid, isQualFn]


/-- [meta.unary.cat]: every well-formed type is in exactly one of the fourteen primary categories, as tetl
    computes them -/
theorem exactly_one_primary_category (t : CType) (h : wf t = true) :
    ([M.isVoid t, M.isNullPointer t, M.isIntegral t, M.isFloatingPoint t, M.isArray t, M.isPointer t,
      M.isLvalueReference t, M.isRvalueReference t, M.isMemberObjectPointer t, M.isMemberFunctionPointer t,
      M.isEnum t, M.isUnion t, M.isClass t, M.isFunction t].count true) = 1 := by
  rw [isVoid_eq, isNullPointer_eq, isIntegral_eq, isFloatingPoint_eq, isArray_eq, isPointer_eq, isLvalueReference_eq,
    isRvalueReference_eq, isMemberObjectPointer_eq t h, isMemberFunctionPointer_eq t h, isEnum_eq, isUnion_eq, isClass_eq,
    isFunction_eq t h]
  unfold Spec.isVoid Spec.isNullPointer Spec.isIntegral Spec.isFloatingPoint Spec.isArray Spec.isPointer
    Spec.isLvalueReference Spec.isRvalueReference Spec.isMemberObjectPointer Spec.isMemberFunctionPointer Spec.isEnum
    Spec.isUnion Spec.isClass Spec.isFunction
  cases Spec.cat t <;> rfl

/-- `is_same_v<T, U>` holds exactly for identical types; `same_as` is symmetric by construction -/
theorem isSame_iff (a b : CType) : M.isSame a b = true ↔ a = b := by
  unfold M.isSame; simp [beqD]
theorem sameAs_eq (a b : CType) : M.sameAs a b = Spec.isSame a b := by
  unfold M.sameAs M.isSame Spec.isSame; simp only [beqD]
  by_cases h : a = b <;> simp [h, eq_comm]

theorem decay_eq (t : CType) (h : wf t = true) : M.decay t = Spec.decay t := by
  have hu : wf (M.removeReference t) = true := by
    cases t <;> simp_all [M.removeReference, wf_lref, wf_rref]
  unfold M.decay Spec.decay
  simp only [← removeReference_eq]
  generalize M.removeReference t = u at hu
  rw [isArray_eq, isFunction_eq u hu, removeCv_eq, addPointer_eq u hu]
  cases u with
  | arr e n =>
    simp only [wf, Bool.and_eq_true, Bool.not_eq_true', bne_iff_ne] at hu
    have hr : isRef e = false := hu.1.1.1.2
    have hf : isFn e = false := hu.1.2
    have hq : isQualFn e = false := by cases e <;> simp_all [isQualFn, isFn]
    have he : M.removeReference e = e := by cases e <;> simp_all [M.removeReference, isRef]
    simp [Spec.isArray, Spec.cat, M.removeExtent, Spec.removeExtent, M.addPointer, mkPtr, wf_ptr, he, hu.1.1.1.1.1, hr, hq]
  | uarr e =>
    simp only [wf, Bool.and_eq_true, Bool.not_eq_true'] at hu
    have hr : isRef e = false := hu.1.1.1.2
    have hf : isFn e = false := hu.1.2
    have hq : isQualFn e = false := by cases e <;> simp_all [isQualFn, isFn]
    have he : M.removeReference e = e := by cases e <;> simp_all [M.removeReference, isRef]
    simp [Spec.isArray, Spec.cat, M.removeExtent, Spec.removeExtent, M.addPointer, mkPtr, wf_ptr, he, hu.1.1.1.1, hr, hq]
  | base b q => cases b <;> rfl
  | mptr v q => cases v <;> rfl
  | _ => rfl

/-- `decay` is idempotent ([meta.trans.other]: the result is never a reference, an array or a function type, and has no
    top-level cv-qualifiers) -/
theorem decay_idempotent (t : CType) (h : wf t = true) : M.decay (M.decay t) = M.decay t := by
  have hu : wf (M.removeReference t) = true := by
    cases t <;> simp_all [M.removeReference, wf_lref, wf_rref]
  have hnr : isRef (M.removeReference t) = false := by
    cases t <;> simp_all [M.removeReference, wf, isRef]
  unfold M.decay
  generalize M.removeReference t = u at hu hnr
  cases u with
  | lref e => simp [isRef] at hnr
  | rref e => simp [isRef] at hnr
  | base b q => rcases q with ⟨_ | _, _ | _⟩ <;> cases b <;> rfl
  | ptr e q => rcases q with ⟨_ | _, _ | _⟩ <;> rfl
  | mptr e q => rcases q with ⟨_ | _, _ | _⟩ <;> cases e <;> rfl
  | arr e n =>
    simp only [wf, Bool.and_eq_true, Bool.not_eq_true', bne_iff_ne] at hu
    have hr : isRef e = false := hu.1.1.1.2
    have hf : isFn e = false := hu.1.2
    have hq : isQualFn e = false := by cases e <;> simp_all [isQualFn, isFn]
    have he : M.removeReference e = e := by cases e <;> simp_all [M.removeReference, isRef]
    have hp : mkPtr e = some (ptr e CV.none) := by simp [mkPtr, wf_ptr, hu.1.1.1.1.1, hr, hq]
    have h1 : M.addPointer e = ptr e CV.none := by unfold M.addPointer; rw [he, hp]
    simp only [M.isArray, M.removeExtent, ↓reduceIte, h1]
    rfl
  | uarr e =>
    simp only [wf, Bool.and_eq_true, Bool.not_eq_true'] at hu
    have hr : isRef e = false := hu.1.1.1.2
    have hf : isFn e = false := hu.1.2
    have hq : isQualFn e = false := by cases e <;> simp_all [isQualFn, isFn]
    have he : M.removeReference e = e := by cases e <;> simp_all [M.removeReference, isRef]
    have hp : mkPtr e = some (ptr e CV.none) := by simp [mkPtr, wf_ptr, hu.1.1.1.1, hr, hq]
    have h1 : M.addPointer e = ptr e CV.none := by unfold M.addPointer; rw [he, hp]
    simp only [M.isArray, M.removeExtent, ↓reduceIte, h1]
    rfl
  | fn r a q rq ne =>
    cases hq : isQualFn (fn r a q rq ne)
    · have hp : mkPtr (fn r a q rq ne) = some (ptr (fn r a q rq ne) CV.none) := by simp [mkPtr, wf_ptr, hu, hq, isRef]
      have h1 : M.addPointer (fn r a q rq ne) = ptr (fn r a q rq ne) CV.none := by
        unfold M.addPointer; simp only [M.removeReference]; rw [hp]
      have h2 : M.isFunction (fn r a q rq ne) = true := rfl
      simp only [M.isArray, h2, ↓reduceIte, h1, Bool.false_eq_true]
      rfl
    · have hp : mkPtr (fn r a q rq ne) = none := by simp [mkPtr, wf_ptr, hu, hq, isRef]
      have h1 : M.addPointer (fn r a q rq ne) = fn r a q rq ne := by
        unfold M.addPointer; simp only [M.removeReference]; rw [hp]
      have h2 : M.isFunction (fn r a q rq ne) = true := rfl
      simp only [M.isArray, h2, ↓reduceIte, h1, Bool.false_eq_true, M.removeReference]
example : M.decay (M.decay (lref (arr (base .int ⟨true, false⟩) 3))) = M.decay (lref (arr (base .int ⟨true, false⟩) 3)) := by decide

/-! ### sign modifications and underlying type ([meta.trans.sign], [meta.trans.other]) -/

/-- `make_signed<T>` as tetl computes it (explicit specialisations for the standard integer types, `make_signed_by_size`
    for enumerations and `wchar_t`, `char8_t`, `char16_t`, `char32_t`, cv copied by `make_signed_copy_cv`) names the type
    [meta.trans.sign] prescribes - the corresponding signed integer type, for enumerations and character types the signed
    integer type of smallest rank with the same size - and is ill-formed for exactly the same types (`okOf` erases the
    reason), for every type of the grammar -/
theorem makeSigned_eq (t : CType) : okOf (M.makeSigned t) = okOf (Spec.makeSigned t) := by
  by_cases h : ∃ b q, t = base b q
  · obtain ⟨b, q, rfl⟩ := h; exact makeSigned_base b q
  · have h' : ∀ b q, t ≠ base b q := fun b q e => h ⟨b, q, e⟩
    unfold M.makeSigned Spec.makeSigned
    rw [M_makeSignLike_nonbase _ _ t h', S_makeSignLike_nonbase _ _ t h']

theorem makeUnsigned_eq (t : CType) : okOf (M.makeUnsigned t) = okOf (Spec.makeUnsigned t) := by
  by_cases h : ∃ b q, t = base b q
  · obtain ⟨b, q, rfl⟩ := h; exact makeUnsigned_base b q
  · have h' : ∀ b q, t ≠ base b q := fun b q e => h ⟨b, q, e⟩
    unfold M.makeUnsigned Spec.makeUnsigned
    rw [M_makeSignLike_nonbase _ _ t h', S_makeSignLike_nonbase _ _ t h']

/-- sample evaluations (tests): an enumeration with an 8-byte underlying type maps to `unsigned long` / `long`, the
    smallest rank of that size on LP64 (not `unsigned long long`), cv-qualifiers are kept -/
example : M.makeUnsigned (base .enumL ⟨true, false⟩) = .ok (base .ulong ⟨true, false⟩) := by decide
example : M.makeUnsigned (base .enumULL CV.none) = .ok (base .ulong CV.none) := by decide
example : M.makeSigned (base .enumULL ⟨false, true⟩) = .ok (base .long ⟨false, true⟩) := by decide
example : M.makeSigned (base .ullong CV.none) = .ok (base .llong CV.none) := by decide

/-- `underlying_type<T>`: no member `type` unless `T` is an enumeration; the fixed underlying type where there is one;
    an integral type where the choice is the implementation's (`enum EU { … }`) -/
theorem underlyingType_eq (t : CType) :
    match Spec.underlyingType t with
    | none => M.underlyingType t = none
    | some none => ∃ u, M.underlyingType t = some u ∧ Spec.isIntegral u = true
    | some (some u) => M.underlyingType t = some u := by
  cases t with
  | base b q => rcases q with ⟨_ | _, _ | _⟩ <;> cases b <;> first | rfl | exact ⟨_, rfl, rfl⟩
  | _ => rfl

/-! ### numeric_limits of the integer types -/

/-- the closed forms of the hand model `intLimits` (Model.lean; what the driver prints for R1) are the mathematical
    values, for every width: `max = 2^digits − 1`, `min = −2^digits` (signed) or `0`, `digits` = value bits, `is_modulo`
    iff unsigned.  This is a statement about the MODEL's formula; that the header's own spelling (`<climits>` macros,
    literals, the shift expression of `detail::integer_numeric_limits`) has these values is
    `limits_spelled_members_eq` / `limits_template_eq` / `limits_model_eq_spelled` in PropsGen.lean. -/
theorem intLimits_eq (bits : Nat) (sg : Bool) :
    let m := intLimits .plain bits sg
    let s := Spec.intLimits false bits sg
    m.isSigned = s.isSigned ∧ m.digits = s.digits ∧ m.min = s.min ∧ m.max = s.max ∧ m.lowest = s.lowest ∧
      m.isModulo = s.isModulo := by
  cases sg <;> simp [intLimits, Spec.intLimits]

theorem intLimits_char_eq (bits : Nat) (sg : Bool) :
    let m := intLimits .char bits sg
    let s := Spec.intLimits false bits sg
    m.isSigned = s.isSigned ∧ m.digits = s.digits ∧ m.min = s.min ∧ m.max = s.max ∧ m.lowest = s.lowest ∧
      m.isModulo = s.isModulo := by
  cases sg <;> simp [intLimits, Spec.intLimits]

/-- `numeric_limits<bool>` and `numeric_limits<char8_t>` (literal members) on an 8-bit byte -/
theorem intLimits_bool_char8 :
    (let m := intLimits .bool 8 false; let s := Spec.intLimits true 8 false;
      m.isSigned = s.isSigned ∧ m.digits = s.digits ∧ m.digits10 = s.digits10 ∧ m.min = s.min ∧ m.max = s.max ∧
      m.isModulo = s.isModulo) ∧
    (let m := intLimits .char8 8 false; let s := Spec.intLimits false 8 false;
      m.isSigned = s.isSigned ∧ m.digits = s.digits ∧ m.digits10 = s.digits10 ∧ m.min = s.min ∧ m.max = s.max ∧
      m.isModulo = s.isModulo) := by decide

/-- `traps`: every integer specialisation except `numeric_limits<bool>` says `true`, like the reference libstdc++ -/
theorem intLimits_traps_partial (k : IntKind) (bits : Nat) (sg : Bool) (h : k ≠ .bool) :
    (intLimits k bits sg).traps = Spec.intTraps false := by
  cases k <;> first | exact absurd rfl h | rfl
example : IntKind.char8 ≠ IntKind.bool := by decide
/-- … and `numeric_limits<bool>::traps` is `false` where libstdc++ says `true` (known finding
    F-C15-limits-bool-traps: the member is implementation-defined, libc++ and MSVC agree with tetl) -/
theorem intLimits_traps_counterexample : (intLimits .bool 8 false).traps ≠ Spec.intTraps true := by decide

/-- `digits10 = digits * 3 / 10` is `⌊digits · log10 2⌋` (the largest `k` with `10^k ≤ 2^digits`) for every
    width below 103 value bits — complete finite check -/
theorem digits10_eq_floor_log (d : Nat) (h : d < 103) : 10 ^ (d * 3 / 10) ≤ 2 ^ d ∧ 2 ^ d < 10 ^ (d * 3 / 10 + 1) := by
  have : ∀ d : Fin 103, 10 ^ (d.val * 3 / 10) ≤ 2 ^ d.val ∧ 2 ^ d.val < 10 ^ (d.val * 3 / 10 + 1) := by decide
  exact this ⟨d, h⟩

/-- … and agrees with the specification's search on every width that occurs (up to 128-bit types) -/
theorem digits10_eq_spec (d : Nat) (h : d < 103) : d * 3 / 10 = Spec.log10Floor (2 ^ d) d := by
  have : ∀ d : Fin 103, d.val * 3 / 10 = Spec.log10Floor (2 ^ d.val) d.val := by decide
  exact this ⟨d, h⟩

/-- the approximation 3/10 for log10 2 stops being exact at 103 value bits -/
theorem digits10_counterexample : ¬ (2 ^ 103 < 10 ^ (103 * 3 / 10 + 1)) := by decide

/-! ### ratio ([ratio.ratio], [ratio.arithmetic], [ratio.comparison]) — after the three `fix:` commits

`Rat.Valid r`: `r` is what an instantiated `ratio<N, D>` is (`mkRatio_valid`): lowest terms, positive denominator, members
in `[-INTMAX_MAX, INTMAX_MAX]`.  `Rat.ofQ q` is the specialisation `ratio<q.1, q.2>` whose members equal its template
arguments.  `Spec.add/sub/mul/div` return the exact rational result in lowest terms, or an error iff a member of it is not
representable (or the divisor is zero); `isErr` = "the instantiation is ill-formed". -/

/-- `Spec.reduce n d` is `n/d` in lowest terms with a positive denominator -/
theorem reduce_lowest_terms (n d : Int) (hd : d ≠ 0) :
    0 < (Spec.reduce n d).2 ∧ Int.gcd (Spec.reduce n d).1 (Spec.reduce n d).2 = 1 ∧
    (Spec.reduce n d).1 * d = n * (Spec.reduce n d).2 := RA.reduce_spec n d hd

/-- `ratio<n, d>`: the members are `n/d` in lowest terms with a positive denominator, for all template arguments the
    standard admits (`d ≠ 0`, both in `[-INTMAX_MAX, INTMAX_MAX]`) -/
theorem mkRatio_eq (n d : Int) (hn : Spec.argOk n = true) (hd : Spec.argOk d = true) (h0 : d ≠ 0) :
    mkRatio n d = .ok ⟨(Spec.reduce n d).1, (Spec.reduce n d).2, n, d⟩ := RA.mkRatio_eq n d hn hd h0
example : Spec.argOk (-6) = true ∧ Spec.argOk (-4) = true ∧ (-4 : Int) ≠ 0 ∧ Spec.reduce (-6) (-4) = (3, 2) := by decide

/-- … and ill-formed for every other pair of `intmax_t` arguments (`ratio<N, 0>`, `INTMAX_MIN`) -/
theorem mkRatio_illformed (n d : Int) (hn : inI n) (hd : inI d)
    (h : ¬ (Spec.argOk n = true ∧ Spec.argOk d = true ∧ d ≠ 0)) : isErr (mkRatio n d) := RA.mkRatio_err n d hn hd h
example : inI 1 ∧ inI 0 ∧ ¬ (Spec.argOk 1 = true ∧ Spec.argOk 0 = true ∧ (0 : Int) ≠ 0) := by decide

/-- every instantiated `ratio` is `Valid` -/
theorem mkRatio_valid (n d : Int) (r : Rat) (hn : inI n) (hd : inI d) (h : mkRatio n d = .ok r) :
    r.Valid ∧ r.tn = n ∧ r.td = d ∧ r.q = Spec.reduce n d := RA.mkRatio_valid n d r hn hd h

/-- `R::type` names the specialisation whose template arguments are its members -/
theorem ratioType_canonical (r : Rat) (h : r.Valid) :
    r.type = .ok (Rat.ofQ r.q) ∧ (Rat.ofQ r.q).canonical = true :=
  ⟨RA.type_eq r h, by simp [Rat.canonical, Rat.ofQ]⟩
example : (⟨-3, 4, 6, -8⟩ : Rat).Valid := by decide

/-- `ratio_add<R1, R2>` is the specialisation of the exact sum in lowest terms whenever that sum is representable:
    no intermediate of `detail::ratio_add_impl` overflows -/
theorem ratioAdd_eq (a b : Rat) (ha : a.Valid) (hb : b.Valid) (q : Spec.Q) (h : Spec.add a.q b.q = .ok q) :
    ratioAdd a b = .ok (Rat.ofQ q) := RatioAsm.ratioAdd_ok a b ha hb q h
/-- … and ill-formed whenever it is not -/
theorem ratioAdd_illformed (a b : Rat) (ha : a.Valid) (hb : b.Valid) (h : isErr (Spec.add a.q b.q)) :
    isErr (ratioAdd a b) := RatioAsm.ratioAdd_err a b ha hb h
/-- the witness of the former finding F-C15-ratio-intermediate-overflow: 1/2^62 + 1/2^62 = 1/2^61 -/
example : (⟨1, 2 ^ 62, 1, 2 ^ 62⟩ : Rat).Valid ∧ Spec.add ((1 : Int), (2 : Int) ^ 62) (1, 2 ^ 62) = .ok (1, 2 ^ 61) := by decide
/-- non-vacuity of the ill-formed case: INTMAX_MAX + 1 -/
example : isErr (Spec.add ((2 : Int) ^ 63 - 1, (1 : Int)) (1, 1)) := by decide

theorem ratioSub_eq (a b : Rat) (ha : a.Valid) (hb : b.Valid) (q : Spec.Q) (h : Spec.sub a.q b.q = .ok q) :
    ratioSub a b = .ok (Rat.ofQ q) := RatioAsm.ratioSub_ok a b ha hb q h
theorem ratioSub_illformed (a b : Rat) (ha : a.Valid) (hb : b.Valid) (h : isErr (Spec.sub a.q b.q)) :
    isErr (ratioSub a b) := RatioAsm.ratioSub_err a b ha hb h
/-- a Bezout-type cancellation: 2^62/(2^31-1) - (2^62+2^31+1)/2^31 … sample hypothesis evaluation (a test) -/
example : Spec.sub ((7 : Int), (12 : Int)) (1, 4) = .ok (1, 3) := by decide

/-- `ratio_multiply<R1, R2>` (common factors cancelled first) -/
theorem ratioMul_eq (a b : Rat) (ha : a.Valid) (hb : b.Valid) (q : Spec.Q) (h : Spec.mul a.q b.q = .ok q) :
    ratioMul a b = .ok (Rat.ofQ q) := RA.ratioMul_ok a b ha hb q h
theorem ratioMul_illformed (a b : Rat) (ha : a.Valid) (hb : b.Valid) (h : isErr (Spec.mul a.q b.q)) :
    isErr (ratioMul a b) := RA.ratioMul_err a b ha hb h
/-- 2^62 * 1/2^62 = 1 (the unreduced product 2^124 is not representable) -/
example : (⟨2 ^ 62, 1, 2 ^ 62, 1⟩ : Rat).Valid ∧ Spec.mul ((2 : Int) ^ 62, (1 : Int)) (1, 2 ^ 62) = .ok (1, 1) := by decide

/-- `ratio_divide<R1, R2>`; division by a zero ratio is ill-formed (`Spec.div` is an error then) -/
theorem ratioDiv_eq (a b : Rat) (ha : a.Valid) (hb : b.Valid) (q : Spec.Q) (h : Spec.div a.q b.q = .ok q) :
    ratioDiv a b = .ok (Rat.ofQ q) := RA.ratioDiv_ok a b ha hb q h
theorem ratioDiv_illformed (a b : Rat) (ha : a.Valid) (hb : b.Valid) (h : isErr (Spec.div a.q b.q)) :
    isErr (ratioDiv a b) := RA.ratioDiv_err a b ha hb h
example : isErr (Spec.div ((1 : Int), (2 : Int)) (0, 1)) ∧ Spec.div ((1 : Int), (2 : Int)) (-3, 4) = .ok (-2, 3) := by decide

/-- `ratio_equal` (member-wise comparison) is equality of the rational numbers -/
theorem ratioEqual_eq (a b : Rat) (ha : a.Valid) (hb : b.Valid) : ratioEqual a b = Spec.equal a.q b.q :=
  RA.ratioEqual_eq a b ha hb
theorem ratioNotEqual_eq (a b : Rat) (ha : a.Valid) (hb : b.Valid) : ratioNotEqual a b = !Spec.equal a.q b.q := by
  unfold ratioNotEqual; rw [RA.ratioEqual_eq a b ha hb]

/-- the ordering traits compare the exact rational numbers for all operands (`detail::ratio_less_impl` forms no product,
    terminates within `R1::den + 1` iterations and never overflows) -/
theorem ratioLess_eq (a b : Rat) (ha : a.Valid) (hb : b.Valid) : ratioLess a b = .ok (Spec.less a.q b.q) :=
  RC.ratioLess_eq a b ⟨ha.1, ha.2.2⟩ ⟨hb.1, hb.2.2⟩
theorem ratioLessEqual_eq (a b : Rat) (ha : a.Valid) (hb : b.Valid) : ratioLessEqual a b = .ok (!Spec.less b.q a.q) :=
  RC.ratioLessEqual_eq a b ⟨ha.1, ha.2.2⟩ ⟨hb.1, hb.2.2⟩
theorem ratioGreater_eq (a b : Rat) (ha : a.Valid) (hb : b.Valid) : ratioGreater a b = .ok (Spec.less b.q a.q) :=
  RC.ratioGreater_eq a b ⟨ha.1, ha.2.2⟩ ⟨hb.1, hb.2.2⟩
theorem ratioGreaterEqual_eq (a b : Rat) (ha : a.Valid) (hb : b.Valid) : ratioGreaterEqual a b = .ok (!Spec.less a.q b.q) :=
  RC.ratioGreaterEqual_eq a b ⟨ha.1, ha.2.2⟩ ⟨hb.1, hb.2.2⟩
/-- the witness of the former wrap-around: 2^62 < 1/2^62 is false -/
example : (⟨1, 2 ^ 62, 1, 2 ^ 62⟩ : Rat).Valid ∧ Spec.less ((2 : Int) ^ 62, (1 : Int)) (1, 2 ^ 62) = false := by decide

/-! #### the same statements against Mathlib's rational numbers `ℚ` (a reference that shares nothing with the model)

`RQ.rval r = r.num / r.den : ℚ`; `RQ.Representable x`: numerator and denominator of the lowest-terms form of `x`
(`x.num`, `x.den`, Mathlib's normal form: coprime, positive denominator) lie in `[-INTMAX_MAX, INTMAX_MAX]`. -/

/-- `ratio<n, d>` is a valid specialisation (lowest terms, positive denominator: `mkRatio_valid`) of value `n / d` -/
theorem mkRatio_rat (n d : Int) (hn : Spec.argOk n = true) (hd : Spec.argOk d = true) (h0 : d ≠ 0) :
    ∃ r, mkRatio n d = .ok r ∧ r.Valid ∧ RQ.rval r = (n : ℚ) / (d : ℚ) := RQ.mkRatio_rat n d hn hd h0
/-- the members of a valid specialisation are `num` and `den` of its value in `ℚ` -/
theorem valid_num_den (r : Rat) (h : r.Valid) : (RQ.rval r).num = r.num ∧ ((RQ.rval r).den : Int) = r.den :=
  RQ.valid_num_den r h

/-- `ratio_add`: exact addition in `ℚ`, the canonical specialisation in lowest terms, exactly when the sum is representable;
    ill-formed otherwise -/
theorem ratioAdd_rat (a b : Rat) (ha : a.Valid) (hb : b.Valid) :
    (RQ.Representable (RQ.rval a + RQ.rval b) →
      ∃ r, ratioAdd a b = .ok r ∧ r.Valid ∧ r.canonical = true ∧ RQ.rval r = RQ.rval a + RQ.rval b) ∧
    (¬ RQ.Representable (RQ.rval a + RQ.rval b) → isErr (ratioAdd a b)) := RQ.ratioAdd_rat a b ha hb
theorem ratioSub_rat (a b : Rat) (ha : a.Valid) (hb : b.Valid) :
    (RQ.Representable (RQ.rval a - RQ.rval b) →
      ∃ r, ratioSub a b = .ok r ∧ r.Valid ∧ r.canonical = true ∧ RQ.rval r = RQ.rval a - RQ.rval b) ∧
    (¬ RQ.Representable (RQ.rval a - RQ.rval b) → isErr (ratioSub a b)) := RQ.ratioSub_rat a b ha hb
theorem ratioMul_rat (a b : Rat) (ha : a.Valid) (hb : b.Valid) :
    (RQ.Representable (RQ.rval a * RQ.rval b) →
      ∃ r, ratioMul a b = .ok r ∧ r.Valid ∧ r.canonical = true ∧ RQ.rval r = RQ.rval a * RQ.rval b) ∧
    (¬ RQ.Representable (RQ.rval a * RQ.rval b) → isErr (ratioMul a b)) := RQ.ratioMul_rat a b ha hb
theorem ratioDiv_rat (a b : Rat) (ha : a.Valid) (hb : b.Valid) :
    (b.num ≠ 0 → RQ.Representable (RQ.rval a / RQ.rval b) →
      ∃ r, ratioDiv a b = .ok r ∧ r.Valid ∧ r.canonical = true ∧ RQ.rval r = RQ.rval a / RQ.rval b) ∧
    (b.num = 0 ∨ ¬ RQ.Representable (RQ.rval a / RQ.rval b) → isErr (ratioDiv a b)) := RQ.ratioDiv_rat a b ha hb

/-- the six comparison traits are the comparisons of `ℚ`, for all valid operands -/
theorem ratioEqual_rat (a b : Rat) (ha : a.Valid) (hb : b.Valid) : ratioEqual a b = decide (RQ.rval a = RQ.rval b) :=
  RQ.ratioEqual_rat a b ha hb
theorem ratioNotEqual_rat (a b : Rat) (ha : a.Valid) (hb : b.Valid) : ratioNotEqual a b = decide (RQ.rval a ≠ RQ.rval b) :=
  RQ.ratioNotEqual_rat a b ha hb
theorem ratioLess_rat (a b : Rat) (ha : a.Valid) (hb : b.Valid) : ratioLess a b = .ok (decide (RQ.rval a < RQ.rval b)) :=
  RQ.ratioLess_rat a b ha hb
theorem ratioLessEqual_rat (a b : Rat) (ha : a.Valid) (hb : b.Valid) :
    ratioLessEqual a b = .ok (decide (RQ.rval a ≤ RQ.rval b)) := RQ.ratioLessEqual_rat a b ha hb
theorem ratioGreater_rat (a b : Rat) (ha : a.Valid) (hb : b.Valid) :
    ratioGreater a b = .ok (decide (RQ.rval a > RQ.rval b)) := RQ.ratioGreater_rat a b ha hb
theorem ratioGreaterEqual_rat (a b : Rat) (ha : a.Valid) (hb : b.Valid) :
    ratioGreaterEqual a b = .ok (decide (RQ.rval a ≥ RQ.rval b)) := RQ.ratioGreaterEqual_rat a b ha hb

/-! ### non-vacuity: the hypotheses hold on non-trivial values -/

/-- `wf` holds for a pointer to member function with cv- and ref-qualifiers, an lvalue reference to an array of
    unknown bound of arrays of const pointers, and a noexcept function returning a reference -/
example : wf (mptr (fn (base .int CV.none) .a1 ⟨true, false⟩ .lref true) ⟨false, true⟩) = true := by decide
example : wf (lref (uarr (arr (ptr (base .cls ⟨true, false⟩) ⟨true, false⟩) 2))) = true := by decide
example : wf (fn (lref (base .cls ⟨true, false⟩)) .a2 CV.none .none true) = true := by decide
/-- … and fails for a reference to a qualified function type and an array of references -/
example : wf (lref (fn (base .void CV.none) .a0 ⟨true, false⟩ .none false)) = false := by decide
example : wf (arr (lref (base .int CV.none)) 3) = false := by decide
/-- the width hypothesis: every builtin type (up to 64 value bits) is below 103 -/
example : (64 : Nat) < 103 := by decide
/-- sample evaluations (tests, not proofs): decay of `const int (&)[3]`, of `void() const &&`, make-pointer of a reference -/
example : M.decay (lref (arr (base .int ⟨true, false⟩) 3)) = ptr (base .int ⟨true, false⟩) CV.none := by decide
example : M.decay (fn (base .void CV.none) .a0 ⟨true, false⟩ .rref false) = fn (base .void CV.none) .a0 ⟨true, false⟩ .rref false := by decide
example : M.addPointer (rref (base .cls CV.none)) = ptr (base .cls CV.none) CV.none := by decide

end Tetl.C15.Props
