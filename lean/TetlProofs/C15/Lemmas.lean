import Tetl.C15.Model
import Tetl.C15.Spec
namespace Tetl.C15
end Tetl.C15
