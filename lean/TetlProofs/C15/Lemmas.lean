import Tetl.C15.Model
import Tetl.C15.Spec
namespace Tetl.C15
open CType

/-- the types that can carry cv-qualifiers of their own (everything but references and functions) -/
def cvable : CType → Bool
  | lref _ | rref _ | fn .. => false
  | arr t _ | uarr t => cvable t
  | _ => true

theorem withCV_cvOf (t : CType) : withCV t (cvOf t) = t := by
  induction t with
  | arr t n ih => simp [withCV, cvOf, ih]
  | uarr t ih => simp [withCV, cvOf, ih]
  | _ => simp [withCV, cvOf]

theorem cvOf_withCV (t : CType) (q : CV) : cvOf (withCV t q) = cond (cvable t) q CV.none := by
  induction t with
  | arr t n ih => simpa [withCV, cvOf, cvable] using ih
  | uarr t ih => simpa [withCV, cvOf, cvable] using ih
  | _ => simp [withCV, cvOf, cvable]

theorem withCV_withCV (t : CType) (q q' : CV) : withCV (withCV t q) q' = withCV t q' := by
  induction t with
  | arr t n ih => simp [withCV, ih]
  | uarr t ih => simp [withCV, ih]
  | _ => simp [withCV]

theorem cvOf_not_cvable {t : CType} (h : cvable t = false) : cvOf t = CV.none := by
  induction t with
  | arr t n ih => simp_all [cvable, cvOf]
  | uarr t ih => simp_all [cvable, cvOf]
  | _ => simp_all [cvable, cvOf]

theorem withCV_not_cvable {t : CType} (h : cvable t = false) (q : CV) : withCV t q = t := by
  induction t with
  | arr t n ih => simp_all [cvable, withCV]
  | uarr t ih => simp_all [cvable, withCV]
  | _ => simp_all [cvable, withCV]

theorem M_removeConst_eq (t : CType) : M.removeConst t = Spec.removeConst t := by
  unfold M.removeConst Spec.removeConst
  split
  · rfl
  · rename_i h
    have : (⟨false, (cvOf t).v⟩ : CV) = cvOf t := by
      cases hq : cvOf t with | mk c v => simp_all
    rw [this, withCV_cvOf]

theorem M_removeVolatile_eq (t : CType) : M.removeVolatile t = Spec.removeVolatile t := by
  unfold M.removeVolatile Spec.removeVolatile
  split
  · rfl
  · rename_i h
    have : (⟨(cvOf t).c, false⟩ : CV) = cvOf t := by
      cases hq : cvOf t with | mk c v => simp_all
    rw [this, withCV_cvOf]

theorem M_removeCv_eq (t : CType) : M.removeCv t = Spec.removeCv t := by
  unfold M.removeCv
  rw [M_removeConst_eq, M_removeVolatile_eq]
  unfold Spec.removeConst Spec.removeVolatile Spec.removeCv
  rw [withCV_withCV, cvOf_withCV]
  cases h : cvable t
  · rw [withCV_not_cvable h, withCV_not_cvable h]
  · rfl


theorem beqD {α : Type} [DecidableEq α] (a b : α) : (a == b) = decide (a = b) := rfl

/-- a well-formed type that is neither a reference nor a function can be cv-qualified -/
theorem cvable_of_wf {t : CType} (h : wf t = true) (hr : isRef t = false) (hf : isFn t = false) : cvable t = true := by
  induction t with
  | arr u n ih =>
    simp only [wf, Bool.and_eq_true, Bool.not_eq_true'] at h
    exact ih h.1.1.1.1.1 h.1.1.1.2 h.1.2
  | uarr u ih =>
    simp only [wf, Bool.and_eq_true, Bool.not_eq_true'] at h
    exact ih h.1.1.1.1 h.1.1.1.2 h.1.2
  | _ => simp_all [cvable, isRef, isFn]

theorem cat_function (u : CType) : (Spec.cat u == Spec.Cat.function) = isFn u := by
  cases u with
  | base b q => cases b <;> rfl
  | mptr v q => cases v <;> rfl
  | _ => rfl

theorem cat_mptr (u : CType) (q : CV) : (Spec.cat (mptr u q) == Spec.Cat.memberFunctionPointer) = isFn u := by
  cases u <;> rfl

theorem isFunction_spec_isFn (t : CType) : isFn t = Spec.isFunction t := by
  unfold Spec.isFunction; rw [cat_function]

theorem isVoid_spec (t : CType) : CType.isVoid t = Spec.isVoid t := by
  cases t with
  | base b q => cases b <;> rfl
  | mptr u q => cases u <;> rfl
  | _ => rfl

theorem wf_lref (t : CType) : wf (lref t) = (wf t && !isRef t && !CType.isVoid t && !isQualFn t) := by rw [wf]
theorem wf_rref (t : CType) : wf (rref t) = (wf t && !isRef t && !CType.isVoid t && !isQualFn t) := by rw [wf]
theorem wf_ptr (t : CType) (q : CV) : wf (ptr t q) = (wf t && !isRef t && !isQualFn t) := by rw [wf]

theorem withCV_setC (t : CType) (h : (cvOf t).c = true) : withCV t ⟨true, (cvOf t).v⟩ = t := by
  have : (⟨true, (cvOf t).v⟩ : CV) = cvOf t := by
    cases hq : cvOf t with | mk c v => simp_all
  rw [this, withCV_cvOf]

theorem withCV_setV (t : CType) (h : (cvOf t).v = true) : withCV t ⟨(cvOf t).c, true⟩ = t := by
  have : (⟨(cvOf t).c, true⟩ : CV) = cvOf t := by
    cases hq : cvOf t with | mk c v => simp_all
  rw [this, withCV_cvOf]

/-- the value is representable in `intmax_t` -/
def fits (x : Int) : Bool := imax.inR x

theorem ck_of_fits {x : Int} (h : fits x = true) : ck x = .ok x := by
  unfold ck C14.arith; simp [imax, fits] at *; simp [h]


/-! ### make_signed / make_unsigned -/

/-- the result of a transformation trait, the reason of an ill-formed instantiation erased -/
def okOf {α : Type} : Except Err α → Option α
  | .ok a => some a
  | .error _ => none

theorem M_makeSignLike_nonbase (bySize : Nat → Base) (table : Base → Option Base) (t : CType)
    (h : ∀ b q, t ≠ base b q) : okOf (M.makeSignLike bySize table t) = none := by
  unfold M.makeSignLike
  rw [M_removeCv_eq]
  cases t with
  | base b q => exact absurd rfl (h b q)
  | ptr u q => simp [Spec.removeCv, withCV, M.usesSize, M.isEnum, M.isSame, okOf]
  | mptr u q => simp [Spec.removeCv, withCV, M.usesSize, M.isEnum, M.isSame, okOf]
  | lref u => simp [Spec.removeCv, withCV, M.usesSize, M.isEnum, M.isSame, okOf]
  | rref u => simp [Spec.removeCv, withCV, M.usesSize, M.isEnum, M.isSame, okOf]
  | arr u n => simp [Spec.removeCv, withCV, M.usesSize, M.isEnum, M.isSame, okOf]
  | uarr u => simp [Spec.removeCv, withCV, M.usesSize, M.isEnum, M.isSame, okOf]
  | fn r a q rq ne => simp [Spec.removeCv, withCV, M.usesSize, M.isEnum, M.isSame, okOf]

theorem S_makeSignLike_nonbase (want other : List (Base × Nat)) (t : CType)
    (h : ∀ b q, t ≠ base b q) : okOf (Spec.makeSignLike want other t) = none := by
  cases t with
  | base b q => exact absurd rfl (h b q)
  | _ => rfl

theorem makeSigned_base (b : Base) (q : CV) :
    okOf (M.makeSigned (base b q)) = okOf (Spec.makeSigned (base b q)) := by
  rcases q with ⟨_ | _, _ | _⟩ <;> cases b <;> decide

theorem makeUnsigned_base (b : Base) (q : CV) :
    okOf (M.makeUnsigned (base b q)) = okOf (Spec.makeUnsigned (base b q)) := by
  rcases q with ⟨_ | _, _ | _⟩ <;> cases b <;> decide


end Tetl.C15
