/-
C15 (a) ratio — `ratio<N, D>`, `ratio_multiply`, `ratio_divide`, `ratio_equal` against the specification.
-/
import Mathlib.Data.Int.GCD
import Mathlib.Tactic.Ring
import Mathlib.Tactic.Linarith
import Mathlib.Tactic.LinearCombination
import Mathlib.RingTheory.Coprime.Lemmas
import Tetl.C15.Model
import Tetl.C15.Spec
import TetlProofs.C14.Props
import TetlProofs.C15.RatioDefs
import TetlProofs.C15.Lemmas
namespace Tetl.C15.RA
open Tetl Tetl.C15

/-! ## lowest terms -/

theorem gcd_pos_of_right (n d : Int) (hd : d ≠ 0) : 0 < ((Int.gcd n d : Nat) : Int) := by
  have : 0 < Int.gcd n d := Int.gcd_pos_of_ne_zero_right _ hd
  exact_mod_cast this

/-- the two components of `reduce`, with the gcd made explicit -/
theorem reduce_parts (n d : Int) (hd : d ≠ 0) :
    ∃ g a b : Int, 0 < g ∧ n = g * a ∧ d = g * b ∧ Int.gcd a b = 1 ∧ g = ((Int.gcd n d : Nat) : Int) ∧
      Spec.reduce n d = (if d < 0 then -a else a, if d < 0 then -b else b) := by
  have hg := gcd_pos_of_right n d hd
  have hgn : 0 < Int.gcd n d := by exact_mod_cast hg
  obtain ⟨a, ha⟩ := Int.gcd_dvd_left n d
  obtain ⟨b, hb⟩ := Int.gcd_dvd_right n d
  have hco : Int.gcd (n / ((Int.gcd n d : Nat) : Int)) (d / ((Int.gcd n d : Nat) : Int)) = 1 :=
    Int.gcd_div_gcd_div_gcd hgn
  refine ⟨((Int.gcd n d : Nat) : Int), a, b, hg, ha, hb, ?_, rfl, ?_⟩
  · generalize ((Int.gcd n d : Nat) : Int) = g at *
    rw [ha, hb, Int.mul_ediv_cancel_left _ (by omega), Int.mul_ediv_cancel_left _ (by omega)] at hco
    exact hco
  · unfold Spec.reduce
    dsimp only
    generalize ((Int.gcd n d : Nat) : Int) = g at *
    have hg0 : g ≠ 0 := by omega
    by_cases hneg : d < 0
    · simp only [if_pos hneg]
      have e1 : -n = g * (-a) := by rw [ha]; ring
      have e2 : -d = g * (-b) := by rw [hb]; ring
      rw [e1, e2, Int.mul_ediv_cancel_left _ hg0, Int.mul_ediv_cancel_left _ hg0]
    · simp only [if_neg hneg]
      rw [ha, hb, Int.mul_ediv_cancel_left _ hg0, Int.mul_ediv_cancel_left _ hg0]

/-- `Spec.reduce` is lowest terms with a positive denominator and the same rational number -/
theorem reduce_spec (n d : Int) (hd : d ≠ 0) :
    0 < (Spec.reduce n d).2 ∧ Int.gcd (Spec.reduce n d).1 (Spec.reduce n d).2 = 1 ∧
    (Spec.reduce n d).1 * d = n * (Spec.reduce n d).2 := by
  obtain ⟨g, a, b, hg, ha, hb, hco, -, hr⟩ := reduce_parts n d hd
  rw [hr]
  by_cases hneg : d < 0
  · simp only [if_pos hneg]
    refine ⟨?_, ?_, ?_⟩
    · have : g * b < 0 := by rw [← hb]; exact hneg
      have : b < 0 := by
        by_contra hc
        have : 0 ≤ g * b := Int.mul_nonneg (by omega) (by omega)
        omega
      omega
    · rw [Int.neg_gcd, Int.gcd_neg]; exact hco
    · rw [ha, hb]; ring
  · simp only [if_neg hneg]
    refine ⟨?_, hco, ?_⟩
    · have h1 : 0 < g * b := by rw [← hb]; omega
      by_contra hc
      have : g * b ≤ 0 := Int.mul_nonpos_of_nonneg_of_nonpos (by omega) (by omega)
      omega
    · rw [ha, hb]; ring

/-- two fractions in lowest terms with positive denominators that are equal as rationals coincide -/
theorem lowest_unique (p q p' q' : Int) (hq : 0 < q) (hq' : 0 < q') (hg : Int.gcd p q = 1) (hg' : Int.gcd p' q' = 1)
    (h : p * q' = p' * q) : p = p' ∧ q = q' := by
  have d1 : q ∣ q' := by
    have : q ∣ p * q' := ⟨p', by rw [h]; ring⟩
    exact Int.dvd_of_dvd_mul_right_of_gcd_one this (by rw [Int.gcd_comm]; exact hg)
  have d2 : q' ∣ q := by
    have : q' ∣ p' * q := ⟨p, by rw [← h]; ring⟩
    exact Int.dvd_of_dvd_mul_right_of_gcd_one this (by rw [Int.gcd_comm]; exact hg')
  have e : q = q' := Int.dvd_antisymm (by omega) (by omega) d1 d2
  subst e
  exact ⟨Int.eq_of_mul_eq_mul_right (by omega) h, rfl⟩

/-- lowest terms are unique: `reduce` depends only on the rational number -/
theorem reduce_congr (n d n' d' : Int) (hd : d ≠ 0) (hd' : d' ≠ 0) (h : n * d' = n' * d) :
    Spec.reduce n d = Spec.reduce n' d' := by
  obtain ⟨h1, h2, h3⟩ := reduce_spec n d hd
  obtain ⟨h1', h2', h3'⟩ := reduce_spec n' d' hd'
  generalize Spec.reduce n d = r at *
  generalize Spec.reduce n' d' = r' at *
  obtain ⟨p, q⟩ := r
  obtain ⟨p', q'⟩ := r'
  dsimp only at *
  have key : (p * q') * (d * d') = (p' * q) * (d * d') := by
    linear_combination (q' * d') * h3 - (q * d) * h3' + (q * q') * h
  have hdd : d * d' ≠ 0 := Int.mul_ne_zero hd hd'
  have := lowest_unique p q p' q' h1 h1' h2 h2' (Int.eq_of_mul_eq_mul_right hdd key)
  rw [this.1, this.2]

/-- a pair already in lowest terms with positive denominator is its own reduction -/
theorem reduce_self (n d : Int) (hd : 0 < d) (hg : Int.gcd n d = 1) : Spec.reduce n d = (n, d) := by
  unfold Spec.reduce
  dsimp only
  rw [hg, if_neg (by omega), if_neg (by omega)]
  simp

/-! ## the primitives of the model -/

theorem p63 : (2:Int)^63 = 9223372036854775808 := by norm_num

theorem argOk_iff (x : Int) : Spec.argOk x = true ↔ -9223372036854775807 ≤ x ∧ x ≤ 9223372036854775807 := by
  simp only [Spec.argOk, Spec.intmaxMax, Bool.and_eq_true, decide_eq_true_eq, p63]
  omega

theorem inI_iff (x : Int) : inI x ↔ -9223372036854775808 ≤ x ∧ x ≤ 9223372036854775807 := by
  simp only [inI, p63]
  omega

theorem imax_min : imax.min = -9223372036854775808 := by decide
theorem imax_max : imax.max = 9223372036854775807 := by decide

theorem imax_inR (x : Int) : imax.inR x = true ↔ inI x := by
  rw [C14.inR_iff, imax_min, imax_max, inI_iff]

theorem ck_ok {x : Int} (h : inI x) : ck x = .ok x :=
  C14.arith_ok imax (by decide) x ((imax_inR x).mpr h)

theorem ck_err {x : Int} (h : ¬ inI x) : isErr (ck x) := by
  have : imax.inR x = false := by
    rw [← imax_inR] at h
    simpa using h
  unfold ck C14.arith
  rw [this]
  simp [imax, C14.ub, isErr]

theorem inI_of_argOk {x : Int} (h : Spec.argOk x = true) : inI x := by
  rw [argOk_iff] at h; rw [inI_iff]; omega

theorem gcd_imax (n d : Int) (hn : Spec.argOk n = true) (hd : Spec.argOk d = true) :
    C14.gcd imax imax n d = .ok ((Int.gcd n d : Nat) : Int) := by
  rw [argOk_iff] at hn hd
  have hc : C14.ITy.common imax imax = imax := by decide
  have := C14.Props.gcd_eq imax imax (by decide) (by decide) n d (by rw [hc, imax_max]; omega) (by rw [hc, imax_max]; omega)
  rw [this]; rfl

theorem mul_bound (g c : Int) (hg : 0 < g) : (0 ≤ c → c ≤ g * c) ∧ (c ≤ 0 → g * c ≤ c) := by
  constructor
  · intro hc
    have : 0 ≤ (g - 1) * c := Int.mul_nonneg (by omega) hc
    have e : (g - 1) * c = g * c - c := by ring
    omega
  · intro hc
    have : (g - 1) * c ≤ 0 := Int.mul_nonpos_of_nonneg_of_nonpos (by omega) hc
    have e : (g - 1) * c = g * c - c := by ring
    omega

/-- an exact quotient by a positive number is no larger than the dividend -/
theorem ediv_bound (p g : Int) (hg : 0 < g) (hdvd : g ∣ p) (lo hi : Int) (hlo : lo ≤ 0) (hhi : 0 ≤ hi)
    (h1 : lo ≤ p) (h2 : p ≤ hi) : lo ≤ p / g ∧ p / g ≤ hi := by
  obtain ⟨c, rfl⟩ := hdvd
  rw [Int.mul_ediv_cancel_left _ (by omega)]
  have := mul_bound g c hg
  generalize g * c = x at *
  omega

/-- an exact division by a positive number never fails -/
theorem divI_ok (p g : Int) (hg : 0 < g) (hdvd : g ∣ p) (hp : inI p) : divI p g = .ok (p / g) := by
  unfold divI
  rw [if_neg (by omega), Int.tdiv_eq_ediv_of_dvd hdvd]
  apply ck_ok
  rw [inI_iff] at *
  exact ediv_bound p g hg hdvd _ _ (by omega) (by omega) hp.1 hp.2

theorem absI_ok (n : Int) (hn : Spec.argOk n = true) : absI n = .ok (if n < 0 then -n else n) := by
  rw [argOk_iff] at hn
  unfold absI
  by_cases h : n < 0
  · rw [if_neg (by omega), if_pos h]
    have : n * (-1) = -n := by ring
    rw [this]
    exact ck_ok (by rw [inI_iff]; omega)
  · rw [if_pos (by omega), if_neg h]

theorem isErr_bind {α β : Type} (x : Except Err α) (f : α → Except Err β) (h : isErr x) : isErr (x >>= f) := by
  cases x with
  | error e => exact trivial
  | ok a => exact h.elim

theorem gcdI_dvd_left (n d : Int) : ((Int.gcd n d : Nat) : Int) ∣ n := Int.gcd_dvd_left n d
theorem gcdI_dvd_right (n d : Int) : ((Int.gcd n d : Nat) : Int) ∣ d := Int.gcd_dvd_right n d

theorem ratioNum_eq (n d : Int) (hn : Spec.argOk n = true) (hd : Spec.argOk d = true) (h0 : d ≠ 0) :
    ratioNum n d = .ok ((if d < 0 then -n else n) / ((Int.gcd n d : Nat) : Int)) := by
  have hg := gcd_pos_of_right n d h0
  have hn' := (argOk_iff n).mp hn
  unfold ratioNum
  rw [gcd_imax n d hn hd, absI_ok n hn]
  have hs : ck (sign n * sign d) = .ok (sign n * sign d) := by
    apply ck_ok
    rw [inI_iff]
    unfold sign
    by_cases a : n < 0 <;> by_cases b : d < 0 <;> simp only [a, b, if_true, if_false] <;> omega
  have hp : sign n * sign d * (if n < 0 then -n else n) = if d < 0 then -n else n := by
    unfold sign
    by_cases a : n < 0 <;> by_cases b : d < 0 <;> simp only [a, b, if_true, if_false] <;> ring
  have hpi : inI (if d < 0 then -n else n) := by
    rw [inI_iff]; split <;> omega
  simp only [hs, bind, Except.bind, hp, ck_ok hpi]
  apply divI_ok _ _ hg _ hpi
  split
  · exact (Int.dvd_neg).mpr (gcdI_dvd_left n d)
  · exact gcdI_dvd_left n d

theorem ratioDen_eq (n d : Int) (hn : Spec.argOk n = true) (hd : Spec.argOk d = true) (h0 : d ≠ 0) :
    ratioDen n d = .ok ((if d < 0 then -d else d) / ((Int.gcd n d : Nat) : Int)) := by
  have hg := gcd_pos_of_right n d h0
  have hd' := (argOk_iff d).mp hd
  unfold ratioDen
  rw [gcd_imax n d hn hd, absI_ok d hd]
  have hpi : inI (if d < 0 then -d else d) := by
    rw [inI_iff]; split <;> omega
  simp only [bind, Except.bind]
  apply divI_ok _ _ hg _ hpi
  split
  · exact (Int.dvd_neg).mpr (gcdI_dvd_right n d)
  · exact gcdI_dvd_right n d

/-- `ratio<n, d>` has the members `Spec.reduce n d` -/
theorem mkRatio_eq (n d : Int) (hn : Spec.argOk n = true) (hd : Spec.argOk d = true) (h0 : d ≠ 0) :
    mkRatio n d = .ok ⟨(Spec.reduce n d).1, (Spec.reduce n d).2, n, d⟩ := by
  unfold mkRatio
  rw [if_neg h0, ratioNum_eq n d hn hd h0, ratioDen_eq n d hn hd h0]
  rfl

theorem sign_ck (n d : Int) : ck (sign n * sign d) = .ok (sign n * sign d) := by
  apply ck_ok
  rw [inI_iff]
  unfold sign
  by_cases a : n < 0 <;> by_cases b : d < 0 <;> simp only [a, b, if_true, if_false] <;> omega

theorem absI_err (n : Int) (h : n = -9223372036854775808) : isErr (absI n) := by
  unfold absI
  rw [if_neg (by omega)]
  apply ck_err
  rw [inI_iff]; omega

/-- … and is ill-formed for every other pair of `intmax_t` template arguments (zero denominator, INTMAX_MIN) -/
theorem mkRatio_err (n d : Int) (hn : inI n) (hd : inI d)
    (h : ¬ (Spec.argOk n = true ∧ Spec.argOk d = true ∧ d ≠ 0)) : isErr (mkRatio n d) := by
  unfold mkRatio
  by_cases h0 : d = 0
  · rw [if_pos h0]; exact trivial
  rw [if_neg h0]
  by_cases an : Spec.argOk n = true
  · have ad : ¬ Spec.argOk d = true := fun c => h ⟨an, c, h0⟩
    have hdv : d = -9223372036854775808 := by rw [argOk_iff] at ad; rw [inI_iff] at hd; omega
    have hden : isErr (ratioDen n d) := by
      unfold ratioDen
      exact isErr_bind _ _ (absI_err d hdv)
    cases hnum : ratioNum n d with
    | error e => exact trivial
    | ok a => exact isErr_bind (ratioDen n d) _ hden
  · have hnv : n = -9223372036854775808 := by rw [argOk_iff] at an; rw [inI_iff] at hn; omega
    have hnum : isErr (ratioNum n d) := by
      unfold ratioNum
      rw [sign_ck]
      exact isErr_bind (absI n) _ (absI_err n hnv)
    exact isErr_bind _ _ hnum

theorem reduce_argOk (n d : Int) (hn : Spec.argOk n = true) (hd : Spec.argOk d = true) (h0 : d ≠ 0) :
    Spec.argOk (Spec.reduce n d).1 = true ∧ Spec.argOk (Spec.reduce n d).2 = true := by
  have hg := gcd_pos_of_right n d h0
  simp only [argOk_iff] at *
  unfold Spec.reduce
  dsimp only
  constructor
  · apply ediv_bound _ _ hg _ _ _ (by omega) (by omega)
    · split <;> omega
    · split <;> omega
    · split
      · exact (Int.dvd_neg).mpr (gcdI_dvd_left n d)
      · exact gcdI_dvd_left n d
  · apply ediv_bound _ _ hg _ _ _ (by omega) (by omega)
    · split <;> omega
    · split <;> omega
    · split
      · exact (Int.dvd_neg).mpr (gcdI_dvd_right n d)
      · exact gcdI_dvd_right n d

theorem mkRatio_valid (n d : Int) (r : Rat) (hn : inI n) (hd : inI d) (h : mkRatio n d = .ok r) :
    r.Valid ∧ r.tn = n ∧ r.td = d ∧ r.q = Spec.reduce n d := by
  by_cases hc : Spec.argOk n = true ∧ Spec.argOk d = true ∧ d ≠ 0
  · obtain ⟨an, ad, h0⟩ := hc
    rw [mkRatio_eq n d an ad h0] at h
    injection h with h
    subst h
    refine ⟨?_, rfl, rfl, rfl⟩
    obtain ⟨s1, s2, s3⟩ := reduce_spec n d h0
    obtain ⟨b1, b2⟩ := reduce_argOk n d an ad h0
    exact ⟨s1, s2, b1, b2⟩
  · have := mkRatio_err n d hn hd hc
    rw [h] at this
    exact this.elim

/-- `ratio<n, d>` of a pair in lowest terms -/
theorem mkRatio_lowest (n d : Int) (hn : Spec.argOk n = true) (hd : Spec.argOk d = true) (h0 : 0 < d)
    (hg : Int.gcd n d = 1) : mkRatio n d = .ok (Rat.ofQ (n, d)) := by
  rw [mkRatio_eq n d hn hd (by omega), reduce_self n d h0 hg]
  rfl

/-- `R::type` of a valid specialisation is `ratio<R::num, R::den>` with the same members: canonical -/
theorem type_eq (r : Rat) (h : r.Valid) : r.type = .ok (Rat.ofQ r.q) := by
  obtain ⟨h1, h2, h3, h4⟩ := h
  unfold Rat.type
  exact mkRatio_lowest r.num r.den h3 h4 h1 h2

theorem ofQ_valid (n d : Int) (hn : Spec.argOk n = true) (hd : Spec.argOk d = true) (h0 : 0 < d)
    (hg : Int.gcd n d = 1) : (Rat.ofQ (n, d)).Valid := ⟨h0, hg, hn, hd⟩

theorem ratioEqual_eq (a b : Rat) (ha : a.Valid) (hb : b.Valid) : ratioEqual a b = Spec.equal a.q b.q := by
  obtain ⟨a1, a2, -, -⟩ := ha
  obtain ⟨b1, b2, -, -⟩ := hb
  unfold ratioEqual Spec.equal Rat.q
  dsimp only
  by_cases h : a.num * b.den = b.num * a.den
  · have := lowest_unique _ _ _ _ a1 b1 a2 b2 h
    rw [decide_eq_true h, this.1, this.2]
    simp
  · rw [decide_eq_false h]
    by_contra hc
    simp at hc
    apply h
    rw [hc.1, hc.2]

/-! ## ratio_multiply -/

/-- cross-cancelling two fractions in lowest terms gives the product in lowest terms -/
theorem mul_lowest (n1 d1 n2 d2 : Int) (hd1 : 0 < d1) (hd2 : 0 < d2) (h1 : Int.gcd n1 d1 = 1) (h2 : Int.gcd n2 d2 = 1) :
    Spec.reduce (n1 * n2) (d1 * d2) =
      ((n1 / ((Int.gcd n1 d2 : Nat) : Int)) * (n2 / ((Int.gcd n2 d1 : Nat) : Int)),
       (d1 / ((Int.gcd n2 d1 : Nat) : Int)) * (d2 / ((Int.gcd n1 d2 : Nat) : Int))) := by
  obtain ⟨g1, a1, b2, hg1, e1, e2, c12, eg1, -⟩ := reduce_parts n1 d2 (by omega)
  obtain ⟨g2, a2, b1, hg2, e3, e4, c21, eg2, -⟩ := reduce_parts n2 d1 (by omega)
  rw [← eg1, ← eg2]
  clear eg1 eg2
  subst e1 e2 e3 e4
  rw [Int.mul_ediv_cancel_left _ (by omega), Int.mul_ediv_cancel_left _ (by omega),
    Int.mul_ediv_cancel_left _ (by omega), Int.mul_ediv_cancel_left _ (by omega)]
  have hb1 : 0 < b1 := by
    by_contra hc
    have : g2 * b1 ≤ 0 := Int.mul_nonpos_of_nonneg_of_nonpos (by omega) (by omega)
    omega
  have hb2 : 0 < b2 := by
    by_contra hc
    have : g1 * b2 ≤ 0 := Int.mul_nonpos_of_nonneg_of_nonpos (by omega) (by omega)
    omega
  have k1 : IsCoprime (g1 * a1) (g2 * b1) := Int.isCoprime_iff_gcd_eq_one.mpr h1
  have k2 : IsCoprime (g2 * a2) (g1 * b2) := Int.isCoprime_iff_gcd_eq_one.mpr h2
  have c11 : IsCoprime a1 b1 := k1.of_mul_left_right.of_mul_right_right
  have c22 : IsCoprime a2 b2 := k2.of_mul_left_right.of_mul_right_right
  have c12' : IsCoprime a1 b2 := Int.isCoprime_iff_gcd_eq_one.mpr c12
  have c21' : IsCoprime a2 b1 := Int.isCoprime_iff_gcd_eq_one.mpr c21
  have cop : IsCoprime (a1 * a2) (b1 * b2) :=
    IsCoprime.mul_left (IsCoprime.mul_right c11 c12') (IsCoprime.mul_right c21' c22)
  have hD : 0 < b1 * b2 := Int.mul_pos hb1 hb2
  have hdd : g2 * b1 * (g1 * b2) ≠ 0 := Int.mul_ne_zero (by omega) (by omega)
  rw [reduce_congr (g1 * a1 * (g2 * a2)) (g2 * b1 * (g1 * b2)) (a1 * a2) (b1 * b2) hdd (by omega) (by ring),
    reduce_self _ _ hD (Int.isCoprime_iff_gcd_eq_one.mp cop)]

/-- the model of `ratio_multiply` after the (never failing) gcds and exact divisions -/
theorem ratioMul_core (a b : Rat) (ha : a.Valid) (hb : b.Valid) :
    ∃ N D : Int, Spec.reduce (a.num * b.num) (a.den * b.den) = (N, D) ∧ 0 < D ∧ Int.gcd N D = 1 ∧
      ratioMul a b = (ck N >>= fun n => ck D >>= fun d => mkRatio n d >>= fun r => r.type) := by
  obtain ⟨a1, a2, a3, a4⟩ := ha
  obtain ⟨b1, b2, b3, b4⟩ := hb
  have hm := mul_lowest a.num a.den b.num b.den a1 b1 a2 b2
  have hs := reduce_spec (a.num * b.num) (a.den * b.den) (Int.mul_ne_zero (by omega) (by omega))
  rw [hm] at hs
  refine ⟨_, _, hm, hs.1, hs.2.1, ?_⟩
  have hg1 := gcd_pos_of_right a.num b.den (by omega)
  have hg2 := gcd_pos_of_right b.num a.den (by omega)
  have x1 := divI_ok a.num _ hg1 (gcdI_dvd_left _ _) (inI_of_argOk a3)
  have x2 := divI_ok b.num _ hg2 (gcdI_dvd_left _ _) (inI_of_argOk b3)
  have y1 := divI_ok a.den _ hg2 (gcdI_dvd_right _ _) (inI_of_argOk a4)
  have y2 := divI_ok b.den _ hg1 (gcdI_dvd_right _ _) (inI_of_argOk b4)
  unfold ratioMul
  simp only [gcd_imax a.num b.den a3 b4, gcd_imax b.num a.den b3 a4, x1, x2, y1, y2, C14.ok_bind]

theorem named_ok (q q' : Spec.Q) (h : Spec.named q = .ok q') :
    q' = q ∧ Spec.argOk q.1 = true ∧ Spec.argOk q.2 = true := by
  unfold Spec.named at h
  by_cases hc : (Spec.argOk q.1 && Spec.argOk q.2) = true
  · rw [if_pos hc] at h
    injection h with h
    rw [Bool.and_eq_true] at hc
    exact ⟨h.symm, hc.1, hc.2⟩
  · rw [if_neg hc] at h
    cases h

theorem named_err (q : Spec.Q) (h : isErr (Spec.named q)) :
    ¬ (Spec.argOk q.1 = true ∧ Spec.argOk q.2 = true) := by
  intro hc
  unfold Spec.named at h
  rw [if_pos (by rw [Bool.and_eq_true]; exact hc)] at h
  exact h

theorem ratioMul_ok (a b : Rat) (ha : a.Valid) (hb : b.Valid) (q : Spec.Q) (h : Spec.mul a.q b.q = .ok q) :
    ratioMul a b = .ok (Rat.ofQ q) := by
  obtain ⟨N, D, hr, hD, hg, hm⟩ := ratioMul_core a b ha hb
  have h' : Spec.named (Spec.reduce (a.num * b.num) (a.den * b.den)) = .ok q := h
  rw [hr] at h'
  obtain ⟨rfl, oN, oD⟩ := named_ok _ _ h'
  dsimp only at oN oD
  rw [hm, ck_ok (inI_of_argOk oN), ck_ok (inI_of_argOk oD)]
  simp only [C14.ok_bind]
  rw [mkRatio_lowest N D oN oD hD hg]
  simp only [C14.ok_bind]
  exact type_eq _ (ofQ_valid N D oN oD hD hg)

theorem ratioMul_err (a b : Rat) (ha : a.Valid) (hb : b.Valid) (h : isErr (Spec.mul a.q b.q)) : isErr (ratioMul a b) := by
  obtain ⟨N, D, hr, hD, hg, hm⟩ := ratioMul_core a b ha hb
  have h' : isErr (Spec.named (Spec.reduce (a.num * b.num) (a.den * b.den))) := h
  rw [hr] at h'
  have hno := named_err _ h'
  dsimp only at hno
  rw [hm]
  by_cases iN : inI N
  · rw [ck_ok iN]
    simp only [C14.ok_bind]
    by_cases iD : inI D
    · rw [ck_ok iD]
      simp only [C14.ok_bind]
      exact isErr_bind (mkRatio N D) _ (mkRatio_err N D iN iD (fun c => hno ⟨c.1, c.2.1⟩))
    · exact isErr_bind (ck D) _ (ck_err iD)
  · exact isErr_bind (ck N) _ (ck_err iN)

/-! ## ratio_divide -/

/-- `ratio<R2::den, R2::num>` is a valid specialisation, and multiplying by it is dividing by `R2` -/
theorem div_mul (a b : Rat) (ha : a.Valid) (hb : b.Valid) (h0 : b.num ≠ 0) :
    ∃ r : Rat, mkRatio b.den b.num = .ok r ∧ r.Valid ∧ Spec.mul a.q r.q = Spec.div a.q b.q := by
  obtain ⟨a1, a2, a3, a4⟩ := ha
  obtain ⟨b1, b2, b3, b4⟩ := hb
  have hm := mkRatio_eq b.den b.num b4 b3 h0
  obtain ⟨v, -, -, hq⟩ := mkRatio_valid b.den b.num _ (inI_of_argOk b4) (inI_of_argOk b3) hm
  refine ⟨_, hm, v, ?_⟩
  obtain ⟨s1, s2, s3⟩ := reduce_spec b.den b.num h0
  show Spec.named (Spec.reduce (a.num * (Spec.reduce b.den b.num).1) (a.den * (Spec.reduce b.den b.num).2)) =
    if b.num = 0 then _ else Spec.named (Spec.reduce (a.num * b.den) (a.den * b.num))
  rw [if_neg h0]
  congr 1
  apply reduce_congr
  · exact Int.mul_ne_zero (by omega) (by omega)
  · exact Int.mul_ne_zero (by omega) h0
  · linear_combination (a.num * a.den) * s3

theorem ratioDiv_ok (a b : Rat) (ha : a.Valid) (hb : b.Valid) (q : Spec.Q) (h : Spec.div a.q b.q = .ok q) :
    ratioDiv a b = .ok (Rat.ofQ q) := by
  have h0 : b.num ≠ 0 := by
    intro hc
    have : Spec.div a.q b.q = .error (.pre "ill-formed: division by zero") := by
      show (if b.num = 0 then _ else _) = _
      rw [if_pos hc]
    rw [this] at h
    cases h
  obtain ⟨r, hr, hv, he⟩ := div_mul a b ha hb h0
  unfold ratioDiv
  rw [if_neg h0, hr]
  simp only [C14.ok_bind]
  exact ratioMul_ok a r ha hv q (he.trans h)

theorem ratioDiv_err (a b : Rat) (ha : a.Valid) (hb : b.Valid) (h : isErr (Spec.div a.q b.q)) : isErr (ratioDiv a b) := by
  unfold ratioDiv
  by_cases h0 : b.num = 0
  · rw [if_pos h0]; exact trivial
  · obtain ⟨r, hr, hv, he⟩ := div_mul a b ha hb h0
    rw [if_neg h0, hr]
    simp only [C14.ok_bind]
    exact ratioMul_err a r ha hv (by rw [he]; exact h)

end Tetl.C15.RA
