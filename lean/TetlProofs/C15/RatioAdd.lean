import Tetl.C15.Model
import Tetl.C15.Spec
import TetlProofs.C15.RatioDefs
import TetlProofs.C14.Props
import TetlProofs.C15.Lemmas
import Mathlib.Tactic.Ring
import Mathlib.Tactic.Linarith
import Mathlib.Tactic.LinearCombination
import Mathlib.Data.Int.GCD
import Mathlib.RingTheory.Coprime.Lemmas

namespace Tetl.C15.RB
open Tetl Tetl.C15

/-- an operand as `ratio` produces it: lowest terms, positive denominator, members in [-(2^63-1), 2^63-1] -/
def Opd (n d : Int) : Prop := 0 < d ∧ Int.gcd n d = 1 ∧ Spec.argOk n = true ∧ Spec.argOk d = true

/-! ## evaluation lemmas -/

theorem p63 : (2:Int)^63 = 9223372036854775808 := by norm_num

theorem inI_iff (x : Int) : inI x ↔ -9223372036854775808 ≤ x ∧ x ≤ 9223372036854775807 := by
  unfold inI; rw [p63]; omega

theorem argOk_iff (x : Int) : Spec.argOk x = true ↔ -9223372036854775807 ≤ x ∧ x ≤ 9223372036854775807 := by
  unfold Spec.argOk Spec.intmaxMax; rw [p63]
  simp only [Bool.and_eq_true, decide_eq_true_eq]; omega

theorem imax_inR (x : Int) : imax.inR x = true ↔ inI x := by
  rw [C14.inR_iff, inI_iff]
  have h1 : imax.min = -9223372036854775808 := by decide
  have h2 : imax.max = 9223372036854775807 := by decide
  rw [h1, h2]

theorem ck_ok {x : Int} (h : inI x) : ck x = .ok x := by
  unfold ck
  exact C14.arith_ok imax (by decide) x ((imax_inR x).mpr h)

theorem ck_err {x : Int} (h : ¬ inI x) : ∃ e, ck x = .error e := by
  unfold ck C14.arith
  have : imax.inR x = false := by
    cases hb : imax.inR x
    · rfl
    · exact absurd ((imax_inR x).mp hb) h
  have hs : imax.sg = true := rfl
  rw [this, hs]
  exact ⟨_, rfl⟩

theorem ck_inv {x v : Int} (h : ck x = .ok v) : v = x ∧ inI x := by
  by_cases hx : inI x
  · rw [ck_ok hx] at h; cases h; exact ⟨rfl, hx⟩
  · obtain ⟨e, he⟩ := ck_err hx; rw [he] at h; cases h

/-- peel one checked operator off a successful computation -/
theorem ck_bind_inv {α : Type} {x : Int} {f : Int → Except Err α} {s : α}
    (h : (ck x >>= f) = .ok s) : inI x ∧ f x = .ok s := by
  by_cases hx : inI x
  · rw [ck_ok hx] at h; exact ⟨hx, h⟩
  · obtain ⟨e, he⟩ := ck_err hx; rw [he] at h; cases h

theorem divI_ok {a b : Int} (ha : 0 ≤ a) (ha' : a ≤ 9223372036854775807) (hb : 0 < b) :
    divI a b = .ok (a / b) := by
  unfold divI
  rw [if_neg (by omega), Int.tdiv_eq_ediv_of_nonneg ha]
  apply ck_ok
  rw [inI_iff]
  have h1 : 0 ≤ a / b := Int.ediv_nonneg ha (by omega)
  have h2 : a / b ≤ a := Int.ediv_le_self b ha
  omega

theorem modI_ok {a b : Int} (ha : 0 ≤ a) (ha' : a ≤ 9223372036854775807) (hb : 0 < b) :
    modI a b = .ok (a % b) := by
  unfold modI
  rw [if_neg (by omega), Int.tdiv_eq_ediv_of_nonneg ha, Int.tmod_eq_emod_of_nonneg ha]
  have : ck (a / b) = .ok (a / b) := by
    apply ck_ok
    rw [inI_iff]
    have h1 : 0 ≤ a / b := Int.ediv_nonneg ha (by omega)
    have h2 : a / b ≤ a := Int.ediv_le_self b ha
    omega
  rw [this]; rfl

theorem gcd_ok {x y : Int} (hx : 0 ≤ x) (hy : 0 ≤ y) (hx' : x ≤ 9223372036854775807)
    (hy' : y ≤ 9223372036854775807) : C14.gcd imax imax x y = .ok ((Int.gcd x y : Nat) : Int) := by
  have hc : C14.ITy.common imax imax = imax := by decide
  have hm : imax.max = 9223372036854775807 := by decide
  have := C14.Props.gcd_eq imax imax (by decide) (by decide) x y (by rw [hc, hm]; omega) (by rw [hc, hm]; omega)
  rw [this]; rfl

/-- truncating vs floor division for a positive divisor -/
theorem tdiv_tmod_floor (n d : Int) (hd : 0 < d) :
    (Int.tmod n d < 0 → n / d = Int.tdiv n d - 1 ∧ n % d = Int.tmod n d + d) ∧
    (¬ Int.tmod n d < 0 → n / d = Int.tdiv n d ∧ n % d = Int.tmod n d) := by
  have h1 := Int.mul_tdiv_add_tmod n d
  have h2 : Int.tmod n d < d := Int.tmod_lt_of_pos n hd
  have h3 : -d < Int.tmod n d := by
    have := @Int.tmod_eq_emod n d
    have h4 := Int.emod_nonneg n (by omega : d ≠ 0)
    split at this <;> omega
  generalize Int.tdiv n d = q at *
  generalize Int.tmod n d = r at *
  constructor
  · intro hr
    apply (Int.ediv_emod_unique hd).mpr
    refine ⟨?_, by omega, by omega⟩
    rw [← h1]; ring
  · intro hr
    apply (Int.ediv_emod_unique hd).mpr
    refine ⟨?_, by omega, by omega⟩
    rw [← h1]; ring

theorem floorParts_ok {n d : Int} (hd : 0 < d) (hd' : d ≤ 9223372036854775807)
    (hn : -9223372036854775807 ≤ n) (hn' : n ≤ 9223372036854775807) :
    floorParts n d = .ok (n / d, n % d) := by
  obtain ⟨hneg, hpos⟩ := tdiv_tmod_floor n d hd
  have h1 := Int.mul_tdiv_add_tmod n d
  have h2 : Int.tmod n d < d := Int.tmod_lt_of_pos n hd
  have habs : (Int.tdiv n d).natAbs ≤ n.natAbs := Int.natAbs_tdiv_le_natAbs n d
  have hq : inI (Int.tdiv n d) := by rw [inI_iff]; omega
  have hm : modI n d = .ok (Int.tmod n d) := by
    unfold modI; rw [if_neg (by omega), ck_ok hq]; rfl
  have hdv : divI n d = .ok (Int.tdiv n d) := by
    unfold divI; rw [if_neg (by omega), ck_ok hq]
  unfold floorParts
  rw [hm, hdv]
  by_cases hr : Int.tmod n d < 0
  · obtain ⟨e1, e2⟩ := hneg hr
    have hf1 := Int.emod_nonneg n (by omega : d ≠ 0)
    have c1 : ck (Int.tdiv n d - 1) = .ok (Int.tdiv n d - 1) := ck_ok (by rw [inI_iff]; omega)
    have c2 : ck (Int.tmod n d + d) = .ok (Int.tmod n d + d) := ck_ok (by rw [inI_iff]; omega)
    simp only [bind, Except.bind, if_pos hr, c1, c2, e1, e2]
  · obtain ⟨e1, e2⟩ := hpos hr
    simp only [bind, Except.bind, if_neg hr, e1, e2]

/-- `⌊f*k/g2⌋` split as the C++ does -/
theorem mulDiv_split (f k g2 : Int) (hg : 0 < g2) :
    f * k / g2 = (f / g2) * k + ((f % g2) * k) / g2 := by
  have h : f * k = (f % g2) * k + ((f / g2) * k) * g2 := by
    have := Int.emod_add_mul_ediv f g2
    calc f * k = (f % g2 + g2 * (f / g2)) * k := by rw [this]
      _ = _ := by ring
  rw [h, Int.add_mul_ediv_right _ _ (by omega : g2 ≠ 0)]
  exact Int.add_comm _ _

theorem mulDiv_red {f k g2 : Int} (hf : 0 ≤ f) (hf' : f ≤ 9223372036854775807) (hg : 0 < g2)
    (hk : 0 ≤ k) (hgk : g2 * k ≤ 9223372036854775807) :
    mulDiv f k g2 = (ck ((f / g2) * k) >>= fun pk => ck (pk + ((f % g2) * k) / g2)) := by
  have hr0 := Int.emod_nonneg f (by omega : g2 ≠ 0)
  have hr1 := Int.emod_lt_of_pos f hg
  have hrk0 : 0 ≤ (f % g2) * k := Int.mul_nonneg hr0 hk
  have hrk1 : (f % g2) * k ≤ g2 * k := Int.mul_le_mul_of_nonneg_right (by omega) hk
  unfold mulDiv
  rw [divI_ok hf hf' hg, modI_ok hf hf' hg]
  have c1 : ck ((f % g2) * k) = .ok ((f % g2) * k) := ck_ok (by rw [inI_iff]; omega)
  have c2 : divI ((f % g2) * k) g2 = .ok (((f % g2) * k) / g2) := divI_ok hrk0 (by omega) hg
  simp only [bind, Except.bind, c1, c2]

theorem mulDiv_ok {f k g2 : Int} (hf : 0 ≤ f) (hf' : f ≤ 9223372036854775807) (hg : 0 < g2)
    (hk : 0 ≤ k) (hgk : g2 * k ≤ 9223372036854775807) (hx : f * k / g2 ≤ 9223372036854775807) :
    mulDiv f k g2 = .ok (f * k / g2) := by
  have hr0 := Int.emod_nonneg f (by omega : g2 ≠ 0)
  have hrk0 : 0 ≤ (f % g2) * k := Int.mul_nonneg hr0 hk
  have hq0 : 0 ≤ ((f % g2) * k) / g2 := Int.ediv_nonneg hrk0 (by omega)
  have hp0 : 0 ≤ (f / g2) * k := Int.mul_nonneg (Int.ediv_nonneg hf (by omega)) hk
  have hs := mulDiv_split f k g2 hg
  rw [mulDiv_red hf hf' hg hk hgk, ck_ok (by rw [inI_iff]; omega)]
  show ck _ = _
  rw [← hs]
  have hx0 : 0 ≤ f * k / g2 := by omega
  exact ck_ok (by rw [inI_iff]; omega)

theorem mulDiv_inv {f k g2 v : Int} (hf : 0 ≤ f) (hf' : f ≤ 9223372036854775807) (hg : 0 < g2)
    (hk : 0 ≤ k) (hgk : g2 * k ≤ 9223372036854775807) (h : mulDiv f k g2 = .ok v) :
    v = f * k / g2 ∧ inI (f * k / g2) := by
  rw [mulDiv_red hf hf' hg hk hgk] at h
  obtain ⟨_, h⟩ := ck_bind_inv h
  rw [← mulDiv_split f k g2 hg] at h
  exact ck_inv h

/-! ## number theory -/

theorem reduce_scaled {k U V : Int} (hk : 0 < k) (hV : 0 < V) (hc : Int.gcd U V = 1) :
    Spec.reduce (k * U) (k * V) = (U, V) := by
  have hkV : 0 < k * V := Int.mul_pos hk hV
  have hg : ((Int.gcd (k * U) (k * V) : Nat) : Int) = k := by
    rw [Int.gcd_mul_left, hc, Nat.mul_one]; omega
  unfold Spec.reduce
  simp only [hg, if_neg (by omega : ¬ k * V < 0)]
  rw [Int.mul_ediv_cancel_left _ (by omega : k ≠ 0), Int.mul_ediv_cancel_left _ (by omega : k ≠ 0)]

/-- `((f % g) * b) % g` is `f * b` up to a multiple of `g` -/
theorem modmul (f b g : Int) : ∃ K, ((f % g) * b) % g = f * b + g * K := by
  refine ⟨-((f / g) * b + ((f % g) * b) / g), ?_⟩
  have h1 := Int.emod_def ((f % g) * b) g
  have h2 : (f % g) * b = f * b - g * ((f / g) * b) := by rw [Int.emod_def f g]; ring
  rw [h1]
  generalize ((f % g) * b) / g = q at *
  rw [h2]; ring

/-- the `(m1 + m2) mod g` computed by the C++ has the same gcd with `g` as `F = f1*b + f2*a` -/
theorem m_gcd (f1 f2 a b g : Int) (hg : 0 < g) :
    let m1 := ((f1 % g) * b) % g
    let m2 := ((f2 % g) * a) % g
    let m := if m1 ≥ g - m2 then m1 - (g - m2) else m1 + m2
    0 ≤ m1 ∧ m1 < g ∧ 0 ≤ m2 ∧ m2 < g ∧ 0 ≤ m ∧ m < g ∧ Int.gcd m g = Int.gcd (f1 * b + f2 * a) g := by
  intro m1 m2 m
  have a1 : 0 ≤ m1 := Int.emod_nonneg _ (by omega)
  have a2 : m1 < g := Int.emod_lt_of_pos _ hg
  have a3 : 0 ≤ m2 := Int.emod_nonneg _ (by omega)
  have a4 : m2 < g := Int.emod_lt_of_pos _ hg
  obtain ⟨K1, h1⟩ := modmul f1 b g
  obtain ⟨K2, h2⟩ := modmul f2 a g
  refine ⟨a1, a2, a3, a4, ?_, ?_, ?_⟩
  · show 0 ≤ (if m1 ≥ g - m2 then m1 - (g - m2) else m1 + m2); split <;> omega
  · show (if m1 ≥ g - m2 then m1 - (g - m2) else m1 + m2) < g; split <;> omega
  · show Int.gcd (if m1 ≥ g - m2 then m1 - (g - m2) else m1 + m2) g = _
    split
    · have : m1 - (g - m2) = (f1 * b + f2 * a) + g * (K1 + K2 - 1) := by
        show ((f1 % g) * b) % g - (g - ((f2 % g) * a) % g) = _
        rw [h1, h2]; ring
      rw [this, Int.gcd_add_mul_left_left]
    · have : m1 + m2 = (f1 * b + f2 * a) + g * (K1 + K2) := by
        show ((f1 % g) * b) % g + ((f2 % g) * a) % g = _
        rw [h1, h2]; ring
      rw [this, Int.gcd_add_mul_left_left]

/-- the carry digit: the two remainders add up to `0` or `g2` -/
theorem xyc (X Y g2 : Int) (hg2 : 0 < g2) (hdvd : g2 ∣ X + Y) :
    X / g2 + Y / g2 + (if X % g2 ≠ 0 then 1 else 0) = (X + Y) / g2 := by
  have x0 := Int.emod_nonneg X (by omega : g2 ≠ 0)
  have x1 := Int.emod_lt_of_pos X hg2
  have y0 := Int.emod_nonneg Y (by omega : g2 ≠ 0)
  have y1 := Int.emod_lt_of_pos Y hg2
  have ex := Int.emod_add_mul_ediv X g2
  have ey := Int.emod_add_mul_ediv Y g2
  obtain ⟨t, ht⟩ := hdvd
  -- ρ1 + ρ2 = g2 * (t - X/g2 - Y/g2)
  have hs : X % g2 + Y % g2 = g2 * (t - X / g2 - Y / g2) := by
    have : g2 * (t - X / g2 - Y / g2) = g2 * t - g2 * (X / g2) - g2 * (Y / g2) := by ring
    rw [this, ← ht]; omega
  generalize t - X / g2 - Y / g2 = u at hs
  have hu0 : 0 ≤ u := by
    by_contra hneg
    have : g2 * u ≤ g2 * (-1) := Int.mul_le_mul_of_nonneg_left (by omega) (by omega)
    omega
  have hu2 : u < 2 := by
    by_contra hneg
    have : g2 * 2 ≤ g2 * u := Int.mul_le_mul_of_nonneg_left (by omega) (by omega)
    omega
  have hXY : (X + Y) / g2 = X / g2 + Y / g2 + u := by
    have : X + Y = g2 * (X / g2 + Y / g2 + u) := by
      have : g2 * (X / g2 + Y / g2 + u) = g2 * (X / g2) + g2 * (Y / g2) + g2 * u := by ring
      rw [this, ← hs]; omega
    rw [this, Int.mul_ediv_cancel_left _ (by omega : g2 ≠ 0)]
  rw [hXY]
  have hu : u = 0 ∨ u = 1 := by omega
  rcases hu with rfl | rfl
  · rw [if_neg (by omega)]
  · rw [if_pos (by omega)]

theorem emod_mul_emod' (f b g2 : Int) : ((f % g2) * b) % g2 = (f * b) % g2 := by
  have : f * b = (f % g2) * b + ((f / g2) * b) * g2 := by
    have := Int.emod_add_mul_ediv f g2
    calc f * b = (f % g2 + g2 * (f / g2)) * b := by rw [this]
      _ = _ := by ring
  rw [this, Int.add_mul_emod_self_right]

/-- the reduced sum, from the floor decompositions `n_k = i_k * d_k + f_k` and `g2 = gcd(F, g)` -/
theorem core (n1 n2 g a b i1 f1 i2 f2 : Int) (hg : 0 < g) (ha : 0 < a) (hb : 0 < b)
    (hab : IsCoprime a b) (c1 : IsCoprime n1 (g * a)) (c2 : IsCoprime n2 (g * b))
    (e1 : n1 = i1 * (g * a) + f1) (e2 : n2 = i2 * (g * b) + f2) (g2 : Int)
    (hg2 : g2 = ((Int.gcd (f1 * b + f2 * a) g : Nat) : Int)) :
    0 < g2 ∧ g2 ∣ g ∧ g2 ∣ f1 * b + f2 * a ∧ 0 < (g * a / g2) * b ∧ g2 * (g * a / g2) = g * a ∧
    Spec.reduce (n1 * (g * b) + n2 * (g * a)) ((g * a) * (g * b))
      = ((i1 + i2) * ((g * a / g2) * b) + (f1 * b + f2 * a) / g2, (g * a / g2) * b) := by
  have hN : n1 * b + n2 * a = (f1 * b + f2 * a) + g * ((i1 + i2) * a * b) := by
    rw [e1, e2]; ring
  have hgN : Int.gcd (n1 * b + n2 * a) g = Int.gcd (f1 * b + f2 * a) g := by
    rw [hN, Int.gcd_add_mul_left_left]
  have hpos : 0 < Int.gcd (n1 * b + n2 * a) g := Int.gcd_pos_of_ne_zero_right _ (by omega)
  obtain ⟨U, g', hc, hNU, hgg'⟩ := Int.exists_gcd_one hpos
  rw [hgN, ← hg2] at hNU hgg'
  rw [hgN] at hpos
  have hg2pos : 0 < g2 := by rw [hg2]; exact_mod_cast hpos
  have hg'pos : 0 < g' := by
    by_contra hneg
    have : g' * g2 ≤ 0 * g2 := Int.mul_le_mul_of_nonneg_right (by omega) (by omega)
    omega
  have hdg : g * a / g2 = g' * a := by
    have : g * a = g2 * (g' * a) := by rw [hgg']; ring
    rw [this, Int.mul_ediv_cancel_left _ (by omega : g2 ≠ 0)]
  have hFq : (f1 * b + f2 * a) / g2 = U - g' * ((i1 + i2) * a * b) := by
    have : f1 * b + f2 * a = g2 * (U - g' * ((i1 + i2) * a * b)) := by
      linear_combination hNU - hN - ((i1 + i2) * a * b) * hgg'
    rw [this, Int.mul_ediv_cancel_left _ (by omega : g2 ≠ 0)]
  have hVpos : 0 < g' * a * b := Int.mul_pos (Int.mul_pos hg'pos ha) hb
  -- coprimality
  have hNa : IsCoprime (n1 * b + n2 * a) a :=
    (c1.of_mul_right_right.mul_left hab.symm).add_mul_right_left n2
  have hNb : IsCoprime (n1 * b + n2 * a) b := by
    have := (c2.of_mul_right_right.mul_left hab).add_mul_right_left n1
    rwa [Int.add_comm] at this
  rw [hNU] at hNa hNb
  have hUa : IsCoprime U a := hNa.of_mul_left_left
  have hUb : IsCoprime U b := hNb.of_mul_left_left
  have hUg' : IsCoprime U g' := Int.isCoprime_iff_gcd_eq_one.mpr hc
  have hUV : Int.gcd U (g' * a * b) = 1 :=
    Int.isCoprime_iff_gcd_eq_one.mp ((hUg'.mul_right hUa).mul_right hUb)
  refine ⟨hg2pos, ⟨g', by rw [hgg']; ring⟩, ?_, by rw [hdg]; exact hVpos, by rw [hdg, hgg']; ring, ?_⟩
  · exact ⟨U - g' * ((i1 + i2) * a * b), by linear_combination hNU - hN - ((i1 + i2) * a * b) * hgg'⟩
  · have hnum : n1 * (g * b) + n2 * (g * a) = (g * g2) * U := by linear_combination g * hNU
    have hden : (g * a) * (g * b) = (g * g2) * (g' * a * b) := by linear_combination (g * a * b) * hgg'
    rw [hnum, hden, reduce_scaled (Int.mul_pos hg hg2pos) hVpos hUV, hdg, hFq]
    congr 1; ring

/-! ## the exact trace -/

structure Facts (n1 d1 n2 d2 g a b i1 f1 i2 f2 m1 m2 m g2 V x y c : Int) : Prop where
  g_pos : 0 < g
  d1_eq : d1 = g * a
  d2_eq : d2 = g * b
  a_pos : 0 < a
  b_pos : 0 < b
  f1_nn : 0 ≤ f1
  f1_lt : f1 < d1
  f2_nn : 0 ≤ f2
  f2_lt : f2 < d2
  m1_nn : 0 ≤ m1
  m1_lt : m1 < g
  m2_nn : 0 ≤ m2
  m2_lt : m2 < g
  m_nn : 0 ≤ m
  m_lt : m < g
  g2_pos : 0 < g2
  g2_le : g2 ≤ g
  g2b : g2 * b ≤ d2
  g2a : g2 * a ≤ d1
  V_pos : 0 < V
  x_nn : 0 ≤ x
  x_lt : x < V
  y_nn : 0 ≤ y
  y_lt : y < V
  c01 : c = 0 ∨ c = 1
  red : Spec.reduce (n1 * d2 + n2 * d1) (d1 * d2) = ((i1 + i2) * V + (x + y + c), V)

theorem facts (n1 d1 n2 d2 : Int) (h1 : Opd n1 d1) (h2 : Opd n2 d2)
    (g a b i1 f1 i2 f2 m1 m2 m g2 V x y c : Int)
    (hg : g = ((Int.gcd d1 d2 : Nat) : Int)) (ha : a = d1 / g) (hb : b = d2 / g)
    (hi1 : i1 = n1 / d1) (hf1 : f1 = n1 % d1) (hi2 : i2 = n2 / d2) (hf2 : f2 = n2 % d2)
    (hm1 : m1 = ((f1 % g) * b) % g) (hm2 : m2 = ((f2 % g) * a) % g)
    (hm : m = if m1 ≥ g - m2 then m1 - (g - m2) else m1 + m2)
    (hg2 : g2 = ((Int.gcd m g : Nat) : Int)) (hV : V = (d1 / g2) * b)
    (hx : x = f1 * b / g2) (hy : y = f2 * a / g2)
    (hc : c = if ((f1 % g2) * b) % g2 ≠ 0 then 1 else 0) :
    Facts n1 d1 n2 d2 g a b i1 f1 i2 f2 m1 m2 m g2 V x y c := by
  obtain ⟨hd1, hc1, -, -⟩ := h1
  obtain ⟨hd2, hc2, -, -⟩ := h2
  have hgpos : 0 < Int.gcd d1 d2 := Int.gcd_pos_of_ne_zero_left _ (by omega)
  have g_pos : 0 < g := by rw [hg]; exact_mod_cast hgpos
  have hab : Int.gcd a b = 1 := by
    rw [ha, hb, hg]; exact Int.gcd_ediv_gcd_ediv_gcd hgpos
  have d1_eq : d1 = g * a := by
    rw [ha, hg]; exact (Int.mul_ediv_cancel' (Int.gcd_dvd_left d1 d2)).symm
  have d2_eq : d2 = g * b := by
    rw [hb, hg]; exact (Int.mul_ediv_cancel' (Int.gcd_dvd_right d1 d2)).symm
  have a_pos : 0 < a := by
    by_contra hneg
    have : g * a ≤ g * 0 := Int.mul_le_mul_of_nonneg_left (by omega) (by omega)
    omega
  have b_pos : 0 < b := by
    by_contra hneg
    have : g * b ≤ g * 0 := Int.mul_le_mul_of_nonneg_left (by omega) (by omega)
    omega
  have f1_nn : 0 ≤ f1 := by rw [hf1]; exact Int.emod_nonneg _ (by omega)
  have f1_lt : f1 < d1 := by rw [hf1]; exact Int.emod_lt_of_pos _ hd1
  have f2_nn : 0 ≤ f2 := by rw [hf2]; exact Int.emod_nonneg _ (by omega)
  have f2_lt : f2 < d2 := by rw [hf2]; exact Int.emod_lt_of_pos _ hd2
  have e1 : n1 = i1 * (g * a) + f1 := by
    rw [← d1_eq, hi1, hf1]; have := Int.emod_add_mul_ediv n1 d1; rw [Int.mul_comm] at this; omega
  have e2 : n2 = i2 * (g * b) + f2 := by
    rw [← d2_eq, hi2, hf2]; have := Int.emod_add_mul_ediv n2 d2; rw [Int.mul_comm] at this; omega
  have hmg0 := m_gcd f1 f2 a b g g_pos
  simp only [← hm1, ← hm2] at hmg0
  rw [← hm] at hmg0
  obtain ⟨m1_nn, m1_lt, m2_nn, m2_lt, m_nn, m_lt, hmg⟩ := hmg0
  rw [hmg] at hg2
  have cc1 : IsCoprime n1 (g * a) := by rw [← d1_eq]; exact Int.isCoprime_iff_gcd_eq_one.mpr hc1
  have cc2 : IsCoprime n2 (g * b) := by rw [← d2_eq]; exact Int.isCoprime_iff_gcd_eq_one.mpr hc2
  obtain ⟨g2_pos, g2_dvd, g2_dvdF, V_pos, dg_eq, red⟩ :=
    core n1 n2 g a b i1 f1 i2 f2 g_pos a_pos b_pos (Int.isCoprime_iff_gcd_eq_one.mpr hab) cc1 cc2 e1 e2 g2 hg2
  rw [← d1_eq, ← d2_eq, ← hV] at red
  rw [← d1_eq] at dg_eq
  rw [← d1_eq, ← hV] at V_pos
  have g2_le : g2 ≤ g := Int.le_of_dvd g_pos g2_dvd
  have g2b : g2 * b ≤ d2 := by rw [d2_eq]; exact Int.mul_le_mul_of_nonneg_right g2_le (by omega)
  have g2a : g2 * a ≤ d1 := by rw [d1_eq]; exact Int.mul_le_mul_of_nonneg_right g2_le (by omega)
  have hVg : V * g2 = d1 * b := by
    rw [hV]
    calc (d1 / g2) * b * g2 = (g2 * (d1 / g2)) * b := by ring
      _ = d1 * b := by rw [dg_eq]
  have x_nn : 0 ≤ x := by rw [hx]; exact Int.ediv_nonneg (Int.mul_nonneg f1_nn (by omega)) (by omega)
  have y_nn : 0 ≤ y := by rw [hy]; exact Int.ediv_nonneg (Int.mul_nonneg f2_nn (by omega)) (by omega)
  have x_lt : x < V := by
    rw [hx]; apply Int.ediv_lt_of_lt_mul g2_pos
    rw [hVg]; exact Int.mul_lt_mul_of_pos_right f1_lt b_pos
  have y_lt : y < V := by
    rw [hy]; apply Int.ediv_lt_of_lt_mul g2_pos
    have : d1 * b = d2 * a := by rw [d1_eq, d2_eq]; ring
    rw [hVg, this]; exact Int.mul_lt_mul_of_pos_right f2_lt a_pos
  have c01 : c = 0 ∨ c = 1 := by rw [hc]; split <;> simp
  have hxyc : x + y + c = (f1 * b + f2 * a) / g2 := by
    rw [hx, hy, hc, emod_mul_emod']; exact xyc _ _ g2 g2_pos g2_dvdF
  rw [← hxyc] at red
  exact { g_pos, d1_eq, d2_eq, a_pos, b_pos, f1_nn, f1_lt, f2_nn, f2_lt, m1_nn, m1_lt, m2_nn, m2_lt,
          m_nn, m_lt, g2_pos, g2_le, g2b, g2a, V_pos, x_nn, x_lt, y_nn, y_lt, c01, red }

/-! ## the model, cut in two -/

/-- the `return` statement of `ratioAddImpl` -/
def tail3 (den f i : Int) : Except Err (Int × Int) := do
  let num ← if i ≥ 0 then do let t ← ck (i * den); ck (t + f)
            else do let i' ← ck (i + 1); let t ← ck (i' * den); let u ← ck (den - f); ck (t - u)
  .ok (num, den)

/-- the statements of `ratioAddImpl` from `carry` on -/
def tail2 (den x y c i1 i2 : Int) : Except Err (Int × Int) := do
  let dy ← ck (den - y)
  let carry : Bool := decide (x ≥ dy)
  let f ← if carry then do let t ← ck (x - dy); ck (t + c) else do let t ← ck (x + y); ck (t + c)
  let i12 ← ck (i1 + i2)
  let i ← if carry then ck (i12 + 1) else .ok i12
  tail3 den f i

/-- the statements of `ratioAddImpl` from `den` on -/
def tail1 (d1 a b f1 f2 g2 i1 i2 : Int) : Except Err (Int × Int) := do
  let dg ← divI d1 g2
  let den ← ck (dg * b)
  let x ← mulDiv f1 b g2
  let y ← mulDiv f2 a g2
  let r1 ← modI f1 g2
  let rb ← ck (r1 * b)
  let rr ← modI rb g2
  tail2 den x y (if rr ≠ 0 then 1 else 0) i1 i2

theorem ratioAddImpl_split (n1 d1 n2 d2 : Int) :
    ratioAddImpl n1 d1 n2 d2 = (do
      let g ← C14.gcd imax imax d1 d2
      let a ← divI d1 g
      let b ← divI d2 g
      let (i1, f1) ← floorParts n1 d1
      let (i2, f2) ← floorParts n2 d2
      let t1 ← modI f1 g
      let u1 ← ck (t1 * b)
      let m1 ← modI u1 g
      let t2 ← modI f2 g
      let u2 ← ck (t2 * a)
      let m2 ← modI u2 g
      let gm ← ck (g - m2)
      let m ← if m1 ≥ gm then ck (m1 - gm) else ck (m1 + m2)
      let g2 ← C14.gcd imax imax m g
      tail1 d1 a b f1 f2 g2 i1 i2) := rfl

theorem ok_bind {α β : Type} (v : α) (f : α → Except Err β) : (Except.ok v >>= f) = f v := rfl

theorem bind_ok_inv {α β : Type} {e : Except Err α} {f : α → Except Err β} {s : β}
    (h : (e >>= f) = .ok s) : ∃ v, e = .ok v ∧ f v = .ok s := by
  cases e with
  | error err => cases h
  | ok v => exact ⟨v, rfl, h⟩

theorem prefix_eq (n1 d1 n2 d2 : Int) (h1 : Opd n1 d1) (h2 : Opd n2 d2)
    (g a b i1 f1 i2 f2 m1 m2 m g2 V x y c : Int)
    (F : Facts n1 d1 n2 d2 g a b i1 f1 i2 f2 m1 m2 m g2 V x y c)
    (hg : g = ((Int.gcd d1 d2 : Nat) : Int)) (ha : a = d1 / g) (hb : b = d2 / g)
    (hi1 : i1 = n1 / d1) (hf1 : f1 = n1 % d1) (hi2 : i2 = n2 / d2) (hf2 : f2 = n2 % d2)
    (hm1 : m1 = ((f1 % g) * b) % g) (hm2 : m2 = ((f2 % g) * a) % g)
    (hm : m = if m1 ≥ g - m2 then m1 - (g - m2) else m1 + m2)
    (hg2 : g2 = ((Int.gcd m g : Nat) : Int)) :
    ratioAddImpl n1 d1 n2 d2 = tail1 d1 a b f1 f2 g2 i1 i2 := by
  obtain ⟨hd1, -, hn1, hd1'⟩ := h1
  obtain ⟨hd2, -, hn2, hd2'⟩ := h2
  rw [argOk_iff] at hn1 hd1' hn2 hd2'
  have := F.g_pos; have := F.a_pos; have := F.b_pos
  have := F.f1_nn; have := F.f1_lt; have := F.f2_nn; have := F.f2_lt
  have := F.m1_nn; have := F.m1_lt; have := F.m2_nn; have := F.m2_lt; have := F.m_nn; have := F.m_lt
  have hgd1 : g ≤ d1 := by
    rw [hg]; exact Int.le_of_dvd hd1 (Int.gcd_dvd_left d1 d2)
  have e_g : C14.gcd imax imax d1 d2 = .ok g := by
    rw [hg]; exact gcd_ok (by omega) (by omega) (by omega) (by omega)
  have e_a : divI d1 g = .ok a := by rw [ha]; exact divI_ok (by omega) (by omega) (by omega)
  have e_b : divI d2 g = .ok b := by rw [hb]; exact divI_ok (by omega) (by omega) (by omega)
  have e_fp1 : floorParts n1 d1 = .ok (i1, f1) := by
    rw [hi1, hf1]; exact floorParts_ok hd1 (by omega) (by omega) (by omega)
  have e_fp2 : floorParts n2 d2 = .ok (i2, f2) := by
    rw [hi2, hf2]; exact floorParts_ok hd2 (by omega) (by omega) (by omega)
  have t1_nn : 0 ≤ f1 % g := Int.emod_nonneg _ (by omega)
  have t1_lt : f1 % g < g := Int.emod_lt_of_pos _ (by omega)
  have t2_nn : 0 ≤ f2 % g := Int.emod_nonneg _ (by omega)
  have t2_lt : f2 % g < g := Int.emod_lt_of_pos _ (by omega)
  have u1_nn : 0 ≤ (f1 % g) * b := Int.mul_nonneg t1_nn (by omega)
  have u1_le : (f1 % g) * b ≤ d2 := by
    rw [F.d2_eq]; exact Int.mul_le_mul_of_nonneg_right (by omega) (by omega)
  have u2_nn : 0 ≤ (f2 % g) * a := Int.mul_nonneg t2_nn (by omega)
  have u2_le : (f2 % g) * a ≤ d1 := by
    rw [F.d1_eq]; exact Int.mul_le_mul_of_nonneg_right (by omega) (by omega)
  have e_t1 : modI f1 g = .ok (f1 % g) := modI_ok (by omega) (by omega) (by omega)
  have e_u1 : ck ((f1 % g) * b) = .ok ((f1 % g) * b) := ck_ok (by rw [inI_iff]; omega)
  have e_m1 : modI ((f1 % g) * b) g = .ok m1 := by
    rw [hm1]; exact modI_ok (by omega) (by omega) (by omega)
  have e_t2 : modI f2 g = .ok (f2 % g) := modI_ok (by omega) (by omega) (by omega)
  have e_u2 : ck ((f2 % g) * a) = .ok ((f2 % g) * a) := ck_ok (by rw [inI_iff]; omega)
  have e_m2 : modI ((f2 % g) * a) g = .ok m2 := by
    rw [hm2]; exact modI_ok (by omega) (by omega) (by omega)
  have e_gm : ck (g - m2) = .ok (g - m2) := ck_ok (by rw [inI_iff]; omega)
  have e_m : ck m = .ok m := ck_ok (by rw [inI_iff]; omega)
  have e_g2 : C14.gcd imax imax m g = .ok g2 := by
    rw [hg2]; exact gcd_ok (by omega) (by omega) (by omega) (by omega)
  rw [ratioAddImpl_split]
  by_cases hcond : m1 ≥ g - m2
  · rw [if_pos hcond] at hm
    simp only [e_g, ok_bind, e_a, e_b, e_fp1, e_fp2, e_t1, e_u1, e_m1, e_t2, e_u2, e_m2, e_gm,
      if_pos hcond, ← hm, e_m, e_g2]
  · rw [if_neg hcond] at hm
    simp only [e_g, ok_bind, e_a, e_b, e_fp1, e_fp2, e_t1, e_u1, e_m1, e_t2, e_u2, e_m2, e_gm,
      if_neg hcond, ← hm, e_m, e_g2]

theorem mul_facts (i V : Int) (hV : 1 ≤ V) :
    (0 ≤ i → i ≤ i * V ∧ 0 ≤ i * V) ∧ (i ≤ 0 → i * V ≤ i) ∧ (2 ≤ V → i ≤ 0 → i * V ≤ 2 * i) := by
  refine ⟨fun h => ⟨?_, ?_⟩, fun h => ?_, fun h2 h => ?_⟩ <;> nlinarith

theorem tail3_ok (V f i : Int) (hV : 0 < V) (hV' : V ≤ 9223372036854775807) (hf : 0 ≤ f) (hf' : f ≤ V)
    (hi : inI i) (hU : inI (i * V + f)) : tail3 V f i = .ok (i * V + f, V) := by
  rw [inI_iff] at hi hU
  unfold tail3
  by_cases h0 : i ≥ 0
  · obtain ⟨-, hp⟩ := (mul_facts i V (by omega)).1 h0
    have c1 : ck (i * V) = .ok (i * V) := ck_ok (by rw [inI_iff]; omega)
    have c2 : ck (i * V + f) = .ok (i * V + f) := ck_ok (by rw [inI_iff]; omega)
    simp only [if_pos h0, c1, ok_bind, c2]
  · have hp := (mul_facts (i + 1) V (by omega)).2.1 (by omega)
    have e : (i + 1) * V = i * V + V := by ring
    have c1 : ck (i + 1) = .ok (i + 1) := ck_ok (by rw [inI_iff]; omega)
    have c2 : ck ((i + 1) * V) = .ok ((i + 1) * V) := ck_ok (by rw [inI_iff]; omega)
    have c3 : ck (V - f) = .ok (V - f) := ck_ok (by rw [inI_iff]; omega)
    have c4 : ck ((i + 1) * V - (V - f)) = .ok (i * V + f) := by
      have : (i + 1) * V - (V - f) = i * V + f := by ring
      rw [this]; exact ck_ok (by rw [inI_iff]; omega)
    simp only [if_neg h0, c1, ok_bind, c2, c3, c4]

theorem tail3_inv (V f i : Int) (s : Int × Int) (h : tail3 V f i = .ok s) :
    s = (i * V + f, V) ∧ inI (i * V + f) := by
  unfold tail3 at h
  by_cases h0 : i ≥ 0
  · simp only [if_pos h0] at h
    obtain ⟨-, h⟩ := ck_bind_inv h
    obtain ⟨hb, h⟩ := ck_bind_inv h
    cases h
    exact ⟨rfl, hb⟩
  · simp only [if_neg h0] at h
    obtain ⟨-, h⟩ := ck_bind_inv h
    obtain ⟨-, h⟩ := ck_bind_inv h
    obtain ⟨-, h⟩ := ck_bind_inv h
    obtain ⟨hb, h⟩ := ck_bind_inv h
    cases h
    have : (i + 1) * V - (V - f) = i * V + f := by ring
    rw [this] at hb ⊢
    exact ⟨rfl, hb⟩

theorem tail2_inv (V x y c i1 i2 : Int) (s : Int × Int) (h : tail2 V x y c i1 i2 = .ok s) :
    s = ((i1 + i2) * V + (x + y + c), V) ∧ inI ((i1 + i2) * V + (x + y + c)) := by
  unfold tail2 at h
  obtain ⟨-, h⟩ := ck_bind_inv h
  by_cases hcar : x ≥ V - y
  · simp only [hcar, decide_true, if_true] at h
    obtain ⟨-, h⟩ := ck_bind_inv h
    obtain ⟨-, h⟩ := ck_bind_inv h
    obtain ⟨-, h⟩ := ck_bind_inv h
    obtain ⟨-, h⟩ := ck_bind_inv h
    have := tail3_inv _ _ _ _ h
    have e : (i1 + i2 + 1) * V + (x - (V - y) + c) = (i1 + i2) * V + (x + y + c) := by ring
    rwa [e] at this
  · simp only [hcar, decide_false, if_false, Bool.false_eq_true] at h
    obtain ⟨-, h⟩ := ck_bind_inv h
    obtain ⟨-, h⟩ := ck_bind_inv h
    obtain ⟨-, h⟩ := ck_bind_inv h
    exact tail3_inv _ _ _ _ h

theorem tail2_ok (V x y c i1 i2 : Int) (hV : 0 < V) (hV' : V ≤ 9223372036854775807)
    (hx : 0 ≤ x) (hx' : x < V) (hy : 0 ≤ y) (hy' : y < V) (hc : c = 0 ∨ c = 1)
    (hU : -9223372036854775807 ≤ (i1 + i2) * V + (x + y + c))
    (hU' : (i1 + i2) * V + (x + y + c) ≤ 9223372036854775807) :
    tail2 V x y c i1 i2 = .ok ((i1 + i2) * V + (x + y + c), V) := by
  unfold tail2
  have c0 : ck (V - y) = .ok (V - y) := ck_ok (by rw [inI_iff]; omega)
  generalize i1 + i2 = s at *
  obtain ⟨m1, -, -⟩ := mul_facts s V (by omega)
  obtain ⟨n1, n2, -⟩ := mul_facts (s + 1) V (by omega)
  obtain ⟨-, -, k3⟩ := mul_facts (s + 1 + 1) V (by omega)
  have e1 : (s + 1) * V = s * V + V := by ring
  have e2 : (s + 1 + 1) * V = s * V + V + V := by ring
  rw [e1] at n1 n2
  rw [e2] at k3
  by_cases hcar : x ≥ V - y
  · have hV2 : 2 ≤ V := by omega
    have hs1 : s + 1 ≤ 9223372036854775807 := by
      by_contra hneg
      have := (n1 (by omega)).1
      omega
    have hs0 : -9223372036854775808 ≤ s := by
      by_contra hneg
      have := k3 hV2 (by omega)
      omega
    clear m1 n1 n2 k3
    have c1 : ck (x - (V - y)) = .ok (x - (V - y)) := ck_ok (by rw [inI_iff]; omega)
    have c2 : ck (x - (V - y) + c) = .ok (x - (V - y) + c) := ck_ok (by rw [inI_iff]; omega)
    have c3 : ck s = .ok s := ck_ok (by rw [inI_iff]; omega)
    have c4 : ck (s + 1) = .ok (s + 1) := ck_ok (by rw [inI_iff]; omega)
    simp only [c0, ok_bind, hcar, decide_true, if_true, c1, c2, c3, c4]
    rw [tail3_ok V _ _ hV hV' (by omega) (by omega) (by rw [inI_iff]; omega) (by rw [inI_iff, e1]; omega)]
    rw [e1]
    congr 2; ring
  · have hs1 : s ≤ 9223372036854775807 := by
      by_contra hneg
      have := (m1 (by omega)).1
      omega
    have hs0 : -9223372036854775808 ≤ s := by
      by_contra hneg
      have := n2 (by omega)
      omega
    clear m1 n1 n2 k3
    have c1 : ck (x + y) = .ok (x + y) := ck_ok (by rw [inI_iff]; omega)
    have c2 : ck (x + y + c) = .ok (x + y + c) := ck_ok (by rw [inI_iff]; omega)
    have c3 : ck s = .ok s := ck_ok (by rw [inI_iff]; omega)
    simp only [c0, ok_bind, hcar, decide_false, if_false, Bool.false_eq_true, c1, c2, c3]
    exact tail3_ok V (x + y + c) s hV hV' (by omega) (by omega) (by rw [inI_iff]; omega) (by rw [inI_iff]; omega)

theorem tail1_red (n1 d1 n2 d2 g a b i1 f1 i2 f2 m1 m2 m g2 V x y c : Int)
    (F : Facts n1 d1 n2 d2 g a b i1 f1 i2 f2 m1 m2 m g2 V x y c)
    (hd1' : d1 ≤ 9223372036854775807) (hd2' : d2 ≤ 9223372036854775807)
    (hV : V = (d1 / g2) * b) (hc : c = if ((f1 % g2) * b) % g2 ≠ 0 then 1 else 0) :
    tail1 d1 a b f1 f2 g2 i1 i2 =
      (ck V >>= fun den => mulDiv f1 b g2 >>= fun x' => mulDiv f2 a g2 >>= fun y' =>
        tail2 den x' y' c i1 i2) := by
  have := F.g_pos; have := F.a_pos; have := F.b_pos; have := F.g2_pos; have := F.g2b
  have := F.f1_nn; have := F.f1_lt; have := F.f2_nn; have := F.f2_lt
  have hd1 : 0 < d1 := by omega
  have r_nn : 0 ≤ f1 % g2 := Int.emod_nonneg _ (by omega)
  have r_lt : f1 % g2 < g2 := Int.emod_lt_of_pos _ (by omega)
  have rb_nn : 0 ≤ (f1 % g2) * b := Int.mul_nonneg r_nn (by omega)
  have rb_le : (f1 % g2) * b ≤ g2 * b := Int.mul_le_mul_of_nonneg_right (by omega) (by omega)
  have e_dg : divI d1 g2 = .ok (d1 / g2) := divI_ok (by omega) (by omega) (by omega)
  have e_r1 : modI f1 g2 = .ok (f1 % g2) := modI_ok (by omega) (by omega) (by omega)
  have e_rb : ck ((f1 % g2) * b) = .ok ((f1 % g2) * b) := ck_ok (by rw [inI_iff]; omega)
  have e_rr : modI ((f1 % g2) * b) g2 = .ok (((f1 % g2) * b) % g2) := modI_ok (by omega) (by omega) (by omega)
  unfold tail1
  simp only [e_dg, ok_bind, e_r1, e_rb, e_rr, ← hV, ← hc]

/-! ## the two theorems -/

/-- completeness: whenever the exact sum in lowest terms is representable, no intermediate overflows and the function returns it -/
theorem ratioAddImpl_complete (n1 d1 n2 d2 : Int) (h1 : Opd n1 d1) (h2 : Opd n2 d2) (q : Spec.Q)
    (h : Spec.add (n1, d1) (n2, d2) = .ok q) : ratioAddImpl n1 d1 n2 d2 = .ok q := by
  obtain ⟨g, hg⟩ : ∃ g : Int, g = ((Int.gcd d1 d2 : Nat) : Int) := ⟨_, rfl⟩
  obtain ⟨a, ha⟩ : ∃ a : Int, a = d1 / g := ⟨_, rfl⟩
  obtain ⟨b, hb⟩ : ∃ b : Int, b = d2 / g := ⟨_, rfl⟩
  obtain ⟨i1, hi1⟩ : ∃ i1 : Int, i1 = n1 / d1 := ⟨_, rfl⟩
  obtain ⟨f1, hf1⟩ : ∃ f1 : Int, f1 = n1 % d1 := ⟨_, rfl⟩
  obtain ⟨i2, hi2⟩ : ∃ i2 : Int, i2 = n2 / d2 := ⟨_, rfl⟩
  obtain ⟨f2, hf2⟩ : ∃ f2 : Int, f2 = n2 % d2 := ⟨_, rfl⟩
  obtain ⟨m1, hm1⟩ : ∃ m1 : Int, m1 = ((f1 % g) * b) % g := ⟨_, rfl⟩
  obtain ⟨m2, hm2⟩ : ∃ m2 : Int, m2 = ((f2 % g) * a) % g := ⟨_, rfl⟩
  obtain ⟨m, hm⟩ : ∃ m : Int, m = if m1 ≥ g - m2 then m1 - (g - m2) else m1 + m2 := ⟨_, rfl⟩
  obtain ⟨g2, hg2⟩ : ∃ g2 : Int, g2 = ((Int.gcd m g : Nat) : Int) := ⟨_, rfl⟩
  obtain ⟨V, hV⟩ : ∃ V : Int, V = (d1 / g2) * b := ⟨_, rfl⟩
  obtain ⟨x, hx⟩ : ∃ x : Int, x = f1 * b / g2 := ⟨_, rfl⟩
  obtain ⟨y, hy⟩ : ∃ y : Int, y = f2 * a / g2 := ⟨_, rfl⟩
  obtain ⟨c, hc⟩ : ∃ c : Int, c = if ((f1 % g2) * b) % g2 ≠ 0 then 1 else 0 := ⟨_, rfl⟩
  have F := facts n1 d1 n2 d2 h1 h2 g a b i1 f1 i2 f2 m1 m2 m g2 V x y c hg ha hb hi1 hf1 hi2 hf2 hm1 hm2 hm hg2 hV hx hy hc
  rw [prefix_eq n1 d1 n2 d2 h1 h2 g a b i1 f1 i2 f2 m1 m2 m g2 V x y c F hg ha hb hi1 hf1 hi2 hf2 hm1 hm2 hm hg2]
  obtain ⟨hd1, -, -, hd1'⟩ := h1
  obtain ⟨hd2, -, -, hd2'⟩ := h2
  rw [argOk_iff] at hd1' hd2'
  rw [tail1_red n1 d1 n2 d2 g a b i1 f1 i2 f2 m1 m2 m g2 V x y c F hd1'.2 hd2'.2 hV hc]
  -- the specification
  have hs : Spec.named (Spec.reduce (n1 * d2 + n2 * d1) (d1 * d2)) = .ok q := h
  rw [F.red] at hs
  unfold Spec.named at hs
  split at hs
  case isFalse => cases hs
  case isTrue hok =>
  cases hs
  simp only [Bool.and_eq_true] at hok
  obtain ⟨hU, hVok⟩ := hok
  rw [argOk_iff] at hU hVok
  have := F.g_pos; have := F.a_pos; have := F.b_pos; have := F.g2_pos; have := F.g2b; have := F.g2a
  have := F.f1_nn; have := F.f1_lt; have := F.f2_nn; have := F.f2_lt
  have := F.V_pos; have := F.x_nn; have := F.x_lt; have := F.y_nn; have := F.y_lt
  rw [ck_ok (by rw [inI_iff]; omega), ok_bind]
  have ex : mulDiv f1 b g2 = .ok x := by
    rw [hx]; exact mulDiv_ok (by omega) (by omega) (by omega) (by omega) (by omega) (by rw [← hx]; omega)
  have ey : mulDiv f2 a g2 = .ok y := by
    rw [hy]; exact mulDiv_ok (by omega) (by omega) (by omega) (by omega) (by omega) (by rw [← hy]; omega)
  rw [ex, ok_bind, ey, ok_bind]
  exact tail2_ok V x y c i1 i2 (by omega) (by omega) (by omega) (by omega) (by omega) (by omega) F.c01 hU.1 hU.2

/-- soundness: if the function returns at all (no `ck` failed), it returns the exact sum in lowest terms, as `intmax_t` values -/
theorem ratioAddImpl_sound (n1 d1 n2 d2 : Int) (h1 : Opd n1 d1) (h2 : Opd n2 d2) (s : Int × Int)
    (h : ratioAddImpl n1 d1 n2 d2 = .ok s) :
    s = Spec.reduce (n1 * d2 + n2 * d1) (d1 * d2) ∧ inI s.1 ∧ inI s.2 := by
  obtain ⟨g, hg⟩ : ∃ g : Int, g = ((Int.gcd d1 d2 : Nat) : Int) := ⟨_, rfl⟩
  obtain ⟨a, ha⟩ : ∃ a : Int, a = d1 / g := ⟨_, rfl⟩
  obtain ⟨b, hb⟩ : ∃ b : Int, b = d2 / g := ⟨_, rfl⟩
  obtain ⟨i1, hi1⟩ : ∃ i1 : Int, i1 = n1 / d1 := ⟨_, rfl⟩
  obtain ⟨f1, hf1⟩ : ∃ f1 : Int, f1 = n1 % d1 := ⟨_, rfl⟩
  obtain ⟨i2, hi2⟩ : ∃ i2 : Int, i2 = n2 / d2 := ⟨_, rfl⟩
  obtain ⟨f2, hf2⟩ : ∃ f2 : Int, f2 = n2 % d2 := ⟨_, rfl⟩
  obtain ⟨m1, hm1⟩ : ∃ m1 : Int, m1 = ((f1 % g) * b) % g := ⟨_, rfl⟩
  obtain ⟨m2, hm2⟩ : ∃ m2 : Int, m2 = ((f2 % g) * a) % g := ⟨_, rfl⟩
  obtain ⟨m, hm⟩ : ∃ m : Int, m = if m1 ≥ g - m2 then m1 - (g - m2) else m1 + m2 := ⟨_, rfl⟩
  obtain ⟨g2, hg2⟩ : ∃ g2 : Int, g2 = ((Int.gcd m g : Nat) : Int) := ⟨_, rfl⟩
  obtain ⟨V, hV⟩ : ∃ V : Int, V = (d1 / g2) * b := ⟨_, rfl⟩
  obtain ⟨x, hx⟩ : ∃ x : Int, x = f1 * b / g2 := ⟨_, rfl⟩
  obtain ⟨y, hy⟩ : ∃ y : Int, y = f2 * a / g2 := ⟨_, rfl⟩
  obtain ⟨c, hc⟩ : ∃ c : Int, c = if ((f1 % g2) * b) % g2 ≠ 0 then 1 else 0 := ⟨_, rfl⟩
  have F := facts n1 d1 n2 d2 h1 h2 g a b i1 f1 i2 f2 m1 m2 m g2 V x y c hg ha hb hi1 hf1 hi2 hf2 hm1 hm2 hm hg2 hV hx hy hc
  rw [prefix_eq n1 d1 n2 d2 h1 h2 g a b i1 f1 i2 f2 m1 m2 m g2 V x y c F hg ha hb hi1 hf1 hi2 hf2 hm1 hm2 hm hg2] at h
  obtain ⟨hd1, -, -, hd1'⟩ := h1
  obtain ⟨hd2, -, -, hd2'⟩ := h2
  rw [argOk_iff] at hd1' hd2'
  rw [tail1_red n1 d1 n2 d2 g a b i1 f1 i2 f2 m1 m2 m g2 V x y c F hd1'.2 hd2'.2 hV hc] at h
  have := F.g_pos; have := F.a_pos; have := F.b_pos; have := F.g2_pos; have := F.g2b; have := F.g2a
  have := F.f1_nn; have := F.f1_lt; have := F.f2_nn; have := F.f2_lt
  obtain ⟨hVb, h⟩ := ck_bind_inv h
  obtain ⟨x', ex, h⟩ := bind_ok_inv h
  obtain ⟨y', ey, h⟩ := bind_ok_inv h
  obtain ⟨rfl, -⟩ := mulDiv_inv (by omega) (by omega) (by omega) (by omega) (by omega) ex
  obtain ⟨rfl, -⟩ := mulDiv_inv (by omega) (by omega) (by omega) (by omega) (by omega) ey
  rw [← hx, ← hy] at h
  obtain ⟨rfl, hUb⟩ := tail2_inv V x y c i1 i2 s h
  exact ⟨F.red.symm, hUb, hVb⟩

end Tetl.C15.RB
