/-
C15 (a) ratio — the vocabulary of the ratio theorems.
-/
import Tetl.C15.Model
import Tetl.C15.Spec
namespace Tetl.C15

/-- what an instantiated `ratio<N, D>` is: lowest terms, positive denominator, both members in
    `[-INTMAX_MAX, INTMAX_MAX]` (`mkRatio_valid`) -/
def Rat.Valid (r : Rat) : Prop :=
  0 < r.den ∧ Int.gcd r.num r.den = 1 ∧ Spec.argOk r.num = true ∧ Spec.argOk r.den = true
instance (r : Rat) : Decidable r.Valid := by unfold Rat.Valid; infer_instance

/-- the rational number of a specialisation, as the pair of the specification -/
def Rat.q (r : Rat) : Spec.Q := (r.num, r.den)

/-- the specialisation `ratio<q.1, q.2>` for a pair in lowest terms: members = template arguments -/
def Rat.ofQ (q : Spec.Q) : Rat := ⟨q.1, q.2, q.1, q.2⟩

/-- "the instantiation is ill-formed" -/
def isErr {α : Type} : Except Err α → Prop
  | .error _ => True
  | .ok _ => False

instance {α : Type} (x : Except Err α) : Decidable (isErr x) :=
  match x with
  | .error _ => isTrue trivial
  | .ok _ => isFalse (fun h => h)

/-- a value of type `intmax_t` -/
def inI (x : Int) : Prop := -(2 ^ 63) ≤ x ∧ x ≤ 2 ^ 63 - 1
instance (x : Int) : Decidable (inI x) := by unfold inI; infer_instance

end Tetl.C15
