/-
C15 — property theorems about the tables that are GENERATED from the headers on every run
(Tetl/C15/GenBuiltins.lean by gen/c15_defs.py, Tetl/C15/GenLimits.lean by gen/c15_limits.py).  Kept apart from Props.lean
so that a change of a header re-checks only this module.
-/
import TetlProofs.C15.Props
import TetlProofs.C15.Defs
namespace Tetl.C15.Props
open Tetl Tetl.C15 CType Defn

/-! ### (d) the definitions of the traits, extracted from the headers on every run (Tetl/C15/GenBuiltins.lean)

`Gen.Gcc.table` holds, for every primary template of a trait struct, `_v` variable and concept of namespace etl, the
defining expression as gen/c15_defs.py reads it from the headers preprocessed by the compiler under test;
`Gen.Clang.table` the entries that differ when clang++ preprocesses them (the other `#if` branches).  The theorems below
are statements about these generated tables: a trait rewired to a sibling builtin, a dropped template argument, a `_v`
that stops agreeing with its class template or a changed formula makes them fail whatever types the matrix samples. -/

/-- every intrinsic-backed trait - class template and `_v` variable - is the compiler builtin of [meta.unary.prop] /
    [meta.rel] for that trait applied to all template arguments (`Spec.intrinsicTraits`; the class template has no
    specialisation that could answer instead) - except `is_trivially_constructible`, the known finding
    F-C15-is-trivially-constructible-ignores-args -/
theorem intrinsic_traits_forward_partial :
    ∀ p ∈ Spec.intrinsicTraits, p.1 ≠ "is_trivially_constructible" → Spec.forwardsTo Gen.Gcc.table p = true := by
  decide +kernel
/-- non-vacuity: the list has 19 traits, 18 of them satisfy the hypothesis -/
example : Spec.intrinsicTraits.length = 19 ∧
    (Spec.intrinsicTraits.filter fun p => p.1 != "is_trivially_constructible").length = 18 := by decide

/-- the excluded trait does fail: `is_trivially_constructible<T, Args...>` calls `__is_trivially_constructible(T)` - the
    pack `Args...` (template parameter 1) is dropped, so the trait answers `is_trivially_default_constructible<T>` -/
theorem intrinsic_traits_forward_counterexample :
    (find Gen.Gcc.table "is_trivially_constructible" .var).map (resolve Gen.Gcc.table)
        = some (.builtin "__is_trivially_constructible" [.par 0]) ∧
      identityArgs Gen.Gcc.is_trivially_constructible_struct.params = [.par 0, .pack 1] ∧
      Spec.forwardsTo Gen.Gcc.table
        ("is_trivially_constructible", .builtin "__is_trivially_constructible" [.par 0, .pack 1]) = false := by
  decide +kernel

/-- the `#if` branches only clang++ compiles (`__is_integral`, `__is_member_pointer`, `__is_scalar`, `__is_object`,
    `__is_trivially_destructible`, ...) forward to the builtin of the trait's name as well.  These branches are not
    executed by the matrix (the harness is built with g++): tie only. -/
theorem intrinsic_traits_forward_clang :
    ∀ p ∈ Spec.intrinsicTraitsClang, Spec.forwardsTo (Gen.Clang.table ++ Gen.Gcc.table) p = true := by decide +kernel

set_option maxRecDepth 20000 in
/-- the same fact without a list of names: in both tables EVERY trait, variable or concept whose definition is a
    single builtin call names the builtin `__<its own name>` and passes exactly its template parameters in order (or the
    adaptor [meta.unary.prop] requires: `Spec.argAdaptor`), the known finding excepted -/
theorem single_builtin_same_name_partial :
    ∀ e ∈ Gen.Gcc.table ++ Gen.Clang.table, e.name ≠ "is_trivially_constructible" →
      Spec.sameNameBuiltin (Gen.Clang.table ++ Gen.Gcc.table) e = true ∧ Spec.sameNameBuiltin Gen.Gcc.table e = true := by
  decide +kernel
/-- … which the excluded trait violates in both of its forms -/
theorem single_builtin_same_name_counterexample :
    Spec.sameNameBuiltin Gen.Gcc.table Gen.Gcc.is_trivially_constructible_struct = false ∧
    Spec.sameNameBuiltin Gen.Gcc.table Gen.Gcc.is_trivially_constructible_var = false := by decide +kernel

set_option maxRecDepth 20000 in
/-- no builtin is called outside that inventory: every entry of the g++ table whose definition mentions a builtin is
    one of the 19 traits of `Spec.intrinsicTraits` -/
theorem builtin_inventory_complete :
    ∀ e ∈ Gen.Gcc.table, (resolve Gen.Gcc.table e).usesBuiltin = true → e.name ∈ Spec.intrinsicTraits.map Prod.fst := by
  decide +kernel

set_option maxRecDepth 20000 in
/-- `X_v<T...>` and `X<T...>::value` have one definition for every trait of the library: one forwards to the other with
    the template's own arguments, or both are the same expression (≥ 18 `_v` variables are written out independently
    of their class template) -/
theorem var_and_struct_forms_agree :
    ∀ e ∈ Gen.Gcc.table, e.form = .var → e.name ∉ Defs.notATraitVar → Spec.formsAgree Gen.Gcc.table e = true := by
  decide +kernel

/-- the composite traits and concepts (`is_arithmetic`, `is_fundamental`, `is_compound`, `is_scalar`, `is_object`,
    `is_member_object_pointer`, `is_function`, `is_void`, `is_null_pointer`, `is_integral`, `is_floating_point`, the
    three builtin-backed primary categories, `integral`, `signed_integral`, `unsigned_integral`, `floating_point`): the
    formula extracted from the header - both forms - evaluated with the model of its operands IS the function of
    Model.lean that the `…_eq` theorems above are about, for every type; the class template has no specialisation -/
theorem composite_formulas (t : CType) :
    ∀ p ∈ Defs.formulaTraits, p.1.specs = 0 ∧ evalEx [t] p.1.body = some (p.2 t) := by
  simp only [Defs.formulaTraits, List.forall_mem_cons, List.not_mem_nil, false_imp_iff, implies_true, and_true]
  repeat' constructor

/-- the `_v` form of the fourteen traits defined by partial specialisation (`is_const`, `is_reference`, `is_array`,
    `is_pointer`, ...) is `X<T>::value`.  The specialisation patterns themselves are NOT extracted: for these the hand
    model is tied to the source by the matrix only. -/
theorem forwarding_vars (t : CType) :
    ∀ p ∈ Defs.forwardingVars, p.1.specs = 0 ∧ p.1.body = .ref p.1.name .struct [.par 0] ∧
      evalEx [t] p.1.body = some (p.2 t) := by
  simp only [Defs.forwardingVars, List.forall_mem_cons, List.not_mem_nil, false_imp_iff, implies_true, and_true]
  repeat' constructor

/-- `is_pointer`, `is_member_pointer`, `is_member_function_pointer`, `is_signed`, `is_unsigned` apply their helper to
    `remove_cv_t<T>`: top-level cv-qualifiers never reach the helper's patterns -/
theorem helper_traits_strip_cv (t : CType) :
    ∀ p ∈ Defs.helperTraits, p.1.specs = 0 ∧ evalCall [t] p.1.body = some (p.2, [Spec.removeCv t]) := by
  simp only [← removeCv_eq]
  simp only [Defs.helperTraits, List.forall_mem_cons, List.not_mem_nil, false_imp_iff, implies_true, and_true]
  repeat' constructor

/-- the default/copy/move families and `is_(nothrow_)swappable`: each of the 17 traits is the underlying relational trait
    applied to the argument types [meta.unary.prop] names - `T`; `T, const T&`; `T, T&&`; `T&, const T&`; `T&, T&&`;
    `T&, T&` - where `T&` / `T&&` stand for `add_lvalue_reference_t` / `add_rvalue_reference_t` ("if `T` is
    referenceable …, otherwise `T`"), for every well-formed type of the grammar.  (What the underlying trait answers is
    the compiler's business: `intrinsic_traits_forward_partial`.) -/
theorem copy_move_families (t : CType) (h : wf t = true) :
    ∀ p ∈ Defs.familyTraits, p.1.specs = 0 ∧ evalCall [t] p.1.body = some (p.2.1, p.2.2 t) := by
  have hc := Defs.wf_addConst h
  have e1 : Spec.addLvalueReference t = M.addLvalueReference t := (addLvalueReference_eq t h).symm
  have e2 : Spec.addRvalueReference t = M.addRvalueReference t := (addRvalueReference_eq t h).symm
  have e3 : Spec.addLvalueReference (Spec.addConst t) = M.addLvalueReference (M.addConst t) := by
    rw [← addConst_eq, ← addLvalueReference_eq (M.addConst t) hc]
  simp only [Defs.familyTraits, List.forall_mem_cons, List.not_mem_nil, false_imp_iff, implies_true, and_true, e1, e2, e3]
  repeat' constructor
/-- sample evaluations (tests): `is_copy_constructible<void>` asks `is_constructible<void, const void>`,
    `is_move_assignable<int[2]>` asks `is_assignable<int(&)[2], int(&&)[2]>` -/
example : evalCall [base .void CV.none] Gen.Gcc.is_copy_constructible_struct.body
    = some ("is_constructible", [base .void CV.none, base .void ⟨true, false⟩]) := by decide
example : evalCall [arr (base .int CV.none) 2] Gen.Gcc.is_move_assignable_struct.body
    = some ("is_assignable", [lref (arr (base .int CV.none) 2), rref (arr (base .int CV.none) 2)]) := by decide

/-! #### the members as the header spells them (Tetl/C15/GenLimits.lean, extracted on every run by gen/c15_limits.py)

`Gen.Limits.table`: for each of the sixteen integer types the expressions the preprocessed header writes for `is_signed`,
`digits`, `digits10`, `min()`, `max()`, `lowest()`, `is_modulo`, `traps`; `LimExpr.eval` gives them their C++ meaning on
LP64 (integral promotion, usual arithmetic conversions, signed overflow and bad shift counts are errors). -/

/-- every one of the seven members [numeric.limits.members] fixes, AS SPELLED in the header, evaluates without undefined
    behaviour to the prescribed value, for each of the sixteen integer types (complete finite check) -/
theorem limits_spelled_members_eq : ∀ s ∈ Gen.Limits.table, Limits.specOk s = true := Limits.spelled_members_eq

/-- the table is exactly the sixteen integer types and contains nothing the extractor did not understand -/
theorem limits_table_complete :
    Gen.Limits.table.map (·.ty) =
      ["bool", "char", "signed char", "unsigned char", "char8_t", "wchar_t", "char16_t", "char32_t", "short",
       "unsigned short", "int", "unsigned int", "long", "unsigned long", "long long", "unsigned long long"] ∧
    Gen.Limits.table.all (fun s => !s.hasOpaque) = true ∧
    (∀ sg : Bool, (Gen.Limits.integer_numeric_limits "T" (.blit sg)).hasOpaque = false) := Limits.table_complete

/-- `detail::integer_numeric_limits<T, Signed>` (used for wchar_t, char16_t, char32_t) is right for EVERY width 8/16/32/64
    and both signednesses, not only its three instantiations: `(((T(1) << (digits-1)) - 1) << 1) + 1` is `2^digits - 1`
    with the shifts performed in the promoted type, `-max() - 1` does not overflow -/
theorem limits_template_eq :
    ∀ w ∈ [8, 16, 32, 64], ∀ sg : Bool,
      Limits.membersOk ⟨w, sg⟩ (Gen.Limits.integer_numeric_limits "T" (.blit sg)) (Spec.intLimits false w sg) = true :=
  Limits.integer_numeric_limits_template

/-- no `<<` of the header has a negative left operand or a result outside the promoted type -/
theorem limits_shifts_representable :
    (∀ s ∈ Gen.Limits.table, ∀ T ∈ (LimExpr.ityOf s.ty).toList,
      s.members.all (LimExpr.shiftsOk T s LimExpr.defaultFuel) = true) ∧
    (∀ w ∈ [8, 16, 32, 64], ∀ sg : Bool,
      let s := Gen.Limits.integer_numeric_limits "T" (.blit sg)
      s.members.all (LimExpr.shiftsOk ⟨w, sg⟩ s LimExpr.defaultFuel) = true) := Limits.shiftsRepresentable

/-- the hand model of Model.lean (all eight modelled members, `traps` included) IS what the header's expressions
    evaluate to, for each of the sixteen types: R1 compares the driver's output of this model with the compiled header -/
theorem limits_model_eq_spelled : ∀ s ∈ Gen.Limits.table, Defs.modelOk s = true := by decide +kernel

/-! #### the two known findings about concepts, at the level of the extracted definition

(their VALUE on the class zoo is observed by the matrix; here: the definition the finding is about is the one in the
headers - when the library repairs it these theorems fail and the finding has to be retired) -/

/-- F-C15-swappable-is-not-ranges-swap: `concept swappable` is the bare unqualified call `swap(a, b)`;
    [concept.swappable] requires `ranges::swap(a, b)` (the extractor keeps requires-expressions as text) -/
theorem swappable_definition_counterexample :
    Gen.Gcc.swappable_concept.body = .opaque "requires ( T & a , T & b ) { swap ( a , b ) ; }" := by decide +kernel

/-- F-C15-common-reference-unimplemented: `assignable_from<LHS, RHS>` has no
    `common_reference_with<const remove_reference_t<LHS>&, const remove_reference_t<RHS>&>` conjunct ([concept.assignable]) -/
theorem assignable_from_definition_counterexample :
    Gen.Gcc.assignable_from_concept.body = .opaque
      "is_lvalue_reference_v < LHS > and requires ( LHS lhs , RHS && rhs ) { { lhs = etl :: forward < RHS > ( rhs ) } -> same_as < LHS > ; }" := by
  decide +kernel

end Tetl.C15.Props
