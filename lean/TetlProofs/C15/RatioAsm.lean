/-
C15 (a) ratio — assembly: `ratio_add` / `ratio_subtract` from the function-level lemmas about `detail::ratio_add_impl`
(RatioAdd.lean) and the instantiation lemmas of `ratio<N, D>` (RatioMul.lean).
-/
import TetlProofs.C15.Lemmas
import TetlProofs.C15.RatioDefs
import TetlProofs.C15.RatioMul
import TetlProofs.C15.RatioAdd
import Mathlib.Tactic.Ring
namespace Tetl.C15
open Tetl Tetl.C15

namespace RatioAsm

theorem named_ok {p q : Spec.Q} (h : Spec.named p = .ok q) : q = p ∧ Spec.argOk p.1 = true ∧ Spec.argOk p.2 = true := by
  unfold Spec.named at h
  split at h
  · rename_i hc
    simp only [Bool.and_eq_true] at hc
    injection h with h
    exact ⟨h.symm, hc.1, hc.2⟩
  · cases h

theorem named_err {p : Spec.Q} (h : isErr (Spec.named p)) : ¬ (Spec.argOk p.1 = true ∧ Spec.argOk p.2 = true) := by
  unfold Spec.named at h
  split at h
  · exact absurd h (by simp [isErr])
  · rename_i hc
    simpa [Bool.and_eq_true] using hc

theorem argOk_iff (x : Int) : Spec.argOk x = true ↔ -(2 ^ 63 - 1) ≤ x ∧ x ≤ 2 ^ 63 - 1 := by
  unfold Spec.argOk Spec.intmaxMax
  simp [Bool.and_eq_true]

theorem argOk_neg {x : Int} (h : Spec.argOk x = true) : Spec.argOk (-x) = true := by
  rw [argOk_iff] at *; omega

theorem ck_argOk {x : Int} (h : Spec.argOk x = true) : ck x = .ok x := by
  apply ck_of_fits
  rw [argOk_iff] at h
  unfold fits imax C14.ITy.inR C14.ITy.min C14.ITy.max
  simp only [Bool.and_eq_true, decide_eq_true_eq]
  norm_num at h ⊢
  omega

/-- a pair in lowest terms whose members are representable is the specialisation naming itself -/
theorem mkRatio_ofQ (q : Spec.Q) (hd : 0 < q.2) (hg : Int.gcd q.1 q.2 = 1) (h1 : Spec.argOk q.1 = true)
    (h2 : Spec.argOk q.2 = true) : mkRatio q.1 q.2 = .ok (Rat.ofQ q) := by
  rw [RA.mkRatio_eq q.1 q.2 h1 h2 (by omega), RA.reduce_self q.1 q.2 hd hg]
  rfl

theorem ofQ_valid (q : Spec.Q) (hd : 0 < q.2) (hg : Int.gcd q.1 q.2 = 1) (h1 : Spec.argOk q.1 = true)
    (h2 : Spec.argOk q.2 = true) : (Rat.ofQ q).Valid := ⟨hd, hg, h1, h2⟩

theorem ofQ_q (q : Spec.Q) : (Rat.ofQ q).q = q := rfl

theorem valid_opd {r : Rat} (h : r.Valid) : RB.Opd r.num r.den := h

theorem ratioAdd_ok (a b : Rat) (ha : a.Valid) (hb : b.Valid) (q : Spec.Q) (h : Spec.add a.q b.q = .ok q) :
    ratioAdd a b = .ok (Rat.ofQ q) := by
  have hc := RB.ratioAddImpl_complete a.num a.den b.num b.den ha hb q h
  obtain ⟨hq, o1, o2⟩ := named_ok h
  have hden : a.q.2 * b.q.2 ≠ 0 := Int.mul_ne_zero (by have := ha.1; show a.den ≠ 0; omega) (by have := hb.1; show b.den ≠ 0; omega)
  obtain ⟨p1, p2, _⟩ := RA.reduce_spec (a.q.1 * b.q.2 + b.q.1 * a.q.2) (a.q.2 * b.q.2) hden
  rw [← hq] at o1 o2 p1 p2
  unfold ratioAdd
  rw [hc]
  simp only [bind, Except.bind]
  rw [mkRatio_ofQ q p1 p2 o1 o2]
  simp only []
  exact RA.type_eq _ (ofQ_valid q p1 p2 o1 o2)

theorem ratioAdd_err (a b : Rat) (ha : a.Valid) (hb : b.Valid) (h : isErr (Spec.add a.q b.q)) :
    isErr (ratioAdd a b) := by
  unfold ratioAdd
  cases hs : ratioAddImpl a.num a.den b.num b.den with
  | error e => simp [bind, Except.bind, isErr]
  | ok s =>
    obtain ⟨e1, i1, i2⟩ := RB.ratioAddImpl_sound a.num a.den b.num b.den ha hb s hs
    have hn := named_err h
    have : isErr (mkRatio s.1 s.2) := by
      apply RA.mkRatio_err s.1 s.2 i1 i2
      intro hh
      apply hn
      show Spec.argOk (Spec.reduce _ _).1 = true ∧ Spec.argOk (Spec.reduce _ _).2 = true
      have e1' : s = Spec.reduce (a.q.1 * b.q.2 + b.q.1 * a.q.2) (a.q.2 * b.q.2) := e1
      rw [← e1']
      exact ⟨hh.1, hh.2.1⟩
    simp only [bind, Except.bind]
    cases hm : mkRatio s.1 s.2 with
    | error e => simp [isErr]
    | ok r => rw [hm] at this; exact absurd this (by simp [isErr])

/-- `ratio<-R2::num, R2::den>` -/
theorem neg_operand (b : Rat) (hb : b.Valid) :
    ck (-b.num) = .ok (-b.num) ∧ mkRatio (-b.num) b.den = .ok (Rat.ofQ (-b.num, b.den)) ∧ (Rat.ofQ (-b.num, b.den)).Valid := by
  obtain ⟨h1, h2, h3, h4⟩ := hb
  have hg : Int.gcd (-b.num) b.den = 1 := by rw [Int.neg_gcd]; exact h2
  exact ⟨ck_argOk (argOk_neg h3), mkRatio_ofQ (-b.num, b.den) h1 hg (argOk_neg h3) h4, ⟨h1, hg, argOk_neg h3, h4⟩⟩

theorem sub_as_add (a b : Rat) : Spec.sub a.q b.q = Spec.add a.q (Rat.ofQ (-b.num, b.den)).q := by
  unfold Spec.sub Spec.add
  show Spec.named (Spec.reduce (a.num * b.den - b.num * a.den) (a.den * b.den)) =
    Spec.named (Spec.reduce (a.num * b.den + -b.num * a.den) (a.den * b.den))
  congr 2
  ring

theorem ratioSub_ok (a b : Rat) (ha : a.Valid) (hb : b.Valid) (q : Spec.Q) (h : Spec.sub a.q b.q = .ok q) :
    ratioSub a b = .ok (Rat.ofQ q) := by
  obtain ⟨c1, c2, c3⟩ := neg_operand b hb
  unfold ratioSub
  rw [c1]; simp only [bind, Except.bind]; rw [c2]; simp only []
  rw [sub_as_add] at h
  exact ratioAdd_ok a _ ha c3 q h

theorem ratioSub_err (a b : Rat) (ha : a.Valid) (hb : b.Valid) (h : isErr (Spec.sub a.q b.q)) :
    isErr (ratioSub a b) := by
  obtain ⟨c1, c2, c3⟩ := neg_operand b hb
  unfold ratioSub
  rw [c1]; simp only [bind, Except.bind]; rw [c2]; simp only []
  rw [sub_as_add] at h
  exact ratioAdd_err a _ ha c3 h

end RatioAsm
end Tetl.C15
