/-
C15 — property theorems about INVOKE (third entry of PROOF_MODULES; see Tetl/C15/Invoke.lean).

tetl decides `invoke_result`, `is_invocable`, `is_invocable_r` and the concepts `invocable`, `regular_invocable`,
`predicate` by a set of constrained overloads over TYPES (forwarding references, reference collapsing, `decltype`);
the standard defines INVOKE by cases over EXPRESSIONS ([func.require]/1.1-1.7).  The theorems say the two agree for
every callable of the grammar (any list of call operators, any qualifiers of a member function, any arity), every
first argument in each of its six cv/ref forms and any number of trailing `int` arguments.
-/
import Tetl.C15.Invoke
import Tetl.C15.GenInvoke
namespace Tetl.C15.Props
open Tetl.C15 Tetl.C15.Inv

theorem forward_preserves_category (q : TyQ) :
    Inv.Model.forwardCat (Inv.Model.deduce q) = Inv.Lang.declvalCat q ∧ (Inv.Model.deduce q).c = q.c := by
  rcases q with ⟨c, r⟩; cases r <;> exact ⟨rfl, rfl⟩

/-- the object expression `invoke_impl::get(etl::forward<T>(t))` that tetl forms is the `t1` / `t1.get()` / `*t1` of
    [func.require]/1.1-1.6: same value category, same constness, ill-formed together -/
theorem invoke_object_expression_eq (a : Arg) :
    Inv.Model.get .forwarded a.b (Inv.Model.deduce a.q) = Inv.Spec.objExpr a := by
  rcases a with ⟨b, ⟨c, r⟩⟩
  cases b <;> cases r <;> rfl

/-- INVOKE as tetl's overload set decides it = [func.require]/1, for all callables and arguments of the grammar:
    well-formed together, and then of the same type and value category -/
theorem invoke_eq (f : Callable) (fq : TyQ) (a1 : Option Arg) (n : Nat) :
    Inv.Model.invoke f fq a1 n = Inv.Spec.invoke f fq a1 n := by
  unfold Inv.Model.invoke Inv.Model.invokeWith Inv.Spec.invoke
  cases f with
  | fn k ne => rfl
  | fobj ops =>
    obtain ⟨h1, h2⟩ := forward_preserves_category fq
    simp only [h1, h2]
  | pmf m ne ret arity =>
    cases a1 with
    | none => rfl
    | some a =>
      simp only [invoke_object_expression_eq]
      cases h : Inv.Spec.objExpr a with
      | none => rfl
      | some o => rcases o with ⟨cat, c⟩; rfl
  | pmd mc =>
    cases a1 with
    | none => rfl
    | some a =>
      simp only [invoke_object_expression_eq]
      cases h : Inv.Spec.objExpr a with
      | none => rfl
      | some o => rcases o with ⟨cat, c⟩; rfl
  | notCallable => cases a1 <;> rfl

theorem invokeResult_eq (f : Callable) (fq : TyQ) (a1 : Option Arg) (n : Nat) :
    Inv.Model.invokeResult f fq a1 n = Inv.Spec.invoke f fq a1 n := invoke_eq f fq a1 n

theorem isInvocable_eq (f : Callable) (fq : TyQ) (a1 : Option Arg) (n : Nat) :
    Inv.Model.isInvocable f fq a1 n = Inv.Spec.isInvocable f fq a1 n := by
  unfold Inv.Model.isInvocable Inv.Model.isInvocableR Inv.Spec.isInvocable
  rw [invokeResult_eq]; cases Inv.Spec.invoke f fq a1 n <;> rfl

theorem isInvocableR_eq (r : RTy) (f : Callable) (fq : TyQ) (a1 : Option Arg) (n : Nat) :
    Inv.Model.isInvocableR r f fq a1 n = Inv.Spec.isInvocableR r f fq a1 n := by
  unfold Inv.Model.isInvocableR Inv.Spec.isInvocableR
  rw [invokeResult_eq]
  cases Inv.Spec.invoke f fq a1 n with
  | none => rfl
  | some res => cases r <;> rfl

theorem invocable_eq (f : Callable) (fq : TyQ) (a1 : Option Arg) (n : Nat) :
    Inv.Model.invocable f fq a1 n = Inv.Spec.isInvocable f fq a1 n ∧
    Inv.Model.regularInvocable f fq a1 n = Inv.Spec.isInvocable f fq a1 n := by
  unfold Inv.Model.regularInvocable Inv.Model.invocable Inv.Spec.isInvocable
  rw [invokeResult_eq]; exact ⟨rfl, rfl⟩

theorem predicate_eq (f : Callable) (fq : TyQ) (a1 : Option Arg) (n : Nat) :
    Inv.Model.predicate f fq a1 n = Inv.Spec.predicate f fq a1 n := by
  unfold Inv.Model.predicate Inv.Model.regularInvocable Inv.Model.invocable Inv.Spec.predicate
  rw [invokeResult_eq]; cases Inv.Spec.invoke f fq a1 n <;> simp

/-! The ref-qualifier rule, stated on the specification (what the rows of the matrix must show). -/

/-- a pointer to a `&&`-qualified member function needs an rvalue object expression, a `&`-qualified one an lvalue
    (unless its cv-qualifier-seq is exactly `const`, [expr.mptr.oper]/6 of C++20), an unqualified one takes both; a
    const object needs a const member function.  `S`, `S&&` are rvalues, `S&` an lvalue; `reference_wrapper<S>` and
    `S*` always give an lvalue -/
theorem invoke_ref_qualifier_rule (m : MemQ) (ne : Bool) (ret : Ret) (d : Bool) (q : TyQ) :
    Inv.Spec.isInvocable (.pmf m ne ret 0) ⟨false, .none⟩ (some ⟨.cls d, q⟩) 0 =
      ((!q.c || m.c) &&
       (match m.r with
        | .none => true
        | .lref => q.r == .lref || (m.c && !m.v)
        | .rref => q.r != .lref)) := by
  rcases q with ⟨c, r⟩; rcases m with ⟨mc, mv, mr⟩
  cases r <;> cases mr <;> cases c <;> cases mc <;> cases mv <;> rfl

/-- sensitivity (the defect of seeded/C15-r2-invoke-result-value-category): an overload set that passes the named
    parameter `t` instead of `etl::forward<T>(t)` to `get` is NOT [func.require] - `is_invocable<long (S::*)() &&, S>`
    becomes false and `is_invocable<int (S::*)() &, S>` true -/
theorem invoke_named_parameter_differs :
    Inv.Model.invokeWith .named (.pmf ⟨false, false, .rref⟩ false .long 0) ⟨false, .none⟩ (some ⟨.cls false, ⟨false, .none⟩⟩) 0 = none ∧
    Inv.Spec.invoke (.pmf ⟨false, false, .rref⟩ false .long 0) ⟨false, .none⟩ (some ⟨.cls false, ⟨false, .none⟩⟩) 0 = some (.pr .long) ∧
    Inv.Model.invokeWith .named (.pmf ⟨false, false, .lref⟩ false .int 0) ⟨false, .none⟩ (some ⟨.cls false, ⟨false, .none⟩⟩) 0 = some (.pr .int) ∧
    Inv.Spec.invoke (.pmf ⟨false, false, .lref⟩ false .int 0) ⟨false, .none⟩ (some ⟨.cls false, ⟨false, .none⟩⟩) 0 = none := by
  decide

/-! Tie to the source: `GenInvoke.overloads` is extracted from the preprocessed header on every run (gen/c15_invoke.py). -/

/-- the overload set of `detail::invoke_impl` / `detail::INVOKE` in the header - names, requires-clauses, parameters
    and trailing return types - is the one the model transcribes -/
theorem invoke_overloads_as_modelled : GenInvoke.overloads = Inv.expectedOverloads := by decide

/-- in particular the member-function `call` hands `etl::forward<T>(t)` (not the named parameter) to `get` -/
theorem invoke_object_argument_forwarded : Inv.argExprOf GenInvoke.overloads = some .forwarded := by decide

/-- INVOKE evaluated with the argument expression READ FROM THE HEADER is [func.require]/1 -/
theorem invoke_extracted_eq_spec (f : Callable) (fq : TyQ) (a1 : Option Arg) (n : Nat) :
    (Inv.argExprOf GenInvoke.overloads).map (fun e => Inv.Model.invokeWith e f fq a1 n) = some (Inv.Spec.invoke f fq a1 n) := by
  rw [invoke_object_argument_forwarded]; exact congrArg some (invoke_eq f fq a1 n)

end Tetl.C15.Props
