/- C05 helper lemmas: the bit functions (the check compares two `UInt` values; the damage is the shift in the promoted
   type) and `div_sat` (the damage is the division: by zero or with an unrepresentable quotient). -/
import TetlProofs.C05.Lemmas
namespace Tetl.C05.Lemmas
open Tetl.C05 Tetl.C05.Spec

theorem bit_eq (wh w p) (cfg : Cfg) (s : St) (hp : p < 2 ^ w) : run (.bit wh w p) cfg s = expect (.bit wh w p) cfg s := by
  have hw : w % 2 ^ w = w := Nat.mod_eq_of_lt Nat.lt_two_pow_self
  have hpm : p % 2 ^ w = p := Nat.mod_eq_of_lt hp
  simp only [run, SC.bit, bind_eq, Tetl.C05.guard, hw, hpm, decide_eq_true_eq, expect_eq, doc, firstViolated, ctorState]
  by_cases h : p < w
  · have h2 : p < max w 32 := by omega
    simp only [if_pos h, if_pos h2, Res.bind_ok, fin_none, ite_app2, pure_eq]
  · simp only [if_neg h, Res.bind_assert, fin_some]

/-- the truncated quotient of two `int` values is an `int` unless it is `INT_MIN / -1` -/
theorem sc_tdiv_range (x y : Int) (hx : SC.I32min ≤ x ∧ x ≤ SC.I32max) (hy : SC.I32min ≤ y ∧ y ≤ SC.I32max) (hy0 : y ≠ 0)
    (hm : ¬ (x = SC.I32min ∧ y = -1)) : SC.I32min ≤ Int.tdiv x y ∧ Int.tdiv x y ≤ SC.I32max := by
  have hq : (Int.tdiv x y).natAbs = x.natAbs / y.natAbs := Int.natAbs_tdiv x y
  have hy1 : 1 ≤ y.natAbs := by omega
  have hle : x.natAbs / y.natAbs ≤ x.natAbs := Nat.div_le_self _ _
  simp only [SC.I32min, SC.I32max] at *
  by_cases hxm : x = -2147483648
  · subst hxm
    by_cases hy2 : y.natAbs = 1
    · have : y = 1 := by omega
      subst this; simp
    · have h2 : 2 ≤ y.natAbs := by omega
      have : (2147483648 : Nat) / y.natAbs ≤ 2147483648 / 2 := Nat.div_le_div_left h2 (by decide)
      have hx' : (-2147483648 : Int).natAbs = 2147483648 := by decide
      rw [hx'] at hq
      omega
  · have : x.natAbs ≤ 2147483647 := by omega
    omega

theorem divSat_eq (x y) (cfg : Cfg) (s : St) (hx : SC.I32min ≤ x ∧ x ≤ SC.I32max) (hy : SC.I32min ≤ y ∧ y ≤ SC.I32max) :
    run (.divSat x y) cfg s = expect (.divSat x y) cfg s := by
  simp only [run, SC.divSat, bind_eq, Tetl.C05.guard, expect_eq, doc, firstViolated, ctorState, bne_iff_ne, ne_eq,
    decide_eq_true_eq, Bool.and_eq_true, beq_iff_eq, Bool.or_eq_true, decide_not]
  by_cases hy0 : y = 0
  · subst hy0; simp
  · by_cases hm : x = SC.I32min ∧ y = -1
    · obtain ⟨rfl, rfl⟩ := hm
      simp [SC.I32min, SC.I32max]
      rfl
    · have hr := sc_tdiv_range x y hx hy hy0 hm
      have h1 : ¬ (Int.tdiv x y < SC.I32min ∨ SC.I32max < Int.tdiv x y) := by omega
      have h2 : max SC.I32min (min SC.I32max (Int.tdiv x y)) = Int.tdiv x y := by omega
      simp [hy0, hm, h1, h2, pure_eq]

end Tetl.C05.Lemmas
