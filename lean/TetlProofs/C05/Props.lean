/- C05 property theorems (see DESIGN §4 C05).  Helper lemmas are in Lemmas.lean. -/
import TetlProofs.C05.Lemmas
namespace Tetl.C05.Props
open Tetl.C05 Tetl.C05.Spec Tetl.C05.Lemmas

/-- Tie T: the inventory of check sites regenerated from the current headers (file, qualified function, normalised
    condition text, overload number, "a side effect precedes it") is exactly the list of guards the models carry.
    A deleted, weakened, reworded or moved check changes `Sites.sites` and this no longer checks. -/
theorem sites_accounted : inventory = Carried.guardSites := by decide +kernel

/-- every key a model operation can raise is an inventoried site -/
theorem model_keys_inventoried : Carried.modelKeys.all (fun k => (Carried.guardSites.map (·.1)).contains k) = true := by
  decide +kernel

/-- the sites carried without a model operation are exactly the 9 of linalg / format / to_string -/
theorem unmodelled_count : Carried.unmodelled.length = 9 := by decide +kernel

/-- operations whose equation model = spec is proved below (the others are compared by the correspondence run only) -/
def Proved : Op → Bool
  | .svAt _ | .svFront | .svBack _ => true
  | .svPush _ _ | .svEmplaceBack _ _ | .svPop _ | .svClear _ => true
  | .ivFront _ | .ivBack _ | .ivAt _ _ | .ivEmplaceBack _ | .ivPush _ _ | .ivPop => true
  | .vwAt _ | .vwFront | .vwBack | .vwRemovePrefix _ | .vwRemoveSuffix _ | .vwCopy _ _ | .vwSubstr _ _ => true
  | .spAt _ | .spFront | .spBack | .spFirst _ | .spLast _ | .spSubspan _ _ => true
  | .arAt _ _ => true
  | .strCtorFill _ _ | .strOpAssign _ | .strAssignFill _ _ | .strFront _ | .strBack _ | .strAt _ _ | .strPop => true
  | .optDeref _ | .expDeref _ | .expError _ | .varIdx _ _ | .varGet _ _ => true
  | .bit _ _ _ | .divSat _ | .dayCtor _ | .monthCtor _ | .stride _ _ | .setCtor _ _ => true
  | _ => false

/-- well-formedness of (configuration, object, operation): the class invariant `size ≤ capacity`, `size_t` arguments,
    the storage base of a static_vector matches its capacity, an engaged expected/variant holds exactly one object, the one-member chrono classes have room for their member,
    and `array::operator[]` is only claimed where its check is compiled in (SAFE) or the index is valid. -/
def WF (cfg : Cfg) (s : St) : Op → Prop
  | .svAt i => i < U64
  | .svBack _ => s.size < U64
  | .svPush st _ | .svEmplaceBack st _ => StorOk st s ∧ s.cap < U64
  | .svPop st | .svClear st => StorOk st s
  | .arAt _ i => cfg.safe = true ∨ i < s.size
  | .expDeref _ | .expError _ | .varIdx _ _ | .varGet _ _ => s.size = 1
  | .dayCtor _ | .monthCtor _ => 1 ≤ s.cap
  | _ => s.Inv

/-- Model = specification, for every configuration, object and argument (no bound): the run of the guard-carrying
    model is the handler at the site of the first violated documented clause with the object unchanged, or the
    specified result - never an out-of-range access. -/
theorem run_eq_expect (op : Op) (cfg : Cfg) (s : St) (hp : Proved op = true) (h : WF cfg s op) :
    run op cfg s = expect op cfg s := by
  cases op <;> simp only [Proved, Bool.false_eq_true] at hp <;> simp only [WF] at h
  case svAt i => exact svAt_eq i cfg s h
  case svFront => exact svFront_eq cfg s
  case svBack k => exact svBack_eq k cfg s h
  case svPush st v => exact svPush_eq st v cfg s h.1 h.2
  case svEmplaceBack st v => exact svEmplaceBack_eq st v cfg s h.1 h.2
  case svPop st => exact svPop_eq st cfg s h
  case svClear st => exact svClear_eq st cfg s h
  case ivFront k => exact ivFront_eq k cfg s
  case ivBack k => exact ivBack_eq k cfg s
  case ivAt k i => exact ivAt_eq k i cfg s
  case ivEmplaceBack v => exact ivEmplaceBack_eq v cfg s h
  case ivPush k v => exact ivPush_eq k v cfg s h
  case ivPop => exact ivPop_eq cfg s h
  case vwAt i => exact vwAt_eq i cfg s
  case vwFront => exact vwFront_eq cfg s
  case vwBack => exact vwBack_eq cfg s
  case vwRemovePrefix n => exact vwRemovePrefix_eq n cfg s
  case vwRemoveSuffix n => exact vwRemoveSuffix_eq n cfg s
  case vwCopy a b => exact vwCopy_eq a b cfg s
  case vwSubstr a b => exact vwSubstr_eq a b cfg s
  case spAt i => exact spAt_eq i cfg s
  case spFront => exact spFront_eq cfg s
  case spBack => exact spBack_eq cfg s
  case spFirst a => exact spFirst_eq a cfg s
  case spLast a => exact spLast_eq a cfg s
  case spSubspan a b => exact spSubspan_eq a b cfg s
  case arAt k i => exact arAt_eq k i cfg s h
  case strCtorFill n ch => exact strCtorFill_eq n ch cfg s
  case strOpAssign xs => exact strOpAssign_eq xs cfg s
  case strAssignFill n ch => exact strAssignFill_eq n ch cfg s
  case strFront k => exact strFront_eq k cfg s
  case strBack k => exact strBack_eq k cfg s
  case strAt k i => exact strAt_eq k i cfg s
  case strPop => exact strPop_eq cfg s h
  case optDeref k => exact optDeref_eq k cfg s
  case expDeref k => exact expDeref_eq k cfg s h
  case expError k => exact expError_eq k cfg s h
  case varIdx k i => exact varIdx_eq k i cfg s h
  case varGet k i => exact varGet_eq k i cfg s h
  case bit wh w p => exact bit_eq wh w p cfg s
  case divSat y => exact divSat_eq y cfg s
  case dayCtor d => exact dayCtor_eq d cfg s h
  case monthCtor d => exact monthCtor_eq d cfg s h
  case stride l r => exact stride_eq l r cfg s
  case setCtor n o => exact setCtor_eq n o cfg s

example : WF ⟨false⟩ ⟨3, [1, 2], 0⟩ (.svAt (U64 - 1)) ∧ Proved (.svAt (U64 - 1)) = true := ⟨by simp [WF], by decide⟩

/-- A violated documented precondition invokes the handler, at the inventoried site that documents the first violated
    clause, before any access outside the object, and the object is unchanged when the handler runs (for the
    constructors of the one-member chrono classes: the object under construction, `ctorState`). -/
theorem violation_asserts (op : Op) (cfg : Cfg) (s : St) (hp : Proved op = true) (h : WF cfg s op)
    (hbad : pre cfg s op = false) :
    ∃ k, run op cfg s = .assert k (ctorState s op) ∧ (k, false) ∈ (doc cfg s op).clauses := by
  rw [run_eq_expect op cfg s hp h, expect_eq]
  cases hv : firstViolated (doc cfg s op).clauses with
  | none =>
    have := (firstViolated_none _).mp hv
    simp only [pre] at hbad
    rw [this] at hbad
    exact absurd hbad (by decide)
  | some k => exact ⟨k, rfl, firstViolated_some_mem _ k hv⟩

example : WF ⟨false⟩ ⟨3, [1, 2], 0⟩ (.svAt 2) ∧ pre ⟨false⟩ ⟨3, [1, 2], 0⟩ (.svAt 2) = false := ⟨by simp only [WF]; decide, by decide⟩

/-- With the documented precondition no guard fires (inner guards are implied by it) and nothing outside the live
    range is touched: the call returns the specified result. -/
theorem valid_never_asserts (op : Op) (cfg : Cfg) (s : St) (hp : Proved op = true) (h : WF cfg s op)
    (hok : pre cfg s op = true) :
    run op cfg s = .ok ((doc cfg s op).result ()) ((doc cfg s op).post ()) := by
  rw [run_eq_expect op cfg s hp h, expect_eq]
  have := (firstViolated_none _).mpr (by simpa [pre] using hok)
  rw [this]; rfl

example : WF ⟨true⟩ ⟨4, [7, 8, 9], 0⟩ (.vwSubstr 3 5) ∧ pre ⟨true⟩ ⟨4, [7, 8, 9], 0⟩ (.vwSubstr 3 5) = true :=
  ⟨by simp [WF, St.Inv], by decide⟩

/-- Known finding F-C05-replace-pre: `replace(pos, count, s, count2)` with `pos + count == size()` is valid by the
    documented precondition `pos <= size()` but the model (as the code) invokes the handler. -/
theorem replace_counterexample :
    pre ⟨false⟩ ⟨20, [97, 98, 99], 0⟩ (.strReplace 1 1 2 [120, 121]) = true ∧
    run (.strReplace 1 1 2 [120, 121]) ⟨false⟩ ⟨20, [97, 98, 99], 0⟩ = .assert (STR.kReplCnt 1) ⟨20, [97, 98, 99], 0⟩ := by
  decide

/-- The checks as they were before the repairs of branch fix-c05 pass on violating arguments (why the code was changed):
    `static_cast<ptrdiff_t>(i) < size` for `i = 2^64-1`, `static_cast<int>(pos) < 32` for `pos = 2^32-1` and `2^31`,
    `size() + n <= capacity()` in size_t for `size = 2, n = 2^64-1, capacity = 3`. -/
theorem old_checks_counterexample :
    toI64 (U64 - 1) < (2 : Int) ∧ toI32 4294967295 < (32 : Int) ∧ toI32 2147483648 < (32 : Int) ∧ (2 + (U64 - 1)) % U64 ≤ 3 := by
  decide

end Tetl.C05.Props
