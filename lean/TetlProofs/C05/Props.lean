/- C05 property theorems (see DESIGN §4 C05).  Helper lemmas are in Lemmas.lean. -/
import TetlProofs.C05.Lemmas
import TetlProofs.C05.Inventory
import TetlProofs.C05.SvInsert
import TetlProofs.C05.SvErase
import TetlProofs.C05.StrBits
import TetlProofs.C05.StrIndex
import TetlProofs.C05.CarriedAudit
import TetlProofs.C05.Scalar
import TetlProofs.C05.ToU
import TetlProofs.C05.Unsafe
namespace Tetl.C05.Props
open Tetl.C05 Tetl.C05.Spec Tetl.C05.Lemmas

/-- Tie T: the inventory of check sites regenerated from the current headers (file, qualified function, normalised
    condition text, overload number, "a side effect precedes it") is exactly the list of guards the models carry.
    A deleted, weakened, reworded or moved check changes `Sites.sites` and this no longer checks. -/
theorem sites_accounted : inventory = Carried.guardSites := by decide +kernel

/-- every key a model operation can raise is an inventoried site -/
theorem model_keys_inventoried : Carried.modelKeys.all (fun k => (Carried.guardSites.map (·.1)).contains k) = true :=
  ca_all_keys

/-- the sites carried without a model operation are the 2 internal checks of format_to (the "value fits" contract of
    bitset::to_ulong / to_ullong is the model operation `bsToU`) -/
theorem unmodelled_count : Carried.unmodelled.length = 2 := ca_unmodelled

/-- operations whose equation model = spec is proved below: every operation of the model language (`Proved_all`).
    Kept as a function so that a new operation without a theorem has to be listed here explicitly. -/
def Proved : Op → Bool
  | .svAt _ | .svFront | .svBack _ => true
  | .svPush _ _ | .svEmplaceBack _ _ | .svPop _ | .svClear _ => true
  | .svInsertN _ _ _ _ | .svInsertCr _ _ _ | .svInsertMv _ _ _ | .svEmplace _ _ _ | .svInsertRng _ _ _ _ => true
  | .svErase _ _ | .svEraseRng _ _ _ | .svResize _ _ | .svResizeV _ _ _ | .svAssignN _ _ _ | .svAssignRng _ _ _ => true
  | .svCtorN _ _ | .svCtorNV _ _ _ | .svCtorRng _ _ _ => true
  | .ivFront _ | .ivBack _ | .ivAt _ _ | .ivEmplaceBack _ | .ivPush _ _ | .ivPop => true
  | .vwAt _ | .vwFront | .vwBack | .vwRemovePrefix _ | .vwRemoveSuffix _ | .vwCopy _ _ | .vwSubstr _ _ => true
  | .spAt _ | .spFront | .spBack | .spFirst _ | .spLast _ | .spSubspan _ _ => true
  | .spFirstT _ | .spLastT _ | .spSubspanT _ _ | .spCtorExt _ _ => true
  | .arAt _ _ | .arFront _ | .arBack _ => true
  | .strCtorFill _ _ | .strOpAssign _ | .strAssignFill _ _ | .strFront _ | .strBack _ | .strAt _ _ | .strPop => true
  | .strCtorPtr _ _ | .strAssignPtr _ _ | .strPush _ | .strEraseRng _ _ | .strReplace _ _ _ _ | .strReplaceSub _ _ _ _ _ => true
  | .strInsert _ _ _ | .strInsertFill _ _ _ | .strEraseIdx _ _ => true
  | .bb _ _ _ | .bs _ _ _ | .bsCtor _ _ _ | .nullChecks _ | .bsToU _ => true
  | .svMoveInsert _ _ _ _ | .svUnsafeSetSize _ _ | .svUnsafeDestroy _ _ | .ivUnsafeSetSize _ | .strUnsafeSetSize _ => true
  | .optDeref _ | .expDeref _ | .expError _ | .varIdx _ _ | .varGet _ _ => true
  | .bit _ _ _ | .divSat _ _ | .dayCtor _ | .monthCtor _ | .stride _ _ | .setCtor _ _ => true


theorem Proved_all (op : Op) : Proved op = true := by cases op <;> rfl

/-- the input class of known finding F-C05-replace-pre for `replace(pos, count, ...)`: valid by the documented
    precondition `pos <= size()` but rejected by tetl's checks `pos < size()` and `pos + count < size()` -/
def ReplaceExcluded (s : St) (pos count : Nat) : Prop := pos ≤ s.size ∧ ¬ pos + count < s.size
instance (s : St) (pos count : Nat) : Decidable (ReplaceExcluded s pos count) := by unfold ReplaceExcluded; infer_instance

/-- well-formedness of (configuration, object, operation): the class invariant `size ≤ capacity`, `size_t` arguments,
    the storage base of a static_vector matches its capacity, an engaged expected/variant holds exactly one object, the one-member chrono classes have room for their member, the bit position is a value of the word type, the operands of div_sat are `int` values,
    `array::operator[]` is only claimed where its check is compiled in (SAFE, or a zero-size array) or the index is valid,
    the "unsafe" size members are claimed for a new size within the constructed elements or beyond the capacity (a size in
    between exposes unconstructed storage) and `unsafe_destroy` for an empty range or a violating pointer (destroyed elements
    cannot be read back), `to_ulong` / `to_ullong` need nothing,
    a freshly constructed static_vector is empty, the units inserted into an inplace_string fit (insert clamps silently
    otherwise), and the `replace` overloads are claimed outside the class of known finding F-C05-replace-pre
    (`ReplaceExcluded`) and without size_t wrap of `pos + count` / `pos2 + count2`. -/
def WF (cfg : Cfg) (s : St) : Op → Prop
  | .svAt i => i < U64
  | .svBack _ => s.size < U64
  | .svPush st _ | .svEmplaceBack st _ => StorOk st s ∧ s.cap < U64
  | .svPop st | .svClear st | .svErase st _ | .svEraseRng st _ _ => StorOk st s
  | .svInsertN st _ _ _ | .svInsertCr st _ _ | .svInsertMv st _ _ | .svEmplace st _ _ | .svInsertRng st _ _ _ | .svMoveInsert st _ _ _
  | .svResize st _ | .svResizeV st _ _ | .svAssignN st _ _ | .svAssignRng st _ _ => StorOk st s ∧ s.cap < U64
  | .svCtorN st _ | .svCtorNV st _ _ | .svCtorRng st _ _ => StorOk st s ∧ s.cap < U64 ∧ s.elems = []
  | .svUnsafeSetSize st n => StorOk st s ∧ (n ≤ s.size ∨ s.cap < n)
  | .ivUnsafeSetSize n | .strUnsafeSetSize n => n ≤ s.size ∨ s.cap < n
  | .svUnsafeDestroy f l => (0 ≤ f ∧ f ≤ (s.size : Int)) ∧ (0 ≤ l ∧ l ≤ (s.size : Int)) → f = l
  | .bsToU _ => True
  | .arAt _ i => cfg.safe = true ∨ i < s.size ∨ s.size = 0
  | .strReplace _ pos count _ => ¬ ReplaceExcluded s pos count
  | .strReplaceSub pos count src pos2 count2 => (pos + count < U64 ∧ pos2 + count2 < U64) ∧ (pos ≠ s.size ∧ pos2 ≠ src.length)
  | .strInsert _ _ xs => s.size + xs.length ≤ s.cap
  | .strInsertFill _ count _ => s.size + count ≤ s.cap
  | .expDeref _ | .expError _ | .varIdx _ _ | .varGet _ _ => s.size = 1
  | .dayCtor _ | .monthCtor _ => 1 ≤ s.cap
  | .bit _ w pos => pos < 2 ^ w
  | .divSat x y => (SC.I32min ≤ x ∧ x ≤ SC.I32max) ∧ (SC.I32min ≤ y ∧ y ≤ SC.I32max)
  | _ => s.Inv

/-- Model = specification, for every configuration, object and argument (no bound): the run of the guard-carrying
    model is the handler at the site of the first violated documented clause with the object unchanged, or the
    specified result - never an out-of-range access. -/
theorem run_eq_expect (op : Op) (cfg : Cfg) (s : St) (_hp : Proved op = true) (h : WF cfg s op) :
    run op cfg s = expect op cfg s := by
  cases op <;> simp only [WF] at h
  case svAt i => exact svAt_eq i cfg s h
  case svFront => exact svFront_eq cfg s
  case svBack k => exact svBack_eq k cfg s h
  case svPush st v => exact svPush_eq st v cfg s h.1 h.2
  case svEmplaceBack st v => exact svEmplaceBack_eq st v cfg s h.1 h.2
  case svPop st => exact svPop_eq st cfg s h
  case svClear st => exact svClear_eq st cfg s h
  case svInsertN st p n v => exact svInsertN_eq st p n v cfg s h.1 h.2
  case svInsertCr st p v => exact svInsertCr_eq st p v cfg s h.1 h.2
  case svInsertMv st p v => exact svInsertMv_eq st p v cfg s h.1 h.2
  case svEmplace st p v => exact svEmplace_eq st p v cfg s h.1 h.2
  case svInsertRng st p xs o => exact svInsertRng_eq st p xs o cfg s h.1 h.2
  case svErase st p => exact svErase_eq st p cfg s h
  case svEraseRng st f l => exact svEraseRng_eq st f l cfg s h
  case svResize st n => exact svResize_eq st n cfg s h.1 h.2
  case svResizeV st n v => exact svResizeV_eq st n v cfg s h.1 h.2
  case svAssignN st n v => exact svAssignN_eq st n v cfg s h.1 h.2
  case svAssignRng st xs o => exact svAssignRng_eq st xs o cfg s h.1 h.2
  case svCtorN st n => exact svCtorN_eq st n cfg s h.1 h.2.1 h.2.2
  case svCtorNV st n v => exact svCtorNV_eq st n v cfg s h.1 h.2.1 h.2.2
  case svCtorRng st xs o => exact svCtorRng_eq st xs o cfg s h.1 h.2.1 h.2.2
  case ivFront k => exact ivFront_eq k cfg s
  case ivBack k => exact ivBack_eq k cfg s
  case ivAt k i => exact ivAt_eq k i cfg s
  case ivEmplaceBack v => exact ivEmplaceBack_eq v cfg s h
  case ivPush k v => exact ivPush_eq k v cfg s h
  case ivPop => exact ivPop_eq cfg s h
  case vwAt i => exact vwAt_eq i cfg s
  case vwFront => exact vwFront_eq cfg s
  case vwBack => exact vwBack_eq cfg s
  case vwRemovePrefix n => exact vwRemovePrefix_eq n cfg s
  case vwRemoveSuffix n => exact vwRemoveSuffix_eq n cfg s
  case vwCopy a b => exact vwCopy_eq a b cfg s
  case vwSubstr a b => exact vwSubstr_eq a b cfg s
  case spAt i => exact spAt_eq i cfg s
  case spFront => exact spFront_eq cfg s
  case spBack => exact spBack_eq cfg s
  case spFirst a => exact spFirst_eq a cfg s
  case spLast a => exact spLast_eq a cfg s
  case spSubspan a b => exact spSubspan_eq a b cfg s
  case spFirstT a => exact spFirstT_eq a cfg s
  case spLastT a => exact spLastT_eq a cfg s
  case spSubspanT a b => exact spSubspanT_eq a b cfg s
  case spCtorExt k e => exact spCtorExt_eq k e cfg s
  case arAt k i => exact arAt_eq k i cfg s h
  case arFront k => exact arFront_eq k cfg s
  case arBack k => exact arBack_eq k cfg s
  case strCtorPtr xs n => exact strCtorPtr_eq xs n cfg s
  case strAssignPtr xs n => exact strAssignPtr_eq xs n cfg s
  case strPush ch => exact strPush_eq ch cfg s h
  case strEraseRng a d => exact strEraseRng_eq a d cfg s h
  case strReplace k pos count src => exact strReplace_eq k pos count src cfg s h
  case strReplaceSub pos count src pos2 count2 => exact strReplaceSub_eq pos count src pos2 count2 cfg s h.1 h.2
  case strInsert k i xs => exact strInsert_eq k i xs cfg s h
  case strInsertFill i n ch => exact strInsertFill_eq i n ch cfg s h
  case strEraseIdx i n => exact strEraseIdx_eq i n cfg s h
  case bb w p v => exact bb_eq w p v cfg s
  case bs w p v => exact bs_eq w p v cfg s
  case bsCtor p n b => exact bsCtor_eq p n b cfg s
  case bsToU d => exact bsToU_eq d cfg s
  case svMoveInsert st p xs o => exact svMoveInsert_eq st p xs o cfg s h.1 h.2
  case svUnsafeSetSize st n => exact svUnsafeSetSize_eq st n cfg s h.1 h.2
  case svUnsafeDestroy f l => exact svUnsafeDestroy_eq f l cfg s h
  case ivUnsafeSetSize n => exact ivUnsafeSetSize_eq n cfg s h
  case strUnsafeSetSize n => exact strUnsafeSetSize_eq n cfg s h
  case nullChecks ks => exact nullChecks_eq ks cfg s
  case strCtorFill n ch => exact strCtorFill_eq n ch cfg s
  case strOpAssign xs => exact strOpAssign_eq xs cfg s
  case strAssignFill n ch => exact strAssignFill_eq n ch cfg s
  case strFront k => exact strFront_eq k cfg s
  case strBack k => exact strBack_eq k cfg s
  case strAt k i => exact strAt_eq k i cfg s
  case strPop => exact strPop_eq cfg s h
  case optDeref k => exact optDeref_eq k cfg s
  case expDeref k => exact expDeref_eq k cfg s h
  case expError k => exact expError_eq k cfg s h
  case varIdx k i => exact varIdx_eq k i cfg s h
  case varGet k i => exact varGet_eq k i cfg s h
  case bit wh w p => exact bit_eq wh w p cfg s h
  case divSat x y => exact divSat_eq x y cfg s h.1 h.2
  case dayCtor d => exact dayCtor_eq d cfg s h
  case monthCtor d => exact monthCtor_eq d cfg s h
  case stride l r => exact stride_eq l r cfg s
  case setCtor n o => exact setCtor_eq n o cfg s

example : WF ⟨false⟩ ⟨3, [1, 2], 0⟩ (.svAt (U64 - 1)) ∧ Proved (.svAt (U64 - 1)) = true := ⟨by simp [WF], by decide⟩

/-- A violated documented precondition invokes the handler, at the inventoried site that documents the first violated
    clause, before any access outside the object, and the object is unchanged when the handler runs (for the
    constructors of the one-member chrono classes: the object under construction, `ctorState`). -/
theorem violation_asserts (op : Op) (cfg : Cfg) (s : St) (hp : Proved op = true) (h : WF cfg s op)
    (hbad : pre cfg s op = false) :
    ∃ k, run op cfg s = .assert k (ctorState s op) ∧ (k, false) ∈ (doc cfg s op).clauses := by
  rw [run_eq_expect op cfg s hp h, expect_eq]
  cases hv : firstViolated (doc cfg s op).clauses with
  | none =>
    have := (firstViolated_none _).mp hv
    simp only [pre] at hbad
    rw [this] at hbad
    exact absurd hbad (by decide)
  | some k => exact ⟨k, rfl, firstViolated_some_mem _ k hv⟩

example : WF ⟨false⟩ ⟨3, [1, 2], 0⟩ (.svAt 2) ∧ pre ⟨false⟩ ⟨3, [1, 2], 0⟩ (.svAt 2) = false := ⟨by simp only [WF]; decide, by decide⟩

/-- With the documented precondition no guard fires (inner guards are implied by it) and nothing outside the live
    range is touched: the call returns the specified result. -/
theorem valid_never_asserts (op : Op) (cfg : Cfg) (s : St) (hp : Proved op = true) (h : WF cfg s op)
    (hok : pre cfg s op = true) :
    run op cfg s = .ok ((doc cfg s op).result ()) ((doc cfg s op).post ()) := by
  rw [run_eq_expect op cfg s hp h, expect_eq]
  have := (firstViolated_none _).mpr (by simpa [pre] using hok)
  rw [this]; rfl

example : WF ⟨true⟩ ⟨4, [7, 8, 9], 0⟩ (.vwSubstr 3 5) ∧ pre ⟨true⟩ ⟨4, [7, 8, 9], 0⟩ (.vwSubstr 3 5) = true :=
  ⟨by simp [WF, St.Inv], by decide⟩

/-- non-vacuity of the larger well-formedness conditions (samples): a static_vector<int, 3>{1, 2} insert, a fresh
    object for the sized constructor, a fitting string insert, a replace outside the excluded class -/
example : WF ⟨false⟩ ⟨3, [1, 2], 0⟩ (.svInsertN .triv 1 (U64 - 1) 7) ∧ pre ⟨false⟩ ⟨3, [1, 2], 0⟩ (.svInsertN .triv 1 (U64 - 1) 7) = false :=
  ⟨by simp only [WF, StorOk, St.Inv]; decide, by decide⟩
example : WF ⟨true⟩ ⟨3, [], 0⟩ (.svCtorNV .nontriv 3 9) ∧ pre ⟨true⟩ ⟨3, [], 0⟩ (.svCtorNV .nontriv 3 9) = true :=
  ⟨by simp only [WF, StorOk, St.Inv]; decide, by decide⟩
example : WF ⟨false⟩ ⟨4, [97, 98], 0⟩ (.strInsert 2 1 [120, 121]) ∧ pre ⟨false⟩ ⟨4, [97, 98], 0⟩ (.strInsert 2 1 [120, 121]) = true :=
  ⟨by simp only [WF]; decide, by decide⟩

example : WF ⟨false⟩ ⟨0, [], 0⟩ (.divSat SC.I32min (-1)) ∧ pre ⟨false⟩ ⟨0, [], 0⟩ (.divSat SC.I32min (-1)) = true ∧
    WF ⟨false⟩ ⟨0, [], 0⟩ (.bit 2 8 255) ∧ pre ⟨false⟩ ⟨0, [], 0⟩ (.bit 2 8 255) = false :=
  ⟨by simp only [WF]; decide, by decide, by simp only [WF]; decide, by decide⟩

/-- non-vacuity of the conditions of the members that are driven directly (samples): a full static_vector<int, 3> move_insert,
    a new size beyond the capacity for the storage's / inplace_vector's / inplace_string's unsafe_set_size, an unsafe_destroy with
    `last` beyond `end()`, a member of inplace_vector<T, 0> -/
example : WF ⟨false⟩ ⟨3, [1, 2], 0⟩ (.svMoveInsert .triv 1 [7, 8] true) ∧ pre ⟨false⟩ ⟨3, [1, 2], 0⟩ (.svMoveInsert .triv 1 [7, 8] true) = false :=
  ⟨by simp only [WF, StorOk, St.Inv]; decide, by decide⟩
example : WF ⟨false⟩ ⟨3, [1, 2], 0⟩ (.svUnsafeSetSize .nontriv 4) ∧ pre ⟨false⟩ ⟨3, [1, 2], 0⟩ (.svUnsafeSetSize .nontriv 4) = false ∧
    WF ⟨true⟩ ⟨3, [1, 2], 0⟩ (.ivUnsafeSetSize (U64 - 1)) ∧ pre ⟨true⟩ ⟨3, [1, 2], 0⟩ (.ivUnsafeSetSize (U64 - 1)) = false ∧
    WF ⟨true⟩ ⟨4, [97], 0⟩ (.strUnsafeSetSize 1) ∧ pre ⟨true⟩ ⟨4, [97], 0⟩ (.strUnsafeSetSize 1) = true ∧
    WF ⟨false⟩ ⟨3, [1, 2], 0⟩ (.svUnsafeDestroy 1 3) ∧ pre ⟨false⟩ ⟨3, [1, 2], 0⟩ (.svUnsafeDestroy 1 3) = false ∧
    WF ⟨false⟩ ⟨0, [], 0⟩ .ivPop ∧ pre ⟨false⟩ ⟨0, [], 0⟩ .ivPop = false :=
  ⟨by simp only [WF, StorOk, St.Inv]; decide, by decide, by simp only [WF]; decide, by decide, by simp only [WF]; decide, by decide,
   by simp only [WF]; decide, by decide, by simp only [WF, St.Inv]; decide, by decide⟩

/-- `bitset::to_ulong()` / `to_ullong()` (`digits` = the width of the result type): when the value of the bitset can be
    represented ([bitset.members]), the call returns it (printed as low / high 32-bit half) - none of the checks it goes
    through (`not test(i)` in the fits loop, `test`, `unchecked_test`, `set_bit`) fires, nothing outside the bits is read. -/
theorem toUnsigned_fits (d : Nat) (cfg : Cfg) (s : St) (h : bitsVal s.elems < 2 ^ d) :
    run (.bsToU d) cfg s = .ok [((bitsVal s.elems % 4294967296 : Nat) : Int), ((bitsVal s.elems / 4294967296 : Nat) : Int)] s := by
  have hok : pre cfg s (.bsToU d) = true := by simp [pre, doc, h]
  exact valid_never_asserts (.bsToU d) cfg s rfl trivial hok

/-- … and when it cannot (std::bitset throws overflow_error exactly here) the handler runs at the `not test(i)` site of
    `to_unsigned_type` with the bitset unchanged. -/
theorem toUnsigned_overflow (d : Nat) (cfg : Cfg) (s : St) (h : 2 ^ d ≤ bitsVal s.elems) :
    run (.bsToU d) cfg s = .assert BS.kToU s := by
  have hbad : pre cfg s (.bsToU d) = false := by simp [pre, doc]; omega
  obtain ⟨k, hk, hm⟩ := violation_asserts (.bsToU d) cfg s rfl trivial hbad
  simp only [doc, List.mem_singleton, Prod.mk.injEq] at hm
  rw [hk, hm.1]; rfl

/-- the standard's clause and the condition the code tests are the same: the value is representable in `d` digits iff no
    bit at a position `>= d` is set -/
theorem toUnsigned_representable_iff (l : List Int) (d : Nat) :
    bitsVal l < 2 ^ d ↔ (l.drop d).all (fun b => b == 0) = true := by
  rw [bitsVal_lt_iff]
  generalize l.drop d = m
  induction m with
  | nil => simp [bitsVal]
  | cons b bs ih =>
    simp only [bitsVal, List.all_cons, Bool.and_eq_true, beq_iff_eq, ← ih]
    by_cases hb : b = 0 <;> simp [hb] <;> omega

/-- samples: bitset<70> with bit 64 set, `to_ullong()` (64 digits) overflows; bitset<5> = 0b01101 returns 13 -/
example : 2 ^ 64 ≤ bitsVal (List.replicate 64 0 ++ [1, 0, 0, 0, 0, 0]) ∧ bitsVal [1, 0, 1, 1, 0] = 13 := by decide

/-- F-C05-replace-pre, the provable part: a `replace(pos, count, ...)` call outside the excluded class
    (`pos + count < size()`, hence valid) returns the specified result and never reaches the handler. -/
theorem replace_valid_partial (k pos count : Nat) (src : List Int) (cfg : Cfg) (s : St) (hx : ¬ ReplaceExcluded s pos count)
    (hok : pre cfg s (.strReplace k pos count src) = true) :
    run (.strReplace k pos count src) cfg s =
      .ok [] (withElems s (overwriteAt s.elems pos (src.take (min (min count (s.size - pos)) src.length)))) :=
  valid_never_asserts (.strReplace k pos count src) cfg s rfl hx hok

example : ¬ ReplaceExcluded ⟨20, [97, 98, 99], 0⟩ 1 1 ∧ pre ⟨false⟩ ⟨20, [97, 98, 99], 0⟩ (.strReplace 1 1 1 [120, 121]) = true :=
  ⟨by decide, by decide⟩

/-- Known finding F-C05-replace-pre: `replace(pos, count, s, count2)` with `pos + count == size()` is valid by the
    documented precondition `pos <= size()` but the model (as the code) invokes the handler. -/
theorem replace_counterexample :
    ReplaceExcluded ⟨20, [97, 98, 99], 0⟩ 1 2 ∧ pre ⟨false⟩ ⟨20, [97, 98, 99], 0⟩ (.strReplace 1 1 2 [120, 121]) = true ∧
    run (.strReplace 1 1 2 [120, 121]) ⟨false⟩ ⟨20, [97, 98, 99], 0⟩ = .assert (STR.kReplCnt 1) ⟨20, [97, 98, 99], 0⟩ := by
  decide

/-- The checks as they were before the repairs of branch fix-c05 pass on violating arguments (why the code was changed):
    `static_cast<ptrdiff_t>(i) < size` for `i = 2^64-1`, `static_cast<int>(pos) < 32` for `pos = 2^32-1` and `2^31`,
    `size() + n <= capacity()` in size_t for `size = 2, n = 2^64-1, capacity = 3`. -/
theorem old_checks_counterexample :
    toI64 (U64 - 1) < (2 : Int) ∧ toI32 4294967295 < (32 : Int) ∧ toI32 2147483648 < (32 : Int) ∧ (2 + (U64 - 1)) % U64 ≤ 3 := by
  decide

end Tetl.C05.Props
