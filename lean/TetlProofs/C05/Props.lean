/- C05 property theorems -/
import TetlProofs.C05.Lemmas
namespace Tetl.C05.Props
open Tetl.C05 Tetl.C05.Lemmas

/-- Tie T: the inventory of check sites regenerated from the current headers (file, qualified function, normalised
    condition text, overload number, "a side effect precedes it") is exactly the list of guards the models carry.
    A deleted, weakened, reworded or moved check changes `Sites.sites` and this no longer checks. -/
theorem sites_accounted : inventory = Carried.guardSites := by decide +kernel

/-- every key a model operation can raise is an inventoried site -/
theorem model_keys_inventoried : Carried.modelKeys.all (fun k => (Carried.guardSites.map (·.1)).contains k) = true := by
  decide +kernel

/-- the sites carried without a model operation are exactly the 9 of linalg / format / to_string -/
theorem unmodelled_count : Carried.unmodelled.length = 9 := by decide +kernel

end Tetl.C05.Props
