/- C05: bitset::to_ulong / to_ullong (`to_unsigned_type`): the "value fits" loop and the accumulation loop in closed form. -/
import TetlProofs.C05.Lemmas
namespace Tetl.C05.Lemmas
open Tetl.C05 Tetl.C05.Spec

theorem testBit_eq (i : Nat) (cfg : Cfg) (s : St) (h : i < s.elems.length) : BS.testBit i cfg s = .ok s.elems[i] s := by
  simp only [BS.testBit, BS.inSize, bind_eq, Tetl.C05.guard, St.size, rdAt_eq, decide_eq_true_eq, h, ↓reduceIte, ↓reduceDIte,
    Res.bind_ok]

theorem bitsVal_lt_iff (l : List Int) (d : Nat) : bitsVal l < 2 ^ d ↔ bitsVal (l.drop d) = 0 := by
  induction l generalizing d with
  | nil => simp [bitsVal, Nat.two_pow_pos]
  | cons b bs ih =>
    cases d with
    | zero => simp only [Nat.pow_zero, List.drop_zero]; omega
    | succ d =>
      simp only [List.drop_succ_cons, ← ih, bitsVal, Nat.pow_succ]
      generalize 2 ^ d = P
      split <;> omega

theorem bitsVal_take (l : List Int) (d : Nat) (h : bitsVal l < 2 ^ d) : bitsVal (l.take d) = bitsVal l := by
  induction l generalizing d with
  | nil => simp
  | cons b bs ih =>
    cases d with
    | zero => simp only [Nat.pow_zero] at h; simp only [List.take_zero, bitsVal] at *; omega
    | succ d =>
      simp only [List.take_succ_cons, bitsVal, Nat.pow_succ] at *
      have := ih d (by generalize 2 ^ d = P at *; split at h <;> omega)
      rw [this]

theorem fitsLoop_eq (n i : Nat) (cfg : Cfg) (s : St) (h : i + n = s.elems.length) :
    BS.fitsLoop n i cfg s = if bitsVal (s.elems.drop i) = 0 then .ok () s else .assert BS.kToU s := by
  induction n generalizing i with
  | zero =>
    rw [List.drop_of_length_le (by omega)]
    simp [BS.fitsLoop, pure_eq, bitsVal]
  | succ n ih =>
    have hi : i < s.elems.length := by omega
    rw [List.drop_eq_getElem_cons hi]
    simp only [BS.fitsLoop, bind_eq, testBit_eq i cfg s hi, Res.bind_ok, Tetl.C05.guard, Res.bind_ite, bitsVal,
      ih (i + 1) (by omega), beq_iff_eq]
    by_cases hb : s.elems[i] = 0
    · simp only [hb, ↓reduceIte, ne_eq, not_true_eq_false]
      congr 1
      apply propext; omega
    · simp only [hb, ↓reduceIte, ne_eq, not_false_eq_true, Res.bind_assert]
      rw [if_neg (by omega)]

theorem or_two_pow (r i : Nat) (h : r < 2 ^ i) : r ||| 2 ^ i = r + 2 ^ i := by
  have := Nat.two_pow_add_eq_or_of_lt h 1
  rw [Nat.mul_one] at this
  rw [Nat.or_comm, ← this]; omega

theorem sumLoop_eq (d n i r : Nat) (cfg : Cfg) (s : St) (h : i + n ≤ s.elems.length) (hd : i + n ≤ d) (hr : r < 2 ^ i) :
    BS.sumLoop d n i r cfg s = .ok (r + 2 ^ i * bitsVal ((s.elems.drop i).take n)) s := by
  induction n generalizing i r with
  | zero => simp [BS.sumLoop, pure_eq, bitsVal]
  | succ n ih =>
    have hi : i < s.elems.length := by omega
    rw [List.drop_eq_getElem_cons hi]
    simp only [BS.sumLoop, bind_eq, testBit_eq i cfg s hi, Res.bind_ok, List.take_succ_cons, bitsVal]
    have hp : 2 ^ (i + 1) = 2 * 2 ^ i := by rw [Nat.pow_succ, Nat.mul_comm]
    by_cases hb : s.elems[i] = 0
    · simp only [hb, bne_self_eq_false, Bool.false_eq_true, ↓reduceIte, ne_eq, not_true_eq_false]
      rw [ih (i + 1) r (by omega) (by omega) (by rw [hp]; omega)]
      rw [hp, Nat.zero_add, Nat.mul_assoc, Nat.mul_left_comm]
    · have hb' : (s.elems[i] != 0) = true := by simpa using hb
      have hid : i < d := by omega
      have hle : 2 ^ (i + 1) ≤ 2 ^ d := Nat.pow_le_pow_right (by omega) (by omega)
      have hmod : (r ||| 2 ^ i) % 2 ^ d = r + 2 ^ i := by
        rw [or_two_pow r i hr]; apply Nat.mod_eq_of_lt; omega
      simp only [hb', hb, ↓reduceIte, ne_eq, not_false_eq_true, bind_eq, Tetl.C05.guard, hid, decide_true,
        Res.bind_ok, hmod]
      rw [ih (i + 1) (r + 2 ^ i) (by omega) (by omega) (by rw [hp]; omega)]
      rw [hp, Nat.mul_add, Nat.mul_one, Nat.mul_assoc, Nat.mul_left_comm 2, Nat.add_assoc]

theorem bsToU_eq (d : Nat) (cfg : Cfg) (s : St) : run (.bsToU d) cfg s = expect (.bsToU d) cfg s := by
  have hdrop : s.elems.drop (min s.elems.length d) = s.elems.drop d := by
    by_cases hle : d ≤ s.elems.length
    · rw [Nat.min_eq_right hle]
    · rw [Nat.min_eq_left (by omega), List.drop_of_length_le (Nat.le_refl _), List.drop_of_length_le (by omega)]
  have htake : s.elems.take (min s.elems.length d) = s.elems.take d := by
    by_cases hle : d ≤ s.elems.length
    · rw [Nat.min_eq_right hle]
    · rw [Nat.min_eq_left (by omega), List.take_of_length_le (Nat.le_refl _), List.take_of_length_le (by omega)]
  simp only [run, BS.toUnsigned, bind_eq, pure_eq, getSize, Res.bind_ok, expect_eq, doc, firstViolated, ctorState,
    fin_ite, fin_none, fin_some, decide_eq_true_eq]
  rw [fitsLoop_eq _ _ cfg s (by omega), hdrop]
  simp only [← bitsVal_lt_iff, Res.bind_ite, Res.bind_ok, Res.bind_assert]
  split
  · rename_i hlt
    rw [sumLoop_eq d _ 0 0 cfg s (by omega) (by omega) (by simp)]
    simp only [Res.bind_ok, List.drop_zero, htake, bitsVal_take _ _ hlt, Nat.pow_zero, Nat.one_mul, Nat.zero_add]
  · rfl
end Tetl.C05.Lemmas
