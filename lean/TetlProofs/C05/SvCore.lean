/- C05 helper lemmas for the static_vector operations that grow the vector through repeated push_back / emplace_back
   and a final rotate: closed forms of the loops (`pushN`, `emplaceEach`, `emplaceDefault`) and of `rotateAt`. -/
import TetlProofs.C05.Lemmas
namespace Tetl.C05.Lemmas
open Tetl.C05 Tetl.C05.Spec

theorem StorOk.append {st : Stor} {s : St} (h : StorOk st s) (l : List Int) (hl : s.elems.length + l.length ≤ s.cap) :
    StorOk st (withElems s (s.elems ++ l)) := by
  obtain ⟨_, hz⟩ := h
  exact ⟨by simp only [St.Inv, withElems, List.length_append]; exact hl, hz⟩

theorem StorOk.withElems {st : Stor} {s : St} (h : StorOk st s) (l : List Int) (hl : l.length ≤ s.cap) :
    StorOk st (withElems s l) := ⟨by simp only [St.Inv, Spec.withElems]; exact hl, h.2⟩

/-- `push_back(v)`: the handler of `push_back` on a full vector, else the element is appended (no inner guard fires) -/
theorem pushBack_eq (st v) (cfg : Cfg) (s : St) (h : StorOk st s) (hc : s.cap < U64) :
    SV.pushBack st v cfg s = if s.elems.length < s.cap then .ok () (withElems s (s.elems ++ [v])) else .assert kPush s := by
  obtain ⟨hi, hz⟩ := h
  have hm : s.elems.length % U64 = s.elems.length := Nat.mod_eq_of_lt (by simp only [St.Inv] at hi; omega)
  cases st <;> simp at hz <;> c05_open <;> (try simp only [hm]) <;> c05_close

/-- `emplace_back(v)` of the storage base -/
theorem emplaceBack_eq (st v) (cfg : Cfg) (s : St) (h : StorOk st s) (hc : s.cap < U64) :
    SV.emplaceBack st v cfg s = if s.elems.length < s.cap then .ok () (withElems s (s.elems ++ [v])) else .assert (kStEmplace st) s := by
  obtain ⟨hi, hz⟩ := h
  have hm : s.elems.length % U64 = s.elems.length := Nat.mod_eq_of_lt (by simp only [St.Inv] at hi; omega)
  cases st <;> simp at hz <;> c05_open <;> (try simp only [hm]) <;> c05_close

theorem withElems_withElems (s : St) (a b : List Int) : withElems (withElems s a) b = withElems s b := rfl
theorem withElems_elems (s : St) (a : List Int) : (withElems s a).elems = a := rfl
theorem withElems_cap (s : St) (a : List Int) : (withElems s a).cap = s.cap := rfl
theorem withElems_self (s : St) : withElems s s.elems = s := rfl

/-- `while (n != 0) { push_back(x); --n; }` with room for `n` elements -/
theorem pushN_ok (st v) (cfg : Cfg) : ∀ (n : Nat) (s : St), StorOk st s → s.cap < U64 → s.elems.length + n ≤ s.cap →
    SV.pushN st v n cfg s = .ok () (withElems s (s.elems ++ List.replicate n v))
  | 0, s, _, _, _ => by simp [SV.pushN, pure_eq, withElems]
  | n + 1, s, h, hc, hn => by
    have hlt : s.elems.length < s.cap := by omega
    have h' := h.append [v] (by simp; omega)
    rw [SV.pushN, bind_eq, pushBack_eq st v cfg s h hc, if_pos hlt, Res.bind_ok,
      pushN_ok st v cfg n _ h' (by simpa [withElems] using hc) (by simp [withElems]; omega)]
    simp [withElems, List.replicate_succ]

/-- `for (; first != last; ++first) emplace_back(*first);` with room for the whole range -/
theorem emplaceEach_ok (st) (cfg : Cfg) : ∀ (xs : List Int) (s : St), StorOk st s → s.cap < U64 → s.elems.length + xs.length ≤ s.cap →
    SV.emplaceEach st xs cfg s = .ok () (withElems s (s.elems ++ xs))
  | [], s, _, _, _ => by simp [SV.emplaceEach, pure_eq, withElems]
  | x :: xs, s, h, hc, hn => by
    have hlt : s.elems.length < s.cap := by simp at hn; omega
    have h' := h.append [x] (by simp; omega)
    rw [SV.emplaceEach, bind_eq, emplaceBack_eq st x cfg s h hc, if_pos hlt, Res.bind_ok,
      emplaceEach_ok st cfg xs _ h' (by simpa [withElems] using hc) (by simp [withElems] at hn ⊢; omega)]
    simp [withElems]

/-- `while (n != size()) emplace_back(T{})` for `k = n - size()` rounds -/
theorem emplaceDefault_ok (st) (cfg : Cfg) : ∀ (k : Nat) (s : St), StorOk st s → s.cap < U64 → s.elems.length + k ≤ s.cap →
    SV.emplaceDefault st k cfg s = .ok () (withElems s (s.elems ++ List.replicate k 0))
  | 0, s, _, _, _ => by simp [SV.emplaceDefault, pure_eq, withElems]
  | k + 1, s, h, hc, hn => by
    have hlt : s.elems.length < s.cap := by omega
    have h' := h.append [0] (by simp; omega)
    rw [SV.emplaceDefault, bind_eq, emplaceBack_eq st 0 cfg s h hc, if_pos hlt, Res.bind_ok,
      emplaceDefault_ok st cfg k _ h' (by simpa [withElems] using hc) (by simp [withElems]; omega)]
    simp [withElems, List.replicate_succ]

/-- `rotate(begin() + p, begin() + |e|, end())` after `xs` was appended to `e`: `xs` lands at position `p` -/
theorem rotate_appended (e xs : List Int) (p : Nat) (hp : p ≤ e.length) :
    (e ++ xs).take p ++ (e ++ xs).drop e.length ++ ((e ++ xs).take e.length).drop p = insertAt e p xs := by
  have h1 : (e ++ xs).take p = e.take p := by rw [List.take_append_of_le_length hp]
  have h2 : (e ++ xs).drop e.length = xs := by simp
  have h3 : (e ++ xs).take e.length = e := by simp
  rw [h1, h2, h3]; rfl

theorem rotateAt_ok (p b : Nat) (cfg : Cfg) (t : St) (h : p ≤ b ∧ b ≤ t.elems.length) :
    SV.rotateAt p b cfg t = .ok () { t with elems := t.elems.take p ++ t.elems.drop b ++ (t.elems.take b).drop p } := by
  unfold SV.rotateAt; rw [if_pos h]

theorem rotateAt_appended (cfg : Cfg) (s : St) (xs : List Int) (p : Nat) (hp : p ≤ s.elems.length) :
    SV.rotateAt p s.elems.length cfg (withElems s (s.elems ++ xs)) = .ok () (withElems s (insertAt s.elems p xs)) := by
  rw [rotateAt_ok p s.elems.length cfg (withElems s (s.elems ++ xs)) ⟨hp, by simp [withElems]⟩, ← rotate_appended _ _ _ hp]
  rfl

/-- normal form of `insert(position, n, x)`: the two position checks, the count check, then `n` copies land at `position` -/
theorem insertN_nf (st p n v) (cfg : Cfg) (s : St) (h : StorOk st s) (hc : s.cap < U64) :
    SV.insertN st p n v cfg s =
      if 0 ≤ p then
        if p ≤ (s.elems.length : Int) then
          if n ≤ s.cap - s.elems.length then .ok [p] (withElems s (insertAt s.elems p.toNat (List.replicate n v)))
          else .assert kInsN s
        else .assert kItHi s
      else .assert kItLo s := by
  simp only [SV.insertN, SV.itInRange, bind_eq, pure_eq, Tetl.C05.guard, getSize, decide_eq_true_eq, Res.bind_ite, Res.bind_ok,
    Res.bind_assert, St.size]
  split
  · split
    · split
      · have hi := h.1; simp only [St.Inv] at hi
        rw [pushN_ok st v cfg n s h hc (by omega), Res.bind_ok, rotateAt_appended cfg s _ p.toNat (by omega), Res.bind_ok]
      · rfl
    · rfl
  · rfl

end Tetl.C05.Lemmas
