/- C05 helper lemmas: the normal form of model runs (nested if-then-else) and one equation model = spec per operation. -/
import Tetl.C05.Carried
import Tetl.C05.Spec
namespace Tetl.C05.Lemmas
open Tetl.C05 Tetl.C05.Spec

def Res.bind {α β} : Res α → (α → St → Res β) → Res β
  | .ok a s, f => f a s
  | .assert k s, _ => .assert k s
  | .oob s, _ => .oob s

@[simp] theorem Res.bind_ok {α β} (a : α) (s : St) (f : α → St → Res β) : Res.bind (.ok a s) f = f a s := rfl
@[simp] theorem Res.bind_assert {α β} (k : Key) (s : St) (f : α → St → Res β) : Res.bind (.assert k s : Res α) f = .assert k s := rfl
@[simp] theorem Res.bind_oob {α β} (s : St) (f : α → St → Res β) : Res.bind (.oob s : Res α) f = .oob s := rfl
@[simp] theorem Res.bind_ite {α β} (c : Prop) [Decidable c] (x y : Res α) (f : α → St → Res β) :
    Res.bind (if c then x else y) f = if c then Res.bind x f else Res.bind y f := by split <;> rfl

theorem bind_eq {α β} (m : M α) (f : α → M β) (c : Cfg) (s : St) :
    (m >>= f) c s = Res.bind (m c s) (fun a s' => f a c s') := by
  show M.bind m f c s = _
  unfold M.bind Res.bind
  cases m c s <;> rfl
theorem pure_eq {α} (a : α) (c : Cfg) (s : St) : (pure a : M α) c s = .ok a s := rfl

def fin (o : Option Key) (sA : St) (r : Unit → Out) (p : Unit → St) : Res Out :=
  match o with | some k => .assert k sA | none => .ok (r ()) (p ())
@[simp] theorem fin_none (sA r p) : fin none sA r p = .ok (r ()) (p ()) := rfl
@[simp] theorem fin_some (k sA r p) : fin (some k) sA r p = .assert k sA := rfl
@[simp] theorem fin_ite (c : Prop) [Decidable c] (x y : Option Key) (sA r p) :
    fin (if c then x else y) sA r p = if c then fin x sA r p else fin y sA r p := by split <;> rfl
theorem expect_eq (op cfg s) : expect op cfg s =
    fin (firstViolated (doc cfg s op).clauses) (ctorState s op) (doc cfg s op).result (doc cfg s op).post := by
  unfold expect fin; rfl

theorem rdAt_eq (i : Nat) (c : Cfg) (s : St) : rdAt i c s = if h : i < s.elems.length then .ok s.elems[i] s else .oob s := by
  unfold rdAt; by_cases h : i < s.elems.length <;> simp [h]
theorem elemAt_eq (l : List Int) (i : Nat) : elemAt l i = if h : i < l.length then [l[i]] else [] := by
  unfold elemAt; by_cases h : i < l.length <;> simp [h]
@[simp] theorem Res.bind_dite {α β} (c : Prop) [Decidable c] (x : c → Res α) (y : ¬ c → Res α) (f : α → St → Res β) :
    Res.bind (dite c x y) f = dite c (fun h => Res.bind (x h) f) (fun h => Res.bind (y h) f) := by split <;> rfl

theorem ite_app2 {α} (c : Prop) [Decidable c] (f g : M α) (cfg : Cfg) (s : St) :
    (if c then f else g) cfg s = if c then f cfg s else g cfg s := by split <;> rfl

macro "c05_open" : tactic => `(tactic|
  simp only [run, expect_eq, doc, firstViolated, bind_eq, pure_eq, Tetl.C05.guard, guardSafe, rdAt_eq, wrAt, getSize, getCap, getSt,
    St.size, ctorState, lastOf, elemAt_eq, shrinkTo, constructEnd, putElems, withElems,
    VW.at_, VW.front, VW.back, VW.removePrefix, VW.removeSuffix, VW.copy, VW.substr, VW.narrow, VW.sub,
    SP.at_, SP.front, SP.back, SP.first, SP.last, SP.subspan, SP.firstT, SP.lastT, SP.subspanT, SP.ctorExt,
    IV.front, IV.back, IV.backP, IV.zeroMember, IV.at_, IV.append, IV.popBack, AR.at_, AR.front, AR.back,
    SV.at_, SV.front, SV.back, SV.indexGuard, SV.pushBack, SV.emplaceBack, SV.popBack, SV.setSizeGuard, SV.itInRange, SV.pairInRange,
    SV.destroyGuard, SV.clear, SV.rotateAt, putAlt,
    STR.front, STR.back, STR.at_, STR.pushBack, STR.popBack, STR.eraseRng, STR.setSizeGuard, STR.ctorPtr, STR.ctorFill, STR.assignPtr,
    STR.opAssign, STR.assignFill, eraseRange, insertAt,
    OEV.optDeref, OEV.expDeref, OEV.expError, OEV.varIdx, OEV.varGet,
    BS.ctor, SC.dayCtor, SC.monthCtor, SC.stride, SC.setCtor, posClauses, List.cons_append, List.nil_append,
    Res.bind_ok, Res.bind_assert, Res.bind_oob, Res.bind_ite, Res.bind_dite, fin_none, fin_some, fin_ite, decide_eq_true_eq, ite_app2])

theorem take_drop_all (l : List Int) (n m : Nat) (h : l.length ≤ n + m) : List.take m (List.drop n l) = List.drop n l :=
  List.take_of_length_le (by simp; omega)

macro "c05_close" : tactic => `(tactic|
  ((repeat' split) <;>
   (try simp only [firstViolated, fin_none, fin_some, fin_ite, pure_eq, Res.bind_ok] at *) <;>
   (repeat' split) <;>
   (try simp only [decide_eq_true_eq] at *) <;>
   (try simp only [decide_eq_false_iff_not] at *) <;>
   (try simp only [St.Inv] at *) <;>
   (try simp only [bne_iff_ne, ne_eq, beq_iff_eq, Bool.not_eq_true, beq_eq_false_iff_ne] at *) <;>
   (try omega) <;>
   (try (exfalso; omega)) <;>
   (try (simp_all [-List.length_eq_zero_iff, List.dropLast_eq_take]; done)) <;>
   (try (first
     | omega
     | (rw [take_drop_all _ _ _ (by omega)]; done)
     | (simp [-List.length_eq_zero_iff, List.dropLast_eq_take, take_drop_all] <;> omega)))))


theorem vwAt_eq (i) (cfg : Cfg) (s : St) : run (.vwAt i) cfg s = expect (.vwAt i) cfg s := by c05_open; c05_close
theorem vwFront_eq (cfg : Cfg) (s : St) : run (.vwFront) cfg s = expect (.vwFront) cfg s := by c05_open; c05_close
theorem vwBack_eq (cfg : Cfg) (s : St) : run (.vwBack) cfg s = expect (.vwBack) cfg s := by c05_open; c05_close
theorem vwRemovePrefix_eq (n) (cfg : Cfg) (s : St) : run (.vwRemovePrefix n) cfg s = expect (.vwRemovePrefix n) cfg s := by c05_open; c05_close
theorem vwRemoveSuffix_eq (n) (cfg : Cfg) (s : St) : run (.vwRemoveSuffix n) cfg s = expect (.vwRemoveSuffix n) cfg s := by c05_open; c05_close
theorem vwSubstr_eq (a b) (cfg : Cfg) (s : St) : run (.vwSubstr a b) cfg s = expect (.vwSubstr a b) cfg s := by c05_open; c05_close
theorem vwCopy_eq (a b) (cfg : Cfg) (s : St) : run (.vwCopy a b) cfg s = expect (.vwCopy a b) cfg s := by c05_open; c05_close
theorem spAt_eq (i) (cfg : Cfg) (s : St) : run (.spAt i) cfg s = expect (.spAt i) cfg s := by c05_open; c05_close
theorem spFront_eq (cfg : Cfg) (s : St) : run (.spFront) cfg s = expect (.spFront) cfg s := by c05_open; c05_close
theorem spBack_eq (cfg : Cfg) (s : St) : run (.spBack) cfg s = expect (.spBack) cfg s := by c05_open; c05_close
theorem spFirst_eq (a) (cfg : Cfg) (s : St) : run (.spFirst a) cfg s = expect (.spFirst a) cfg s := by c05_open; c05_close
theorem spLast_eq (a) (cfg : Cfg) (s : St) : run (.spLast a) cfg s = expect (.spLast a) cfg s := by c05_open; c05_close
theorem spSubspan_eq (a b) (cfg : Cfg) (s : St) : run (.spSubspan a b) cfg s = expect (.spSubspan a b) cfg s := by c05_open; c05_close
theorem spFirstT_eq (a) (cfg : Cfg) (s : St) : run (.spFirstT a) cfg s = expect (.spFirstT a) cfg s := by c05_open <;> c05_close
theorem spLastT_eq (a) (cfg : Cfg) (s : St) : run (.spLastT a) cfg s = expect (.spLastT a) cfg s := by c05_open <;> c05_close
theorem spSubspanT_eq (a b) (cfg : Cfg) (s : St) : run (.spSubspanT a b) cfg s = expect (.spSubspanT a b) cfg s := by c05_open <;> c05_close
theorem spCtorExt_eq (k e) (cfg : Cfg) (s : St) : run (.spCtorExt k e) cfg s = expect (.spCtorExt k e) cfg s := by c05_open <;> c05_close
theorem arAt_eq (k i) (cfg : Cfg) (s : St) (h : cfg.safe = true ∨ i < s.size ∨ s.size = 0) : run (.arAt k i) cfg s = expect (.arAt k i) cfg s := by c05_open; c05_close
theorem arFront_eq (k) (cfg : Cfg) (s : St) : run (.arFront k) cfg s = expect (.arFront k) cfg s := by c05_open; c05_close
theorem arBack_eq (k) (cfg : Cfg) (s : St) : run (.arBack k) cfg s = expect (.arBack k) cfg s := by c05_open; c05_close
theorem ivFront_eq (k) (cfg : Cfg) (s : St) : run (.ivFront k) cfg s = expect (.ivFront k) cfg s := by c05_open; c05_close
theorem ivBack_eq (k) (cfg : Cfg) (s : St) : run (.ivBack k) cfg s = expect (.ivBack k) cfg s := by c05_open; c05_close
theorem ivAt_eq (k i) (cfg : Cfg) (s : St) : run (.ivAt k i) cfg s = expect (.ivAt k i) cfg s := by c05_open; c05_close
theorem ivEmplaceBack_eq (v) (cfg : Cfg) (s : St) (h : s.Inv) : run (.ivEmplaceBack v) cfg s = expect (.ivEmplaceBack v) cfg s := by c05_open; c05_close
theorem ivPush_eq (k v) (cfg : Cfg) (s : St) (h : s.Inv) : run (.ivPush k v) cfg s = expect (.ivPush k v) cfg s := by c05_open; c05_close
theorem ivPop_eq (cfg : Cfg) (s : St) (h : s.Inv) : run (.ivPop) cfg s = expect (.ivPop) cfg s := by c05_open; c05_close
theorem svAt_eq (i) (cfg : Cfg) (s : St) (hi : i < U64) : run (.svAt i) cfg s = expect (.svAt i) cfg s := by
  c05_open; simp only [Nat.mod_eq_of_lt hi]; c05_close
theorem svFront_eq (cfg : Cfg) (s : St) : run (.svFront) cfg s = expect (.svFront) cfg s := by c05_open; c05_close
theorem svBack_eq (k) (cfg : Cfg) (s : St) (h : s.size < U64) : run (.svBack k) cfg s = expect (.svBack k) cfg s := by
  have h' : (s.elems.length - 1) % U64 = s.elems.length - 1 := Nat.mod_eq_of_lt (by simp only [St.size] at h; omega)
  c05_open; simp only [h']; c05_close
theorem strFront_eq (k) (cfg : Cfg) (s : St) : run (.strFront k) cfg s = expect (.strFront k) cfg s := by c05_open; c05_close
theorem strBack_eq (k) (cfg : Cfg) (s : St) : run (.strBack k) cfg s = expect (.strBack k) cfg s := by c05_open; c05_close
theorem strAt_eq (k i) (cfg : Cfg) (s : St) : run (.strAt k i) cfg s = expect (.strAt k i) cfg s := by c05_open; c05_close
theorem strPop_eq (cfg : Cfg) (s : St) (h : s.Inv) : run (.strPop) cfg s = expect (.strPop) cfg s := by c05_open; c05_close
theorem strCtorFill_eq (n ch) (cfg : Cfg) (s : St) : run (.strCtorFill n ch) cfg s = expect (.strCtorFill n ch) cfg s := by c05_open; c05_close
theorem strOpAssign_eq (xs) (cfg : Cfg) (s : St) : run (.strOpAssign xs) cfg s = expect (.strOpAssign xs) cfg s := by c05_open; c05_close
theorem strAssignFill_eq (n ch) (cfg : Cfg) (s : St) : run (.strAssignFill n ch) cfg s = expect (.strAssignFill n ch) cfg s := by c05_open; c05_close
theorem optDeref_eq (k) (cfg : Cfg) (s : St) : run (.optDeref k) cfg s = expect (.optDeref k) cfg s := by c05_open; c05_close
theorem expDeref_eq (k) (cfg : Cfg) (s : St) (h : s.size = 1) : run (.expDeref k) cfg s = expect (.expDeref k) cfg s := by c05_open; c05_close
theorem expError_eq (k) (cfg : Cfg) (s : St) (h : s.size = 1) : run (.expError k) cfg s = expect (.expError k) cfg s := by c05_open; c05_close
theorem varIdx_eq (k i) (cfg : Cfg) (s : St) (h : s.size = 1) : run (.varIdx k i) cfg s = expect (.varIdx k i) cfg s := by c05_open; c05_close
theorem varGet_eq (k i) (cfg : Cfg) (s : St) (h : s.size = 1) : run (.varGet k i) cfg s = expect (.varGet k i) cfg s := by c05_open; c05_close
theorem dayCtor_eq (d) (cfg : Cfg) (s : St) (h : 1 ≤ s.cap) : run (.dayCtor d) cfg s = expect (.dayCtor d) cfg s := by c05_open; c05_close
theorem monthCtor_eq (d) (cfg : Cfg) (s : St) (h : 1 ≤ s.cap) : run (.monthCtor d) cfg s = expect (.monthCtor d) cfg s := by c05_open; c05_close
theorem stride_eq (l r) (cfg : Cfg) (s : St) : run (.stride l r) cfg s = expect (.stride l r) cfg s := by c05_open; c05_close
theorem setCtor_eq (n o) (cfg : Cfg) (s : St) : run (.setCtor n o) cfg s = expect (.setCtor n o) cfg s := by c05_open <;> c05_close


/-- the storage base matches the capacity (zero storage iff Capacity == 0) and the class invariant holds -/
def StorOk (st : Stor) (s : St) : Prop := s.Inv ∧ (st = .zero ↔ s.cap = 0)

theorem svPush_eq (st v) (cfg : Cfg) (s : St) (h : StorOk st s) (hc : s.cap < U64) : run (.svPush st v) cfg s = expect (.svPush st v) cfg s := by
  obtain ⟨hi, hz⟩ := h
  have hm : s.elems.length % U64 = s.elems.length := Nat.mod_eq_of_lt (by simp only [St.Inv] at hi; omega)
  cases st <;> simp at hz <;> c05_open <;> (try simp only [hm]) <;> c05_close
theorem svEmplaceBack_eq (st v) (cfg : Cfg) (s : St) (h : StorOk st s) (hc : s.cap < U64) : run (.svEmplaceBack st v) cfg s = expect (.svEmplaceBack st v) cfg s := by
  obtain ⟨hi, hz⟩ := h
  have hm : s.elems.length % U64 = s.elems.length := Nat.mod_eq_of_lt (by simp only [St.Inv] at hi; omega)
  cases st <;> simp at hz <;> c05_open <;> (try simp only [hm]) <;> c05_close
theorem svPop_eq (st) (cfg : Cfg) (s : St) (h : StorOk st s) : run (.svPop st) cfg s = expect (.svPop st) cfg s := by
  obtain ⟨hi, hz⟩ := h
  cases st <;> simp at hz <;> c05_open <;> c05_close
theorem svClear_eq (st) (cfg : Cfg) (s : St) (h : StorOk st s) : run (.svClear st) cfg s = expect (.svClear st) cfg s := by
  obtain ⟨hi, hz⟩ := h
  cases st <;> simp at hz <;> c05_open <;> c05_close

theorem firstViolated_none (l : List (Key × Bool)) : firstViolated l = none ↔ l.all (·.2) = true := by
  induction l with
  | nil => simp [firstViolated]
  | cons x xs ih =>
    obtain ⟨k, b⟩ := x
    cases b <;> simp [firstViolated, ih]

theorem firstViolated_some_mem (l : List (Key × Bool)) (k : Key) (h : firstViolated l = some k) : (k, false) ∈ l := by
  induction l with
  | nil => simp [firstViolated] at h
  | cons x xs ih =>
    obtain ⟨k', b⟩ := x
    cases b
    · simp [firstViolated] at h; simp [h]
    · simp [firstViolated] at h; simp [ih h]

end Tetl.C05.Lemmas
