/- C05 helper lemmas -/
import Tetl.C05.Sites
import Tetl.C05.Carried
import Tetl.C05.Spec
namespace Tetl.C05.Lemmas
open Tetl.C05

/-- projection of the regenerated inventory that the models must match -/
def inventory : List (Key × Bool) := Sites.sites.map (fun s => (s.key, s.late))

end Tetl.C05.Lemmas
