/- C05: the members behind the public ones, driven directly: the public `move_insert(position, first, last)` and the
   "unsafe" size / destroy members of the storage classes, inplace_vector and basic_inplace_string. -/
import TetlProofs.C05.SvCore
namespace Tetl.C05.Lemmas
open Tetl.C05 Tetl.C05.Spec

/-- normal form of `move_insert(position, first, last)` called with a pointer range -/
theorem moveInsertRng_nf (st p xs o) (cfg : Cfg) (s : St) (h : StorOk st s) (hc : s.cap < U64) :
    SV.moveInsertRng st p xs o cfg s =
      if 0 ≤ p then
        if p ≤ (s.elems.length : Int) then
          if o = true then
            if s.elems.length + xs.length ≤ s.cap then .ok [p] (withElems s (insertAt s.elems p.toNat xs))
            else .assert kMoveIns s
          else .assert kPair s
        else .assert kItHi s
      else .assert kItLo s := by
  simp only [SV.moveInsertRng, SV.itInRange, bind_eq, pure_eq, Tetl.C05.guard, getSize, decide_eq_true_eq, Res.bind_ite, Res.bind_ok,
    Res.bind_assert, St.size]
  split
  · split
    · split
      · split
        · have hi := h.1; simp only [St.Inv] at hi
          rw [emplaceEach_ok st cfg xs s h hc (by omega), Res.bind_ok, rotateAt_appended cfg s _ p.toNat (by omega), Res.bind_ok]
        · rfl
      · rfl
    · rfl
  · rfl

theorem svMoveInsert_eq (st p xs o) (cfg : Cfg) (s : St) (h : StorOk st s) (hc : s.cap < U64) :
    run (.svMoveInsert st p xs o) cfg s = expect (.svMoveInsert st p xs o) cfg s := by
  have hi := h.1
  simp only [run, moveInsertRng_nf st p xs o cfg s h hc]
  c05_open <;> c05_close

theorem svUnsafeSetSize_eq (st n) (cfg : Cfg) (s : St) (h : StorOk st s) (hn : n ≤ s.size ∨ s.cap < n) :
    run (.svUnsafeSetSize st n) cfg s = expect (.svUnsafeSetSize st n) cfg s := by
  obtain ⟨hi, hz⟩ := h
  simp only [St.size] at hn
  cases st <;> simp at hz <;> simp only [run, SV.unsafeSetSize] <;> c05_open <;> simp only [setSizeOk, decide_eq_true_eq] <;> c05_close

theorem svUnsafeDestroy_eq (f l) (cfg : Cfg) (s : St) (hn : (0 ≤ f ∧ f ≤ (s.size : Int)) ∧ (0 ≤ l ∧ l ≤ (s.size : Int)) → f = l) :
    run (.svUnsafeDestroy f l) cfg s = expect (.svUnsafeDestroy f l) cfg s := by
  simp only [St.size] at hn
  simp only [run, SV.unsafeDestroy]; c05_open <;> c05_close

theorem ivUnsafeSetSize_eq (n) (cfg : Cfg) (s : St) (hn : n ≤ s.size ∨ s.cap < n) :
    run (.ivUnsafeSetSize n) cfg s = expect (.ivUnsafeSetSize n) cfg s := by
  simp only [St.size] at hn
  simp only [run, IV.unsafeSetSize]; c05_open <;> c05_close

theorem strUnsafeSetSize_eq (n) (cfg : Cfg) (s : St) (hn : n ≤ s.size ∨ s.cap < n) :
    run (.strUnsafeSetSize n) cfg s = expect (.strUnsafeSetSize n) cfg s := by
  simp only [St.size] at hn
  simp only [run, STR.unsafeSetSize]; c05_open <;> c05_close

end Tetl.C05.Lemmas
