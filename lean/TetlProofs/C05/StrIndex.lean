/- C05 helper lemmas: basic_inplace_string::insert(index, ...) (append at the end, rotate into place) and erase(index, count). -/
import TetlProofs.C05.StrBits
namespace Tetl.C05.Lemmas
open Tetl.C05 Tetl.C05.Spec

/-- `append(str, count)` when the units fit: nothing is clamped -/
theorem si_append_ok (xs : List Int) (cfg : Cfg) (t : St) (hfit : t.elems.length + xs.length ≤ t.cap) :
    STR.appendClamped xs cfg t = .ok () { t with elems := t.elems ++ xs } := by
  have hm : min xs.length (t.cap - t.elems.length) = xs.length := by omega
  simp only [STR.appendClamped, STR.setSizeGuard, bind_eq, Tetl.C05.guard, getSize, getCap, getSt, putElems, hm,
    List.take_length, decide_eq_true_eq, Res.bind_ite, Res.bind_ok, Res.bind_assert, List.length_append]
  rw [if_pos (by omega), if_pos (by omega), if_pos (by omega)]

/-- `insert_impl(begin() + index, text, count)` when the units fit and `index <= size()` -/
theorem si_insertImpl_ok (index : Nat) (xs : List Int) (cfg : Cfg) (t : St) (hfit : t.elems.length + xs.length ≤ t.cap)
    (hi : index ≤ t.elems.length) :
    STR.insertImpl index xs cfg t = .ok () (withElems t (insertAt t.elems index xs)) := by
  simp only [STR.insertImpl, bind_eq, getSize, Res.bind_ok, si_append_ok xs cfg t hfit]
  exact rotateAt_appended cfg t xs index hi

theorem si_insertAt_length (l xs : List Int) (i : Nat) : (insertAt l i xs).length = l.length + xs.length := by
  simp only [insertAt, List.length_append, List.length_take, List.length_drop]; omega

theorem si_insertAt_step (l : List Int) (i n : Nat) (ch : Int) (hi : i ≤ l.length) :
    insertAt (insertAt l i [ch]) i (List.replicate n ch) = insertAt l i (List.replicate (n + 1) ch) := by
  have h1 : (List.take i l ++ [ch] ++ List.drop i l).take i = List.take i l := by
    rw [List.append_assoc, List.take_append_of_le_length (by simp; omega), List.take_take]; simp
  have h2 : (List.take i l ++ [ch] ++ List.drop i l).drop i = [ch] ++ List.drop i l := by
    rw [List.append_assoc, List.drop_append_of_le_length (by simp; omega), List.drop_take]; simp
  unfold insertAt
  rw [h1, h2, List.replicate_succ']
  simp only [List.append_assoc]

/-- `for (i < count) insert_impl(begin() + index, &ch, 1)` -/
theorem si_insertEach_ok (index : Nat) (ch : Int) (cfg : Cfg) : ∀ (n : Nat) (t : St), index ≤ t.elems.length →
    t.elems.length + n ≤ t.cap → STR.insertEach index ch n cfg t = .ok () (withElems t (insertAt t.elems index (List.replicate n ch)))
  | 0, t, hi, _ => by
    simp only [STR.insertEach, pure_eq, insertAt, List.replicate_zero, List.append_nil, List.take_append_drop]; rfl
  | n + 1, t, hi, hn => by
    rw [STR.insertEach, bind_eq, si_insertImpl_ok index [ch] cfg t (by simp; omega) hi, Res.bind_ok,
      si_insertEach_ok index ch cfg n _ (by simp only [withElems_elems, si_insertAt_length]; omega)
        (by simp only [withElems_elems, withElems_cap, si_insertAt_length, List.length_singleton]; omega)]
    simp only [withElems_elems, withElems_withElems, si_insertAt_step _ _ _ _ hi]

theorem strInsert_eq (k index xs) (cfg : Cfg) (s : St) (hfit : s.size + xs.length ≤ s.cap) :
    run (.strInsert k index xs) cfg s = expect (.strInsert k index xs) cfg s := by
  simp only [St.size] at hfit
  by_cases hi : index ≤ s.elems.length
  · simp only [run, STR.insert, bind_eq, pure_eq, Tetl.C05.guard, St.size, decide_eq_true_eq, if_pos hi, Res.bind_ok,
      si_insertImpl_ok index xs cfg s hfit hi]
    c05_open <;> c05_close
  · simp only [run, STR.insert, bind_eq, Tetl.C05.guard, St.size, decide_eq_true_eq, if_neg hi, Res.bind_assert]
    c05_open <;> c05_close

theorem strInsertFill_eq (index count ch) (cfg : Cfg) (s : St) (hfit : s.size + count ≤ s.cap) :
    run (.strInsertFill index count ch) cfg s = expect (.strInsertFill index count ch) cfg s := by
  simp only [St.size] at hfit
  by_cases hi : index ≤ s.elems.length
  · simp only [run, STR.insertFill, bind_eq, pure_eq, Tetl.C05.guard, St.size, decide_eq_true_eq, if_pos hi, Res.bind_ok,
      si_insertEach_ok index ch cfg count s hi hfit]
    c05_open <;> c05_close
  · simp only [run, STR.insertFill, bind_eq, Tetl.C05.guard, St.size, decide_eq_true_eq, if_neg hi, Res.bind_assert]
    c05_open <;> c05_close

theorem strEraseIdx_eq (index count) (cfg : Cfg) (s : St) (h : s.Inv) :
    run (.strEraseIdx index count) cfg s = expect (.strEraseIdx index count) cfg s := by
  have he := strEraseRng_eq index (min count (s.elems.length - index)) cfg s h
  simp only [run] at he
  by_cases hi : index ≤ s.elems.length
  · simp only [run, STR.eraseIdx, bind_eq, pure_eq, Tetl.C05.guard, getSize, St.size, decide_eq_true_eq, if_pos hi, Res.bind_ok, he]
    c05_open <;> c05_close
  · simp only [run, STR.eraseIdx, bind_eq, Tetl.C05.guard, St.size, decide_eq_true_eq, if_neg hi, Res.bind_assert]
    c05_open <;> c05_close

end Tetl.C05.Lemmas
