/- C05: static_vector insert / emplace / assign / value and range constructors: model run = spec expectation. -/
import TetlProofs.C05.SvCore
namespace Tetl.C05.Lemmas
open Tetl.C05 Tetl.C05.Spec

/-- normal form of `move_insert(position, first, last)` -/
theorem ins_moveInsert_nf (st p xs) (cfg : Cfg) (s : St) (h : StorOk st s) (hc : s.cap < U64) :
    SV.moveInsert st p xs cfg s =
      if 0 ≤ p then
        if p ≤ (s.elems.length : Int) then
          if s.elems.length + xs.length ≤ s.cap then .ok [p] (withElems s (insertAt s.elems p.toNat xs))
          else .assert kMoveIns s
        else .assert kItHi s
      else .assert kItLo s := by
  simp only [SV.moveInsert, SV.itInRange, bind_eq, pure_eq, Tetl.C05.guard, getSize, decide_eq_true_eq, Res.bind_ite, Res.bind_ok,
    Res.bind_assert, St.size, if_true]
  split
  · split
    · split
      · have hi := h.1; simp only [St.Inv] at hi
        rw [emplaceEach_ok st cfg xs s h hc (by omega), Res.bind_ok, rotateAt_appended cfg s _ p.toNat (by omega), Res.bind_ok]
      · rfl
    · rfl
  · rfl

/-- normal form of `insert(position, first, last)` -/
theorem ins_insertRng_nf (st p xs o) (cfg : Cfg) (s : St) (h : StorOk st s) (hc : s.cap < U64) :
    SV.insertRng st p xs o cfg s =
      if 0 ≤ p then
        if p ≤ (s.elems.length : Int) then
          if o = true then
            if s.elems.length + xs.length ≤ s.cap then .ok [p] (withElems s (insertAt s.elems p.toNat xs))
            else .assert kInsRng s
          else .assert kPair s
        else .assert kItHi s
      else .assert kItLo s := by
  simp only [SV.insertRng, SV.itInRange, bind_eq, pure_eq, Tetl.C05.guard, getSize, decide_eq_true_eq, Res.bind_ite, Res.bind_ok,
    Res.bind_assert, St.size]
  split
  · split
    · split
      · split
        · have hi := h.1; simp only [St.Inv] at hi
          rw [emplaceEach_ok st cfg xs s h hc (by omega), Res.bind_ok, rotateAt_appended cfg s _ p.toNat (by omega), Res.bind_ok]
        · rfl
      · rfl
    · rfl
  · rfl

theorem ins_clear_ok (st) (cfg : Cfg) (s : St) (h : StorOk st s) : SV.clear st cfg s = .ok () (withElems s []) := by
  obtain ⟨hi, hz⟩ := h
  cases st <;> simp at hz <;> c05_open <;> c05_close

theorem ins_insertAt_nil (p : Nat) (xs : List Int) : insertAt [] p xs = xs := by simp [insertAt]

/-- `insert(begin(), n, x)` on an empty vector -/
theorem ins_insertN_empty (st n v) (cfg : Cfg) (t : St) (h : StorOk st t) (hc : t.cap < U64) (he : t.elems = []) :
    SV.insertN st 0 n v cfg t = if n ≤ t.cap then .ok [0] (withElems t (List.replicate n v)) else .assert kInsN t := by
  rw [insertN_nf st 0 n v cfg t h hc, he]
  simp [ins_insertAt_nil]

/-- `insert(begin(), first, last)` on an empty vector -/
theorem ins_insertRng_empty (st xs o) (cfg : Cfg) (t : St) (h : StorOk st t) (hc : t.cap < U64) (he : t.elems = []) :
    SV.insertRng st 0 xs o cfg t =
      if o = true then
        if xs.length ≤ t.cap then .ok [0] (withElems t xs) else .assert kInsRng t
      else .assert kPair t := by
  rw [ins_insertRng_nf st 0 xs o cfg t h hc, he]
  simp [ins_insertAt_nil]

theorem svInsertN_eq (st p n v) (cfg : Cfg) (s : St) (h : StorOk st s) (hc : s.cap < U64) :
    run (.svInsertN st p n v) cfg s = expect (.svInsertN st p n v) cfg s := by
  have hi := h.1
  simp only [run, insertN_nf st p n v cfg s h hc]
  c05_open <;> c05_close

theorem svInsertCr_eq (st p v) (cfg : Cfg) (s : St) (h : StorOk st s) (hc : s.cap < U64) :
    run (.svInsertCr st p v) cfg s = expect (.svInsertCr st p v) cfg s := by
  have hi := h.1
  simp only [run, SV.insertCr, bind_eq, SV.itInRange, Tetl.C05.guard, decide_eq_true_eq, Res.bind_ite, Res.bind_ok, Res.bind_assert, St.size, insertN_nf st p 1 v cfg s h hc]
  c05_open <;> c05_close

theorem svInsertMv_eq (st p v) (cfg : Cfg) (s : St) (h : StorOk st s) (hc : s.cap < U64) :
    run (.svInsertMv st p v) cfg s = expect (.svInsertMv st p v) cfg s := by
  have hi := h.1
  simp only [run, SV.insertMv, bind_eq, List.length_singleton, SV.itInRange, Tetl.C05.guard, decide_eq_true_eq, Res.bind_ite, Res.bind_ok, Res.bind_assert, St.size, ins_moveInsert_nf st p [v] cfg s h hc]
  c05_open <;> c05_close

theorem svEmplace_eq (st p v) (cfg : Cfg) (s : St) (h : StorOk st s) (hc : s.cap < U64) :
    run (.svEmplace st p v) cfg s = expect (.svEmplace st p v) cfg s := by
  have hi := h.1
  simp only [run, SV.emplace, bind_eq, List.length_singleton, SV.itInRange, Tetl.C05.guard, decide_eq_true_eq, Res.bind_ite, Res.bind_ok, Res.bind_assert, St.size, ins_moveInsert_nf st p [v] cfg s h hc]
  c05_open <;> c05_close

theorem svInsertRng_eq (st p xs o) (cfg : Cfg) (s : St) (h : StorOk st s) (hc : s.cap < U64) :
    run (.svInsertRng st p xs o) cfg s = expect (.svInsertRng st p xs o) cfg s := by
  have hi := h.1
  simp only [run, ins_insertRng_nf st p xs o cfg s h hc]
  c05_open <;> c05_close

theorem svAssignN_eq (st n v) (cfg : Cfg) (s : St) (h : StorOk st s) (hc : s.cap < U64) :
    run (.svAssignN st n v) cfg s = expect (.svAssignN st n v) cfg s := by
  have hi := h.1
  simp only [run, SV.assignN, bind_eq, Tetl.C05.guard, decide_eq_true_eq, Res.bind_ite, Res.bind_ok, Res.bind_assert, pure_eq, ins_clear_ok st cfg s h,
    ins_insertN_empty st n v cfg (withElems s []) (h.withElems [] (Nat.zero_le _)) hc rfl, withElems_cap, withElems_withElems]
  c05_open <;> c05_close

theorem svAssignRng_eq (st xs o) (cfg : Cfg) (s : St) (h : StorOk st s) (hc : s.cap < U64) :
    run (.svAssignRng st xs o) cfg s = expect (.svAssignRng st xs o) cfg s := by
  have hi := h.1
  simp only [run, SV.assignRng, bind_eq, Tetl.C05.guard, decide_eq_true_eq, Res.bind_ite, Res.bind_ok, Res.bind_assert, pure_eq, ins_clear_ok st cfg s h,
    ins_insertRng_empty st xs o cfg (withElems s []) (h.withElems [] (Nat.zero_le _)) hc rfl, withElems_cap, withElems_withElems]
  c05_open <;> c05_close

theorem svCtorNV_eq (st n v) (cfg : Cfg) (s : St) (h : StorOk st s) (hc : s.cap < U64) (he : s.elems = []) :
    run (.svCtorNV st n v) cfg s = expect (.svCtorNV st n v) cfg s := by
  have hi := h.1
  simp only [run, SV.ctorNV, bind_eq, Tetl.C05.guard, decide_eq_true_eq, Res.bind_ite, Res.bind_ok, Res.bind_assert, pure_eq, ins_insertN_empty st n v cfg s h hc he]
  c05_open <;> c05_close

theorem svCtorRng_eq (st xs o) (cfg : Cfg) (s : St) (h : StorOk st s) (hc : s.cap < U64) (he : s.elems = []) :
    run (.svCtorRng st xs o) cfg s = expect (.svCtorRng st xs o) cfg s := by
  have hi := h.1
  simp only [run, SV.ctorRng, bind_eq, Tetl.C05.guard, decide_eq_true_eq, Res.bind_ite, Res.bind_ok, Res.bind_assert, pure_eq, ins_insertRng_empty st xs o cfg s h hc he]
  c05_open <;> c05_close

end Tetl.C05.Lemmas
