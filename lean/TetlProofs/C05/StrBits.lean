/- C05: inplace_string (ctor/assign from pointer, push_back, erase, replace), bitset members and the C-string null checks:
   model run = spec expectation. -/
import TetlProofs.C05.SvCore
namespace Tetl.C05.Lemmas
open Tetl.C05 Tetl.C05.Spec

theorem strCtorPtr_eq (xs n) (cfg : Cfg) (s : St) : run (.strCtorPtr xs n) cfg s = expect (.strCtorPtr xs n) cfg s := by
  c05_open; c05_close
  rename_i h1 h2
  exfalso; apply h2; rw [List.length_take]; omega

theorem strAssignPtr_eq (xs n) (cfg : Cfg) (s : St) : run (.strAssignPtr xs n) cfg s = expect (.strAssignPtr xs n) cfg s := by
  c05_open; c05_close
  rename_i h1 h2
  exfalso; apply h2; rw [List.length_take]; omega

theorem strPush_eq (ch) (cfg : Cfg) (s : St) (h : s.Inv) : run (.strPush ch) cfg s = expect (.strPush ch) cfg s := by
  have hi := h
  c05_open; c05_close
  have hm : min 1 (s.cap - s.elems.length) = 1 := by omega
  rw [hm]; rfl

theorem bsCtor_eq (p n b) (cfg : Cfg) (s : St) : run (.bsCtor p n b) cfg s = expect (.bsCtor p n b) cfg s := by
  c05_open; c05_close
  have ht : List.take (min (min n (s.elems.length - p)) b) (List.drop p s.elems) = List.take (min b n) (List.drop p s.elems) := by
    rw [List.take_eq_take_iff, List.length_drop]; omega
  rw [List.take_take, ht]

theorem strEraseRng_eq (a d) (cfg : Cfg) (s : St) (h : s.Inv) : run (.strEraseRng a d) cfg s = expect (.strEraseRng a d) cfg s := by
  have hi := h
  c05_open; c05_close
  · rw [List.take_left' (by simp only [List.length_append, List.length_take, List.length_drop]; omega)]
  · rename_i h1 _
    exfalso; apply h1
    simp only [List.length_append, List.length_take, List.length_drop]; omega

/-- outside the class of known finding F-C05-replace-pre (valid by `pos ≤ size` but `pos + count ≥ size`) -/
theorem strReplace_eq (k pos count src) (cfg : Cfg) (s : St) (hx : ¬ (pos ≤ s.size ∧ ¬ pos + count < s.size)) :
    run (.strReplace k pos count src) cfg s = expect (.strReplace k pos count src) cfg s := by
  simp only [St.size] at hx
  simp only [run, STR.replace, STR.overwrite, expect_eq, doc, firstViolated, bind_eq, pure_eq, Tetl.C05.guard, St.size, ctorState,
    withElems, overwriteAt, Res.bind_ok, Res.bind_assert, Res.bind_oob, Res.bind_ite, fin_none, fin_some, fin_ite, decide_eq_true_eq]
  by_cases hp : pos ≤ s.elems.length
  · have hc : pos + count < s.elems.length := by omega
    have hm : (pos + count) % U64 < s.elems.length := Nat.lt_of_le_of_lt (Nat.mod_le _ _) hc
    have h1 : min (min count (s.elems.length - pos)) src.length = min count src.length := by omega
    have hf : pos + (List.take (min count src.length) src).length ≤ s.elems.length := by
      rw [List.length_take]; omega
    rw [if_pos (by omega : pos < s.elems.length), if_pos hm, if_pos hf, if_pos hp, h1]
  · rw [if_neg (by omega : ¬ pos < s.elems.length), if_neg hp]

/-- no size_t wrap of the sums, and not on the boundary values where tetl's strict checks differ from the documented ones -/
theorem strReplaceSub_eq (pos count src pos2 count2) (cfg : Cfg) (s : St)
    (hw : pos + count < U64 ∧ pos2 + count2 < U64) (hx : pos ≠ s.size ∧ pos2 ≠ src.length) :
    run (.strReplaceSub pos count src pos2 count2) cfg s = expect (.strReplaceSub pos count src pos2 count2) cfg s := by
  simp only [St.size] at hx
  obtain ⟨hw1, hw2⟩ := hw
  obtain ⟨hx1, hx2⟩ := hx
  simp only [run, STR.replaceSub, STR.overwrite, expect_eq, doc, firstViolated, bind_eq, pure_eq, Tetl.C05.guard, getSize, St.size,
    ctorState, withElems, overwriteAt, Res.bind_ok, Res.bind_assert, Res.bind_oob, Res.bind_ite, fin_none, fin_some, fin_ite,
    decide_eq_true_eq, Nat.mod_eq_of_lt hw1, Nat.mod_eq_of_lt hw2]
  by_cases hp : pos < s.elems.length
  · by_cases hq : pos2 < src.length
    · have e1 : min pos2 src.length = pos2 := Nat.min_eq_left (Nat.le_of_lt hq)
      have hX : List.take (min (pos2 + count2) src.length - pos2) (List.drop pos2 src) = List.take count2 (List.drop pos2 src) := by
        rw [List.take_eq_take_iff, List.length_drop]; omega
      rw [e1, hX]
      have hW : List.take (min (min (pos + count) s.elems.length - pos) (List.take count2 (List.drop pos2 src)).length)
            (List.take count2 (List.drop pos2 src))
          = List.take (min count (s.elems.length - pos)) (List.take count2 (List.drop pos2 src)) := by
        rw [List.take_eq_take_iff]; omega
      rw [hW]
      have hf : pos + (List.take (min count (s.elems.length - pos)) (List.take count2 (List.drop pos2 src))).length
          ≤ s.elems.length := by
        rw [List.length_take]; omega
      rw [if_pos hp, if_pos hq, if_pos hf, if_pos (Nat.le_of_lt hp), if_pos (Nat.le_of_lt hq)]
    · rw [if_pos hp, if_neg hq, if_pos (Nat.le_of_lt hp), if_neg (by omega : ¬ pos2 ≤ src.length)]
  · rw [if_neg hp, if_neg (by omega : ¬ pos ≤ s.elems.length)]

/-- open a bitset member: the `which` argument must be a literal -/
macro "sb_bits" : tactic => `(tactic|
  (simp only [run, BS.bb, BS.bs, expect_eq, doc, bbKey, bbResult, bbPost, bsKey, bsResult, bsPost, flipAt, setAt]
   c05_open
   simp only [BS.inSize, St.size, decide_eq_true_eq]
   all_goals c05_close))

theorem bb_eq (w p v) (cfg : Cfg) (s : St) : run (.bb w p v) cfg s = expect (.bb w p v) cfg s := by
  match w with
  | 0 => sb_bits
  | 1 => sb_bits
  | 2 => sb_bits
  | 3 => sb_bits
  | 4 => sb_bits
  | 5 => sb_bits
  | n + 6 =>
    show run (.bb 5 p v) cfg s = expect (.bb 5 p v) cfg s
    sb_bits

theorem bs_eq (w p v) (cfg : Cfg) (s : St) : run (.bs w p v) cfg s = expect (.bs w p v) cfg s := by
  match w with
  | 0 => sb_bits
  | 1 => sb_bits
  | 2 => sb_bits
  | 3 => sb_bits
  | 4 => sb_bits
  | 5 => sb_bits
  | n + 6 =>
    show run (.bs 5 p v) cfg s = expect (.bs 5 p v) cfg s
    sb_bits

theorem sb_null (cfg : Cfg) (s : St) : ∀ ks : List (Key × Bool),
    SC.nullChecks ks cfg s = fin (firstViolated ks) s (fun _ => []) (fun _ => s)
  | [] => by simp only [SC.nullChecks, pure_eq, firstViolated, fin_none]
  | (k, true) :: rest => by
    rw [SC.nullChecks]
    simp only [bind_eq, Tetl.C05.guard, if_true, Res.bind_ok, firstViolated]
    exact sb_null cfg s rest
  | (k, false) :: rest => by
    rw [SC.nullChecks]
    simp only [bind_eq, Tetl.C05.guard, Bool.false_eq_true, if_false, Res.bind_assert, firstViolated, fin_some]

theorem nullChecks_eq (ks) (cfg : Cfg) (s : St) : run (.nullChecks ks) cfg s = expect (.nullChecks ks) cfg s := by
  simp only [run, expect_eq, doc, ctorState]
  exact sb_null cfg s ks

end Tetl.C05.Lemmas
