/- C05 helper lemmas about the hand-maintained list of carried sites (`Tetl.C05.Carried`), evaluated in the kernel in
   chunks (each chunk a few seconds).  They do not depend on the regenerated inventory `Sites.lean`. -/
import Tetl.C05.Carried
namespace Tetl.C05.Lemmas
open Tetl.C05

def carriedKeys : List Key := Carried.guardSites.map (·.1)
def allCarried (l : List Key) : Bool := l.all (fun k => carriedKeys.contains k)
def notModelled (l : List Key) : List Key := l.filter (fun k => !Carried.modelKeys.contains k)

theorem ca_keys_a : allCarried (Carried.modelKeys.take 45) = true := by decide +kernel
theorem ca_keys_b : allCarried ((Carried.modelKeys.drop 45).take 45) = true := by decide +kernel
theorem ca_keys_c : allCarried (((Carried.modelKeys.drop 45).drop 45).take 45) = true := by decide +kernel
theorem ca_keys_d : allCarried (((Carried.modelKeys.drop 45).drop 45).drop 45) = true := by decide +kernel

theorem ca_split {α} (l : List α) (n : Nat) :
    l = l.take n ++ ((l.drop n).take n ++ (((l.drop n).drop n).take n ++ ((l.drop n).drop n).drop n)) := by
  rw [List.take_append_drop, List.take_append_drop, List.take_append_drop]

theorem ca_all_keys : allCarried Carried.modelKeys = true := by
  have h := ca_split Carried.modelKeys 45
  unfold allCarried at *
  rw [h, List.all_append, List.all_append, List.all_append]
  have a := ca_keys_a; have b := ca_keys_b; have c := ca_keys_c; have d := ca_keys_d
  unfold allCarried at a b c d
  rw [a, b, c, d]; rfl

theorem ca_unm_a : (notModelled (carriedKeys.take 45)).length = 0 := by decide +kernel
theorem ca_unm_b : (notModelled ((carriedKeys.drop 45).take 45)).length = 2 := by decide +kernel
theorem ca_unm_c : (notModelled (((carriedKeys.drop 45).drop 45).take 45)).length = 0 := by decide +kernel
theorem ca_unm_d : (notModelled (((carriedKeys.drop 45).drop 45).drop 45)).length = 0 := by decide +kernel

theorem ca_unmodelled : (notModelled carriedKeys).length = 2 := by
  have h := ca_split carriedKeys 45
  have a := ca_unm_a; have b := ca_unm_b; have c := ca_unm_c; have d := ca_unm_d
  unfold notModelled at *
  rw [h, List.filter_append, List.filter_append, List.filter_append, List.length_append, List.length_append, List.length_append,
    a, b, c, d]

end Tetl.C05.Lemmas
