/- C05: static_vector erase / resize / the default-value sized constructor: model run = spec expectation. -/
import TetlProofs.C05.SvCore
namespace Tetl.C05.Lemmas
open Tetl.C05 Tetl.C05.Spec

theorem er_eraseRng_nf (st f l) (cfg : Cfg) (s : St) (h : StorOk st s) :
    SV.eraseRng st f l cfg s =
      if 0 ≤ f then
        if f ≤ (s.elems.length : Int) then
          if 0 ≤ l then
            if l ≤ (s.elems.length : Int) then
              if f ≤ l then .ok [f] (withElems s (eraseRange s.elems f.toNat l.toNat))
              else .assert kPair s
            else .assert kItHi s
          else .assert kItLo s
        else .assert kItHi s
      else .assert kItLo s := by
  obtain ⟨hi, hz⟩ := h
  simp only [St.Inv] at hi
  simp only [SV.eraseRng, SV.pairInRange, SV.itInRange, bind_eq, pure_eq, Tetl.C05.guard, getSize, getSt, decide_eq_true_eq,
    Res.bind_ite, Res.bind_ok, Res.bind_assert, St.size, ite_app2]
  split
  · split
    · split
      · split
        · split
          · have hlen : (List.take f.toNat s.elems ++ List.drop l.toNat s.elems).length ≤ s.cap := by
              simp only [List.length_append, List.length_take, List.length_drop]; omega
            split
            · rename_i hne
              simp only [bne_iff_ne, ne_eq] at hne
              have hA : s.elems.length - (l - f).toNat ≤ s.cap := by omega
              have hB : s.elems.length - (l - f).toNat ≤ s.elems.length := by omega
              cases st <;> simp at hz
              · exfalso; omega
              all_goals
                simp only [SV.destroyGuard, SV.setSizeGuard, putElems, Tetl.C05.guard, bind_eq, pure_eq, Res.bind_ok, Res.bind_ite,
                  Res.bind_assert, St.size, decide_eq_true_eq, hA, hB, hlen, Nat.le_refl, if_true]
                rfl
            · rename_i hne
              simp only [bne_iff_ne, ne_eq, Decidable.not_not] at hne
              subst hne
              simp only [eraseRange, List.take_append_drop]; rfl
          · rfl
        · rfl
      · rfl
    · rfl
  · rfl

theorem svEraseRng_eq (st f l) (cfg : Cfg) (s : St) (h : StorOk st s) :
    run (.svEraseRng st f l) cfg s = expect (.svEraseRng st f l) cfg s := by
  have hi := h.1
  simp only [run, er_eraseRng_nf st f l cfg s h]
  c05_open

theorem svErase_eq (st p) (cfg : Cfg) (s : St) (h : StorOk st s) :
    run (.svErase st p) cfg s = expect (.svErase st p) cfg s := by
  have hi := h.1
  simp only [run, SV.erase, SV.itInRange, bind_eq, Tetl.C05.guard, decide_eq_true_eq, Res.bind_ite, Res.bind_ok,
    Res.bind_assert, St.size, er_eraseRng_nf st p (p + 1) cfg s h]
  c05_open; c05_close

theorem er_emplaceNTo_nf (st n) (cfg : Cfg) (s : St) (h : StorOk st s) (hc : s.cap < U64) :
    SV.emplaceNTo st n cfg s =
      if n ≤ s.cap then .ok () (withElems s (s.elems ++ List.replicate (n - s.elems.length) 0)) else .assert kEmplaceN s := by
  have hi := h.1; simp only [St.Inv] at hi
  simp only [SV.emplaceNTo, bind_eq, Tetl.C05.guard, getSize, decide_eq_true_eq, Res.bind_ite, Res.bind_ok, Res.bind_assert]
  split
  · rw [emplaceDefault_ok st cfg _ s h hc (by omega)]
  · rfl

theorem svResize_eq (st n) (cfg : Cfg) (s : St) (h : StorOk st s) (hc : s.cap < U64) :
    run (.svResize st n) cfg s = expect (.svResize st n) cfg s := by
  have hi := h.1; simp only [St.Inv] at hi
  simp only [run, SV.resize, bind_eq, pure_eq, getSize, Res.bind_ok, ite_app2, er_emplaceNTo_nf st n cfg s h hc,
    er_eraseRng_nf st n s.elems.length cfg s h]
  c05_open; c05_close
  rw [List.take_of_length_le (by omega)]

theorem svResizeV_eq (st n v) (cfg : Cfg) (s : St) (h : StorOk st s) (hc : s.cap < U64) :
    run (.svResizeV st n v) cfg s = expect (.svResizeV st n v) cfg s := by
  have hi := h.1; simp only [St.Inv] at hi
  simp only [run, SV.resizeV, bind_eq, pure_eq, getSize, Tetl.C05.guard, decide_eq_true_eq, Res.bind_ok, Res.bind_ite,
    Res.bind_assert, ite_app2, insertN_nf st s.elems.length (n - s.elems.length) v cfg s h hc,
    er_eraseRng_nf st n s.elems.length cfg s h]
  c05_open; c05_close
  simp only [Int.toNat_natCast, List.take_of_length_le (Nat.le_refl _), List.drop_eq_nil_of_le (Nat.le_refl _), List.append_nil]
  rw [List.take_of_length_le (by omega)]

theorem svCtorN_eq (st n) (cfg : Cfg) (s : St) (h : StorOk st s) (hc : s.cap < U64) (he : s.elems = []) :
    run (.svCtorN st n) cfg s = expect (.svCtorN st n) cfg s := by
  simp only [run, SV.ctorN, bind_eq, pure_eq, Tetl.C05.guard, decide_eq_true_eq, Res.bind_ok, Res.bind_ite,
    Res.bind_assert, er_emplaceNTo_nf st n cfg s h hc]
  c05_open; c05_close

end Tetl.C05.Lemmas
