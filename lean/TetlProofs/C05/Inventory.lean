/- C05: the only proof-side file that imports the regenerated inventory `Tetl.C05.Sites` (so that a changed inventory
   rebuilds this file and Props.lean only, not the operation lemmas). -/
import Tetl.C05.Sites
namespace Tetl.C05.Lemmas
open Tetl.C05

/-- projection of the regenerated inventory that the models must match -/
def inventory : List (Key × Bool) := Sites.sites.map (fun s => (s.key, s.late))

end Tetl.C05.Lemmas
