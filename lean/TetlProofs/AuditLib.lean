/-
`#audit_module M` prints, for every theorem declared in the (imported) module `M`,
one line `AUDIT <name> :: <axioms separated by blanks>`; the list is taken from the
compiled environment, not from source text.  `checks/lib.py` compares the axioms
with the allow-list.
-/
import Lean
open Lean Elab Command

elab "#audit_module " m:ident : command => do
  let env ← getEnv
  let modName := m.getId
  let some idx := env.getModuleIdx? modName
    | throwError "module {modName} is not imported"
  let mut names : Array Name := #[]
  for (n, ci) in env.constants.map₁.toList do
    if env.getModuleIdxFor? n == some idx then
      match ci with
      | .thmInfo _ => if !n.isInternalDetail then names := names.push n
      | _ => pure ()
  let sorted := names.qsort (fun a b => a.toString < b.toString)
  for n in sorted do
    let axs ← collectAxioms n
    let axs := axs.qsort (fun a b => a.toString < b.toString)
    IO.println s!"AUDIT {n} :: {" ".intercalate (axs.toList.map toString)}"
  IO.println s!"AUDIT-END {modName} {sorted.size}"
