#!/usr/bin/env python3
"""gen/c15_invoke.py — extracts tetl's INVOKE overload set from the preprocessed header (tie T of the INVOKE part of C15).

`g++ -E -P` over <etl/_type_traits/invoke_result.hpp>; every `static auto NAME(PARAMS) -> RET;` member of the class
templates `detail::invoke_impl<T>` / `detail::invoke_impl<MT B::*>` (with its `requires` clause) and the free function
template `detail::INVOKE` is parsed into a small expression tree (`Tetl.C15.Inv.IEx`): `etl::forward<T>(t)` vs. the bare
parameter name `t`, `invoke_impl::get(e)`, `*e`, `e.get()`, `(obj.*pm)(args...)`, `obj.*pm`, `f(args...)`, the type
`T&&`.  Whatever the parser does not understand becomes `IEx.opaque "<tokens>"`, which no theorem accepts.

Output: lean/Tetl/C15/GenInvoke.lean (`Tetl.C15.GenInvoke.overloads`), re-generated on every run of the check.
"""
import hashlib
import os
import sys

sys.path.insert(0, os.path.dirname(os.path.abspath(__file__)))
import c15_defs  # noqa: E402
from c15_defs import lean_str, match_close, tokenize  # noqa: E402

VERSION = "c15-invoke-1"
HEADERS = ["etl/_type_traits/invoke_result.hpp"]


class Bad(Exception):
    pass


class EP:
    """expressions of the trailing return types"""

    def __init__(self, toks):
        self.t, self.i = toks, 0

    def peek(self, k=0):
        return self.t[self.i + k] if self.i + k < len(self.t) else None

    def eat(self, tok=None):
        x = self.peek()
        if x is None or (tok is not None and x != tok):
            raise Bad("expected %r, found %r" % (tok, x))
        self.i += 1
        return x

    def expr(self):                     # pm-expression: postfix ( .* IDENT )?
        e = self.unary()
        if self.peek() == "." and self.peek(1) == "*":
            self.eat(); self.eat()
            e = ("dotstar", e, self.eat())
        return e

    def unary(self):
        if self.peek() == "*":
            self.eat()
            return ("deref", self.unary())
        return self.postfix()

    def postfix(self):
        e = self.primary()
        while True:
            if self.peek() == "(":
                self.eat()
                args = []
                while self.peek() != ")":
                    a = self.expr()
                    if self.peek() == "...":
                        self.eat()
                        a = ("pack", a)
                    args.append(a)
                    if self.peek() == ",":
                        self.eat()
                self.eat(")")
                e = ("call", e, args)
            elif self.peek() == "." and self.peek(1) != "*":
                self.eat()
                e = ("member", e, self.eat())
            else:
                return e

    def primary(self):
        if self.peek() == "(":
            self.eat()
            e = self.expr()
            self.eat(")")
            return e
        name = self.eat()
        if not (name[0].isalpha() or name[0] == "_"):
            raise Bad("unexpected token %r" % name)
        while True:
            if self.peek() == "::":
                self.eat()
                name += "::" + self.eat()
            elif self.peek() == "<":
                k = self.i
                depth = 0
                while True:
                    t = self.eat()
                    if t == "<":
                        depth += 1
                    elif t == ">":
                        depth -= 1
                        if depth == 0:
                            break
                name += "<" + " ".join(self.t[k + 1:self.i - 1]) + ">"
            else:
                return ("id", name)


def to_iex(e):
    """generic tree -> Lean term of Inv.IEx"""
    k = e[0]
    if k == "id":
        return "IEx.name %s" % lean_str(e[1])
    if k == "deref":
        return "IEx.deref (%s)" % to_iex(e[1])
    if k == "pack":
        inner = e[1]
        if inner[0] == "call" and inner[1][0] == "id" and inner[1][1].startswith("etl::forward<") and len(inner[2]) == 1 \
                and inner[2][0][0] == "id":
            return "IEx.packFwd %s %s" % (lean_str(inner[1][1][len("etl::forward<"):-1]), lean_str(inner[2][0][1]))
        raise Bad("pack expansion of something else")
    if k == "dotstar":
        return "IEx.memAcc (%s) %s" % (to_iex(e[1]), lean_str(e[2]))
    if k == "call":
        f, args = e[1], e[2]
        if f[0] == "id" and f[1].startswith("etl::forward<") and len(args) == 1 and args[0][0] == "id":
            return "IEx.fwd %s %s" % (lean_str(f[1][len("etl::forward<"):-1]), lean_str(args[0][1]))
        if f[0] == "id" and f[1] == "invoke_impl::get" and len(args) == 1:
            return "IEx.get (%s)" % to_iex(args[0])
        if f[0] == "member" and f[2] == "get" and not args:
            return "IEx.dotGet (%s)" % to_iex(f[1])
        if f[0] == "dotstar" and len(args) == 1:
            return "IEx.memCall (%s) %s (%s)" % (to_iex(f[1]), lean_str(f[2]), to_iex(args[0]))
        if f[0] == "id" and f[1].startswith("invoke_impl<") and f[1].endswith("::call") and len(args) == 2:
            return "IEx.implCall %s (%s) (%s)" % (lean_str(f[1][len("invoke_impl<"):-len(">::call")]), to_iex(args[0]), to_iex(args[1]))
        if len(args) == 1:
            return "IEx.call (%s) (%s)" % (to_iex(f), to_iex(args[0]))
    raise Bad("shape %s not understood" % k)


def parse_ret(toks):
    try:
        if toks[0] == "decltype" and toks[1] == "(" and match_close(toks, 1, "(", ")") == len(toks) - 1:
            p = EP(toks[2:-1])
            e = p.expr()
            if p.peek() is not None:
                raise Bad("trailing tokens")
            return to_iex(e)
        if len(toks) == 2 and toks[1] == "&&":
            return "IEx.tyRref %s" % lean_str(toks[0])
        raise Bad("not a decltype")
    except (Bad, IndexError, c15_defs.ParseError):
        return "IEx.opaque %s" % lean_str(" ".join(toks))


def overloads_of(text):
    toks = tokenize(text)
    out = []
    # class templates `struct invoke_impl ... { ... };`
    i = 0
    while i < len(toks):
        if toks[i] == "struct" and toks[i + 1] == "invoke_impl":
            j = i + 2
            owner = "invoke_impl<T>"
            if toks[j] == "<":
                k = c15_defs.match_angle(toks, j)
                owner = "invoke_impl<" + " ".join(toks[j + 1:k]) + ">"
                j = k + 1
            if toks[j] != "{":
                i = j
                continue
            end = match_close(toks, j, "{", "}")
            body = toks[j + 1:end]
            out.extend(members(owner, body))
            i = end
        elif toks[i] == "auto" and toks[i + 1] == "INVOKE" and toks[i + 2] == "(":
            out.append(function(toks, i, "detail", ""))
            i += 3
        else:
            i += 1
    return out


def function(toks, i, owner, req):
    """toks[i] == 'auto': NAME ( PARAMS ) -> RET ;"""
    name = toks[i + 1]
    close = match_close(toks, i + 2, "(", ")")
    params = split_commas(toks[i + 3:close])
    if toks[close + 1] != "->":
        return (owner, name, req, params, "IEx.opaque %s" % lean_str("no trailing return type"))
    semi = close + 2
    depth = 0
    while not (toks[semi] == ";" and depth == 0):
        depth += toks[semi] in "({"
        depth -= toks[semi] in ")}"
        semi += 1
    return (owner, name, req, params, parse_ret(toks[close + 2:semi]))


def split_commas(toks):
    out, cur, depth = [], [], 0
    for t in toks:
        if t in "(<[":
            depth += 1
        elif t in ")>]":
            depth -= 1
        if t == "," and depth == 0:
            out.append(" ".join(cur))
            cur = []
        else:
            cur.append(t)
    if cur:
        out.append(" ".join(cur))
    return out


def members(owner, body):
    out = []
    i = 0
    req = ""
    while i < len(body):
        t = body[i]
        if t == "template":
            i = c15_defs.match_angle(body, i + 1) + 1
            req = ""
        elif t == "requires":
            # up to `static`
            k = i + 1
            while body[k] != "static":
                k += 1
            req = " ".join(body[i + 1:k])
            i = k
        elif t == "static" and body[i + 1] == "auto":
            f = function(body, i + 1, owner, req)
            out.append(f)
            req = ""
            while body[i] != ";":
                i += 1
            i += 1
        else:
            i += 1
    return out


def generate(repo, out_path, cxx="g++"):
    ovs = overloads_of(c15_defs.preprocess(cxx, repo, HEADERS))
    lines = ["/- GENERATED by gen/c15_invoke.py (%s) from the preprocessed <etl/_type_traits/invoke_result.hpp> - do not edit." % VERSION,
             "   One entry per overload of detail::invoke_impl<T>::call, detail::invoke_impl<MT B::*>::get / ::call and detail::INVOKE:",
             "   owner, name, requires-clause, parameter declarations, trailing return type as an expression tree. -/",
             "import Tetl.C15.Invoke", "namespace Tetl.C15.GenInvoke", "open Tetl.C15.Inv", "",
             "def overloads : List Overload := ["]
    rows = []
    for (owner, name, req, params, ret) in ovs:
        rows.append("  ⟨%s, %s, %s, [%s],\n    %s⟩" % (lean_str(owner), lean_str(name), lean_str(req),
                                                      ", ".join(lean_str(p) for p in params), ret))
    lines.append(",\n".join(rows) + "]")
    lines += ["", "end Tetl.C15.GenInvoke"]
    text = "\n".join(lines) + "\n"
    old = open(out_path, encoding="utf-8").read() if os.path.exists(out_path) else None
    if old != text:
        with open(out_path, "w", encoding="utf-8") as f:
            f.write(text)
    return {"hash": hashlib.sha256(text.encode()).hexdigest()[:16], "changed": old != text, "entries": len(ovs),
            "opaque": sum(1 for o in ovs if o[4].startswith("IEx.opaque")), "translator": VERSION}


if __name__ == "__main__":
    repo = os.environ.get("VERIF_REPO", "/repo")
    here = os.path.dirname(os.path.dirname(os.path.abspath(__file__)))
    out = os.path.join(here, "lean", "Tetl", "C15", "GenInvoke.lean")
    if len(sys.argv) > 1 and sys.argv[1] == "--stdout":
        out = "/dev/stdout"
    print(generate(repo, out), file=sys.stderr)
