#!/usr/bin/env python3
"""Inventory of every tetl function that has two code paths (tie T of property C13).

A function is listed when its body (in $VERIF_REPO/include/etl, third-party code excluded)
  * calls `is_constant_evaluated()`                                  -> mech "ice"
  * calls a compiler builtin guarded by `__has_builtin` / `__has_constexpr_builtin`  -> mech "pp"
  * calls a compiler builtin under `#if defined(__clang__)` / `defined(__GNUC__)`     -> mech "cc"
For an "ice" function the field `ct` says what serves CONSTANT EVALUATION under GCC:
  * "callee"   the callee(s) (the classic `if (not is_constant_evaluated()) return __builtin_f(x); return callee(x);`)
  * "builtin"  the same builtin as at run time: the body defines `folds = true` under `defined(TETL_COMPILER_GCC)` and
               guards the builtin calls with `if (folds or not is_constant_evaluated())`; the callees that precede it
               (a ladder of special values the compiler does not fold) serve constant evaluation too, the callee after
               it is reached by other compilers only
  * "folded"   the builtin wherever the compiler folds it (`if (__builtin_constant_p(__builtin_f(x))) return __builtin_f(x);`
               under `defined(TETL_COMPILER_GCC)`), the callee for the remaining arguments
For each such function the extractor records the builtins it calls together with the type guard
that selects each of them (`same_as<Float, float>`, `is_same_v<T, double>`, `sizeof(UInt) == sizeof(...)`,
or the parameter type of the overload) and the callee(s) that serve the other path: every `return`
of the same body that does not mention a builtin.

The result is written as a Lean table (lean/Tetl/C13/Dispatch.lean); the theorem
`Tetl.C13.Props.dispatch_consistent` is re-checked against it on every run.

Regex + brace matching over comment-stripped text; deliberately small.  Anything the extractor cannot
attribute (a builtin call outside every recognised function body) is reported in `errors`.
"""
import hashlib
import os
import re
import sys

VERSION = "dispatch-2"

SKIP_DIRS = ("_3rd_party", "_config")
BUILTIN_RE = re.compile(r"__builtin_\w+")
HAS_RE = re.compile(r"__has_(?:constexpr_)?builtin\s*\(\s*\w+\s*\)")
# builtins that are language plumbing, not a second implementation of a library function
PLUMBING = {"__builtin_is_constant_evaluated", "__builtin_unreachable", "__builtin_addressof", "__builtin_assume_aligned",
            "__builtin_coro_done", "__builtin_coro_resume", "__builtin_coro_destroy", "__builtin_flt_rounds",
            "__builtin_trap", "__builtin_debugtrap",
            # `__builtin_constant_p(__builtin_f(x))`: the test "does the compiler fold this call"; not a path of its own
            "__builtin_constant_p"}


def strip_comments(src):
    src = re.sub(r"/\*.*?\*/", lambda m: "\n" * m.group(0).count("\n"), src, flags=re.S)
    return re.sub(r"//[^\n]*", "", src)


def functions(src):
    """Yield (name, header_text, body_text) of every function body (brace matched)."""
    out = []
    stack = []
    i, n = 0, len(src)
    last_break = 0          # position after the previous ; { } at the current scan (header start)
    while i < n:
        c = src[i]
        if c == "{":
            header = src[last_break:i]
            stack.append((i, header))
            last_break = i + 1
        elif c == "}":
            if stack:
                start, header = stack.pop()
                h = " ".join(header.split())
                is_ctrl = re.match(r"^(?:\}?\s*else\s*)?(?:if|for|while|switch|do)\b|^\}?\s*else\s*$|^else\b", h) is not None
                if not is_ctrl and "(" in h and re.search(r"\bauto\b|\boperator\b", h) and not re.match(r"^(?:inline\s+)?(?:constexpr\s+)?struct\b|^namespace\b", h):
                    out.append((start, h, src[start + 1:i]))
            last_break = i + 1
        elif c == ";":
            last_break = i + 1
        elif c == "#":                       # preprocessor line: not part of a header
            j = src.find("\n", i)
            j = n if j < 0 else j
            i = j
            last_break = max(last_break, 0)
            continue
        i += 1
    return out


def fn_name(header, src, start):
    m = re.search(r"\bauto\s+(operator\s*\(\)|[\w:]+)\s*\(", header)
    name = m.group(1) if m else "?"
    if name.startswith("operator"):
        # function object: name of the nearest enclosing struct
        ms = list(re.finditer(r"\bstruct\s+(\w+)", src[:start]))
        name = ms[-1].group(1) if ms else "operator()"
    return name


def first_param_type(header):
    m = re.search(r"\(\s*((?:[\w:]+\s+)*?[\w:]+)\s*(?:const\s*)?[*&]*\s*\w+\s*[,)]", header[header.find("auto"):] if "auto" in header else header)
    if not m:
        return "?"
    t = " ".join(m.group(1).split())
    ptr = "*" if re.search(r"\(\s*(?:[\w:]+\s+)*?[\w:]+\s*(?:const\s*)?\*", header) else ""
    return (t + ptr).replace("etl::", "")


GUARDS = [
    re.compile(r"(?:same_as|is_same_v)\s*<\s*\w+\s*,\s*([\w: ]+?)\s*>"),
    re.compile(r"sizeof\s*\(\s*\w+\s*\)\s*==\s*sizeof\s*\(\s*([\w ]+?)\s*\)"),
]


def guard_for(body, pos, dflt):
    """type guard in force at `pos` of `body`: the nearest preceding same_as/is_same_v/sizeof test,
    `otherwise` when a plain `else {` lies between that test and the call."""
    best = None
    for g in GUARDS:
        for m in g.finditer(body[:pos]):
            if best is None or m.end() > best[0]:
                best = (m.end(), " ".join(m.group(1).split()))
    if best is None:
        return dflt
    between = body[best[0]:pos]
    if re.search(r"\}\s*else\s*\{", between):
        return "otherwise"
    return best[1]


def callee_of(expr):
    e = " ".join(expr.split())
    m = re.match(r"^(?:static_cast<[^>]*>\()?\s*((?:[\w]+::)*[\w]+)\s*(?:<[^>]*>)?\s*\(", e)
    if m and not re.match(r"^(?:static_cast|T|Int|Float|To)$", m.group(1)):
        name = m.group(1)
        for pre in ("etl::detail::", "detail::", "etl::", "internal::"):
            if name.startswith(pre):
                name = name[len(pre):]
        return name
    return "inline:" + e


def scan_file(path, rel):
    raw = open(path, encoding="utf-8", errors="replace").read()
    src = strip_comments(raw)
    if not (BUILTIN_RE.search(HAS_RE.sub("", src)) or re.search(r"(?<!\w)is_constant_evaluated\(\)", src)):
        return [], []
    entries, errors = [], []
    covered = []
    fns = functions(src)
    for start, header, body in fns:
        b2 = HAS_RE.sub(lambda m: " " * len(m.group(0)), body)
        calls = [(m.start(), m.group(0)) for m in BUILTIN_RE.finditer(b2) if m.group(0) not in PLUMBING]
        ice = re.search(r"(?<!\w)is_constant_evaluated\(\)", body) is not None
        if not calls and not ice:
            continue
        # a function that contains another listed function (struct wrapper) is skipped: innermost wins
        if any(s > start and s < start + len(body) for s, _, _ in fns if s != start):
            continue
        covered.append((start, start + len(body)))
        name = fn_name(header, src, start)
        ptype = first_param_type(header)
        builtins = []
        for pos, bn in calls:
            g = guard_for(b2, pos, ptype)
            if (g, bn) not in builtins:
                builtins.append((g, bn))
        callees = []
        for m in re.finditer(r"\breturn\s+([^;]+);", b2):
            if BUILTIN_RE.search(m.group(1)):
                continue
            c = callee_of(m.group(1))
            if c not in callees:
                callees.append(c)
        has_pp = bool(HAS_RE.search(body))
        has_cc = bool(re.search(r"defined\s*\(\s*(?:__clang__|__GNUC__|_MSC_VER|TETL_COMPILER_\w+)\s*\)", body))
        mech = "ice" if ice else ("pp" if has_pp else ("cc" if has_cc else "always"))
        gcc = re.search(r"defined\s*\(\s*TETL_COMPILER_GCC\s*\)", body) is not None
        if ice and gcc and re.search(r"\bfolds\s*=\s*true\b", body) and \
                re.search(r"\bif\s*\(\s*folds\s+or\s+not\s+is_constant_evaluated\(\)\s*\)", body):
            ct = "builtin"
        elif ice and gcc and re.search(r"__builtin_constant_p\s*\(\s*__builtin_\w+\s*\(", body):
            ct = "folded"
        else:
            ct = "callee"
        entries.append({"fn": name, "file": rel, "mech": mech, "ct": ct, "builtins": builtins, "callees": callees,
                        "ptype": ptype})
    # every builtin call of the file must be inside a listed function
    s2 = HAS_RE.sub(lambda m: " " * len(m.group(0)), src)
    for m in BUILTIN_RE.finditer(s2):
        if m.group(0) in PLUMBING:
            continue
        if not any(a <= m.start() <= b + 1 for a, b in covered):
            ln = src[:m.start()].count("\n") + 1
            if not re.match(r"\s*#", src.splitlines()[ln - 1]):
                errors.append("%s:%d: %s outside every recognised function body" % (rel, ln, m.group(0)))
    return entries, errors


def merge(entries):
    """overloads of one function in one file become one entry"""
    out, idx = [], {}
    for e in entries:
        k = (e["file"], e["fn"])
        if k in idx:
            o = out[idx[k]]
            for b in e["builtins"]:
                if b not in o["builtins"]:
                    o["builtins"].append(b)
            for c in e["callees"]:
                if c not in o["callees"]:
                    o["callees"].append(c)
            if e["mech"] == "ice":
                o["mech"] = "ice"
            if e["ct"] != "callee":
                o["ct"] = e["ct"]
        else:
            idx[k] = len(out)
            out.append({k2: (list(v) if isinstance(v, list) else v) for k2, v in e.items()})
    return out


def inventory(repo):
    root = os.path.join(repo, "include", "etl")
    entries, errors = [], []
    for dp, dns, fns in sorted(os.walk(root)):
        dns.sort()
        if any(("/" + s) in dp or dp.endswith(s) for s in SKIP_DIRS):
            continue
        for fn in sorted(fns):
            if not fn.endswith(".hpp"):
                continue
            p = os.path.join(dp, fn)
            rel = os.path.relpath(p, repo)
            es, errs = scan_file(p, rel)
            entries += es
            errors += errs
    return merge(entries), errors


def lean_str(s):
    return '"' + s.replace("\\", "\\\\").replace('"', '\\"') + '"'


def emit(entries, repo_label="$VERIF_REPO"):
    L = []
    L.append("/- GENERATED by gen/dispatch.py (%s) from %s/include/etl on every run of the C13 check." % (VERSION, repo_label))
    L.append("   Do not edit: the file is overwritten; `Tetl.C13.Props.dispatch_consistent` is re-checked against it. -/")
    L.append("namespace Tetl.C13")
    L.append("")
    L.append("/-- how the two paths are selected -/")
    L.append("inductive Mech where")
    L.append("  | ice      -- `if (is_constant_evaluated())` switch: builtin at run time, callee in constant evaluation")
    L.append("  | pp       -- preprocessor `__has_builtin`: builtin on both paths when available, callee otherwise")
    L.append("  | cc       -- preprocessor compiler test (`defined(__clang__)`, `defined(__GNUC__)`)")
    L.append("  | always   -- builtin called unconditionally")
    L.append("  deriving Repr, DecidableEq, BEq")
    L.append("")
    L.append("/-- what serves constant evaluation of an `ice` entry under GCC (see gen/dispatch.py) -/")
    L.append("inductive Ct where")
    L.append("  | callee    -- the callee(s): tetl's or gcem's own code")
    L.append("  | builtin   -- the run-time builtin (`folds or not is_constant_evaluated()`), after a ladder of special values")
    L.append("  | folded    -- the builtin wherever the compiler folds it (`__builtin_constant_p`), the callee elsewhere")
    L.append("  deriving Repr, DecidableEq, BEq")
    L.append("")
    L.append("structure Entry where")
    L.append("  fn : String")
    L.append("  file : String")
    L.append("  mech : Mech")
    L.append("  ct : Ct")
    L.append("  /-- (type guard, builtin called under that guard) -/")
    L.append("  builtins : List (String × String)")
    L.append("  /-- what serves the other path: callee names, or `inline:<expr>` -/")
    L.append("  callees : List String")
    L.append("  deriving Repr")
    L.append("")
    L.append("def dispatch : List Entry := [")
    rows = []
    for e in entries:
        bs = ", ".join("(%s, %s)" % (lean_str(g), lean_str(b)) for g, b in e["builtins"])
        cs = ", ".join(lean_str(c) for c in e["callees"])
        rows.append("  { fn := %s, file := %s, mech := .%s, ct := .%s,\n    builtins := [%s],\n    callees := [%s] }"
                    % (lean_str(e["fn"]), lean_str(e["file"]), e["mech"], e["ct"], bs, cs))
    L.append(",\n".join(rows))
    L.append("]")
    L.append("")
    L.append("end Tetl.C13")
    return "\n".join(L) + "\n"


def generate(repo, out_path):
    entries, errors = inventory(repo)
    text = emit(entries)
    old = open(out_path).read() if os.path.exists(out_path) else None
    changed = old != text
    if changed:
        with open(out_path, "w") as f:
            f.write(text)
    return {"entries": entries, "errors": errors, "changed": changed, "translator": VERSION,
            "hash": hashlib.sha256(text.encode()).hexdigest()[:16]}


if __name__ == "__main__":
    repo = sys.argv[1] if len(sys.argv) > 1 else os.environ.get("VERIF_REPO", "/repo")
    ents, errs = inventory(repo)
    for e in ents:
        print("%-16s %-4s %-8s %-34s builtins=%s callees=%s" % (e["fn"], e["mech"], e["ct"], e["file"].replace("include/etl/", ""),
                                                             e["builtins"], e["callees"]))
    for x in errs:
        print("ERROR", x)
    if len(sys.argv) > 2:
        open(sys.argv[2], "w").write(emit(ents))
