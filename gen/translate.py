#!/usr/bin/env python3
"""Tie T (DESIGN §1.2): clang JSON AST of /repo/include -> Lean 4 definitions, regenerated on every run.

Accepted subset: parameters, `const` locals, compound assignment on parameters, `if`/`return`, `?:`,
integer and bool literals, + - * / % unary -, comparisons, && || !, casts between builtin integer types,
one-field value classes (translated as their underlying integer: constructor = the cast its
mem-initialiser performs, getters/conversion operators = identity), small aggregates of those (tuples),
`constexpr` tables indexed through a checked accessor, and calls to other translated functions.
Job kinds beyond plain declarations (SPEC_KINDS, used by the C10 job set): "FunctionSpec" = a specialization of a function
template (`if constexpr` = the branch the instantiation kept), "Functor" = a specialization of a class template with a
constructor and `operator()` (Lean parameters = constructor parameters then call parameters; every field is bound, in
initialisation order, like a local: mem-initialiser or the in-class default initialiser; `this->field` = that binding),
"Lambda <var>" = `operator()` of the closure bound to the local `<var>` of a function template specialization.
Aggregates (AGG: year_month, year_month_day, year_month_day_last, year_month_weekday, year_month_weekday_last): parameters
and `*this` are passed component-wise, temporaries / locals bound to a call result / results are Lean tuples; their
getters are the projections (trusted: the getters only return the field).  In a member of an aggregate class
(`operator+=`: `*this = *this + m; return *this;`) `*this` is the tuple of the `self_<field>` parameters until it is
assigned, afterwards the tuple bound to `self_1`; `return *this` is that tuple.  WRAPPERS (month_day_last = a one-field
wrapper of month) are translated as the wrapped value (construction from it and the getter named after it = identity, so
`year_month_day_last::month()` reads component 1).  OPAQUE classes (weekday_indexed, weekday_last) may only be passed
through (copied into an aggregate, returned): one Int token stands for the whole object, nothing ever inspects it; any
other use of such a value raises `Unsupported`.  A call whose argument type is spelt through an alias template
(`lhs + -rhs`, `-rhs : common_type_t<duration<…>>`) is resolved through the callee's own declared parameter types.

For each function `f` it emits
  * one `def f_<local>` per C++ local (so proof obligations stay small and local),
  * `def f` (the composition) and
  * `def f_ub : Bool` — every signed intermediate stays in its type's range, every divisor is non-zero,
    every table index is in range: the undefined-behaviour obligations of exactly this body.
C semantics made explicit: signed `/ %` -> `Int.tdiv/tmod`; unsigned `/ %` -> `/ %` on non-negative
values; every conversion to an unsigned type -> `% 2^w`; signed conversion -> two's complement wrap.
Anything outside the subset raises `Unsupported` naming the AST node: a broken obligation, never a fallback.

v3 (job sets C14 BITS_JOBS and C12 DURCAST_JOBS; the older job sets do not reach any of it): shifts and bit operators
(`<< >> & | ^ ~`: Tetl/CSemBits.lean; every shift adds the obligation `shiftOk <width of the promoted left operand> <count>`
to `_ub`; on an unsigned result type the bit operators act on the non-negative values, on a signed one through the two's
complement representation), `if (init; cond)`, `;`, `sizeof`, `bool` parameters, calls that return `bool`,
`__builtin_add_overflow(a, b, &r)` (documented semantics, CSemBits.addOverflowVal / addOverflowFlag: `r` is re-bound),
references to `static constexpr` data members / variables (folded by `const_eval` from their initialisers in the same AST),
"whole TU" mode (`translate(..., whole_tu=True)`: ONE clang run without `-ast-dump-filter`, so declaration ids are
comparable across jobs; candidates are found by qualified name exactly as clang's filter does), `externs` (functions that
stay hand-modelled — loops — are called through a Lean name declared in the prelude of the generated file),
specializations selected by several template arguments (`targs_are`), the job kind "MemberSpec m" (a specialization of the
member function template `m` of a class template specialization), `symbolic` static data members (left as Lean parameters
of the generated function: `CF::num`, `CF::den` of DURCAST_JOBS) and `rep_classes` (`duration<Rep, Period>` is a one-field
class over its own `Rep`; its constructor from a number is the conversion to `Rep`).
"""
import json
import os
import re
import subprocess
import sys

CLANG = os.environ.get("VERIF_CLANG", "clang++-16")
VERSION = "translate.py v2"
VERSION3 = "translate.py v3"

INT_TYPES = {
    "bool": (1, False), "char": (8, True), "signed char": (8, True), "unsigned char": (8, False),
    "short": (16, True), "unsigned short": (16, False), "int": (32, True), "unsigned int": (32, False),
    "long": (64, True), "unsigned long": (64, False), "long long": (64, True), "unsigned long long": (64, False),
    "wchar_t": (32, True), "char8_t": (8, False), "char16_t": (16, False), "char32_t": (32, False),   # x86-64 Linux
}


class Unsupported(Exception):
    pass


def ast_of(repo, tu_src, filt):
    p = subprocess.run([CLANG, "-std=c++20", "-fsyntax-only", "-I" + os.path.join(repo, "include"), "-x", "c++", "-",
                        "-Xclang", "-ast-dump=json", "-Xclang", "-ast-dump-filter=" + filt],
                       input=tu_src, capture_output=True, text=True)
    if p.returncode != 0:
        raise Unsupported("clang failed: " + p.stderr[:300])
    s = p.stdout
    dec = json.JSONDecoder()
    i, docs = 0, []
    while i < len(s):
        while i < len(s) and s[i].isspace():
            i += 1
        if i >= len(s):
            break
        if s[i] != "{":
            j = s.find("\n", i)
            i = j + 1 if j > 0 else len(s)
            continue
        d, j = dec.raw_decode(s, i)
        docs.append(d)
        i = j
    return docs


def qtype(node):
    t = node.get("type", {})
    return t.get("desugaredQualType") or t.get("qualType") or ""


def norm(q):
    q = q.replace("const ", "").replace(" const", "").replace("&", "").replace("*", "").replace("struct ", "").strip()
    q = re.sub(r"\s+", " ", q)
    return q


def short(q):
    """etl::chrono::year -> year ; duration<int, ratio<86400, 1>> -> duration"""
    q = norm(q)
    q = re.sub(r"<.*>", "", q)
    return q.split("::")[-1]


# one-field value classes: underlying integer type
CLASSES = {
    "year": "short", "month": "unsigned char", "day": "unsigned char", "weekday": "unsigned char",
    "duration": "int", "days": "int", "months": "int", "years": "int",   # rep = int_least32_t
}
# aggregates: getter -> component index / class
AGG = {
    "year_month": [("year", "year"), ("month", "month")],
    "year_month_day": [("year", "year"), ("month", "month"), ("day", "day")],
    "year_month_day_last": [("year", "year"), ("month_day_last", "month_day_last")],
    "year_month_weekday": [("year", "year"), ("month", "month"), ("weekday_indexed", "weekday_indexed")],
    "year_month_weekday_last": [("year", "year"), ("month", "month"), ("weekday_last", "weekday_last")],
}
# further getters of an aggregate that read a component through a WRAPPERS class: getter -> component index
AGG_EXTRA = {"year_month_day_last": {"month": 1}}
# data members of an aggregate class read directly inside its own members (`_y.ok()`): field name -> component index
AGG_FIELDS = {"year_month_day_last": {"_y": 0, "_mdl": 1}}
# one-field wrappers of another one-field class: construction from the wrapped class and the getter named after it are the
# identity (month_day_last{m}.month() == m), so the wrapper is translated as the wrapped value itself
WRAPPERS = {"month_day_last": "month"}
# classes that the translated functions only pass through (copied, stored into an aggregate, returned; never inspected): an
# opaque Int token chosen by the driver stands for the whole object
OPAQUE = {"weekday_indexed", "weekday_last"}
GETTERS = {"count", "c_encoding", "operator unsigned int", "operator int", "operator unsigned"}


class Registry:
    """functions already translated: key -> (lean name, has_ub)"""

    def __init__(self):
        self.fns = {}

    def add(self, key, lean):
        self.fns[key] = lean

    def get(self, key):
        return self.fns.get(key)


class Fn:
    def __init__(self, name, decl, reg, self_class=None):
        self.name, self.decl, self.reg, self.self_class = name, decl, reg, self_class
        self.defs, self.ub, self.env, self.counter, self.order = [], [], {}, {}, []
        self.tables = {}
        self.vtypes = {}      # Lean type of a tuple-valued local (everything else is passed as Int)
        self.fields = {}      # Functor jobs: field name -> True once bound (MemberExpr on `this` = the binding)
        self.consts = {}      # v3: id -> VarDecl of every variable of the translation unit (whole-TU mode): constant folding
        self.symbolic = {}    # v3: name of a static data member -> Lean parameter that stands for it (DURCAST_JOBS: num, den)
        self.extra_params = []
        self.rep_classes = False      # v3: `duration<Rep, Period>` is a one-field class over ITS OWN Rep (C12), not over int

    def guarded(self, cond, fcond, thunk, negate=False):
        """translate a sub-tree that is evaluated only when `cond` holds (or fails): its UB obligations are guarded"""
        start = len(self.ub)
        r = thunk()
        g = "(!%s)" % cond if negate else cond
        for i in range(start, len(self.ub)):
            u, fv = self.ub[i]
            self.ub[i] = ("(!%s || %s)" % (g, u), set(fv) | set(fcond))
        return r

    # ---------------- types
    def ity(self, q):
        q = norm(q)
        if q in INT_TYPES:
            return INT_TYPES[q]
        s = short(q)
        if self.rep_classes and s == "duration":
            m = re.match(r"(?:etl::)?(?:chrono::)?duration<([^,<>]+)[,>]", q)      # `duration<short>`: period ratio<1> elided
            if not m or m.group(1).strip() not in INT_TYPES:
                raise Unsupported("duration type " + q)
            return INT_TYPES[m.group(1).strip()]
        if s in CLASSES:
            return INT_TYPES[CLASSES[s]]
        raise Unsupported("type " + q)

    def conv(self, q, e):
        if norm(q) == "bool":
            return e
        bits, signed = self.ity(q)
        m = re.fullmatch(r"\((-?\d+) : Int\)", e)
        if m:       # conversion of a literal: fold it (value = the wrapped literal)
            v = int(m.group(1))
            v = (v + 2 ** (bits - 1)) % 2 ** bits - 2 ** (bits - 1) if signed else v % 2 ** bits
            return "(%d : Int)" % v
        return "(wrapS %d %s)" % (bits, e) if signed else "(wrapU %d %s)" % (bits, e)

    def is_unsigned(self, n):
        try:
            return not self.ity(qtype(n))[1]
        except Unsupported:
            return False

    # ---------------- expressions -> (lean, freevars, is_bool)
    def ex(self, n):
        k = n["kind"]
        inner = n.get("inner", [])
        if k in ("ParenExpr", "ExprWithCleanups", "MaterializeTemporaryExpr", "CXXBindTemporaryExpr", "ConstantExpr"):
            return self.ex(inner[0])
        if k == "IntegerLiteral":
            return ("(%s : Int)" % n["value"], set(), False)
        if k == "CharacterLiteral":
            return ("(%d : Int)" % int(n["value"]), set(), False)
        if k == "CXXBoolLiteralExpr":
            return ("true" if n["value"] else "false", set(), True)
        if k == "DeclRefExpr":
            nm = n["referencedDecl"]["name"]
            if nm not in self.env and nm in self.symbolic and n["referencedDecl"].get("id") in self.consts:
                pn = self.symbolic[nm]
                if pn not in self.extra_params:
                    self.extra_params.append(pn)
                return (pn, {pn}, False)
            if nm not in self.env and n["referencedDecl"].get("id") in self.consts:
                v = self.const_eval(n)
                if norm(qtype(n)) == "bool":
                    return ("true" if v else "false", set(), True)
                return ("(%d : Int)" % v, set(), False)
            if nm not in self.env:
                raise Unsupported("free variable " + nm)
            e, fv, b = self.env[nm]
            return (e, set(fv), b)
        if k == "CXXThisExpr":
            if "self" not in self.env:
                raise Unsupported("this")
            e, fv, b = self.env["self"]
            return (e, set(fv), b)
        if k == "MemberExpr":
            # field of a one-field class (this->_count, obj._wd)
            if self.fields and inner[0]["kind"] == "CXXThisExpr":      # functor: the field's binding
                if n.get("name") not in self.fields:
                    raise Unsupported("field %s read before it is initialised" % n.get("name"))
                e, fv, b = self.env[n["name"]]
                return (e, set(fv), b)
            if inner[0]["kind"] == "CXXThisExpr" and n.get("name") in AGG_FIELDS.get(self.self_class, {}) and "this#0" in self.env:
                e, fv, b = self.env["this#%d" % AGG_FIELDS[self.self_class][n["name"]]]
                return (e, set(fv), b)
            e, fv, b = self.ex(inner[0])
            return (e, fv, b)
        if k in ("ImplicitCastExpr", "CXXStaticCastExpr", "CStyleCastExpr", "CXXFunctionalCastExpr"):
            ck = n.get("castKind", "")
            e, fv, b = self.ex(inner[0])
            if ck in ("LValueToRValue", "NoOp", "UserDefinedConversion", "ConstructorConversion",
                      "FunctionToPointerDecay", "ArrayToPointerDecay", "DerivedToBase"):
                return (e, fv, b)
            if ck == "IntegralCast":
                if b:
                    e = "(if %s then 1 else 0)" % e
                return (self.conv(qtype(n), e), fv, False)
            if ck == "IntegralToBoolean":
                return ("(%s != 0)" % e, fv, True)
            raise Unsupported("cast " + ck)
        if k == "UnaryOperator":
            op = n["opcode"]
            if op == "*" and inner[0]["kind"] == "CXXThisExpr" and "self" in self.env:
                e, fv, b = self.env["self"]
                return (e, set(fv), b)
            if op == "*" and inner[0]["kind"] == "CXXThisExpr" and "this#0" in self.env:      # aggregate class: the tuple
                parts = self.agg_components(n)
                return ("(" + ", ".join(p[0] for p in parts) + ")", set().union(*[p[1] for p in parts]), False)
            e, fv, b = self.ex(inner[0])
            if op == "-":
                return self.arith(n, "(- %s)" % e, fv)
            if op == "!":
                return ("(!%s)" % e, fv, True)
            if op == "+":
                return (e, fv, b)
            if op == "~":
                bits, signed = self.ity(qtype(n))
                return ("(bnotS %s)" % e if signed else "(bnotU %d %s)" % (bits, e), fv, False)
            raise Unsupported("unary " + op)
        if k == "UnaryExprOrTypeTraitExpr" and n.get("name") == "sizeof" and "argType" in n:
            return ("(%d : Int)" % self.sizeof(n), set(), False)
        if k == "BinaryOperator":
            return self.binop(n["opcode"], n, inner[0], inner[1])
        if k == "ConditionalOperator":
            c, fc, _ = self.ex(inner[0])
            a, fa, ba = self.guarded(c, fc, lambda: self.ex(inner[1]))
            b2, fb, _ = self.guarded(c, fc, lambda: self.ex(inner[2]), negate=True)
            return ("(if %s then %s else %s)" % (c, a, b2), fc | fa | fb, ba)
        if k == "ArraySubscriptExpr":
            base = inner[0]
            while base["kind"] in ("ImplicitCastExpr", "ParenExpr"):
                base = base["inner"][0]
            if base["kind"] != "DeclRefExpr" or base["referencedDecl"]["name"] not in self.tables:
                raise Unsupported("subscript of non-table")
            tab = self.tables[base["referencedDecl"]["name"]]
            i, fi, _ = self.ex(inner[1])
            self.ub.append(("(decide (0 ≤ %s) && decide (%s < %d))" % (i, i, len(tab)), fi))
            return ("(tableGet [%s] %s)" % (", ".join(tab), i), fi, False)
        if k == "CallExpr":
            callee = inner[0]
            while callee["kind"] == "ImplicitCastExpr":
                callee = callee["inner"][0]
            nm = callee.get("referencedDecl", {}).get("name", "")
            if nm in ("min", "max") and len(inner) == 1:      # numeric_limits<T>::min() / max(): a constant of the result type
                bits, signed = self.ity(qtype(n))
                lo, hi = (-(2 ** (bits - 1)), 2 ** (bits - 1) - 1) if signed else (0, 2 ** bits - 1)
                return ("(%d : Int)" % (lo if nm == "min" else hi), set(), False)
            if nm == "__builtin_add_overflow" and len(inner) == 4:
                return self.builtin_add_overflow(inner[1], inner[2], inner[3])
            ln = self.reg.get("fn:%s(%s)" % (nm, ",".join(norm(qtype(a)) for a in inner[1:]))) or self.reg.get("fn:" + nm)
            if ln is None and callee.get("referencedDecl", {}).get("id") in self.reg.fns.get("#ids", {}):
                ln = self.reg.fns["#ids"][callee["referencedDecl"]["id"]]      # v3: the callee's own declaration (overloads / specializations)
            if ln is not None:
                parts = [self.ex(a) for a in inner[1:]]
                fvs = set().union(*[p[1] for p in parts]) if parts else set()
                argl = " ".join(p[0] for p in parts)
                self.ub.append(("(%s_ub %s)" % (ln, argl), fvs))
                return ("(%s %s)" % (ln, argl), fvs, norm(qtype(n)) == "bool")
            raise Unsupported("call to untranslated function " + nm)
        if k == "CXXMemberCallExpr":
            callee = inner[0]
            if callee["kind"] != "MemberExpr":
                raise Unsupported("member call")
            mname = callee["name"]
            obj = callee["inner"][0]
            ocls = short(qtype(obj))
            if ocls in AGG:
                comps = self.agg_components(obj)
                for idx, (g, _) in enumerate(AGG[ocls]):
                    if g == mname:
                        return comps[idx]
                if mname in AGG_EXTRA.get(ocls, {}):
                    return comps[AGG_EXTRA[ocls][mname]]
                raise Unsupported("aggregate member " + mname)
            if ocls in WRAPPERS and mname == WRAPPERS[ocls]:
                return self.ex(obj)
            e, fv, b = self.ex(obj)
            if mname in GETTERS or mname.startswith("operator "):
                return (e, fv, b)
            key = ocls + "::" + mname
            ln = self.reg.get(key)
            if ln is None:
                raise Unsupported("call to untranslated " + key)
            args = [e] + [self.ex(a)[0] for a in inner[1:]]
            fvs = set(fv)
            for a in inner[1:]:
                fvs |= self.ex(a)[1]
            self.ub.append(("(%s_ub %s)" % (ln, " ".join(args)), fvs))
            return ("(%s %s)" % (ln, " ".join(args)), fvs, key in BOOL_FNS)
        if k == "CXXOperatorCallExpr":
            callee = inner[0]
            while callee["kind"] == "ImplicitCastExpr":
                callee = callee["inner"][0]
            opname = callee["referencedDecl"]["name"]          # operator==
            args = inner[1:]
            sig = opname + "(" + ",".join(short(a.get("type", {}).get("qualType", "")) for a in args) + ")"
            op = opname.replace("operator", "")
            if op == "-" and len(args) == 1 and short(qtype(args[0])) in CLASSES:      # duration::operator-()
                e, fv, b = self.ex(args[0])
                self.ub.append(("(inRangeS 32 (- %s))" % e, set(fv)))
                return ("(- %s)" % e, fv, False)
            if op in ("==", "!=", "<", "<=", ">", ">=") and all(short(qtype(a)) in CLASSES for a in args):
                return self.binop(op, None, args[0], args[1], force_cmp=True)
            ln = self.reg.get(sig)
            if ln is None:
                # an argument whose type is written through an alias template (`-rhs` : common_type_t<duration<..>>): take the
                # parameter types from the callee's own declared type `auto (const year &, const years &) noexcept -> year`
                m = re.match(r"[^(]*\(([^()]*)\)", callee.get("type", {}).get("qualType", ""))
                sig2 = opname + "(" + ",".join(short(x) for x in m.group(1).split(",")) + ")" if m else sig
                ln = self.reg.get(sig2)
            if ln is None:
                raise Unsupported("call to untranslated " + sig)
            parts = self.call_args(args)
            fvs = set().union(*[p[1] for p in parts])
            argl = " ".join(p[0] for p in parts)
            self.ub.append(("(%s_ub %s)" % (ln, argl), fvs))
            return ("(%s %s)" % (ln, argl), fvs, False)
        if k in ("CXXTemporaryObjectExpr", "CXXConstructExpr", "InitListExpr", "CXXFunctionalCastExpr"):
            cls = short(qtype(n))
            if k == "InitListExpr" and len(inner) == 1 and norm(qtype(n)) in INT_TYPES:      # `Int{x}`: conversions are explicit in x
                return self.ex(inner[0])
            if cls in CLASSES and len(inner) == 1:
                src = inner[0]
                if short(qtype(src)) == cls:          # copy/move construction
                    return self.ex(src)
                e, fv, b = self.ex(src)
                if self.rep_classes and cls == "duration":
                    # `duration(Rep2 const& r) : _rep(static_cast<rep>(r))` (duration.hpp; trusted like CSem.mkDur, which is
                    # this constructor for rep = int_least32_t): the conversion to the constructed type's own rep
                    return (self.conv(qtype(n), "(if %s then 1 else 0)" % e if b else e), fv, False)
                ctor = self.reg.get("ctor:" + cls) or ("mkDur" if CLASSES[cls] == "int" else None)
                if ctor is None:
                    raise Unsupported("constructor of " + cls + " not translated")
                return ("(%s %s)" % (ctor, e), fv, False)
            if cls in WRAPPERS and len(inner) == 1 and short(qtype(inner[0])) in (cls, WRAPPERS[cls]):
                return self.ex(inner[0])
            if cls in OPAQUE and len(inner) == 1 and short(qtype(inner[0])) == cls:      # copy/move of a pass-through value
                return self.ex(inner[0])
            if cls in AGG and len(inner) == len(AGG[cls]):
                parts = [self.ex(x) for x in inner]
                fv = set().union(*[p[1] for p in parts])
                return ("(" + ", ".join(p[0] for p in parts) + ")", fv, False)
            if cls in AGG and len(inner) == 1 and short(qtype(inner[0])) == cls:
                return self.ex(inner[0])
            raise Unsupported("construct " + qtype(n))
        raise Unsupported(k)

    # ---------------- v3: constants of the translation unit, sizeof, builtins
    def sizeof(self, n):
        q = norm(n["argType"].get("desugaredQualType") or n["argType"].get("qualType") or "")
        if q not in INT_TYPES or q == "bool":
            raise Unsupported("sizeof " + q)
        return INT_TYPES[q][0] // 8

    def const_eval(self, n, depth=0):
        """value (Python int) of a constant expression over literals, sizeof, casts between integer types, + - * / % and
        other `constexpr` variables of the same translation unit (looked up by declaration id)"""
        if depth > 40:
            raise Unsupported("constant too deep")
        k, inner = n["kind"], n.get("inner", [])
        if k in ("ParenExpr", "ConstantExpr", "ExprWithCleanups") :
            if k == "ConstantExpr" and "value" in n and norm(qtype(n)) in INT_TYPES:
                return int(n["value"]) if n["value"] not in ("true", "false") else int(n["value"] == "true")
            return self.const_eval(inner[0], depth + 1)
        if k in ("IntegerLiteral", "CharacterLiteral"):
            return int(n["value"])
        if k == "CXXBoolLiteralExpr":
            return 1 if n["value"] else 0
        if k == "UnaryExprOrTypeTraitExpr" and n.get("name") == "sizeof" and "argType" in n:
            return self.sizeof(n)
        if k == "DeclRefExpr":
            d = self.consts.get(n["referencedDecl"].get("id"))
            if d is None or not d.get("constexpr") or not d.get("inner"):
                raise Unsupported("constant " + n["referencedDecl"].get("name", "?"))
            init = [c for c in d["inner"] if c["kind"] not in ("FullComment",) and not c["kind"].endswith("Attr")]
            return self.wrap_py(qtype(d), self.const_eval(init[0], depth + 1))
        if k in ("ImplicitCastExpr", "CXXStaticCastExpr", "CStyleCastExpr", "CXXFunctionalCastExpr"):
            v = self.const_eval(inner[0], depth + 1)
            ck = n.get("castKind", "")
            if ck in ("LValueToRValue", "NoOp"):
                return v
            if ck == "IntegralCast":
                return self.wrap_py(qtype(n), v)
            if ck == "IntegralToBoolean":
                return int(v != 0)
            raise Unsupported("constant cast " + ck)
        if k == "UnaryOperator" and n["opcode"] in ("-", "+"):
            v = self.const_eval(inner[0], depth + 1)
            return self.checked_py(qtype(n), -v if n["opcode"] == "-" else v)
        if k == "BinaryOperator" and n["opcode"] in ("+", "-", "*", "/", "%"):
            a, b = self.const_eval(inner[0], depth + 1), self.const_eval(inner[1], depth + 1)
            op = n["opcode"]
            if op in ("/", "%"):
                if b == 0:
                    raise Unsupported("constant division by zero")
                q = abs(a) // abs(b) * (1 if (a < 0) == (b < 0) else -1)
                return self.checked_py(qtype(n), q if op == "/" else a - q * b)
            return self.checked_py(qtype(n), a + b if op == "+" else a - b if op == "-" else a * b)
        raise Unsupported("constant expression " + k)

    def wrap_py(self, q, v):
        if norm(q) == "bool":
            return int(v != 0)
        bits, signed = self.ity(q)
        return (v + 2 ** (bits - 1)) % 2 ** bits - 2 ** (bits - 1) if signed else v % 2 ** bits

    def checked_py(self, q, v):
        bits, signed = self.ity(q)
        if not signed:
            return v % 2 ** bits
        if not -(2 ** (bits - 1)) <= v < 2 ** (bits - 1):
            raise Unsupported("constant overflows")      # a constant expression cannot overflow: the TU would not compile
        return v

    def builtin_add_overflow(self, a, b, out):
        """`__builtin_add_overflow(a, b, &r)` (GCC manual, "Built-in Functions to Perform Arithmetic with Overflow Checking"):
        the operands are taken at infinite precision, the sum is stored into `*r` converted to r's type, the result is
        true iff the stored value differs from the exact sum.  `r` must be a local of the function: it is re-bound."""
        while out["kind"] in ("ParenExpr", "ImplicitCastExpr"):
            out = out["inner"][0]
        if out["kind"] != "UnaryOperator" or out.get("opcode") != "&" or out["inner"][0]["kind"] != "DeclRefExpr":
            raise Unsupported("__builtin_add_overflow result argument")
        tgt = out["inner"][0]
        nm = tgt["referencedDecl"]["name"]
        if nm not in self.env or nm not in self.counter:
            raise Unsupported("__builtin_add_overflow into a non-local")
        bits, signed = self.ity(qtype(tgt))
        ea, fa, ba = self.ex(a)
        eb, fb, bb = self.ex(b)
        if ba or bb:
            raise Unsupported("__builtin_add_overflow on bool")
        sg = "true" if signed else "false"
        self.bind(nm, "(addOverflowVal %d %s %s %s)" % (bits, sg, ea, eb), fa | fb, False)
        return ("(addOverflowFlag %d %s %s %s)" % (bits, sg, ea, eb), fa | fb, True)

    def agg_components(self, obj):
        while obj["kind"] in ("ImplicitCastExpr", "ParenExpr", "MaterializeTemporaryExpr"):
            obj = obj["inner"][0]
        if obj["kind"] == "UnaryOperator" and obj.get("opcode") == "*" and obj["inner"][0]["kind"] == "CXXThisExpr" \
                and "this#0" in self.env:      # `*this` of an aggregate class whose components are still the parameters
            obj = obj["inner"][0]
        if obj["kind"] in ("DeclRefExpr", "CXXThisExpr"):
            nm = "this" if obj["kind"] == "CXXThisExpr" else obj["referencedDecl"]["name"]
            if nm + "#0" in self.env:
                out, i = [], 0
                while nm + "#%d" % i in self.env:
                    out.append(self.env[nm + "#%d" % i])
                    i += 1
                return out
        # any other aggregate-valued expression (a temporary `year_month{y, m}`, a local bound to a call result, a call):
        # its value is a Lean tuple; the components are its projections
        cls = short(qtype(obj))
        if cls not in AGG:
            raise Unsupported("aggregate value that is not a parameter/local")
        if obj["kind"] in ("CXXTemporaryObjectExpr", "CXXConstructExpr", "InitListExpr", "CXXFunctionalCastExpr") and \
                len(obj.get("inner", [])) == len(AGG[cls]) and not (len(AGG[cls]) == 1):
            return [self.ex(x) for x in obj["inner"]]
        e, fv, _ = self.ex(obj)
        n = len(AGG[cls])
        projs = [".1"] if n == 1 else [".2" * i + ".1" for i in range(n - 1)] + [".2" * (n - 1)]
        return [("%s%s" % (e, pr), set(fv), False) for pr in projs]

    def call_args(self, args):
        """arguments of a call to a translated function: aggregate arguments are passed component-wise (as the callee's
        parameters are declared)"""
        parts = []
        for a in args:
            b = a
            while b["kind"] in ("ImplicitCastExpr", "ParenExpr", "MaterializeTemporaryExpr", "ExprWithCleanups", "CXXBindTemporaryExpr"):
                b = b["inner"][0]
            if short(qtype(b)) in AGG:
                parts += self.agg_components(b)
            else:
                parts.append(self.ex(a))
        return parts

    def binop(self, op, n, l, r, force_cmp=False):
        a, fa, ba = self.ex(l)
        if op == "&&":
            c, fc, bc = self.guarded(a, fa, lambda: self.ex(r))
        elif op == "||":
            c, fc, bc = self.guarded(a, fa, lambda: self.ex(r), negate=True)
        else:
            c, fc, bc = self.ex(r)
        fv = fa | fc
        if op in ("<", "<=", ">", ">=", "==", "!="):
            if op == "==":
                return ("(%s == %s)" % (a, c), fv, True)
            if op == "!=":
                return ("(%s != %s)" % (a, c), fv, True)
            lop = {"<": "<", "<=": "≤", ">": ">", ">=": "≥"}[op]
            return ("(decide (%s %s %s))" % (a, lop, c), fv, True)
        if op in ("&&", "||"):
            return ("(%s %s %s)" % (a, op, c), fv, True)
        if op in ("+", "-", "*"):
            return self.arith(n, "(%s %s %s)" % (a, op, c), fv)
        if op in ("/", "%"):
            self.ub.append(("(%s != 0)" % c, fc))
            if self.is_unsigned(n):
                return ("(%s %s %s)" % (a, op, c), fv, False)      # both operands non-negative: floor = truncation
            self.ub.append(("(!(%s == %s && %s == -1))" % (a, self.type_min(n), c), fv))
            return self.arith(n, "(%s %s %s)" % ("cdiv" if op == "/" else "cmod", a, c), fv)
        if op in ("<<", ">>"):
            # result type = promoted left operand; undefined unless 0 <= count < its width.  C++20 [expr.shift]: `<<` is the
            # value congruent to a * 2^count modulo 2^N (signed operands included), `>>` is floor(a / 2^count)
            bits, signed = self.ity(qtype(n))
            self.ub.append(("(shiftOk %d %s)" % (bits, c), fc))
            if op == ">>":
                return ("(shr %s %s)" % (a, c), fv, False)
            return ("(%s %d (shl %s %s))" % ("wrapS" if signed else "wrapU", bits, a, c), fv, False)
        if op in ("&", "|", "^"):
            if ba or bc:
                raise Unsupported("bit operator on bool")
            bits, signed = self.ity(qtype(n))
            f = {"&": "band", "|": "bor", "^": "bxor"}[op]
            # unsigned: both operands are non-negative representatives; signed: through the two's complement representation
            return ("(%sS %d %s %s)" % (f, bits, a, c) if signed else "(%s %s %s)" % (f, a, c), fv, False)
        raise Unsupported("binop " + op)

    def type_min(self, n):
        bits, _ = self.ity(qtype(n))
        return "(%d : Int)" % (-(2 ** (bits - 1)))

    def arith(self, n, e, fv):
        bits, signed = self.ity(qtype(n))
        if signed:
            self.ub.append(("(inRangeS %d %s)" % (bits, e), set(fv)))
            return (e, fv, False)
        return ("(wrapU %d %s)" % (bits, e), fv, False)

    # ---------------- statements
    def bind(self, v, e, fv, isb):
        c = self.counter.get(v, 0)
        self.counter[v] = c + 1
        lv = v if c == 0 else "%s_%d" % (v, c)
        ln = "%s_%s" % (self.name, lv)
        ps = sorted(fv)
        self.defs.append((ln, ps, e, isb))
        self.env[v] = (lv, {lv}, False if isinstance(isb, tuple) else isb)
        if isinstance(isb, tuple):      # a tuple-valued local: later per-local definitions take it as a tuple parameter
            self.vtypes[lv] = " × ".join(["Int"] * isb[1])
        self.order.append((lv, ln, ps))

    def body(self, stmts):
        if not stmts:
            raise Unsupported("fell off the end of the function")
        s, rest = stmts[0], stmts[1:]
        while s["kind"] in ("ExprWithCleanups", "ParenExpr"):
            s = s["inner"][0]
        k = s["kind"]
        if k == "DeclStmt":
            for d in s["inner"]:
                if d["kind"] in ("StaticAssertDecl", "TypeAliasDecl"):
                    continue
                if d["kind"] != "VarDecl":
                    raise Unsupported(d["kind"])
                init = d["inner"][0]
                if "[" in qtype(d):          # constexpr table
                    ini = init
                    while ini["kind"] != "InitListExpr":
                        ini = ini["inner"][0]
                    vals = []
                    for el in ini["inner"]:
                        e, fv, _ = self.ex(el)
                        if fv:
                            raise Unsupported("non-constant table")
                        vals.append(e)
                    self.tables[d["name"]] = vals
                    continue
                e, fv, b = self.ex(init)
                if short(qtype(d)) in AGG:              # a local aggregate: a tuple-valued definition
                    b = ("agg", len(AGG[short(qtype(d))]))
                self.bind(d["name"], e, fv, b)
            return self.body(rest)
        if k == "CompoundAssignOperator":
            t0 = s["inner"][0]
            if t0["kind"] == "MemberExpr" and t0["inner"][0]["kind"] == "CXXThisExpr":
                tgt = "self"
            else:
                tgt = t0["referencedDecl"]["name"]
            crt = s.get("computeResultType", {})
            cq = crt.get("desugaredQualType") or crt.get("qualType")
            if cq and norm(cq) in INT_TYPES and INT_TYPES[norm(cq)][1]:
                a0, fa0, _ = self.ex(s["inner"][0])
                c0, fc0, _ = self.ex(s["inner"][1])
                opc = s["opcode"][:-1]
                if opc in ("+", "-", "*"):
                    self.ub.append(("(inRangeS %d (%s %s %s))" % (INT_TYPES[norm(cq)][0], a0, opc, c0), fa0 | fc0))
            a, fa, _ = self.ex(s["inner"][0])
            c, fc, _ = self.ex(s["inner"][1])
            op = s["opcode"][:-1]
            if op in ("/", "%"):
                self.ub.append(("(%s != 0)" % c, fc))
                bits_, signed_ = self.ity(qtype(s))
                if signed_:
                    op = {"/": "cdiv", "%": "cmod"}[op]
                    e, fv, b = self.arith(s, "(%s %s %s)" % (op, a, c), fa | fc)
                else:
                    e, fv, b = ("(wrapU %d (%s %s %s))" % (bits_, a, op, c), fa | fc, False)
                self.bind(tgt, e, fv, b)
                return self.body(rest)
            e, fv, b = self.arith(s, "(%s %s %s)" % (a, op, c), fa | fc)
            self.bind(tgt, e, fv, b)
            return self.body(rest)
        if k == "CXXOperatorCallExpr" or (k == "BinaryOperator" and s.get("opcode") == "="):
            # `*this = expr;` / `this->field = expr;` in a method of a one-field class
            parts = s["inner"][1:] if k == "CXXOperatorCallExpr" else s["inner"]
            lhs = parts[0]
            while lhs["kind"] in ("ImplicitCastExpr", "ParenExpr"):
                lhs = lhs["inner"][0]
            is_this = (lhs["kind"] == "UnaryOperator" and lhs.get("opcode") == "*" and lhs["inner"][0]["kind"] == "CXXThisExpr") or \
                      (lhs["kind"] == "MemberExpr" and lhs["inner"][0]["kind"] == "CXXThisExpr")
            if is_this and lhs["kind"] == "UnaryOperator" and self.self_class in AGG:
                # `*this = expr;` in a member of an aggregate class: from here on `*this` is the tuple bound to `self_<n>`
                e, fv, _ = self.ex(parts[1])
                self.counter.setdefault("self", 1)
                self.bind("self", e, fv, ("agg", len(AGG[self.self_class])))
                for i in range(len(AGG[self.self_class])):
                    self.env.pop("this#%d" % i, None)
                return self.body(rest)
            if not is_this or "self" not in self.env:
                raise Unsupported("assignment to something other than *this")
            e, fv, b = self.ex(parts[1])
            if lhs["kind"] == "MemberExpr":
                e = self.conv(qtype(lhs), e)
            self.bind("self", e, fv, b)
            return self.body(rest)
        if k == "ReturnStmt":
            r0 = s["inner"][0]
            if r0["kind"] == "UnaryOperator" and r0.get("opcode") == "*" and r0["inner"][0]["kind"] == "CXXThisExpr":
                if "self" not in self.env:      # aggregate class, `*this` never assigned: the tuple of the parameters
                    return self.ex(r0)
                return self.env["self"]
            return self.ex(r0)
        if k == "IfStmt" and s.get("isConstexpr") and s["inner"][0]["kind"] == "ConstantExpr" and "value" in s["inner"][0]:
            # `if constexpr` in an instantiation: only the kept branch exists (the other one is absent or a NullStmt)
            kept = s["inner"][1:2] if s["inner"][0]["value"] == "true" else s["inner"][2:3]
            return self.body([x for x in kept if x["kind"] != "NullStmt"] + rest)
        if k == "IfStmt" and s.get("hasInit"):      # v3: `if (init; cond)`: the init statement, then the plain `if`
            plain = dict(s)
            plain.pop("hasInit")
            plain["inner"] = s["inner"][1:]
            return self.body([s["inner"][0], plain] + rest)
        if k == "IfStmt":
            c, fc, _ = self.ex(s["inner"][0])
            th = s["inner"][1]
            t = self.guarded(c, fc, lambda: self.body(th["inner"] if th["kind"] == "CompoundStmt" else [th]))
            if len(s["inner"]) > 2:
                el = s["inner"][2]
                f = self.guarded(c, fc, lambda: self.body(el["inner"] if el["kind"] == "CompoundStmt" else [el]), negate=True)
            else:
                f = self.guarded(c, fc, lambda: self.body(rest), negate=True)
            return ("(if %s then %s else %s)" % (c, t[0], f[0]), fc | t[1] | f[1], t[2])
        if k == "CompoundStmt":
            return self.body(s.get("inner", []) + rest)
        if k == "NullStmt":      # v3: `;` (an empty TETL_PRECONDITION(...) expansion)
            return self.body(rest)
        raise Unsupported("statement " + k)

    def functor_parts(self):
        """class template specialization -> (constructor, operator(), {field id: FieldDecl})"""
        inner = self.decl.get("inner", [])
        ctors = [c for c in inner if c["kind"] == "CXXConstructorDecl"
                 and any(x["kind"] == "CXXCtorInitializer" for x in c.get("inner", [])) and not c.get("isImplicit")]
        calls = [c for c in inner if c["kind"] == "CXXMethodDecl" and c.get("name") == "operator()"]
        if len(ctors) != 1 or len(calls) != 1:
            raise Unsupported("functor with %d constructors / %d operator()" % (len(ctors), len(calls)))
        return ctors[0], calls[0], {c["id"]: c for c in inner if c["kind"] == "FieldDecl"}

    def run(self):
        params, comp, ctor_init = [], None, None
        ctor = None
        if self.decl["kind"] == "ClassTemplateSpecializationDecl":
            ctor, call, fdecls = self.functor_parts()
            self.decl = {"kind": "CXXMethodDecl", "inner": [c for c in ctor["inner"] if c["kind"] == "ParmVarDecl"] + call["inner"]}
        if self.self_class in AGG:
            for idx, (g, _) in enumerate(AGG[self.self_class]):
                pn = "self_%s" % g
                params.append(pn)
                self.env["this#%d" % idx] = (pn, {pn}, False)
        elif self.self_class:
            self.env["self"] = ("self", {"self"}, False)
            self.counter["self"] = 1
            params.append("self")
        for c in self.decl.get("inner", []):
            if c["kind"] == "ParmVarDecl":
                nm = c.get("name", "_p%d" % len(params))
                cls = short(qtype(c))
                if cls in AGG:
                    for idx, (g, _) in enumerate(AGG[cls]):
                        pn = "%s_%s" % (nm, g)
                        params.append(pn)
                        self.env[nm + "#%d" % idx] = (pn, {pn}, False)
                    continue
                if ctor is not None and nm in params:
                    raise Unsupported("duplicate parameter name " + nm)
                params.append(nm)
                self.env[nm] = (nm, {nm}, norm(qtype(c)) == "bool")
                if norm(qtype(c)) == "bool":
                    self.vtypes[nm] = "Bool"
                self.counter[nm] = 1
            elif c["kind"] == "CompoundStmt":
                comp = c
            elif c["kind"] == "CXXCtorInitializer":
                ctor_init = c
        if ctor is not None:
            if any(c["kind"] == "CompoundStmt" and c.get("inner") for c in ctor["inner"]):
                raise Unsupported("functor constructor with a body")
            for ci in [c for c in ctor["inner"] if c["kind"] == "CXXCtorInitializer"]:
                fld, ini = ci.get("anyInit", {}), ci["inner"][0]
                if fld.get("kind") != "FieldDecl" or fld.get("id") not in fdecls:
                    raise Unsupported("initialiser of something other than a field")
                if ini["kind"] == "CXXDefaultInitExpr":      # the in-class initialiser of the specialization's FieldDecl
                    if not fdecls[fld["id"]].get("inner"):
                        raise Unsupported("field %s without initialiser" % fld["name"])
                    ini = fdecls[fld["id"]]["inner"][0]
                e, fv, b = self.ex(ini)
                self.bind(fld["name"], e, fv, b)
                self.fields[fld["name"]] = True
            if set(fdecls[i]["name"] for i in fdecls) != set(self.fields):
                raise Unsupported("field without initialiser")
        if self.decl["kind"] == "CXXConstructorDecl":
            if ctor_init is None:
                raise Unsupported("constructor without mem-initialiser")
            ini = ctor_init["inner"][0]
            while ini["kind"] == "InitListExpr":
                ini = ini["inner"][0]
            res = self.ex(ini)
        else:
            if comp is None:
                raise Unsupported("no body")
            res = self.body(comp.get("inner", []))
        out = []
        for ln, ps, e, isb in self.defs:
            ty = " × ".join(["Int"] * isb[1]) if isinstance(isb, tuple) else ("Bool" if isb else "Int")
            out.append("def %s %s : %s :=\n  %s" % (ln, " ".join("(%s : %s)" % (p, self.vtypes.get(p, "Int")) for p in ps), ty, e))
        lets = "".join("  let %s := %s %s\n" % (v, ln, " ".join(ps)) for v, ln, ps in self.order)
        params += self.extra_params
        pl = " ".join("(%s : %s)" % (p, "Bool" if self.vtypes.get(p) == "Bool" else "Int") for p in params)
        out.append("def %s %s :=\n%s  %s" % (self.name, pl, lets, res[0]))
        ubs = " &&\n    ".join(u for u, _ in self.ub) or "true"
        out.append("def %s_ub %s : Bool :=\n%s  %s" % (self.name, pl, lets, ubs))
        return "\n\n".join(out)


BOOL_FNS = {"year::is_leap", "year::ok", "month::ok", "day::ok", "weekday::ok", "month_day_last::ok"}

PRELUDE = """/-
GENERATED by /verif/gen/translate.py from %(repo)s/include/etl/_chrono — do not edit.
Regenerated on every run of the C11 check; the theorems of the owning property are re-checked against it.
-/
import Tetl.CSem
set_option linter.unusedVariables false
namespace Tetl.C11.Gen
open Tetl.CSem
"""


def pick(docs, kind, pred):
    for d in docs:
        if d.get("kind") == kind and pred(d):
            return d
    return None


def sig_is(*tys):
    def pred(d):
        ps = [short(qtype(c)) for c in d.get("inner", []) if c["kind"] == "ParmVarDecl"]
        return ps == list(tys)
    return pred


# (lean name, ast filter, decl kind, predicate, self class, registry keys)
JOBS = [
    ("mkYear", "etl::chrono::year::year", "CXXConstructorDecl", sig_is("int"), None, ["ctor:year"]),
    ("mkMonth", "etl::chrono::month::month", "CXXConstructorDecl", sig_is("unsigned int"), None, ["ctor:month"]),
    ("mkDay", "etl::chrono::day::day", "CXXConstructorDecl", sig_is("unsigned int"), None, ["ctor:day"]),
    ("mkWeekday", "etl::chrono::weekday::weekday", "CXXConstructorDecl", sig_is("unsigned int"), None, ["ctor:weekday"]),
    ("year_is_leap", "etl::chrono::year::is_leap", "CXXMethodDecl", lambda d: True, "year", ["year::is_leap"]),
    ("year_ok", "etl::chrono::year::ok", "CXXMethodDecl", lambda d: True, "year", ["year::ok"]),
    ("month_ok", "etl::chrono::month::ok", "CXXMethodDecl", lambda d: True, "month", ["month::ok"]),
    ("day_ok", "etl::chrono::day::ok", "CXXMethodDecl", lambda d: True, "day", ["day::ok"]),
    ("weekday_ok", "etl::chrono::weekday::ok", "CXXMethodDecl", lambda d: True, "weekday", ["weekday::ok"]),
    ("civil_from_days", "civil_from_days", "CXXMethodDecl", lambda d: True, None, []),
    ("days_from_civil", "days_from_civil", "CXXMethodDecl", lambda d: True, None, []),
    ("weekday_from_days", "weekday_from_days", "CXXMethodDecl", lambda d: True, None, []),
    ("month_plus", "etl::chrono::operator+", "FunctionDecl", sig_is("month", "months"), None, ["operator+(month,months)"]),
    ("month_diff", "etl::chrono::operator-", "FunctionDecl", sig_is("month", "month"), None, ["operator-(month,month)"]),
    ("year_plus", "etl::chrono::operator+", "FunctionDecl", sig_is("year", "years"), None, ["operator+(year,years)"]),
    ("weekday_plus", "etl::chrono::operator+", "FunctionDecl", sig_is("weekday", "days"), None, ["operator+(weekday,days)"]),
    ("weekday_minus", "etl::chrono::operator-", "FunctionDecl", sig_is("weekday", "days"), None, ["operator-(weekday,days)"]),
    ("weekday_diff", "etl::chrono::operator-", "FunctionDecl", sig_is("weekday", "weekday"), None, ["operator-(weekday,weekday)"]),
    ("weekday_add_assign", "etl::chrono::weekday::operator+=", "CXXMethodDecl", lambda d: True, "weekday", []),
    ("weekday_sub_assign", "etl::chrono::weekday::operator-=", "CXXMethodDecl", lambda d: True, "weekday", []),
    ("last_day_of_month", "last_day_of_month", "FunctionDecl", lambda d: True, None, ["fn:last_day_of_month"]),
    ("ymd_ok", "etl::chrono::year_month_day::ok", "CXXMethodDecl", lambda d: True, "year_month_day", []),
    ("year_month_plus", "etl::chrono::operator+", "FunctionDecl", sig_is("year_month", "months"), None, ["operator+(year_month,months)"]),
    ("year_minus", "etl::chrono::operator-", "FunctionDecl", sig_is("year", "years"), None, ["operator-(year,years)"]),
    ("years_plus_year", "etl::chrono::operator+", "FunctionDecl", sig_is("years", "year"), None, ["operator+(years,year)"]),
    ("year_add_assign", "etl::chrono::year::operator+=", "CXXMethodDecl", sig_is("years"), "year", []),
    ("year_sub_assign", "etl::chrono::year::operator-=", "CXXMethodDecl", sig_is("years"), "year", []),
    ("year_month_diff", "etl::chrono::operator-", "FunctionDecl", sig_is("year_month", "year_month"), None,
     ["operator-(year_month,year_month)"]),
    ("year_diff", "etl::chrono::operator-", "FunctionDecl", sig_is("year", "year"), None, ["operator-(year,year)"]),
    ("weekday_iso_encoding", "etl::chrono::weekday::iso_encoding", "CXXMethodDecl", lambda d: True, "weekday", []),
    ("year_month_ok", "etl::chrono::year_month::ok", "CXXMethodDecl", lambda d: True, "year_month", []),
    ("month_day_last_ok", "etl::chrono::month_day_last::ok", "CXXMethodDecl", lambda d: True, "month_day_last", ["month_day_last::ok"]),
    ("ymdl_ok", "etl::chrono::year_month_day_last::ok", "CXXMethodDecl", lambda d: True, "year_month_day_last", []),
    ("months_plus_month", "etl::chrono::operator+", "FunctionDecl", sig_is("months", "month"), None, ["operator+(months,month)"]),
    ("month_minus", "etl::chrono::operator-", "FunctionDecl", sig_is("month", "months"), None, ["operator-(month,months)"]),
    ("month_add_assign", "etl::chrono::month::operator+=", "CXXMethodDecl", sig_is("months"), "month", []),
    ("month_sub_assign", "etl::chrono::month::operator-=", "CXXMethodDecl", sig_is("months"), "month", []),
]


def calendar_op_jobs():
    """+/- months / years of year_month and of the four date aggregates built on it: every operand order, += and -="""
    jobs = []
    for ab, cls in (("year_month", "year_month"), ("ymd", "year_month_day"), ("ymdl", "year_month_day_last"),
                    ("ymw", "year_month_weekday"), ("ymwl", "year_month_weekday_last")):
        for dur in ("months", "years"):
            if not (cls == "year_month" and dur == "months"):
                jobs.append(("%s_plus_%s" % (ab, dur), "etl::chrono::operator+", "FunctionDecl", sig_is(cls, dur), None,
                             ["operator+(%s,%s)" % (cls, dur)]))
            jobs.append(("%s_plus_%s" % (dur, ab), "etl::chrono::operator+", "FunctionDecl", sig_is(dur, cls), None,
                         ["operator+(%s,%s)" % (dur, cls)]))
            jobs.append(("%s_minus_%s" % (ab, dur), "etl::chrono::operator-", "FunctionDecl", sig_is(cls, dur), None,
                         ["operator-(%s,%s)" % (cls, dur)]))
            jobs.append(("%s_add_assign_%s" % (ab, dur), "etl::chrono::%s::operator+=" % cls, "CXXMethodDecl", sig_is(dur), cls, []))
            jobs.append(("%s_sub_assign_%s" % (ab, dur), "etl::chrono::%s::operator-=" % cls, "CXXMethodDecl", sig_is(dur), cls, []))
    return jobs


JOBS += calendar_op_jobs()


def translate(repo, out_path, jobs=None, tu="#include <etl/chrono.hpp>\n", namespace="Tetl.C11.Gen",
              what="include/etl/_chrono", bool_fns=None, whole_tu=False, clang_flags=(), imports=(), extra_prelude="",
              externs=None, fn_opts=None):
    """Translate `jobs` (default: the C11 calendar kernels) into `out_path`.  Jobs whose callees are not translated
    yet are retried after the others (dependency order is found by iteration).
    v3 (all optional, the defaults give the v2 behaviour): `whole_tu` = one clang run over the whole translation unit
    (constants can be folded, callees are found by declaration id); `clang_flags` = further clang options; `imports` /
    `extra_prelude` = further Lean imports / text after the prelude; `externs` = {registry key: Lean name} of functions that
    are not translated (their Lean definitions `<name>` and `<name>_ub` come from the prelude); `fn_opts` = attributes
    set on every `Fn` (symbolic, rep_classes)."""
    jobs = list(JOBS if jobs is None else jobs)
    if bool_fns:
        BOOL_FNS.update(bool_fns)
    reg = Registry()
    for k_, v_ in (externs or {}).items():
        reg.add(k_, v_)
    prelude = PRELUDE % {"repo": repo}
    prelude = prelude.replace("include/etl/_chrono", what).replace("Tetl.C11.Gen", namespace)
    prelude = prelude.replace("the C11 check", "the %s check" % namespace.split(".")[1])   # owning property: Tetl.<Cxx>.…
    if imports:
        prelude = prelude.replace("import Tetl.CSem\n", "import Tetl.CSem\n" + "".join("import %s\n" % i for i in imports))
    prelude += extra_prelude
    whole, consts = None, {}
    if whole_tu:
        whole = whole_ast(repo, tu, clang_flags)
        index_vars(whole, consts)
        reg.fns["#ids"] = {}
    chunks = {}
    errors = {}
    cache = {}
    pending = jobs
    order = []
    for _round in range(6):
        nxt = []
        for job in pending:
            lean, filt, kind, pred, selfcls, keys = job
            if filt not in cache:
                cache[filt] = ast_of(repo, tu, filt) if whole is None else filter_decls(whole, filt)
            cands = [d for d in cache[filt] if d.get("kind") == kind and pred(d) and d.get("name", lean) is not None
                     and any(c.get("kind") in ("CompoundStmt", "CXXCtorInitializer") for c in d.get("inner", []))]
            if kind.split()[0] in SPEC_KINDS:
                cands = spec_cands(cache[filt], kind, pred)
            if not cands:
                errors[lean] = "%s: declaration not found (filter %s)" % (lean, filt)
                continue
            try:
                fn = Fn(lean, cands[0], reg, selfcls)
                fn.consts = consts
                for k_, v_ in (fn_opts or {}).items():
                    setattr(fn, k_, v_)
                chunks[lean] = fn.run()
                order.append(lean)
                errors.pop(lean, None)
                for k in keys:
                    reg.add(k, lean)
                if whole is not None and "id" in cands[0]:
                    reg.fns["#ids"][cands[0]["id"]] = lean
            except Unsupported as e:
                errors[lean] = "%s: unsupported: %s" % (lean, e)
                if "untranslated" in str(e):
                    nxt.append(job)
        if not nxt or len(nxt) == len(pending):
            break
        pending = nxt
    parts = [prelude] + [chunks[l] for l in order] + ["-- FAILED: %s" % e for e in errors.values()] + ["end %s\n" % namespace]
    text = "\n\n".join(parts)
    old = open(out_path).read() if os.path.exists(out_path) else None
    if old != text:
        open(out_path, "w").write(text)
    return {"file": out_path, "changed": old != text, "errors": list(errors.values()), "functions": [j[0] for j in jobs],
            "translator": VERSION3 if whole_tu else VERSION}


# ---- v3: the whole translation unit in one clang run
def whole_ast(repo, tu_src, clang_flags=()):
    p = subprocess.run([CLANG, "-std=c++20", "-fsyntax-only", "-I" + os.path.join(repo, "include")] + list(clang_flags)
                       + ["-x", "c++", "-", "-Xclang", "-ast-dump=json"], input=tu_src, capture_output=True, text=True)
    if p.returncode != 0:
        raise Unsupported("clang failed: " + p.stderr[:600])
    return json.loads(p.stdout)


SCOPES = ("NamespaceDecl", "CXXRecordDecl", "ClassTemplateDecl", "ClassTemplateSpecializationDecl",
          "ClassTemplatePartialSpecializationDecl", "LinkageSpecDecl")


def filter_decls(root, filt):
    """the declarations clang's `-ast-dump-filter=<filt>` would dump: those whose qualified name contains `filt`
    (a matching declaration is not searched further)"""
    out = []

    def walk(n, qual):
        for c in n.get("inner", []):
            nm = c.get("name")
            if not c.get("kind", "").endswith("Decl"):
                continue
            q = qual + [nm] if nm else qual
            if nm and filt in "::".join(q):
                out.append(c)
                continue
            if c["kind"] in SCOPES:
                walk(c, q if c["kind"] != "LinkageSpecDecl" else qual)
    walk(root, [])
    return out


def index_vars(n, out):
    """id -> VarDecl, for every variable declaration of the translation unit"""
    if n.get("kind") == "VarDecl" and "id" in n:
        out[n["id"]] = n
    for c in n.get("inner", []):
        index_vars(c, out)


def exact_name(name):
    return lambda d: d.get("name") == name


# ---- specializations of templates (the TU instantiates them explicitly, so the AST is fully resolved)
SPEC_KINDS = {"FunctionSpec": "FunctionDecl", "Functor": "ClassTemplateSpecializationDecl", "Lambda": "FunctionDecl",
              "MemberSpec": "ClassTemplateSpecializationDecl"}


def targ_is(ty):
    """the first template argument of the specialization is the type `ty`"""
    def pred(d):
        ta = [c for c in d.get("inner", []) if c["kind"] == "TemplateArgument"]
        return bool(ta) and ta[0].get("type", {}).get("qualType") == ty
    return pred


def targs_are(*tys):
    """the template arguments of the specialization are exactly `tys` (types by spelling, values as decimal text)"""
    def pred(d):
        ta = [c for c in d.get("inner", []) if c["kind"] == "TemplateArgument"]
        got = [c.get("type", {}).get("qualType") if "type" in c else str(c.get("value")) for c in ta]
        return got == list(tys)
    return pred


def find_node(n, pred):
    if pred(n):
        return n
    for c in n.get("inner", []):
        r = find_node(c, pred)
        if r is not None:
            return r
    return None


def spec_cands(docs, kind, pred):
    """candidates of a SPEC_KINDS job: specializations at top level (explicit instantiations) and inside their template
    declaration, defined ones only; "Lambda v" continues to the `operator()` of the closure bound to the local `v`"""
    akind = SPEC_KINDS[kind.split()[0]]
    if kind.split()[0] == "MemberSpec":
        # v3 "MemberSpec m": the specializations of the member function template `m` inside the specializations of a class
        # template (implicit instantiations live inside the ClassTemplateDecl); `pred(class specialization, method)`
        meth, classes, out = kind.split()[1], [], []
        for d in docs:
            classes += [c for c in [d] + d.get("inner", []) if c.get("kind") == akind]
        for c in classes:
            for ft in c.get("inner", []):
                if ft.get("kind") == "FunctionTemplateDecl" and ft.get("name") == meth:
                    out += [m for m in ft.get("inner", []) if m.get("kind") == "CXXMethodDecl" and pred(c, m)
                            and any(x.get("kind") == "TemplateArgument" for x in m.get("inner", []))
                            and any(x.get("kind") == "CompoundStmt" for x in m.get("inner", []))]
        return out
    pool = list(docs)
    for d in docs:
        if d.get("kind", "").endswith("TemplateDecl"):
            pool += d.get("inner", [])
    out = [d for d in pool if d.get("kind") == akind and pred(d)
           and any(c.get("kind") == "TemplateArgument" for c in d.get("inner", []))
           and any(c.get("kind") in ("CompoundStmt", "CXXConstructorDecl") for c in d.get("inner", []))]
    if kind.split()[0] == "Lambda":
        var = kind.split()[1]
        vds = [find_node(d, lambda n: n.get("kind") == "VarDecl" and n.get("name") == var) for d in out]
        lams = [find_node(v, lambda n: n.get("kind") == "LambdaExpr") for v in vds if v is not None]
        out = [find_node(l["inner"][0], lambda n: n.get("kind") == "CXXMethodDecl" and n.get("name") == "operator()")
               for l in lams if l is not None and l.get("inner")]
        out = [m for m in out if m is not None and any(c.get("kind") == "CompoundStmt" for c in m.get("inner", []))]
    return out


CCTYPE = ["isalnum", "isalpha", "isblank", "iscntrl", "isdigit", "isgraph", "islower", "isprint", "ispunct", "isspace",
          "isupper", "isxdigit", "tolower", "toupper"]
CCTYPE_JOBS = [(f, "etl::" + f, "FunctionDecl", exact_name(f), None, ["fn:" + f]) for f in CCTYPE]
CWCTYPE = ["iswalnum", "iswalpha", "iswblank", "iswcntrl", "iswdigit", "iswgraph", "iswlower", "iswprint", "iswpunct",
           "iswspace", "iswupper", "iswxdigit", "towlower", "towupper"]
CWCTYPE_JOBS = [(f, "etl::" + f, "FunctionDecl", exact_name(f), None, ["fn:" + f]) for f in CWCTYPE]

# ---- C10: the overflow checkers of strings::to_integer, for every integral type the library can instantiate them with,
# etl::abs as the signed checker calls it (int/long/long long: the <cmath>-style overloads of _math/abs.hpp, which call
# detail::abs_impl; the narrower types: the template of _numeric/abs.hpp), and the `parseDigit` lambda of to_integer
TOINT_SIGNED = [("i8", "signed char"), ("i16", "short"), ("i32", "int"), ("i64", "long"), ("ill", "long long"),
                ("c8", "char"), ("wc", "wchar_t")]
TOINT_UNSIGNED = [("u8", "unsigned char"), ("u16", "unsigned short"), ("u32", "unsigned int"), ("u64", "unsigned long"),
                  ("ull", "unsigned long long"), ("c8u", "char8_t"), ("c16", "char16_t"), ("c32", "char32_t")]
TOINT_ABS_OVERLOADS = ("int", "long", "long long")
TOINT_TU = "#include <etl/strings.hpp>\n" + "".join(
    "template struct etl::strings::detail::signed_overflow_checker<%s>;\n" % t for _, t in TOINT_SIGNED) + "".join(
    "template struct etl::strings::detail::unsigned_overflow_checker<%s>;\n" % t for _, t in TOINT_UNSIGNED) + "".join(
    "template auto etl::abs<%s>(%s) noexcept -> %s;\n" % (t, t, t) for _, t in TOINT_SIGNED if t not in TOINT_ABS_OVERLOADS) + "".join(
    "template auto etl::strings::to_integer<%s>(etl::string_view, %s) noexcept -> etl::strings::to_integer_result<%s>;\n"
    % (t, t, t) for _, t in TOINT_SIGNED + TOINT_UNSIGNED)
TOINT_JOBS = (
    [("abs_impl_" + s, "etl::detail::abs_impl", "FunctionSpec", targ_is(t), None, ["fn:abs_impl(%s)" % t])
     for s, t in TOINT_SIGNED if t in TOINT_ABS_OVERLOADS]
    + [("abs_" + s, "etl::abs", "FunctionDecl", sig_is(t), None, ["fn:abs(%s)" % t])
       for s, t in TOINT_SIGNED if t in TOINT_ABS_OVERLOADS]
    + [("abs_" + s, "etl::abs", "FunctionSpec", targ_is(t), None, ["fn:abs(%s)" % t])
       for s, t in TOINT_SIGNED if t not in TOINT_ABS_OVERLOADS]
    + [("schk_" + s, "etl::strings::detail::signed_overflow_checker", "Functor", targ_is(t), None, [])
       for s, t in TOINT_SIGNED]
    + [("uchk_" + s, "etl::strings::detail::unsigned_overflow_checker", "Functor", targ_is(t), None, [])
       for s, t in TOINT_UNSIGNED]
    + [(f, "etl::" + f, "FunctionDecl", exact_name(f), None, ["fn:" + f]) for f in ("isdigit", "isalpha", "isupper", "tolower")]
    + [("parseDigit_" + s, "etl::strings::to_integer", "Lambda parseDigit", targ_is(t), None, [])
       for s, t in TOINT_SIGNED + TOINT_UNSIGNED])


# ---- C14: the straight-line kernels of <etl/bit.hpp>, <etl/numeric.hpp>, <etl/utility.hpp> for the builtin integer types
# of the harness.  Loops stay hand-modelled: countl_zero and popcount are EXTERNS (Lean names declared in the prelude of the
# generated file from Tetl/C14/GenExt.lean, which wraps the hand model); gcd, lcm, ipow, ilog2, countr_*, countl_one and
# popcount_fallback are not translated at all.
BITS_U = [("u8", "unsigned char"), ("u16", "unsigned short"), ("u32", "unsigned int"), ("u64", "unsigned long")]
BITS_S = [("i8", "signed char"), ("i16", "short"), ("i32", "int"), ("i64", "long")]
BITS_ALL = BITS_U + BITS_S
BITS_WIDTH = {"u8": 8, "u16": 16, "u32": 32, "u64": 64, "i8": 8, "i16": 16, "i32": 32, "i64": 64}
BITS_UNARY_U = ["bit_width", "bit_floor", "bit_ceil", "has_single_bit"]
BITS_POS = ["test_bit", "set_bit", "reset_bit", "flip_bit"]
BITS_RET = {"bit_width": "int", "has_single_bit": "bool", "test_bit": "bool"}
BITS_CMP = ["cmp_equal", "cmp_not_equal", "cmp_less", "cmp_greater", "cmp_less_equal", "cmp_greater_equal"]


def _bits_tu():
    L = ["#include <etl/bit.hpp>", "#include <etl/numeric.hpp>", "#include <etl/utility.hpp>"]
    for _, t in BITS_U:
        for f in BITS_UNARY_U:
            L.append("template auto etl::%s<%s>(%s) noexcept -> %s;" % (f, t, t, BITS_RET.get(f, t)))
        for f in ("rotl", "rotr"):
            L.append("template auto etl::%s<%s>(%s, int) noexcept -> %s;" % (f, t, t, t))
        for f in BITS_POS:
            L.append("template auto etl::%s<%s>(%s, %s) noexcept -> %s;" % (f, t, t, t, BITS_RET.get(f, t)))
        L.append("template auto etl::set_bit<%s>(%s, %s, bool) -> %s;" % (t, t, t, t))
    for _, t in BITS_ALL:
        for f in ("midpoint", "add_sat", "div_sat"):
            L.append("template auto etl::%s<%s>(%s, %s) noexcept -> %s;" % (f, t, t, t, t))
        L.append("template auto etl::abs<%s>(%s) noexcept -> %s;" % (t, t, t))
        for _, u in BITS_ALL:
            for f in BITS_CMP:
                L.append("template auto etl::%s<%s, %s>(%s, %s) noexcept -> bool;" % (f, t, u, t, u))
            L.append("template auto etl::in_range<%s, %s>(%s) noexcept -> bool;" % (t, u, u))
            L.append("template auto etl::saturate_cast<%s, %s>(%s) noexcept -> %s;" % (t, u, u, t))
    return "\n".join(L) + "\n"


BITS_TU = _bits_tu()
BITS_EXTERNS = dict([("fn:countl_zero(%s)" % t, "countl_zero_" + s) for s, t in BITS_U]
                    + [("fn:popcount(%s)" % t, "popcount_" + s) for s, t in BITS_U])
BITS_PRELUDE = "".join(
    "def countl_zero_%s (x : Int) : Int := Tetl.C14.GenExt.countlZero %d x\n"
    "def countl_zero_%s_ub (x : Int) : Bool := Tetl.C14.GenExt.countlZeroOk %d x\n"
    "def popcount_%s (x : Int) : Int := Tetl.C14.GenExt.popcount %d x\n"
    "def popcount_%s_ub (x : Int) : Bool := Tetl.C14.GenExt.popcountOk %d x\n"
    % (s, BITS_WIDTH[s], s, BITS_WIDTH[s], s, BITS_WIDTH[s], s, BITS_WIDTH[s]) for s, _ in BITS_U)


def sig_q(*tys):
    """parameter types by their full (desugared) spelling"""
    def pred(d):
        return [norm(qtype(c)) for c in d.get("inner", []) if c["kind"] == "ParmVarDecl"] == list(tys)
    return pred


def both(p, q):
    return lambda d: p(d) and q(d)


def _bits_jobs():
    J = []
    for s, t in BITS_U:
        for f in BITS_UNARY_U:
            J.append(("%s_%s" % (f, s), "etl::" + f, "FunctionSpec", targs_are(t), None, ["fn:%s(%s)" % (f, t)]))
        for f in ("rotl", "rotr"):
            J.append(("%s_%s" % (f, s), "etl::" + f, "FunctionSpec", targs_are(t), None, []))
        for f in BITS_POS:
            J.append(("%s_%s" % (f, s), "etl::" + f, "FunctionSpec", both(targs_are(t), sig_q(t, t)), None, []))
        J.append(("set_bit_to_%s" % s, "etl::set_bit", "FunctionSpec", both(targs_are(t), sig_q(t, t, "bool")), None, []))
    for s, t in (("u16", "unsigned short"), ("u32", "unsigned int"), ("u64", "unsigned long")):
        J.append(("byteswap_fallback_%s" % s, "etl::detail::byteswap_fallback::operator()", "CXXMethodDecl", sig_q(t), None, []))
    for s, t in BITS_ALL:
        for f in ("midpoint", "add_sat", "div_sat"):
            J.append(("%s_%s" % (f, s), "etl::" + f, "FunctionSpec", both(targs_are(t), sig_q(t, t)), None, []))
        J.append(("abs_%s" % s, "etl::abs", "FunctionSpec", targs_are(t), None, []))
    for s, t in BITS_ALL:
        for s2, u in BITS_ALL:
            for f in ("cmp_equal", "cmp_less"):
                J.append(("%s_%s_%s" % (f, s, s2), "etl::" + f, "FunctionSpec", targs_are(t, u), None, ["fn:%s(%s,%s)" % (f, t, u)]))
    for s, t in BITS_ALL:
        for s2, u in BITS_ALL:
            for f in ("cmp_not_equal", "cmp_greater"):
                J.append(("%s_%s_%s" % (f, s, s2), "etl::" + f, "FunctionSpec", targs_are(t, u), None, ["fn:%s(%s,%s)" % (f, t, u)]))
    for s, t in BITS_ALL:
        for s2, u in BITS_ALL:
            for f in ("cmp_less_equal", "cmp_greater_equal"):
                J.append(("%s_%s_%s" % (f, s, s2), "etl::" + f, "FunctionSpec", targs_are(t, u), None, ["fn:%s(%s,%s)" % (f, t, u)]))
    for s, t in BITS_ALL:
        for s2, u in BITS_ALL:
            J.append(("in_range_%s_%s" % (s, s2), "etl::in_range", "FunctionSpec", targs_are(t, u), None, []))
            J.append(("saturate_cast_%s_%s" % (s, s2), "etl::saturate_cast", "FunctionSpec", targs_are(t, u), None, []))
    return J


BITS_JOBS = _bits_jobs()
BITS_BOOL = set()


# ---- C12: the four `duration_cast_impl<ToDuration, CF, CR, CF::num == 1, CF::den == 1>::cast` bodies for every ordered
# pair of the harness' representation types.  The instantiations come from calls `duration_cast<To>(from)` in the TU with
# periods that select the specialization; `CF::num` / `CF::den` are left SYMBOLIC (Lean parameters `num`, `den`), so one
# generated function stands for every conversion factor of that shape.  CR = common_type_t<to_rep, Rep, intmax_t> = long.
DUR_REPS = [("i16", "short"), ("i32", "int"), ("i64", "long"), ("u32", "unsigned int")]
# shape -> (From period, To period, NumIsOne, DenIsOne)
DUR_SHAPES = {"nd": ("etl::ratio<3, 1>", "etl::ratio<2, 1>", 0, 0), "d": ("etl::ratio<1, 1000>", "etl::ratio<1, 1>", 1, 0),
              "n": ("etl::ratio<1, 1>", "etl::ratio<1, 1000>", 0, 1), "id": ("etl::ratio<1, 1>", "etl::ratio<1, 1>", 1, 1)}
DURCAST_TU = "#include <etl/chrono.hpp>\nnamespace verif_inst {\nusing namespace etl::chrono;\n" + "".join(
    "inline auto c_%s_%s_%s(duration<%s, %s> d) { return duration_cast<duration<%s, %s>>(d); }\n"
    % (sh, ts, fs, ft, DUR_SHAPES[sh][0], tt, DUR_SHAPES[sh][1])
    for sh in DUR_SHAPES for ts, tt in DUR_REPS for fs, ft in DUR_REPS) + "}\n"


def durcast_pred(to_rep, from_rep, num1, den1):
    def pred(c, m):
        ca = [x for x in c.get("inner", []) if x["kind"] == "TemplateArgument"]
        ma = [x for x in m.get("inner", []) if x["kind"] == "TemplateArgument"]
        if len(ca) != 5 or len(ma) != 2:
            return False
        tq = ca[0].get("type", {}).get("qualType", "")
        mt = re.match(r"(?:etl::chrono::)?duration<([^,<>]+)[,>]", tq)
        return (bool(mt) and mt.group(1).strip() == to_rep and ca[2].get("type", {}).get("qualType") == "long"
                and (ca[3].get("value") != 0) == bool(num1) and (ca[4].get("value") != 0) == bool(den1)      # `true` is dumped as -1
                and ma[0].get("type", {}).get("qualType") == from_rep)
    return pred


DURCAST_JOBS = [("cast_%s_%s_%s" % (sh, ts, fs), "etl::chrono::detail::duration_cast_impl", "MemberSpec cast",
                 durcast_pred(tt, ft, DUR_SHAPES[sh][2], DUR_SHAPES[sh][3]), None, [])
                for sh in DUR_SHAPES for ts, tt in DUR_REPS for fs, ft in DUR_REPS]


def translate_durcast(repo, out):
    return translate(repo, out, DURCAST_JOBS, DURCAST_TU, "Tetl.C12.Gen", "include/etl/_chrono/duration_cast.hpp",
                     whole_tu=True, imports=["Tetl.CSemBits"],
                     fn_opts={"symbolic": {"num": "num", "den": "den"}, "rep_classes": True})


def translate_bits(repo, out):
    return translate(repo, out, BITS_JOBS, BITS_TU, "Tetl.C14.Gen", "include/etl/_bit, _numeric, _utility", whole_tu=True,
                     clang_flags=["-Wno-c++11-narrowing"], imports=["Tetl.CSemBits", "Tetl.C14.GenExt"],
                     extra_prelude=BITS_PRELUDE, externs=BITS_EXTERNS)


if __name__ == "__main__":
    repo = sys.argv[1] if len(sys.argv) > 1 else "/repo"
    out = sys.argv[2] if len(sys.argv) > 2 else "/dev/stdout"
    if len(sys.argv) > 3 and sys.argv[3] == "bits":
        info = translate_bits(repo, out)
    elif len(sys.argv) > 3 and sys.argv[3] == "durcast":
        info = translate_durcast(repo, out)
    elif len(sys.argv) > 3 and sys.argv[3] == "toint":
        info = translate(repo, out, TOINT_JOBS, TOINT_TU, "Tetl.C10.Gen", "include/etl/_strings/to_integer.hpp")
    elif len(sys.argv) > 3 and sys.argv[3] == "cwctype":
        info = translate(repo, out, CWCTYPE_JOBS, "#include <etl/cwctype.hpp>\n", "Tetl.C18.GenW", "include/etl/_cwctype")
    elif len(sys.argv) > 3 and sys.argv[3] == "cctype":
        info = translate(repo, out, CCTYPE_JOBS, "#include <etl/cctype.hpp>\n", "Tetl.C18.Gen", "include/etl/_cctype")
    else:
        info = translate(repo, out)
    print(json.dumps(info, indent=1), file=sys.stderr)
