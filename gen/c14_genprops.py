#!/usr/bin/env python3
"""Writes the instance theorems over the generated arithmetic kernels of C14 (lean/Tetl/C14/Gen.lean):
TetlProofs/C14/GenArith.lean (add_sat, div_sat, abs), GenCmpEq/GenCmpLt (cmp_equal, cmp_less), GenCmpD1/GenCmpD2 (the four
derived comparisons), GenRange (in_range), GenSat (saturate_cast) — one theorem per function and type (pair), all of the
same shape, so they are written by this script once (`python3 gen/c14_genprops.py --write`) and committed; the check
re-verifies them against the regenerated Gen.lean on every run.  Tactics and lemmas: TetlProofs/C14/GenArithLemmas.lean."""
import os
import sys

TYPES = [("u8", 8, False), ("u16", 16, False), ("u32", 32, False), ("u64", 64, False),
         ("i8", 8, True), ("i16", 16, True), ("i32", 32, True), ("i64", 64, True)]
HEAD = """/-
C14, tie T — %s
WRITTEN by gen/c14_genprops.py (statements and proofs are uniform per family); re-checked against the regenerated
Tetl/C14/Gen.lean on every run of the C14 check.
-/
import %s
set_option linter.unusedSimpArgs false
set_option linter.unusedVariables false
namespace Tetl.C14.GenProps
open Tetl Tetl.C14 Tetl.CSem

"""
FOOT = "\nend Tetl.C14.GenProps\n"


def lo(w, s):
    return -(1 << (w - 1)) if s else 0


def hi(w, s):
    return (1 << (w - 1)) - 1 if s else (1 << w) - 1


def lit(v):
    return "(%d)" % v if v < 0 else "%d" % v


def rng(x, w, s):
    return "%d ≤ %s ∧ %s < %d" % (lo(w, s), x, x, hi(w, s) + 1)


def ity(w, s):
    return "⟨%d, %s⟩" % (w, "true" if s else "false")


def arith():
    out = []
    for n, w, s in TYPES:
        L, H = lit(lo(w, s)), lit(hi(w, s))
        out.append("""theorem gen_add_sat_%(n)s (x y : Int) (hx : %(rx)s) (hy : %(ry)s) :
    Gen.add_sat_%(n)s_ub x y = true ∧ Gen.add_sat_%(n)s x y = Spec.clampTo %(L)s %(H)s (x + y) ∧
    Tetl.C14.addSat %(T)s x y = .ok (Gen.add_sat_%(n)s x y) := by
  have h2 : Gen.add_sat_%(n)s x y = Spec.clampTo %(L)s %(H)s (x + y) := by
    simp only [Gen.add_sat_%(n)s, Gen.add_sat_%(n)s_min, Gen.add_sat_%(n)s_max, Gen.add_sat_%(n)s_sum, Gen.add_sat_%(n)s_sum_1] <;> c_arith
  refine ⟨by simp only [Gen.add_sat_%(n)s_ub] <;> c_arith, h2, ?_⟩
  rw [h2, Props.addSat_eq _ (by decide) x y (inR_%(n)s x hx) (inR_%(n)s y hy)]; rfl
""" % dict(n=n, rx=rng("x", w, s), ry=rng("y", w, s), L=L, H=H, T=ity(w, s)))
        hm = " (hmin : x ≠ %s)" % L if s else ""
        out.append("""theorem gen_abs_%(n)s (x : Int) (hx : %(rx)s)%(hm)s :
    Gen.abs_%(n)s_ub x = true ∧ Gen.abs_%(n)s x = Spec.abs x ∧ Tetl.C14.absT %(T)s x = .ok (Gen.abs_%(n)s x) := by
  have h2 : Gen.abs_%(n)s x = Spec.abs x := by
    simp only [Gen.abs_%(n)s, Spec.abs] <;> c_arith
  refine ⟨by simp only [Gen.abs_%(n)s_ub] <;> c_arith, h2, ?_⟩
  rw [h2, Props.absT_eq _ (by decide) x (inR_%(n)s x hx) %(hmp)s]
""" % dict(n=n, rx=rng("x", w, s), hm=hm, T=ity(w, s), hmp="(fun _ => hmin)" if s else "(fun h => by simp at h)"))
        narrow = w < 32
        pre = ""
        rew = []
        if narrow:
            pre += "  have e1 : wrapS 32 x = x := by simp [wrapS]; omega\n  have e2 : wrapS 32 y = y := by simp [wrapS]; omega\n"
            rew += ["e1", "e2"]
        if s:
            pre += ("  have hq : ¬ (x = %(L)s ∧ y = -1) → %(L)s ≤ Int.tdiv x y ∧ Int.tdiv x y < %(H1)d := tdiv_signed_range %(H1)d x y hx hy0\n"
                    "  have hq' : x = %(L)s ∧ y = -1 → Int.tdiv x y = %(H1)d := by rintro ⟨rfl, rfl⟩; decide\n"
                    % dict(L=L, H1=hi(w, s) + 1))
        else:
            pre += "  have hq := tdiv_nonneg_le x y hx.1 hy.1\n"
            if not narrow:
                pre += "  have e3 : x / y = Int.tdiv x y := (Int.tdiv_eq_ediv_of_nonneg hx.1).symm\n"
                rew += ["e3"]
        out.append("""theorem gen_div_sat_%(n)s (x y : Int) (hx : %(rx)s) (hy : %(ry)s) (hy0 : y ≠ 0) :
    Gen.div_sat_%(n)s_ub x y = true ∧ Gen.div_sat_%(n)s x y = Spec.clampTo %(L)s %(H)s (Int.tdiv x y) ∧
    Tetl.C14.divSat %(T)s x y = .ok (Gen.div_sat_%(n)s x y) := by
%(pre)s  have h12 : Gen.div_sat_%(n)s_ub x y = true ∧ Gen.div_sat_%(n)s x y = Spec.clampTo %(L)s %(H)s (Int.tdiv x y) := by
    simp only [Gen.div_sat_%(n)s_ub, Gen.div_sat_%(n)s, cdiv%(rew)s]
    generalize Int.tdiv x y = q at *
    constructor <;> c_arith
  refine ⟨h12.1, h12.2, ?_⟩
  rw [h12.2, Props.divSat_eq _ (by decide) x y (inR_%(n)s x hx) (inR_%(n)s y hy) hy0]; rfl
""" % dict(n=n, rx=rng("x", w, s), ry=rng("y", w, s), L=L, H=H, T=ity(w, s), pre=pre, rew="".join(", " + r for r in rew)))
    return "\n".join(out)


def base_cmp(f, model, rel):
    out = []
    for n, w, s in TYPES:
        for m, v, r in TYPES:
            out.append("""theorem gen_%(f)s_%(n)s_%(m)s (t u : Int) (ht : %(rt)s) (hu : %(ru)s) :
    Gen.%(f)s_%(n)s_%(m)s_ub t u = true ∧ Gen.%(f)s_%(n)s_%(m)s t u = decide (t %(rel)s u) ∧
    Gen.%(f)s_%(n)s_%(m)s t u = Tetl.C14.%(model)s %(T)s %(U)s t u := by
  have h2 : Gen.%(f)s_%(n)s_%(m)s t u = decide (t %(rel)s u) := by
    simp only [Gen.%(f)s_%(n)s_%(m)s]; bool_fin
  exact ⟨rfl, h2, by rw [h2, Props.%(model)s_eq _ _ (by decide) (by decide) t u (inR_%(n)s t ht) (inR_%(m)s u hu)]⟩
""" % dict(f=f, model=model, rel=rel, n=n, m=m, rt=rng("t", w, s), ru=rng("u", v, r), T=ity(w, s), U=ity(v, r)))
    return "\n".join(out)


def derived(f, model, rel, basef, swap, neg):
    out = []
    for n, w, s in TYPES:
        for m, v, r in TYPES:
            bn = "gen_%s_%s_%s" % ((basef, m, n) if swap else (basef, n, m))
            bargs = "u t hu ht" if swap else "t u ht hu"
            inner = "Gen.%s_%s_%s" % ((basef, m, n) if swap else (basef, n, m))
            out.append("""theorem gen_%(f)s_%(n)s_%(m)s (t u : Int) (ht : %(rt)s) (hu : %(ru)s) :
    Gen.%(f)s_%(n)s_%(m)s_ub t u = true ∧ Gen.%(f)s_%(n)s_%(m)s t u = decide (t %(rel)s u) ∧
    Gen.%(f)s_%(n)s_%(m)s t u = Tetl.C14.%(model)s %(T)s %(U)s t u := by
  have hb := %(bn)s %(bargs)s
  have h2 : Gen.%(f)s_%(n)s_%(m)s t u = decide (t %(rel)s u) := by
    simp only [Gen.%(f)s_%(n)s_%(m)s, hb.2.1]; bool_fin
  refine ⟨by simp only [Gen.%(f)s_%(n)s_%(m)s_ub, hb.1], h2, ?_⟩
  rw [h2, Props.%(model)s_eq _ _ (by decide) (by decide) t u (inR_%(n)s t ht) (inR_%(m)s u hu)]
""" % dict(f=f, model=model, rel=rel, n=n, m=m, rt=rng("t", w, s), ru=rng("u", v, r), T=ity(w, s), U=ity(v, r),
           bn=bn, bargs=bargs))
    return "\n".join(out)


def in_range():
    out = []
    for n, w, s in TYPES:          # R
        for m, v, r in TYPES:      # T (the argument's type)
            L, H = lit(lo(w, s)), lit(hi(w, s))
            out.append("""theorem gen_in_range_%(n)s_%(m)s (t : Int) (ht : %(rt)s) :
    Gen.in_range_%(n)s_%(m)s_ub t = true ∧ Gen.in_range_%(n)s_%(m)s t = decide (%(L)s ≤ t ∧ t ≤ %(H)s) ∧
    Gen.in_range_%(n)s_%(m)s t = Tetl.C14.inRange %(R)s %(T)s t := by
  have ha := gen_cmp_greater_equal_%(m)s_%(n)s t %(L)s ht (by decide)
  have hb := gen_cmp_less_equal_%(m)s_%(n)s t %(H)s ht (by decide)
  have h2 : Gen.in_range_%(n)s_%(m)s t = decide (%(L)s ≤ t ∧ t ≤ %(H)s) := by
    simp only [Gen.in_range_%(n)s_%(m)s, ha.2.1, hb.2.1]; bool_fin
  refine ⟨by simp only [Gen.in_range_%(n)s_%(m)s_ub, ha.1, hb.1] <;> simp, h2, ?_⟩
  rw [h2, Props.inRange_eq _ _ (by decide) (by decide) t (inR_%(m)s t ht)]
  simp [ITy.inR, ITy.min, ITy.max]
""" % dict(n=n, m=m, rt=rng("t", v, r), L=L, H=H, R=ity(w, s), T=ity(v, r)))
    return "\n".join(out)


def saturate():
    out = []
    for n, w, s in TYPES:          # To
        for m, v, r in TYPES:      # From
            L, H = lit(lo(w, s)), lit(hi(w, s))
            out.append("""theorem gen_saturate_cast_%(n)s_%(m)s (x : Int) (hx : %(rx)s) :
    Gen.saturate_cast_%(n)s_%(m)s_ub x = true ∧ Gen.saturate_cast_%(n)s_%(m)s x = Spec.clampTo %(L)s %(H)s x ∧
    Tetl.C14.saturateCast %(To)s %(Fr)s x = .ok (Gen.saturate_cast_%(n)s_%(m)s x) := by
  have ha := gen_cmp_less_%(m)s_%(n)s x %(L)s hx (by decide)
  have hb := gen_cmp_greater_%(m)s_%(n)s x %(H)s hx (by decide)
  have h2 : Gen.saturate_cast_%(n)s_%(m)s x = Spec.clampTo %(L)s %(H)s x := by
    simp only [Gen.saturate_cast_%(n)s_%(m)s, ha.2.1, hb.2.1]; c_arith
  refine ⟨by simp only [Gen.saturate_cast_%(n)s_%(m)s_ub, ha.1, hb.1] <;> simp, h2, ?_⟩
  rw [h2, Props.saturateCast_eq _ _ (by decide) (by decide) x (inR_%(m)s x hx)]; rfl
""" % dict(n=n, m=m, rx=rng("x", v, r), L=L, H=H, To=ity(w, s), Fr=ity(v, r)))
    return "\n".join(out)


FILES = {
    "GenArith": ("add_sat (the __builtin_add_overflow path), div_sat and abs<T>, generated = arithmetic spec = hand model, no UB",
                 "TetlProofs.C14.GenArithLemmas", arith),
    "GenCmpEq": ("cmp_equal<T, U> for all 64 ordered pairs of the eight builtin types", "TetlProofs.C14.GenArithLemmas",
                 lambda: base_cmp("cmp_equal", "cmpEqual", "=")),
    "GenCmpLt": ("cmp_less<T, U> for all 64 ordered pairs", "TetlProofs.C14.GenArithLemmas",
                 lambda: base_cmp("cmp_less", "cmpLess", "<")),
    "GenCmpD1": ("cmp_not_equal (= not cmp_equal) and cmp_greater (= cmp_less with the arguments exchanged)",
                 "TetlProofs.C14.GenCmpEq\nimport TetlProofs.C14.GenCmpLt",
                 lambda: derived("cmp_not_equal", "cmpNotEqual", "≠", "cmp_equal", False, True) + "\n"
                 + derived("cmp_greater", "cmpGreater", ">", "cmp_less", True, False)),
    "GenCmpD2": ("cmp_less_equal (= not cmp_greater) and cmp_greater_equal (= not cmp_less)",
                 "TetlProofs.C14.GenCmpD1",
                 lambda: derived("cmp_less_equal", "cmpLessEqual", "≤", "cmp_greater", False, True) + "\n"
                 + derived("cmp_greater_equal", "cmpGreaterEqual", "≥", "cmp_less", False, True)),
    "GenRange": ("in_range<R>(T) for all 64 pairs", "TetlProofs.C14.GenCmpD2", in_range),
    "GenSat": ("saturate_cast<To>(From) for all 64 pairs", "TetlProofs.C14.GenCmpD2", saturate),
}


def dispatch():
    """Tetl/C14/GenDispatch.lean: the driver's access to the generated functions by (operation, type name) — the names
    are those of the job set BITS_JOBS of gen/translate.py; `none` = no generated counterpart for this line"""
    names = [n for n, _, _ in TYPES]
    uns = [n for n, _, s in TYPES if not s]
    L = ["""/-
C14, tie T — access to the GENERATED kernels (Tetl/C14/Gen.lean) by operation and type name, for the `!gen=` cross-check of
the driver.  WRITTEN by gen/c14_genprops.py from the fixed job names of gen/translate.py (BITS_JOBS).  A result is the text
the hand model prints for the same value; "ub" when the generated undefined-behaviour obligation is false.
-/
import Tetl.C14.Gen
namespace Tetl.C14.GenDispatch
open Tetl.C14

/-- the value is evaluated only when the obligation holds (a shift by an unchecked count would be astronomically large) -/
@[noinline] def g (ok : Bool) (v : Unit → String) : String := if ok then v () else "ub"
def sb (x : Bool) : String := if x then "1" else "0"
"""]

    def fn(name, params, arms):
        L.append("def %s (ty : String) %s : Option String :=\n  match ty with\n%s  | _ => none\n"
                 % (name, params, "".join("  | \"%s\" => some (%s)\n" % (k, v) for k, v in arms)))

    un_int = {"bit_width": uns, "bit_ceil": uns, "bit_floor": uns, "abs": names,
              "byteswap_fb": ["u16", "u32", "u64"]}
    gname = {"byteswap_fb": "byteswap_fallback"}
    for op, tys in un_int.items():
        f = gname.get(op, op)
        fn("u_" + op, "(a : Int)", [(t, "g (Gen.%s_%s_ub a) (fun _ => toString (Gen.%s_%s a))" % (f, t, f, t)) for t in tys])
    fn("u_has_single_bit", "(a : Int)", [(t, "g (Gen.has_single_bit_%s_ub a) (fun _ => sb (Gen.has_single_bit_%s a))" % (t, t)) for t in uns])
    bin_int = {"rotl": uns, "rotr": uns, "set_bit": uns, "reset_bit": uns, "flip_bit": uns, "add_sat": names,
               "div_sat": names, "midpoint": names}
    for op, tys in bin_int.items():
        fn("b_" + op, "(a y : Int)", [(t, "g (Gen.%s_%s_ub a y) (fun _ => toString (Gen.%s_%s a y))" % (op, t, op, t)) for t in tys])
    fn("b_test_bit", "(a y : Int)", [(t, "g (Gen.test_bit_%s_ub a y) (fun _ => sb (Gen.test_bit_%s a y))" % (t, t)) for t in uns])
    for v in ("true", "false"):
        fn("b_set_bit_" + ("1" if v == "true" else "0"), "(a y : Int)",
           [(t, "g (Gen.set_bit_to_%s_ub a y %s) (fun _ => toString (Gen.set_bit_to_%s a y %s))" % (t, v, t, v)) for t in uns])
    six = ["cmp_equal", "cmp_not_equal", "cmp_less", "cmp_greater", "cmp_less_equal", "cmp_greater_equal"]
    for t in names:
        fn("p_cmp_" + t, "(a y : Int)",
           [(u, "g (%s) (fun _ => String.join [%s])" % (" && ".join("Gen.%s_%s_%s_ub a y" % (f, t, u) for f in six),
                                             ", ".join("sb (Gen.%s_%s_%s a y)" % (f, t, u) for f in six))) for u in names])
        fn("p_saturate_cast_" + t, "(a : Int)",
           [(u, "g (Gen.saturate_cast_%s_%s_ub a) (fun _ => toString (Gen.saturate_cast_%s_%s a))" % (t, u, t, u)) for u in names])
        fn("p_in_range_" + t, "(a : Int)",
           [(u, "g (Gen.in_range_%s_%s_ub a) (fun _ => sb (Gen.in_range_%s_%s a))" % (t, u, t, u)) for u in names])
    L.append("def p_cmp (t u : String) (a y : Int) : Option String :=\n  match t with\n"
             + "".join("  | \"%s\" => p_cmp_%s u a y\n" % (t, t) for t in names) + "  | _ => none\n")
    for op in ("saturate_cast", "in_range"):
        L.append("def p_%s (t u : String) (a : Int) : Option String :=\n  match t with\n" % op
                 + "".join("  | \"%s\" => p_%s_%s u a\n" % (t, op, t) for t in names) + "  | _ => none\n")
    L.append("""/-- the generated counterpart of one evaluation of the driver (`t`, `u`: the type names of the case line) -/
def eval (op t : String) (u : Option String) (a : Int) (b : Option Int) : Option String :=
  match op, b, u with
""" + "".join("  | \"%s\", none, none => u_%s t a\n" % (op, op) for op in list(un_int) + ["has_single_bit"])
             + "".join("  | \"%s\", some y, none => b_%s t a y\n" % (op, op)
                       for op in list(bin_int) + ["test_bit", "set_bit_1", "set_bit_0"])
             + """  | "cmp", some y, some u => p_cmp t u a y
  | "saturate_cast", none, some u => p_saturate_cast t u a
  | "in_range", none, some u => p_in_range t u a
  | _, _, _ => none

end Tetl.C14.GenDispatch
""")
    return "\n".join(L)


def main():
    root = os.path.join(os.path.dirname(os.path.abspath(__file__)), "..", "lean", "TetlProofs", "C14")
    for name, (what, imp, fn) in FILES.items():
        text = HEAD % (what, imp) + fn() + FOOT
        path = os.path.join(root, name + ".lean")
        if "--write" in sys.argv:
            open(path, "w").write(text)
        else:
            old = open(path).read() if os.path.exists(path) else ""
            print("%s: %s" % (name, "up to date" if old == text else "DIFFERS"))


if __name__ == "__main__":
    main()
    dpath = os.path.join(os.path.dirname(os.path.abspath(__file__)), "..", "lean", "Tetl", "C14", "GenDispatch.lean")
    if "--write" in sys.argv:
        open(dpath, "w").write(dispatch())
    else:
        print("GenDispatch: %s" % ("up to date" if os.path.exists(dpath) and open(dpath).read() == dispatch() else "DIFFERS"))
