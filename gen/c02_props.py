#!/usr/bin/env python3
"""Generator of lean/TetlProofs/C02/Props.lean — the safety corollaries of property C02.

C02 has no model of its own: its theorems are the safety faces (`∃ r, model args = .ok r`) of the theorems
of the OTHER properties (lean/TetlProofs/Cxx/Props.lean).  Those are restated from time to time.  This
script reads their *current* signatures and writes, for every theorem whose conclusion contains an
equation `m = .ok v` (possibly under `∃` binders, followed by conjuncts, behind `∀ x, H → …`), the
corollary with the hypotheses repeated verbatim, cited through the tactic `ok_from`
(TetlProofs/C02/Lemmas.lean), grouped by the clause of C02.  The hand-written parts (history theorems under
their C02 names, kernels, default-initialisation, examples) are the MANUAL blocks below.

    python3 gen/c02_props.py --write     regenerate lean/TetlProofs/C02/Props.lean
    python3 gen/c02_props.py --check     exit 1 and list the differences when the committed file is stale
    python3 gen/c02_props.py --list      corollary <TAB> cited theorem   (one line per generated corollary)

A stale file is not silently tolerated by the build either: `ok_from` stops with "C02 corollary out of date"
at the corollary whose source changed (see Lemmas.lean).
"""
import os
import re
import sys

ROOT = os.path.dirname(os.path.dirname(os.path.abspath(__file__)))
LEAN = os.path.join(ROOT, "lean")
OUT = os.path.join(LEAN, "TetlProofs", "C02", "Props.lean")

OPEN = "([{⟨"
CLOSE = ")]}⟩"


def sigs(prop):
    """signatures `name binders : statement` of the theorems of TetlProofs/<prop>/Props.lean, whitespace-normalised"""
    src = open(os.path.join(LEAN, "TetlProofs", prop, "Props.lean")).read()
    src = re.sub(r"/-.*?-/", lambda m: "\n" * m.group(0).count("\n"), src, flags=re.S)     # comments may contain `theorem`
    out = []
    for m in re.finditer(r"^(?:@\[[^\]]*\]\s*)?(?:private |protected )?(theorem|lemma)\s+(.*?)(:=|\n\s*\|)", src, flags=re.S | re.M):
        out.append(re.sub(r"\s+", " ", m.group(2)).strip())
    return out


def split_top(s, sep, stop_at_quantifier=False):
    """split s at top-level occurrences of sep; with stop_at_quantifier nothing is split after a segment that
    starts with a binder notation (its body extends to the end)"""
    parts, depth, i, cur = [], 0, 0, ""
    while i < len(s):
        c = s[i]
        if c in OPEN:
            depth += 1
        elif c in CLOSE:
            depth -= 1
        if depth == 0 and s.startswith(sep, i):
            if stop_at_quantifier and re.match(r"\s*(∃|∀|fun |match )", cur):
                cur += c
                i += 1
                continue
            parts.append(cur)
            cur = ""
            i += len(sep)
            continue
        cur += c
        i += 1
    parts.append(cur)
    return parts


def binder_groups(s):
    """leading sequence of bracketed binder groups of s -> (groups, rest) or None"""
    i, groups = 0, []
    while i < len(s):
        if s[i] in "({[":
            d, j = 0, i
            while j < len(s):
                if s[j] in OPEN:
                    d += 1
                elif s[j] in CLOSE:
                    d -= 1
                    if d == 0:
                        break
                j += 1
            groups.append(s[i:j + 1])
            i = j + 1
        elif s[i] == " ":
            i += 1
        else:
            break
    return groups, s[i:]


def parse(sig):
    """-> (name, binder groups, hypotheses introduced by `→`, conclusion) with every leading `∀ binders,` and
    `H →` of the statement turned into binders"""
    name, rest = sig.split(" ", 1) if " " in sig else (sig, "")
    groups, rest = binder_groups(rest.strip())
    if not rest.startswith(":"):
        return None
    stmt = rest[1:].strip()
    hyps = []
    while True:
        if stmt.startswith("∀ "):
            g, r = binder_groups(stmt[2:])
            if not g or not r.startswith(","):
                return None                      # `∀ x y, …` without brackets: left alone
            groups += g
            stmt = r[1:].strip()
            continue
        parts = split_top(stmt, " → ", stop_at_quantifier=True)
        if len(parts) > 1:
            for h in parts[:-1]:
                hyps.append(h.strip())
            stmt = parts[-1].strip()
            continue
        break
    return name, groups, hyps, stmt


def explicit_args(groups):
    a = []
    for g in groups:
        if g[0] == "(":
            a += g[1:-1].split(":", 1)[0].split()
    return a


STRIP = r"(_eq'?|_refines|_rep|_paths|_exact|_active|_ok|_total|_eq_partial|_paths_partial|_partial)$"


def safety_face(stmt):
    """-> (m, extra hypotheses, cite through the first conjunct?) for the first equation `m = .ok v` of the conclusion
    (under `∃` binders, first conjunct; a first conjunct `(H → … → ∃ r, m = .ok r ∧ …)` contributes its `H`s), or None"""
    body = stmt
    extra, first_conj = [], False
    for _ in range(8):
        while body.startswith("∃ "):
            parts = split_top(body, ", ")
            if len(parts) < 2:
                return None
            body = body[len(parts[0]) + 2:].strip()
        conj = split_top(body, " ∧ ")
        first = conj[0].strip()
        while first.startswith("(") and first.endswith(")") and _balanced(first[1:-1]):
            first = first[1:-1].strip()
        arrows = split_top(first, " → ", stop_at_quantifier=True)
        if len(arrows) > 1 and not extra and len(conj) > 1 or (len(arrows) > 1 and not extra and first != conj[0].strip()):
            extra = [a.strip() for a in arrows[:-1]]
            first_conj = len(conj) > 1
            body = arrows[-1].strip()
            continue
        break
    parts = split_top(first, " = .ok ")
    if len(parts) < 2:
        parts = split_top(first, " = .ok")
        if len(parts) < 2:
            return None
    lhs = parts[0].strip()
    if "∀" in lhs or "∃" in lhs or " → " in lhs:
        return None
    return lhs, extra, first_conj


def _balanced(s):
    d = 0
    for c in s:
        if c in OPEN:
            d += 1
        elif c in CLOSE:
            d -= 1
            if d < 0:
                return False
    return d == 0


class Gen:
    def __init__(self):
        self.cites = []          # (corollary, cited theorem)
        self.skipped = {}        # prop -> names without a safety face

    def corollary(self, prop, dom, suffix, sig, rename, docs):
        p = parse(sig)
        if not p:
            return None
        name, groups, hyps, stmt = p
        face = safety_face(stmt)
        if face is None:
            return None
        lhs, extra, first_conj = face
        partial = name.endswith("_partial")
        base = re.sub(STRIP, "", name)
        nm = rename.get(name, "%s_%s_%s%s" % (dom, base, suffix, "_partial" if partial else ""))
        used = set(explicit_args(groups))

        def fresh(k, out):
            h = "h%d" % k
            while h in used:
                h += "'"
            used.add(h)
            out.append(h)
        hnames, xnames = [], []
        for i, _ in enumerate(hyps, 1):
            fresh(i, hnames)
        for i, _ in enumerate(extra, len(hyps) + 1):
            fresh(i, xnames)
        binders = " ".join(groups + ["(%s : %s)" % (h, t) for h, t in zip(hnames + xnames, hyps + extra)])
        args = " ".join(explicit_args(groups) + hnames)
        cite = "%s.Props.%s %s" % (prop, name, args)
        if extra:
            cite = "%s %s" % ("And.left (%s)" % cite if first_conj else "(%s)" % cite, " ".join(xnames))
        self.cites.append(("Tetl.C02.Props." + nm, "Tetl.%s.Props.%s" % (prop, name)))
        doc = docs.get(name, "")
        return "%stheorem %s %s :\n    ∃ res, %s = .ok res := by\n  ok_from (%s)\n" % (doc, nm, binders, lhs, cite.strip())

    def gen(self, prop, dom, suffix, skip=None, only=None, rename=None, docs=None):
        out = []
        for s in sigs(prop):
            n = s.split(" ", 1)[0]
            # negative statements (`theorem … : ¬ …`, e.g. "the code before the fix does not satisfy …") have no safety face
            if re.search(r"Loop|Outer|counterexample|_excludes_", n) or re.search(r":\s*¬", s.split(":=")[0][:len(n) + 8]) or (skip and re.search(skip, n)) or (only and not re.search(only, n)):
                continue
            c = self.corollary(prop, dom, suffix, s, rename or {}, docs or {})
            if c:
                out.append(c)
            else:
                self.skipped.setdefault(prop, []).append(n)
        return "\n".join(out)


HEADER = '''/-
C02 — "valid use never leaves the caller's memory, never allocates, never hits UB": property theorems.
GENERATED by gen/c02_props.py from the current statements of the other properties' theorems
(`python3 gen/c02_props.py --write`; the hand-written parts are the MANUAL blocks of that script).

C02 has no model of its own.  Every model of the owning properties reads and writes only through
checked accessors (`Tetl.rd`, `wr`, `set?` …: an index outside the range the caller passed is
`.error .oob`), reports a violated internal precondition as `.error (.pre _)`, bounds every loop by
fuel (`.error .fuel`), and the integer models report a shift count ≥ width, a signed overflow or a
division by zero of the C++ expression as `.error` too; the lifetime model of C03 reports a use of a
destroyed element, a construction over a live one and a second destruction as `.error`; the generated
calendar kernels carry `_ub` predicates instead.  The memory-safety / no-UB face of an operation is
therefore the statement

    ∃ r, <model of the operation> <valid arguments> = .ok r

for *every* valid argument tuple, state, history and capacity.  This file states it operation by
operation, as corollaries of the refinement theorems of the owning properties (the cited theorem
proves more: the value `r` is the specified one), grouped by the clause of C02 they serve.  The
hypotheses are verbatim the documented preconditions of the cited theorems (whose non-vacuity
examples stand next to them); examples for the history theorems and the boundary cases C02 names
(capacity 0, empty inputs, zero-length and exact-fit buffers) follow the groups here.

Every citation goes through `ok_from` (Lemmas.lean): it finds the equation wherever it stands in the
cited conclusion, and when the cited theorem is renamed or its hypotheses are restated the build stops
at the corollary with "C02 corollary out of date", the current statement of the source and the way to
regenerate.

Not carried by any model (DESIGN §6; observed by harness/c02.cpp, never counted as proved):
"never calls a dynamic allocator" and "reads no uninitialised value" beyond `default_init_defined`.
-/
import TetlProofs.C02.Lemmas
namespace Tetl.C02.Props
open Tetl
'''

# ---------------------------------------------------------------- hand-written blocks, by section
MANUAL = {}

MANUAL["vectors"] = '''
example : Spec.validHist .sv (Spec.SSys.init 0) [(0, .clear), (0, .resize 0), (1, .swap 0)] = true := by decide
example : Spec.validHist .sv (Spec.SSys.init 2) [(0, .push 0 7), (0, .insert1 0 0 8), (0, .eraseRange 0 2), (0, .pop)] = false := by decide
example : Spec.validHist .sv (Spec.SSys.init 2) [(0, .push 0 7), (0, .insert1 0 0 8), (0, .eraseRange 0 2)] = true := by decide
'''

MANUAL["wrappers"] = '''
/-- **every valid history** of pair / tuple / inplace_function / function_ref owners (any length, self-assignment and
    self-swap included): the model never fails — `C20.Props.run_refines` states it through the relation `RefinesRun`,
    which is `False` on `.error` -/
theorem fn_history_no_error (ops : List Op) (s : St) (hinv : Inv s) (hv : ops.all Spec.valid = true) :
    ∃ res, run s ops = .ok res := by
  have h := C20.Props.run_refines ops s hinv hv
  cases hr : run s ops with
  | ok r => exact ⟨r, rfl⟩
  | error e => rw [hr] at h; exact False.elim h
theorem fn_step_no_error {s : St} (hinv : Inv s) (op : Op) (hv : Spec.valid op = true) :
    ∃ res, step s op = .ok res := by
  have h := C20.Props.step_refines hinv op hv
  cases hr : step s op with
  | ok r => exact ⟨r, rfl⟩
  | error e => rw [hr] at h; exact False.elim h
'''

MANUAL["spans"] = '''
theorem span_first_no_oob {α : Type} (base : List α) (s : Span) (hw : SpanWF base s) (hs : s.size ≤ DYN) (c : Nat)
    (h : c ≤ s.size) : (∃ res, s.first c = .ok res) ∧ (∃ res, s.firstT c = .ok res) :=
  ⟨by ok_from (C19.Props.first_eq base s hw hs c h), by ok_from (C19.Props.first_eq base s hw hs c h)⟩
theorem span_last_no_oob {α : Type} (base : List α) (s : Span) (hw : SpanWF base s) (hs : s.size ≤ DYN) (c : Nat)
    (h : c ≤ s.size) : (∃ res, s.last c = .ok res) ∧ (∃ res, s.lastT c = .ok res) :=
  ⟨by ok_from (C19.Props.last_eq base s hw hs c h), by ok_from (C19.Props.last_eq base s hw hs c h)⟩
/-- the element an mdspan access reads lies inside the span the caller passed -/
theorem span_mdspan_offset_in_span (l : Lay) (t : IdxT) (hv : IdxT.Valid t) (e : Ext) (vals : List Nat)
    (he : ExtIs t e vals) (hf : Fits t vals) (idx : List Nat) (hr : InRange vals idx) :
    ∃ o n : Nat, mapIdx l t e (idx.map Int.ofNat) = .ok (o : Int) ∧ reqSpan l t e = .ok (n : Int) ∧ o < n :=
  C19.Props.mapIdx_in_span l t hv e vals he hf idx hr
'''

MANUAL["strings"] = '''
/-- **every valid history** from the empty string, at every capacity (clamped appends included): no access
    outside the `cap + 1` units of the inline buffer, and afterwards `size() ≤ cap` and the terminator
    `buf[size()] = 0` lies *inside* the buffer -/
theorem string_history_terminator_in_buffer (cap : Nat) (hc : cap < W64) (ops : List Op)
    (hv : ValidAll cap [] ops = true) :
    ∃ s' n, run (Str.mk0 cap) ops = .ok s' ∧ s'.size = .ok n ∧ n ≤ cap ∧ s'.buf[n]? = some 0 :=
  C04.Props.inv_history cap hc ops hv
'''

MANUAL["charconv"] = '''
/-- `from_chars` on **every** byte string (empty, unterminated, overflowing, invalid): no read outside `[first, last)` -/
theorem charconv_fromChars_no_oob (t : IntTy) (h8 : 8 ≤ t.bits) (s : List Nat) (hbytes : ∀ c ∈ s, c < 256) (b : Nat)
    (hb : 2 ≤ b ∧ b ≤ 36) : ∃ res, fromChars t s b = .ok res := by
  by_cases h : ∃ n, Spec.parse t false s b = .range n
  · obtain ⟨n, hn⟩ := h; ok_from (C10.Props.fromChars_range t h8 s hbytes b hb n hn)
  · ok_from (C10.Props.fromChars_eq_partial t h8 s hbytes b hb (fun n hn => h ⟨n, hn⟩))

-- boundary cases C02 names: zero-length and exact-fit output buffers, the most negative value in base 2
example : ∃ res, toChars ⟨8, true⟩ (-128) [] 2 = .ok res := charconv_toChars_no_oob _ _ _ _ (by decide) (by decide)
example : ∃ res, toChars ⟨8, true⟩ (-128) (List.replicate 9 0) 2 = .ok res :=
  charconv_toChars_no_oob _ _ _ _ (by decide) (by decide)
example : ∃ res, fromChars ⟨64, true⟩ [] 10 = .ok res := charconv_fromChars_no_oob _ (by decide) _ (by simp) _ (by decide)
'''

TAIL = '''/-! ### contract checks (model Tetl.C05): a call that respects the documented preconditions never reaches the assert handler -/
section contracts
open Tetl.C05 Tetl.C05.Spec Tetl.C05.Lemmas Tetl.C05.Props
theorem contract_valid_never_asserts (op : Op) (cfg : Cfg) (s : St) (hp : Proved op = true) (h : WF cfg s op)
    (hok : pre cfg s op = true) : ∃ r p, C05.run op cfg s = .ok r p := by
  ok_from (C05.Props.valid_never_asserts op cfg s hp h hok)
/-- … for every operation schema of the model (`C05.Props.Proved_all`: none is left without its equation) -/
theorem contract_valid_never_asserts_all (op : Op) (cfg : Cfg) (s : St) (h : WF cfg s op)
    (hok : pre cfg s op = true) : ∃ r p, C05.run op cfg s = .ok r p :=
  contract_valid_never_asserts op cfg s (C05.Props.Proved_all op) h hok
end contracts

/-! ### calendar kernels (generated model Tetl.C11.Gen): the `_ub` obligations emitted by the translator —
    every signed intermediate representable, no division by zero, table index inside the table -/
section kernels
open Tetl.C11
theorem kernel_civil_from_days_no_ub (z : Int) (hz : C11.LO ≤ z ∧ z ≤ C11.HI) : Gen.civil_from_days_ub z = true :=
  C11.Props.civil_no_ub z hz
theorem kernel_days_from_civil_no_ub (y m d : Int) (hy : -32768 ≤ y ∧ y ≤ 32767) (hm : 1 ≤ m ∧ m ≤ 12)
    (hd : 1 ≤ d ∧ d ≤ 255) : Gen.days_from_civil_ub y m d = true := Kernels.days_from_civil_no_ub y m d hy hm hd
theorem kernel_weekday_from_days_no_ub (tp : Int) (h : -2147483648 + 5 ≤ tp ∧ tp ≤ 2147483647 - 5) :
    Gen.weekday_from_days_ub tp = true := C11.Props.weekday_no_ub tp h
theorem kernel_month_plus_no_ub (m k : Int) (hm : 1 ≤ m ∧ m ≤ 12) (hk : -2147483647 ≤ k ∧ k ≤ 2147483647) :
    Gen.month_plus_ub m k = true := C11.Props.month_plus_no_ub m k hm hk
theorem kernel_year_month_plus_no_ub (y m k : Int) (hm : 1 ≤ m ∧ m ≤ 12) (hk : -2147483648 ≤ k ∧ k ≤ 2147483647)
    (hy : -32768 ≤ y ∧ y ≤ 32767) : Gen.year_month_plus_ub y m k = true := Kernels.year_month_plus_no_ub y m k hm hk hy
theorem kernel_weekday_plus_no_ub (w k : Int) (hw : 0 ≤ w ∧ w ≤ 6) (hk : -2147483648 ≤ k ∧ k ≤ 2147483647) :
    Gen.weekday_plus_ub w k = true ∧ Gen.weekday_add_assign_ub w k = true :=
  ⟨Kernels.weekday_plus_no_ub w k hw hk, Kernels.weekday_add_assign_no_ub w k hw hk⟩
theorem kernel_weekday_minus_no_ub (w k : Int) (hw : 0 ≤ w ∧ w ≤ 6) (hk : -2147483648 ≤ k ∧ k ≤ 2147483647) :
    Gen.weekday_minus_ub w k = true ∧ Gen.weekday_sub_assign_ub w k = true :=
  ⟨Kernels.weekday_minus_no_ub w k hw hk, Kernels.weekday_sub_assign_no_ub w k hw hk⟩
theorem kernel_weekday_diff_no_ub (a b : Int) : Gen.weekday_diff_ub a b = true := Kernels.weekday_diff_no_ub a b
theorem kernel_is_leap_no_ub (y : Int) : Gen.year_is_leap_ub y = true := Kernels.year_is_leap_no_ub y
/-- `last_day_of_month` indexes its 12-entry table with `m - 1`: inside the table for every `ok()` month
    (DESIGN §5 #29: `year_month_day_last::day()` must not be asked for an un-`ok()` month) -/
theorem kernel_last_day_no_ub (y m : Int) (hm : 1 ≤ m ∧ m ≤ 12) : Gen.last_day_of_month_ub y m = true :=
  Kernels.last_day_no_ub y m hm
/-- `year_month_day::ok()` guards the table access with `month.ok()` itself: no precondition on the month value -/
theorem kernel_ymd_ok_no_ub (y m d : Int) (hm : 0 ≤ m ∧ m ≤ 255) : Gen.ymd_ok_ub y m d = true :=
  Kernels.ymd_ok_no_ub y m d hm
example : C11.LO ≤ (0 : Int) ∧ (0 : Int) ≤ C11.HI := by decide
end kernels

/-! ## 7. Default-initialised objects ("reads no uninitialised value": the part a model can carry) -/
section defaultinit
/-- Every state member that member functions read has a default member initializer — for every class
    template and capacity except `inplace_vector<T, N>`, `N ≠ 0` (known finding F-C02-inplace-vector-default-init). -/
theorem default_init_defined_partial (ty : ObjTy) (cap : Nat) (h : ¬ (ty = .ipv ∧ cap ≠ 0)) :
    Spec.defaultInitDefined ty cap = true := by
  cases ty
  case ipv =>
    have hc : cap = 0 := by
      apply Classical.byContradiction; intro hne; exact h ⟨rfl, hne⟩
    simp [Spec.defaultInitDefined, initFields, hc]
  case str => by_cases h16 : cap < 16 <;> simp [Spec.defaultInitDefined, initFields, h16]
  all_goals simp [Spec.defaultInitDefined, initFields]

/-- … and `T v; v.size()` is 0 whatever the storage held before -/
theorem default_init_size_partial (ty : ObjTy) (cap garbage : Nat) (h : ¬ (ty = .ipv ∧ cap ≠ 0)) :
    initSize ty cap garbage = Spec.initSize ty cap := by
  cases ty
  case ipv =>
    have hc : cap = 0 := by
      apply Classical.byContradiction; intro hne; exact h ⟨rfl, hne⟩
    simp [initSize, initFields, Spec.initSize, hc]
  case str => by_cases h16 : cap < 16 <;> simp [initSize, initFields, Spec.initSize, h16]
  all_goals simp [initSize, initFields, Spec.initSize]

example : ¬ (ObjTy.str = .ipv ∧ 15 ≠ 0) := by decide
example : ¬ (ObjTy.ipv = .ipv ∧ 0 ≠ 0) := by decide

/-- the excluded class contains a failing input: `inplace_vector<T,4> v;` has an indeterminate size
    member, and `size()` returns whatever the storage held (0xAA → 170 > capacity) -/
theorem default_init_counterexample :
    Spec.defaultInitDefined .ipv 4 = false ∧ initSize .ipv 4 170 = 170 ∧ (170 : Nat) > 4 := by decide

/-- the same fact as C01's model of construction (`Tetl.C01.initSize`) -/
theorem default_init_agrees_with_C01 (cap g : Nat) :
    initSize .ipv cap (C01.wrap cap g) = C01.initSize .ipv cap (.dflt g) ∧
    initSize .sv cap (C01.wrap cap g) = C01.initSize .sv cap (.dflt g) := by
  constructor
  · by_cases h : cap = 0 <;> simp [initSize, initFields, C01.initSize, h]
  · simp [initSize, initFields, C01.initSize]
end defaultinit

end Tetl.C02.Props
'''

DOC_HIST_VEC = ("/-- **every valid history** of a static_vector / inplace_vector / stack system, at every capacity — validity\n"
                "    judged on the *specified* state (`Spec.validHist`): the model never reads or writes outside the `size()`\n"
                "    live elements, never exceeds the capacity, never runs out of fuel -/\n")
DOC_HIST_SET = ("/-- **every valid history** of a static_set / flat_set, at every capacity, for every strict weak order and every\n"
                "    consistent heterogeneous key comparison -/\n")
DOC_HIST_BITS = "/-- **every valid history** over the objects of a bitset store, for every size `N > 0` and word width `2^k` -/\n"
DOC_HIST_SUM = ("/-- **every valid history** of variant / optional / expected objects: no access through an index that is not\n"
                "    the active alternative, no `unreachable()` -/\n")
DOC_HIST_STR = "/-- **every fitting history** from any represented string state -/\n"
DOC_LIFE = ("/-- **every valid history** followed by the destruction of the owners: no element is used after its destruction,\n"
            "    constructed over a live one or destroyed twice (the model's `.error`s) -/\n")


def assemble():
    g = Gen()
    S = [HEADER]

    def section(title, name, opens, variables, body):
        S.append("/-! ### %s -/\nsection %s\nopen %s\n%s\n%s\n%s\nend %s\n" % (title, name, opens, variables, body, MANUAL.get(name, ""), name))

    S.append("/-! ## 1. Containers -/\n")
    section("static_vector / inplace_vector / stack (model Tetl.C01)", "vectors", "Tetl.C01", "",
            g.gen("C01", "vec", "no_oob", rename={"history_refines": "vec_history_no_error"}, docs={"history_refines": DOC_HIST_VEC}))
    section("static_set / flat_set (model Tetl.C09)", "sets", "Tetl.C09", "variable {α κ : Type} {lt : α → α → Bool}",
            g.gen("C09", "set", "no_oob", rename={"run_refines": "set_history_no_error"}, docs={"run_refines": DOC_HIST_SET}))
    section("bitset / basic_bitset (model Tetl.C17)", "bitsets", "Tetl.C17 Tetl.C17.Members", "",
            g.gen("C17", "bitset", "no_oob", rename={"run_refines": "bitset_history_no_error"}, docs={"run_refines": DOC_HIST_BITS}))
    section("optional / variant / expected (model Tetl.C07): the active index is always a valid alternative", "sumtypes", "Tetl.C07",
            "variable {α β : Type}",
            g.gen("C07", "sum", "no_bad_access", rename={"run_refines": "sum_history_no_bad_access"}, docs={"run_refines": DOC_HIST_SUM}))
    section("pair / tuple / inplace_function / function_ref (model Tetl.C20)", "wrappers", "Tetl.C20", "", g.gen("C20", "fn", "no_error"))
    section("element lifetimes inside the inline storage (model Tetl.C03): on every valid history no element is used after its "
            "destruction, constructed over a live one or destroyed twice", "lifetimes", "Tetl.C03", "",
            g.gen("C03", "life", "no_lifetime_error",
                  docs={n: DOC_LIFE for n in ("vec_history_safe", "set_history_safe", "alt_history_safe", "fn_history_safe")}))
    S.append("/-! ## 2. Strings and views -/\n")
    section("basic_inplace_string (model Tetl.C04)", "strings", "Tetl.C04 Tetl.C04.Props", "",
            g.gen("C04", "string", "no_oob", skip="^inv_history$", rename={"refines_history": "string_history_no_error"},
                  docs={"refines_history": DOC_HIST_STR}))
    section("basic_string_view (model Tetl.C08)", "views", "Tetl.C08", "",
            g.gen("C08", "sv", "no_oob", skip="traitsCompare_prefix").replace("∃ res, compare a b", "∃ res, C08.compare a b"))
    section("span / mdspan (model Tetl.C19)", "spans", "Tetl.C19 Tetl.C19.Spec Tetl.C19.Lemmas", "",
            g.gen("C19", "span", "no_oob", skip="^(first_eq|last_eq|mapIdx_in_span)$"))
    S.append("/-! ## 3. Algorithms -/\n")
    section("algorithms over iterator ranges (model Tetl.C06): every read and write stays inside `[first, last)` / the output range",
            "algorithms", "Tetl.C06", "variable {α : Type}", g.gen("C06", "alg", "no_oob"))
    S.append("/-! ## 4. Character conversion -/\n")
    section("to_chars / from_chars / from_integer / to_integer (model Tetl.C10)", "charconv", "Tetl.C10", "",
            g.gen("C10", "charconv", "no_oob", skip="^(fromChars_range|fromChars_eq_partial|toInteger_unchecked_outside)$"))
    S.append("/-! ## 5. C-string functions -/\n")
    section("cstring / cwchar reimplementations (model Tetl.C18)", "cstrings", "Tetl.C18", "", g.gen("C18", "cstr", "no_oob"))
    S.append("/-! ## 6. Bit and numeric helpers -/\n")
    section("bit / integer utilities (model Tetl.C14): no invalid shift, no signed overflow, no division by zero", "bitsnum", "Tetl.C14", "",
            g.gen("C14", "num", "no_ub"))
    section("duration arithmetic (model Tetl.C12): no signed overflow in the representation type", "durations",
            "Tetl.C12 Tetl.C12.Props Tetl.C14", "", g.gen("C12", "duration", "no_ub"))
    section("constant-evaluated rounding (model Tetl.C13)", "gcem", "Tetl.C13 Tetl.C13.Spec Tetl.C13.Fmt Tetl.C13.Lemmas Tetl.C13.FmaSqrt", "",
            g.gen("C13", "cmath", "no_ub"))
    section("floating-point classification and rounding (model Tetl.C16)", "floats", "Tetl.C16", "", g.gen("C16", "fp", "no_ub"))
    section("ratio arithmetic and comparison, numeric_limits (model Tetl.C15)", "ratios", "Tetl.C15", "",
            g.gen("C15", "ratio", "no_ub").replace(" : Rat)", " : C15.Rat)"))
    S.append(TAIL)
    return "\n".join(S), g


def theorem_names(text):
    return re.findall(r"^theorem (\S+)", text, flags=re.M)


def main():
    mode = sys.argv[1] if len(sys.argv) > 1 else "--check"
    text, g = assemble()
    if mode == "--write":
        open(OUT, "w").write(text)
        print("wrote %s: %d theorems (%d generated corollaries)" % (os.path.relpath(OUT, ROOT), len(theorem_names(text)), len(g.cites)))
        return 0
    if mode == "--list":
        for c, s in g.cites:
            print("%s\t%s" % (c, s))
        return 0
    if mode == "--skipped":
        for p, ns in sorted(g.skipped.items()):
            print(p, " ".join(ns))
        return 0
    old = open(OUT).read() if os.path.exists(OUT) else ""
    if old == text:
        print("C02 corollaries are up to date with the other properties' theorems (%d theorems)" % len(theorem_names(text)))
        return 0
    a, b = set(theorem_names(old)), set(theorem_names(text))
    print("lean/TetlProofs/C02/Props.lean is STALE relative to lean/TetlProofs/C*/Props.lean; run `python3 gen/c02_props.py --write`")
    for n in sorted(a - b):
        print("  source gone or renamed: %s" % n)
    for n in sorted(b - a):
        print("  new source theorem:     %s" % n)
    blocks_old = dict(re.findall(r"^theorem (\S+)(.*?)(?=^theorem |\Z)", old, flags=re.M | re.S))
    blocks_new = dict(re.findall(r"^theorem (\S+)(.*?)(?=^theorem |\Z)", text, flags=re.M | re.S))
    for n in sorted(a & b):
        if blocks_old[n].strip() != blocks_new[n].strip():
            print("  source restated:        %s" % n)
    return 1


if __name__ == "__main__":
    sys.exit(main())
