#!/usr/bin/env python3
"""How numeric_limits<integer type> of tetl SPELLS its members (tie of property C15, part (b)).

include/etl/_limits/numeric_limits.hpp writes min()/max()/lowest()/digits/digits10/is_signed/is_modulo/traps of the
sixteen integer types in several ways: <climits> macros (`SHRT_MIN`), literals (`digits = 8`), casts
(`static_cast<unsigned long long>(-1)`), formulas over other members (`digits * 3 / 10`, `not is_signed`), and for
wchar_t/char16_t/char32_t the template `detail::integer_numeric_limits<T, Signed>` with shifts.  This extractor runs
the preprocessor of the compiler under test over <etl/limits.hpp> (so the macros are the numbers this platform gives
them: `(-0x7fff - 1)`), finds

    template <> struct numeric_limits<TYPE> { ... };
    template <> struct numeric_limits<TYPE> : detail::integer_numeric_limits<TYPE, SIGNEXPR> { };
    template <typename T, bool Signed> struct integer_numeric_limits { ... };

takes from each the initialiser of the static data members and the single `return EXPR;` of the member functions,
parses the expressions into the small C expression tree `Tetl.C15.LimExpr.CE` and writes the table as Lean
(lean/Tetl/C15/GenLimits.lean).  The evaluator of lean/Tetl/C15/LimExpr.lean gives the trees their C++ meaning and
TetlProofs/C15/Limits.lean proves, over the generated table, that every spelled member evaluates without undefined
behaviour to the value [numeric.limits.members] prescribes.

What the parser does not understand (another operator, a floating literal, a body that is not one `return`, a
declared type that is not the one the Lean evaluator assumes) becomes `.opaque "<text>"`: never silently dropped; the
theorem `table_complete` states that the generated table has no such node.

The type of an integer literal is decided here by [lex.icon] (LP64: int 32, long and long long 64 bits): decimal
without suffix -> first of int, long, long long that fits; hex/octal/binary without suffix -> first of int, unsigned
int, long, unsigned long, long long, unsigned long long; the suffixes u, l, ll restrict the list.
"""
import hashlib
import os
import re
import sys

sys.path.insert(0, os.path.dirname(os.path.abspath(__file__)))
from c15_defs import ParseError, lean_str, match_angle, match_close, preprocess, template_params  # noqa: E402

VERSION = "c15-limits-1"
HEADERS = ["etl/limits.hpp"]

# `<<` is one token here (c15_defs.tokenize splits it); `>>` stays two `>` (it may close two template brackets)
TOK_RE = re.compile(r"\s*(::|\.\.\.|&&|\|\||->|<<=|<=>|<<|<=|>=|==|!=|\+\+|--|[A-Za-z_]\w*|\.?\d(?:[eEpP][+-]|[\w'.])*|.)", re.S)

TYPES = ["bool", "char", "signed char", "unsigned char", "wchar_t", "char8_t", "char16_t", "char32_t", "short",
         "unsigned short", "int", "unsigned int", "long", "unsigned long", "long long", "unsigned long long"]
TYPE_WORDS = {"bool", "char", "wchar_t", "char8_t", "char16_t", "char32_t", "short", "int", "long", "signed", "unsigned"}
MEMBERS = ["is_signed", "digits", "digits10", "min", "max", "lowest", "is_modulo", "traps"]
FIELDS = {"is_signed": "isSigned", "digits": "digits", "digits10": "digits10", "min": "min", "max": "max",
          "lowest": "lowest", "is_modulo": "isModulo", "traps": "traps"}
FUNCTIONS = {"min", "max", "lowest"}
DECLARED = {"is_signed": "bool", "is_modulo": "bool", "traps": "bool", "digits": "int", "digits10": "int"}

# [lex.icon] candidates on LP64: (bits, signed)
INT, UINT, LONG, ULONG, LLONG, ULLONG = (32, True), (32, False), (64, True), (64, False), (64, True), (64, False)


def tokenize(text):
    return [m.group(1) for m in TOK_RE.finditer(text) if m.group(1).strip()]


def canon_type(words):
    """canonical spelling of a (possibly multi-word) builtin integer type, or None"""
    ws = list(words)
    if not ws or any(w not in TYPE_WORDS for w in ws):
        return None
    if len(ws) == 1 and ws[0] in ("bool", "wchar_t", "char8_t", "char16_t", "char32_t", "char", "short", "int", "long"):
        return ws[0]
    uns, sig = ws.count("unsigned"), ws.count("signed")
    rest = sorted(w for w in ws if w not in ("unsigned", "signed"))
    if uns + sig > 1 or (uns and sig):
        return None
    if rest == ["char"]:
        return ("unsigned char" if uns else "signed char" if sig else "char")
    if "int" in rest and len(rest) > 1:
        rest.remove("int")
    core = {(): "int", ("int",): "int", ("short",): "short", ("long",): "long", ("long", "long"): "long long"}.get(tuple(rest))
    if core is None:
        return None
    return ("unsigned " + core) if uns else core


def literal(tok):
    """(value, (bits, signed)) of an integer literal by [lex.icon]; ParseError for anything else"""
    t = tok.replace("'", "")
    m = re.match(r"(0[xX][0-9a-fA-F]+|0[bB][01]+|0[0-7]*|[1-9][0-9]*)([uUlLzZ]*)$", t)
    if not m:
        raise ParseError("not an integer literal: " + tok)
    digits, suf = m.group(1), m.group(2)
    low = digits.lower()
    if low.startswith("0x"):
        val, dec = int(low[2:], 16), False
    elif low.startswith("0b"):
        val, dec = int(low[2:], 2), False
    elif len(low) > 1 and low[0] == "0":
        val, dec = int(low, 8), False
    else:
        val, dec = int(low, 10), low != "0"        # `0` is an octal literal; both lists start with int
    if suf in ("lL", "Ll"):
        raise ParseError("ill-formed suffix: " + tok)
    s = suf.lower()
    has_u = "u" in s
    rest = s.replace("u", "", 1)
    if rest not in ("", "l", "ll", "z") or s.count("u") > 1:
        raise ParseError("suffix not understood: " + tok)
    if rest == "":
        cands = [UINT, ULONG, ULLONG] if has_u else ([INT, LONG, LLONG] if dec else [INT, UINT, LONG, ULONG, LLONG, ULLONG])
    elif rest == "l":
        cands = [ULONG, ULLONG] if has_u else ([LONG, LLONG] if dec else [LONG, ULONG, LLONG, ULLONG])
    elif rest == "ll":
        cands = [ULLONG] if has_u else ([LLONG] if dec else [LLONG, ULLONG])
    else:                                            # C++23 `z`: the signed type of size_t / size_t
        cands = [ULONG] if has_u else ([LONG] if dec else [LONG, ULONG])
    for (w, sg) in cands:
        if val <= ((1 << (w - 1)) - 1 if sg else (1 << w) - 1):
            return val, (w, sg)
    raise ParseError("literal fits no type: " + tok)


class EP:
    """C expression parser producing Lean terms of type CE.
    tparam: name of the template's type parameter (`T`) or None; vparam: {C++ name: Lean variable} of the non-type
    template parameters (`Signed`)."""

    def __init__(self, toks, tparam=None, vparams=None):
        self.t, self.i, self.tparam, self.vparams = toks, 0, tparam, vparams or {}

    def peek(self, k=0):
        return self.t[self.i + k] if self.i + k < len(self.t) else None

    def eat(self, tok=None):
        c = self.peek()
        if c is None or (tok is not None and c != tok):
            raise ParseError("expected %r, got %r" % (tok, c))
        self.i += 1
        return c

    def done(self):
        return self.i >= len(self.t)

    def type_name(self, single=False):
        """a builtin integer type (canonical name) or the template type parameter ('T', None)"""
        if self.peek() == self.tparam and self.tparam is not None:
            self.eat()
            return "T"
        words = []
        while self.peek() in TYPE_WORDS and not (single and words):
            words.append(self.eat())
        name = canon_type(words)
        if name is None:
            raise ParseError("type not understood: %s" % " ".join(words or [str(self.peek())]))
        return name

    def cast_to(self, ty, e):
        if ty == "T":
            return ".castT (%s)" % e
        if ty == "bool":
            return ".castBool (%s)" % e
        return ".cast %s (%s)" % (lean_str(ty), e)

    # conditional-expression
    def expr(self):
        c = self.rel()
        if self.peek() == "?":
            self.eat()
            a = self.expr()
            self.eat(":")
            b = self.expr()
            return ".cond (%s) (%s) (%s)" % (c, a, b)
        return c

    def rel(self):
        a = self.shift()
        while self.peek() == "<":
            self.eat()
            a = ".lt (%s) (%s)" % (a, self.shift())
        return a

    def shift(self):
        a = self.additive()
        while self.peek() == "<<":
            self.eat()
            a = ".shl (%s) (%s)" % (a, self.additive())
        return a

    def additive(self):
        a = self.mult()
        while self.peek() in ("+", "-"):
            op = self.eat()
            a = ".%s (%s) (%s)" % ("add" if op == "+" else "sub", a, self.mult())
        return a

    def mult(self):
        a = self.unary()
        while self.peek() in ("*", "/"):
            op = self.eat()
            a = ".%s (%s) (%s)" % ("mul" if op == "*" else "div", a, self.unary())
        return a

    def unary(self):
        c = self.peek()
        if c == "-":
            self.eat()
            return ".neg (%s)" % self.unary()
        if c in ("!", "not"):
            self.eat()
            return ".lnot (%s)" % self.unary()
        return self.primary()

    def primary(self):
        c = self.peek()
        if c is None:
            raise ParseError("unexpected end")
        if c == "(":
            self.eat()
            a = self.expr()
            self.eat(")")
            return a
        if c in ("true", "false"):
            self.eat()
            return ".blit %s" % c
        if re.match(r"\.?\d", c):
            v, (w, sg) = literal(self.eat())
            return ".lit %d ⟨%d, %s⟩" % (v, w, "true" if sg else "false")
        if c == "static_cast":
            self.eat()
            self.eat("<")
            ty = self.type_name()
            self.eat(">")
            self.eat("(")
            e = self.expr()
            self.eat(")")
            return self.cast_to(ty, e)
        if c == "sizeof":
            self.eat()
            self.eat("(")
            ty = self.type_name()
            self.eat(")")
            return ".sizeofT" if ty == "T" else ".sizeofTy %s" % lean_str(ty)
        if c in TYPE_WORDS or (self.tparam is not None and c == self.tparam):
            ty = self.type_name(single=True)          # functional cast: a simple-type-specifier is one word
            self.eat("(")
            e = self.expr()
            self.eat(")")
            return self.cast_to(ty, e)
        if c in self.vparams:
            self.eat()
            return self.vparams[c]
        if c in MEMBERS:
            self.eat()
            if c in FUNCTIONS:
                self.eat("(")
                self.eat(")")
            return ".member %s" % lean_str(c)
        raise ParseError("token not understood: %r" % c)


def opaque(toks):
    return ".opaque " + lean_str(" ".join(toks)[:200])


def parse_expr(toks, tparam=None, vparams=None):
    p = EP(toks, tparam, vparams)
    try:
        r = p.expr()
        if not p.done():
            raise ParseError("trailing tokens: %s" % " ".join(p.t[p.i:p.i + 6]))
        return r
    except ParseError:
        return opaque(toks)


def split_members(inner):
    """the member declarations of a class body: token lists, cut at `;` and after a function body, depth 0"""
    out, cur, depth = [], [], 0
    for k, t in enumerate(inner):
        cur.append(t)
        if t in "({[":
            depth += 1
        elif t in ")}]":
            depth -= 1
            if t == "}" and depth == 0 and "(" in cur:       # end of a member function body (not of `= T{}`)
                nxt = inner[k + 1] if k + 1 < len(inner) else None
                if nxt != ";" and "=" not in depth0(cur):
                    out.append(cur)
                    cur = []
        elif t == ";" and depth == 0:
            out.append(cur[:-1])
            cur = []
    if cur:
        out.append(cur)
    return [m for m in out if m]


def depth0(toks):
    """the tokens at bracket depth 0"""
    out, depth = [], 0
    for t in toks:
        if t in "({[":
            depth += 1
        elif t in ")}]":
            depth -= 1
        elif depth == 0:
            out.append(t)
    return out


def member_exprs(inner, self_type, tparam=None, vparams=None):
    """{member: (Lean term, C++ text)} for the members of MEMBERS found in a class body.
    self_type: canonical name of the specialised type, or 'T' in the template."""
    found = {}

    def type_of(words):
        if tparam is not None and words == [tparam]:
            return "T"
        return canon_type(words)

    for decl in split_members(inner):
        quals = {"static", "constexpr", "inline", "const", "consteval", "[", "]", "nodiscard"}
        # ---- member function:  static constexpr auto NAME ( ) noexcept -> TYPE { return EXPR ; }
        fn = next((k for k in range(len(decl) - 2) if decl[k] in FUNCTIONS and decl[k + 1] == "(" and decl[k + 2] == ")"
                   and all(t in quals or t == "auto" or t in TYPE_WORDS or t == tparam for t in decl[:k])), None)
        if fn is not None and "{" in decl:
            name = decl[fn]
            b = decl.index("{")
            head = [t for t in decl[fn + 3:b] if t != "noexcept"]
            ret = head[1:] if head[:1] == ["->"] else [t for t in decl[:fn] if t not in quals]
            body = decl[b + 1:match_close(decl, b, "{", "}")]
            text = " ".join(body)
            if name in found:
                found[name] = (opaque(["declared twice:", name]), text)
            elif type_of(ret) != self_type:
                found[name] = (opaque(["return type"] + ret + ["of", name, "is not the specialised type:"] + body), text)
            elif len(body) >= 3 and body[0] == "return" and body[-1] == ";" and ";" not in body[1:-1]:
                found[name] = (parse_expr(body[1:-1], tparam, vparams), " ".join(body[1:-1]))
            else:
                found[name] = (opaque(body), text)
            continue
        # ---- static data member:  static constexpr TYPE NAME = EXPR
        if "=" in decl:
            e = decl.index("=")
            name = decl[e - 1] if e >= 1 else None
            if name in DECLARED and all(t in quals or t in TYPE_WORDS for t in decl[:e - 1]):
                ty = [t for t in decl[:e - 1] if t not in quals]
                init = decl[e + 1:]
                text = " ".join(init)
                if name in found:
                    found[name] = (opaque(["declared twice:", name]), text)
                elif canon_type(ty) != DECLARED[name]:
                    found[name] = (opaque(["declared type"] + ty + ["of", name, "is not", DECLARED[name] + ":"] + init), text)
                else:
                    found[name] = (parse_expr(init, tparam, vparams), text)
    for m in MEMBERS:
        if m not in found:
            found[m] = (opaque(["member", m, "not found"]), "")
    return found


def scan(text):
    """(template, specialisations): template = dict(tparam, vparam, members) of detail::integer_numeric_limits or None;
    specialisations = [(type name, kind, payload)] in source order, kind 'body' (payload = members) or
    'template' (payload = (Lean term of the Signed argument, its C++ text))"""
    toks = tokenize(text)
    n = len(toks)
    template, specs, errors = None, [], []
    i = 0
    while i < n:
        if toks[i] == "template" and i + 1 < n and toks[i + 1] == "<":
            try:
                j = match_angle(toks, i + 1)
            except ParseError:
                i += 1
                continue
            params = template_params(toks[i + 2:j])
            k = j + 1
            if k + 1 < n and toks[k] == "struct" and toks[k + 1] == "integer_numeric_limits" and toks[k + 2] == "{":
                e = match_close(toks, k + 2, "{", "}")
                inner = toks[k + 3:e]
                if template is not None:
                    errors.append("integer_numeric_limits defined twice")
                elif len(params) == 2 and params[0][1] == "type" and params[1][1] == "value":
                    tparam, vparam = params[0][0], params[1][0]
                    template = {"tparam": tparam, "vparam": vparam,
                                "members": member_exprs(inner, "T", tparam, {vparam: "signedArg"})}
                else:
                    errors.append("integer_numeric_limits: template parameters not understood: %r" % (params,))
                i = e + 1
                continue
            if not params and k + 2 < n and toks[k] == "struct" and toks[k + 1] == "numeric_limits" and toks[k + 2] == "<":
                a = match_angle(toks, k + 2)
                ty = canon_type(toks[k + 3:a])
                m = a + 1
                if ty is None:                       # float, double, long double
                    i = m
                    continue
                if toks[m] == "{":
                    e = match_close(toks, m, "{", "}")
                    specs.append((ty, "body", member_exprs(toks[m + 1:e], ty)))
                    i = e + 1
                    continue
                if toks[m] == ":":
                    b = m + 1
                    depth = 0
                    while b < n and not (toks[b] == "{" and depth == 0):
                        depth += toks[b] == "("
                        depth -= toks[b] == ")"
                        b += 1
                    base = [t for t in toks[m + 1:b] if t != "public"]
                    e = match_close(toks, b, "{", "}")
                    body = toks[b + 1:e]
                    head = base[:4] == ["detail", "::", "integer_numeric_limits", "<"] and base[-1] == ">"
                    args = base[4:-1] if head else []
                    # the arguments: TYPE , SIGNEXPR  (the comma at depth 0)
                    d0 = [x for x in range(len(args)) if args[x] == "," and args[:x].count("(") == args[:x].count(")")]
                    if head and not body and len(d0) == 1 and canon_type(args[:d0[0]]) == ty:
                        sign = args[d0[0] + 1:]
                        specs.append((ty, "template", (parse_expr(sign), " ".join(sign))))
                    else:
                        specs.append((ty, "opaque", " ".join(toks[m + 1:e + 1])))
                    i = e + 1
                    continue
            i = j + 1
            continue
        i += 1
    return template, specs, errors


def ident(ty):
    return "nl_" + ty.replace(" ", "_")


def spec_lines(name_sig, ty_term, members, comment):
    lines = [comment]
    for m in MEMBERS:
        if members[m][1]:
            lines.append("--   %-9s = %s" % (m, members[m][1]))
    lines.append("def %s :=" % name_sig)
    lines.append("  { ty := %s" % ty_term)
    for m in MEMBERS:
        lines.append("    %s := %s" % (FIELDS[m], members[m][0]))
    lines[-1] += " }"
    return lines


def generate(repo, out_path, cxx="g++"):
    errors = []
    template, specs, scan_errors = scan(preprocess(cxx, repo, HEADERS))
    errors += scan_errors
    opaque_list = []
    lines = ["/- GENERATED by gen/c15_limits.py (%s) from the preprocessed <etl/limits.hpp> — do not edit." % VERSION,
             "   How the header spells is_signed, digits, digits10, min(), max(), lowest(), is_modulo, traps of",
             "   numeric_limits<integer type>: the initialiser of the static data member / the returned expression, with the",
             "   <climits> macros already replaced by the preprocessor of the compiler under test.  Integer literals carry the",
             "   type [lex.icon] gives them on LP64.  `integer_numeric_limits ty signedArg` is the class template",
             "   detail::integer_numeric_limits<T, Signed> (`castT`/`sizeofT` refer to its type parameter). -/",
             "import Tetl.C15.LimExpr", "namespace Tetl.C15.Gen.Limits", "open Tetl.C15.LimExpr", ""]
    if template is not None:
        lines += spec_lines("integer_numeric_limits (ty : String) (signedArg : CE) : LimSpec", "ty", template["members"],
                            "/-- template <typename %s, bool %s> struct detail::integer_numeric_limits -/"
                            % (template["tparam"], template["vparam"]))
        lines.append("")
        opaque_list += ["integer_numeric_limits/" + m for m in MEMBERS if ".opaque " in template["members"][m][0]]
    else:
        errors.append("detail::integer_numeric_limits not found")
    idents, seen = [], set()
    for (ty, kind, payload) in specs:
        if ty in seen:
            errors.append("numeric_limits<%s> specialised twice" % ty)
            continue
        seen.add(ty)
        idents.append(ident(ty))
        if kind == "body":
            lines += spec_lines("%s : LimSpec" % ident(ty), lean_str(ty), payload,
                                "/-- template <> struct numeric_limits<%s> -/" % ty)
            opaque_list += [ty + "/" + m for m in MEMBERS if ".opaque " in payload[m][0]]
        elif kind == "template" and template is not None:
            term, text = payload
            lines.append("/-- template <> struct numeric_limits<%s> : detail::integer_numeric_limits<%s, %s> { } -/" % (ty, ty, text))
            lines.append("def %s : LimSpec := integer_numeric_limits %s (%s)" % (ident(ty), lean_str(ty), term))
            if ".opaque " in term:
                opaque_list.append(ty + "/Signed")
        else:
            text = payload if kind == "opaque" else "integer_numeric_limits not available"
            o = ".opaque " + lean_str(("base: " + text)[:200])
            lines.append("/-- template <> struct numeric_limits<%s>: not understood -/" % ty)
            lines.append("def %s : LimSpec := ⟨%s, %s⟩" % (ident(ty), lean_str(ty), ", ".join([o] * 8)))
            opaque_list.append(ty + "/*")
        lines.append("")
    for ty in TYPES:
        if ty not in seen:
            errors.append("numeric_limits<%s> not found" % ty)
    lines.append("/-- the specialisations for the integer types, in source order -/")
    lines.append("def table : List LimSpec := [")
    for k in range(0, len(idents), 5):
        lines.append("  " + ", ".join(idents[k:k + 5]) + ("," if k + 5 < len(idents) else ""))
    lines.append("]")
    lines.append("")
    lines.append("end Tetl.C15.Gen.Limits")
    text = "\n".join(lines) + "\n"
    h = hashlib.sha256(text.encode()).hexdigest()[:16]
    old = open(out_path, encoding="utf-8").read() if os.path.exists(out_path) and os.path.isfile(out_path) else None
    changed = old != text
    if changed:
        with open(out_path, "w", encoding="utf-8") as f:
            f.write(text)
    return {"hash": h, "changed": changed, "entries": len(idents), "opaque": opaque_list, "errors": errors,
            "translator": VERSION}


if __name__ == "__main__":
    repo = os.environ.get("VERIF_REPO", "/repo")
    here = os.path.dirname(os.path.dirname(os.path.abspath(__file__)))
    out = os.path.join(here, "lean", "Tetl", "C15", "GenLimits.lean")
    if len(sys.argv) > 1 and sys.argv[1] == "--stdout":
        out = "/dev/stdout"
    info = generate(repo, out, os.environ.get("VERIF_CXX", "g++"))
    print(info, file=sys.stderr)
