#!/usr/bin/env python3
"""Tie T for C05: inventory of every contract-check site of the CURRENT headers.

    sites.py <repo> <out.lean>      (also importable: extract(repo), emit(sites, path))

Every `TETL_PRECONDITION(...)`, `TETL_PRECONDITION_SAFE(...)` and `TETL_ASSERT(...)` invocation under
<repo>/include/etl is extracted from the comment-stripped text (the macro definitions themselves are
skipped).  For each site: file (relative to include/etl), line, enclosing function, the condition text
with blanks normalised, the occurrence number `k` among the sites with the same (file, function,
condition) in line order (const / ref-qualified overloads repeat the same text), the index of the
site among the statements of the function body, and `late` = some statement with a side effect (an
assignment, a call, a member initialiser) precedes the site in the function.

`late` is decided by statement POSITION (text order), with one refinement for a check inside a loop: the header
of a counting loop `for (T i = a; cond; ++i)` / a range-for only declares and advances a local variable and is
not a side effect on the object, but the statements of the loop body that FOLLOW the check are executed before the
check from the second iteration on, so they are scanned as if they preceded it.  `late = false` for a site inside
a loop therefore means: no statement with a side effect precedes the check in the function text, and none is in
the body of an enclosing loop (on any iteration the handler sees the object as the caller passed it).

The output is a Lean list literal `Tetl.C05.Sites.sites`; `Tetl.C05.Props.sites_accounted` compares
its (key, late) projection with the guards the models carry, by `decide`.
"""
import os
import re
import sys

MACROS = ("TETL_PRECONDITION_SAFE", "TETL_PRECONDITION", "TETL_ASSERT")
SKIP_FILES = ("_contracts/check.hpp", "_cassert/assert.hpp")
NOT_FUNCS = {"requires", "noexcept", "decltype", "static_assert", "alignas", "sizeof", "alignof", "if", "for", "while",
             "switch", "return", "constexpr", "explicit", "declval", "typename", "template", "operator", "and", "or",
             "not", "catch", "defined", "__attribute__", "TETL_NO_UNIQUE_ADDRESS", "conditional_t"}
CTRL_RE = re.compile(r"^\s*(else\s+)?(if|for|while|switch|do|else|try|catch)\b")
SCOPE_RE = re.compile(r"\b(struct|class|namespace|union|enum)\b(?!.*\)\s*(const)?\s*(noexcept)?\s*$)", re.S)


def strip_comments(src):
    """Replace comments and string/char literals' contents by blanks, keeping every newline and column."""
    out = []
    i, n = 0, len(src)
    while i < n:
        c = src[i]
        if src.startswith("//", i):
            j = src.find("\n", i)
            j = n if j < 0 else j
            out.append(" " * (j - i))
            i = j
        elif src.startswith("/*", i):
            j = src.find("*/", i + 2)
            j = n if j < 0 else j + 2
            out.append(re.sub(r"[^\n]", " ", src[i:j]))
            i = j
        elif c == '"':
            j = i + 1
            while j < n and src[j] != '"':
                j += 2 if src[j] == "\\" else 1
            out.append('"' + " " * (j - i - 1) + '"')
            i = j + 1
        elif c == "'" and (i == 0 or not (src[i - 1].isalnum() or src[i - 1] == "_")):
            j = i + 1
            while j < n and src[j] != "'":
                j += 2 if src[j] == "\\" else 1
            out.append("'" + " " * (j - i - 1) + "'")
            i = j + 1
        else:
            out.append(c)
            i += 1
    return "".join(out)


def balanced(text, i):
    """text[i] == '(' -> index one past the matching ')'."""
    d = 0
    for j in range(i, len(text)):
        if text[j] == "(":
            d += 1
        elif text[j] == ")":
            d -= 1
            if d == 0:
                return j + 1
    return len(text)


def class_name(header):
    m = re.search(r"\b(struct|class|union)\b(.*)$", header, re.S)
    toks = re.findall(r"[A-Za-z_]\w*", re.sub(r"\[\[.*?\]\]", " ", re.split(r"[:<]", m.group(2))[0]))
    toks = [t for t in toks if not (t.isupper() and t.startswith("TETL_")) and t != "final"]
    return toks[0] if toks else "?"


def func_name(header):
    """Name of the function a block header declares, or None when the header is not a function."""
    h = header
    # drop template parameter lists and requires-clauses in front of the declarator
    names = []
    for m in re.finditer(r"(operator\s*(?:\(\)|\[\]|->|[^\s\w(]+|\s+[\w:]+)|~?[A-Za-z_][\w]*)\s*\(", h):
        nm = re.sub(r"\s+", "", m.group(1))
        if nm in NOT_FUNCS or nm.endswith("_v") or nm.endswith("_t"):
            continue
        # a name inside the parameter list of an earlier candidate is not the function
        names.append((m.start(), nm))
    if not names:
        return None
    # the declarator is the first candidate that is at parenthesis depth 0
    for pos, nm in names:
        depth = 0
        for ch in h[:pos]:
            if ch == "(":
                depth += 1
            elif ch == ")":
                depth -= 1
        if depth == 0:
            return nm
    return None


SIDE_OK = re.compile(
    r"^\s*($|TETL_PRECONDITION|TETL_ASSERT|static_assert|using\b|(\[\[maybe_unused\]\]\s*)?(constexpr\s+)?auto\s+const\b|auto\s+const\b|"
    r"(constexpr\s+)?auto\s*(const)?\s*[*&]?\s*\w+\s*=|if\s+constexpr|if\s*\(|else\b|assert_\w+\s*\(|return\b|etl::unreachable\(\))")


FOR_RE = re.compile(r"\bfor\s*\(")
LOCAL_INIT = re.compile(r"^\s*(constexpr\s+)?(const\s+)?(auto|[A-Za-z_][\w:]*(<[^;]*>)?)\s*(const)?\s*[*&]{0,2}\s*[A-Za-z_]\w*\s*(=|\{|:)")
STEP = re.compile(r"^\s*((\+\+|--)\s*[A-Za-z_]\w*|[A-Za-z_]\w*\s*(\+\+|--))?\s*$")
ASSIGN = re.compile(r"(?<![=!<>+\-*/%&|^])=(?!=)")


def neutral_loop_headers(text):
    """Replace the header of every counting loop `for (T i = a; cond; ++i)` and every range-for whose only effects
    are on the local loop variable by `if (...)` (which the side-effect scan accepts), keeping the length."""
    out, i = [], 0
    while True:
        m = FOR_RE.search(text, i)
        if not m:
            out.append(text[i:])
            return "".join(out)
        e = balanced(text, m.end() - 1)
        inner = text[m.end():e - 1]
        parts, depth, cur = [], 0, []
        for ch in inner:
            if ch in "([{":
                depth += 1
            elif ch in ")]}":
                depth -= 1
            if ch == ";" and depth == 0:
                parts.append("".join(cur))
                cur = []
            else:
                cur.append(ch)
        parts.append("".join(cur))
        ok = False
        if len(parts) == 3:
            ok = bool(LOCAL_INIT.match(parts[0])) and not ASSIGN.search(parts[1]) and bool(STEP.match(parts[2]))
        elif len(parts) == 1:
            ok = bool(LOCAL_INIT.match(parts[0])) and ":" in parts[0]
        out.append(text[i:m.start()])
        if ok:
            out.append("if (" + re.sub(r"[^\n]", " ", inner) + ")")
        else:
            out.append(text[m.start():e])
        i = e


def match_brace(text, i):
    """text[i] == '{' -> index of the matching '}' (or len(text))."""
    d = 0
    for j in range(i, len(text)):
        if text[j] == "{":
            d += 1
        elif text[j] == "}":
            d -= 1
            if d == 0:
                return j
    return len(text)


def analyse_body(body, loop_rest=""):
    """(statement index, late) for a site at the end of `body` (text from the function's `{` to the macro);
    `loop_rest`: the text from the end of the macro to the end of the outermost enclosing loop body."""
    parts = re.split(r"[;{}]", neutral_loop_headers(body))
    stmts = [p for p in parts[:-1]]
    late = any(not SIDE_OK.match(p) for p in stmts)
    if loop_rest:
        rest = re.split(r"[;{}]", neutral_loop_headers(loop_rest))
        late = late or any(not SIDE_OK.match(p) for p in rest)
    return len([p for p in stmts if p.strip()]), late


def extract_file(path, rel):
    raw = open(path, encoding="utf-8", errors="replace").read()
    src = strip_comments(raw)
    sites = []
    stack = []          # (kind, name, start_index, late_init)
    last_closed = None  # a function block just closed (member-initialiser braces)
    seg_start = 0       # start of the current header text
    i, n = 0, len(src)
    pdepth = 0
    while i < n:
        c = src[i]
        if c == "#" and src[max(0, src.rfind("\n", 0, i)) + 1:i].strip() == "":
            j = i
            while True:                      # preprocessor line (with continuations)
                e = src.find("\n", j)
                e = n if e < 0 else e
                if e > 0 and src[e - 1] == "\\":
                    j = e + 1
                    continue
                break
            i = e
            seg_start = i
            continue
        if c == "(":
            pdepth += 1
        elif c == ")":
            pdepth -= 1
        elif c == ";" and pdepth == 0:
            seg_start = i + 1
            last_closed = None
        elif c == "{":
            header = src[seg_start:i]
            hs = header.strip()
            if CTRL_RE.match(header):
                kind, name = "ctrl", header.strip()
            elif pdepth > 0:
                kind, name = "init", None
            elif last_closed is not None and (hs == "" or hs.startswith(",")):
                kind, name = "func", last_closed[0]
                stack.append(("func", name, last_closed[1], True))
                last_closed = None
                seg_start = i + 1
                i += 1
                continue
            else:
                fn = func_name(header)
                if fn is not None and not re.match(r"^\s*(struct|class|namespace|union|enum)\b", header) \
                        and not re.search(r"=\s*\[[^\]]*\]\s*\(", header) and not re.search(r"(?<!operator)\[[^\]]*\]\s*\([^)]*\)\s*(mutable\s*)?(->\s*[\w:<>]+\s*)?$", header):
                    kind, name = "func", fn
                elif re.search(r"\b(struct|class|union)\s+(\w+)", header) and not header.rstrip().endswith(")"):
                    kind, name = "class", class_name(header)
                elif re.search(r"\bnamespace\b", header):
                    kind, name = "ns", None
                else:
                    kind, name = "other", None
            # a constructor with member initialisers: `T(args) : a{..}, b{..} { body }` -> the first brace is an initialiser
            is_init = kind == "func" and re.search(r"\)\s*(noexcept(\([^)]*\))?)?\s*:\s*[\w:]+(<[^{}]*>)?\s*$", header, re.S) is not None
            deleg = kind == "func" and re.search(r"\)\s*(noexcept\s*)?:\s*[\w:]+\s*\(", header) is not None
            stack.append((kind if not is_init else "minit", name, i, is_init or deleg))
            seg_start = i + 1
        elif c == "}":
            if stack:
                k = stack.pop()
                if k[0] == "minit":
                    last_closed = (k[1], k[2])
                elif k[0] == "func":
                    last_closed = None
            seg_start = i + 1
        else:
            for mac in MACROS:
                if src.startswith(mac, i) and (i == 0 or not (src[i - 1].isalnum() or src[i - 1] == "_")):
                    j = i + len(mac)
                    if j < n and (src[j].isalnum() or src[j] == "_"):
                        continue            # TETL_ASSERT_IMPL, TETL_PRECONDITION_SAFE seen as TETL_PRECONDITION, ...
                    k = j
                    while k < n and src[k] in " \t":
                        k += 1
                    if k >= n or src[k] != "(":
                        continue
                    e = balanced(src, k)
                    cond = re.sub(r"\s+", " ", src[k + 1:e - 1]).strip()
                    line = src.count("\n", 0, i) + 1
                    fn, cls, fstart, minit = None, None, None, False
                    loop_open = None        # `{` of the outermost loop between the function and the site
                    for fr in reversed(stack):
                        if fr[0] == "ctrl" and fn is None and re.match(r"^(for|while|do)\b", fr[1] or ""):
                            loop_open = fr[2]
                        if fr[0] == "func" and fn is None:
                            fn, fstart, minit = fr[1], fr[2], fr[3]
                        if fr[0] == "class" and cls is None:
                            cls = fr[1]
                    if fn is None:
                        fn, fstart = "<file scope>", max(0, i - 1)
                    loop_rest = src[e + 1:match_brace(src, loop_open)] if loop_open is not None else ""
                    stmt, late = analyse_body(src[fstart + 1:i], loop_rest)
                    sites.append({"file": rel, "line": line, "cls": cls or "", "func": fn, "cond": cond,
                                  "macro": mac[5:], "stmt": stmt, "late": bool(late or minit)})
                    i = e - 1
                    break
        i += 1
    return sites


def extract(repo):
    root = os.path.join(repo, "include", "etl")
    sites = []
    for dp, dns, fns in os.walk(root):
        dns.sort()
        for fn in sorted(fns):
            if not fn.endswith(".hpp"):
                continue
            p = os.path.join(dp, fn)
            rel = os.path.relpath(p, root)
            if rel in SKIP_FILES:
                continue
            txt = open(p, encoding="utf-8", errors="replace").read()
            if "TETL_PRECONDITION" not in txt and "TETL_ASSERT" not in txt:
                continue
            sites.extend(extract_file(p, rel))
    # qualified function name and occurrence number
    for s in sites:
        s["qfunc"] = (s["cls"] + "::" if s["cls"] else "") + s["func"]
    sites.sort(key=lambda s: (s["file"], s["line"]))
    seen = {}
    for s in sites:
        key = (s["file"], s["qfunc"], s["cond"])
        s["k"] = seen.get(key, 0)
        seen[key] = s["k"] + 1
    return sites


def lean_str(s):
    return '"' + s.replace("\\", "\\\\").replace('"', '\\"') + '"'


def emit(sites, out_path):
    lines = ["/- GENERATED by gen/sites.py from $VERIF_REPO/include/etl on every run of the C05 check -- do not edit. -/",
             "import Tetl.C05.Basic", "namespace Tetl.C05.Sites", "open Tetl.C05", "",
             "def sites : List Site := ["]
    body = []
    for s in sites:
        body.append("  { key := { file := %s, func := %s, cond := %s, k := %d }, line := %d, stmt := %d, late := %s, kind := %s }"
                    % (lean_str(s["file"]), lean_str(s["qfunc"]), lean_str(s["cond"]), s["k"], s["line"], s["stmt"],
                       "true" if s["late"] else "false", lean_str(s["macro"])))
    lines.append(",\n".join(body))
    lines += ["]", "", "end Tetl.C05.Sites", ""]
    text = "\n".join(lines)
    old = open(out_path).read() if os.path.exists(out_path) else None
    if old != text:
        with open(out_path, "w") as f:
            f.write(text)
    return old != text


if __name__ == "__main__":
    repo = sys.argv[1] if len(sys.argv) > 1 else os.environ.get("VERIF_REPO", "/repo")
    ss = extract(repo)
    if len(sys.argv) > 2:
        emit(ss, sys.argv[2])
    for s in ss:
        print("%-45s %5d  %-55s k=%d stmt=%d late=%d %-18s %s" % (s["file"], s["line"], s["qfunc"], s["k"], s["stmt"], s["late"], s["macro"], s["cond"]))
    print(len(ss), "sites", file=sys.stderr)
