#!/usr/bin/env python3
"""Definitions of the etl type traits and concepts, extracted from the headers (tie of property C15, part (d)).

For the traits whose value the compiler decides (`bool_constant<__is_final(T)>`) the only logic tetl adds is WHICH
builtin is called with WHICH arguments; for the composite traits it is the defining formula over other traits
(`is_arithmetic = is_integral or is_floating_point`); for the copy/move families it is the argument pattern
(`is_copy_constructible<T> : is_constructible<T, add_lvalue_reference_t<add_const_t<T>>>`).  This extractor runs the
preprocessor of the compiler under test over <etl/type_traits.hpp> and <etl/concepts.hpp> (so the `#if` branch that
is really compiled is the one inventoried; a second table is produced with clang++ when it is installed), parses every

    template <...> struct NAME [<specialisation>] : BASE { ... };
    template <...> inline constexpr TYPE NAME_v [<specialisation>] = EXPR;
    template <...> concept NAME = EXPR;

of namespace etl into a small expression tree and writes it as a Lean table (lean/Tetl/C15/GenBuiltins.lean); the
theorems of TetlProofs/C15/Props.lean about that table are re-checked on every run.  Whatever the parser does not
understand (decltype, noexcept, requires-expressions, ...) becomes `Ex.opaque "<text>"`: never silently dropped.

A second part extracts how numeric_limits<integer> spells min/max/lowest/is_signed/is_modulo/digits/digits10/traps
(lean/Tetl/C15/GenLimits.lean): the returned expression with the <climits> macros replaced by the numbers the
preprocessor gives them.
"""
import hashlib
import os
import re
import shutil
import subprocess
import sys
import tempfile

VERSION = "c15-defs-1"
TOK_RE = re.compile(r"\s*(::|\.\.\.|&&|\|\||->|<=|>=|==|!=|[A-Za-z_]\w*|\d[\w']*|.)", re.S)
BUILTIN_TYPES = {"void", "bool", "char", "wchar_t", "char8_t", "char16_t", "char32_t", "short", "int", "long", "float",
                 "double", "signed", "unsigned", "nullptr_t"}


def preprocess(cxx, repo, headers, std="-std=c++2b"):
    src = "".join("#include <%s>\n" % h for h in headers)
    with tempfile.NamedTemporaryFile("w", suffix=".cpp", delete=False) as f:
        f.write(src)
        path = f.name
    try:
        p = subprocess.run([cxx, std, "-E", "-P", "-w", "-I", os.path.join(repo, "include"), path], stdout=subprocess.PIPE,
                           stderr=subprocess.PIPE, text=True, errors="replace", timeout=300)
    finally:
        os.unlink(path)
    if p.returncode != 0:
        raise RuntimeError("%s -E failed: %s" % (cxx, p.stderr[-400:]))
    return p.stdout


def tokenize(text):
    return [m.group(1) for m in TOK_RE.finditer(text) if m.group(1).strip()]


class ParseError(Exception):
    pass


# ------------------------------------------------------------------ expression trees (printed as Lean terms)

def lean_str(s):
    return '"' + s.replace("\\", "\\\\").replace('"', '\\"') + '"'


def lean_list(xs):
    return "[" + ", ".join(xs) + "]"


class P:
    """Recursive-descent parser over a token list.  `params`: [(name, kind)] of the enclosing template."""

    def __init__(self, toks, params):
        self.t, self.i, self.params = toks, 0, params

    def peek(self, k=0):
        return self.t[self.i + k] if self.i + k < len(self.t) else None

    def eat(self, tok=None):
        c = self.peek()
        if c is None or (tok is not None and c != tok):
            raise ParseError("expected %r at %d, got %r" % (tok, self.i, c))
        self.i += 1
        return c

    def done(self):
        return self.i >= len(self.t)

    # ---- names
    def qname(self):
        parts = []
        if self.peek() == "::":
            self.eat()
        while True:
            c = self.peek()
            if c is None or not re.match(r"[A-Za-z_]\w*$", c):
                raise ParseError("identifier expected, got %r" % c)
            parts.append(self.eat())
            if self.peek() == "::" and self.peek(1) not in ("value", "type", "template", None) and re.match(r"[A-Za-z_]\w*$", self.peek(1) or ""):
                self.eat()
                continue
            break
        if parts and parts[0] == "etl" and len(parts) > 1:
            parts = parts[1:]
        return "::".join(parts)

    # ---- types
    def ty(self):
        pre = []
        while self.peek() in ("const", "volatile", "typename"):
            w = self.eat()
            if w != "typename":
                pre.append(w)
        c = self.peek()
        if c in BUILTIN_TYPES and c != "nullptr_t":
            words = []
            while self.peek() in BUILTIN_TYPES and self.peek() != "nullptr_t":
                words.append(self.eat())
            core = "Ty.named " + lean_str(" ".join(words))
        else:
            name = self.qname()
            idx = next((k for k, (n, _) in enumerate(self.params) if n == name), None)
            if idx is not None and self.peek() != "<":
                kind = self.params[idx][1]
                if kind == "pack":
                    self.eat("...")
                    core = "Ty.pack %d" % idx
                elif kind == "type":
                    core = "Ty.par %d" % idx
                else:
                    raise ParseError("non-type parameter in a type position")
            elif self.peek() == "<":
                self.eat("<")
                args = self.tylist(">")
                self.eat(">")
                if self.peek() == "::" and self.peek(1) == "type":
                    self.eat()
                    self.eat()
                    name += "::type"
                if len(args) == 1:
                    core = "Ty.app %s (%s)" % (lean_str(name), args[0])
                elif len(args) == 2:
                    core = "Ty.app2 %s (%s) (%s)" % (lean_str(name), args[0], args[1])
                else:
                    raise ParseError("type-level application with %d arguments" % len(args))
            else:
                core = "Ty.named " + lean_str(name)
        for w in pre:
            core = "Ty.%s (%s)" % ("c" if w == "const" else "v", core)
        while self.peek() in ("const", "volatile", "&", "&&", "*"):
            w = self.eat()
            core = "Ty.%s (%s)" % ({"const": "c", "volatile": "v", "&": "lref", "&&": "rref", "*": "ptr"}[w], core)
        return core

    def tylist(self, close):
        out = []
        if self.peek() == close:
            return out
        while True:
            out.append(self.ty())
            if self.peek() == ",":
                self.eat()
                continue
            return out

    # ---- boolean expressions
    def ex(self):
        a = self.conj()
        while self.peek() in ("or", "||"):
            self.eat()
            a = "Ex.or (%s) (%s)" % (a, self.conj())
        return a

    def conj(self):
        a = self.unary()
        while self.peek() in ("and", "&&"):
            self.eat()
            a = "Ex.and (%s) (%s)" % (a, self.unary())
        return a

    def unary(self):
        if self.peek() in ("not", "!"):
            self.eat()
            return "Ex.not (%s)" % self.unary()
        return self.primary()

    def primary(self):
        c = self.peek()
        if c == "(":
            self.eat()
            a = self.ex()
            self.eat(")")
            return a
        if c in ("true", "false"):
            self.eat()
            return "Ex.lit %s" % c
        if c is not None and c.startswith("__") and self.peek(1) == "(":
            name = self.eat()
            self.eat("(")
            args = self.tylist(")")
            self.eat(")")
            return "Ex.builtin %s %s" % (lean_str(name), lean_list(args))
        name = self.qname()
        if name in ("true_type", "false_type") and self.peek() != "<":
            return "Ex.lit %s" % ("true" if name == "true_type" else "false")
        self.eat("<")
        if name == "meta::contains_v":
            x = self.ty()
            self.eat(",")
            if self.qname() != "meta::list":
                raise ParseError("meta::list expected")
            self.eat("<")
            l = self.tylist(">")
            self.eat(">")
            self.eat(">")
            return "Ex.contains (%s) %s" % (x, lean_list(l))
        args = self.tylist(">")
        self.eat(">")
        if self.peek() == "::" and self.peek(1) in ("value", "type"):
            self.eat()
            which = self.eat()
            if which == "type" and self.peek() == "::" and self.peek(1) == "value":
                self.eat()
                self.eat()
            return "Ex.ref %s Form.struct %s" % (lean_str(name), lean_list(args))
        if name.endswith("_v"):
            return "Ex.ref %s Form.var %s" % (lean_str(name[:-2]), lean_list(args))
        return "Ex.ref %s Form.concept %s" % (lean_str(name), lean_list(args))


def parse_with(toks, params, method):
    p = P(toks, params)
    try:
        r = getattr(p, method)()
        if not p.done():
            raise ParseError("trailing tokens: %s" % " ".join(p.t[p.i:p.i + 6]))
        return r
    except ParseError:
        return "Ex.opaque " + lean_str(" ".join(toks)[:160])


def parse_base(toks, params):
    """base clause of a trait struct"""
    toks = [t for t in toks if t not in ("public",)]
    if len(toks) >= 3 and toks[-1] == ">" and (toks[0] == "bool_constant" and toks[1] == "<"
                                                 or toks[:3] == ["etl", "::", "bool_constant"] and toks[3] == "<"):
        k = 2 if toks[0] == "bool_constant" else 4
        return parse_with(toks[k:-1], params, "ex")
    return parse_with(toks, params, "primary_base")


def _primary_base(self):
    """`true_type`, `NAME<args>`, `NAME<args>::type` as a base class"""
    name = self.qname()
    if name in ("true_type", "false_type") and self.peek() != "<":
        return "Ex.lit %s" % ("true" if name == "true_type" else "false")
    self.eat("<")
    args = self.tylist(">")
    self.eat(">")
    if self.peek() == "::" and self.peek(1) == "type":
        self.eat()
        self.eat()
    return "Ex.ref %s Form.struct %s" % (lean_str(name), lean_list(args))


P.primary_base = _primary_base


# ------------------------------------------------------------------ declarations

def match_close(toks, i, open_, close):
    """index of the token closing the bracket opened at toks[i]"""
    depth = 0
    for k in range(i, len(toks)):
        if toks[k] == open_:
            depth += 1
        elif toks[k] == close:
            depth -= 1
            if depth == 0:
                return k
    raise ParseError("unbalanced " + open_)


def match_angle(toks, i):
    """closing `>` of the template bracket opened at toks[i] (parentheses protect comparison operators)"""
    depth, par = 0, 0
    for k in range(i, len(toks)):
        t = toks[k]
        if t in "([{":
            par += 1
        elif t in ")]}":
            par -= 1
        elif par == 0 and t == "<":
            depth += 1
        elif par == 0 and t == ">":
            depth -= 1
            if depth == 0:
                return k
    raise ParseError("unbalanced <")


def template_params(toks):
    """[(name, kind)] of a template parameter list (tokens between the outer < >)"""
    out, cur, depth = [], [], 0
    parts = []
    for t in toks + [","]:
        if t in "<([{":
            depth += 1
        elif t in ">)]}":
            depth -= 1
        if t == "," and depth == 0:
            parts.append(cur)
            cur = []
        else:
            cur.append(t)
    for p in parts:
        if not p:
            continue
        if "=" in p:
            p = p[:p.index("=")]
        if p[0] == "typename" or p[0] == "class":
            if len(p) >= 2 and p[1] == "...":
                out.append((p[2] if len(p) > 2 else "", "pack"))
            else:
                out.append((p[1] if len(p) > 1 else "", "type"))
        elif p[0] == "template":
            out.append((p[-1], "template"))
        else:
            out.append((p[-1], "value"))
    return out


def declarations(text):
    """Yield dicts {ns, name, form, params, spec, body} for the trait-like declarations of namespace etl."""
    toks = tokenize(text)
    n = len(toks)
    ns = []            # stack of (name or None for a non-namespace brace)
    i = 0
    out = []
    while i < n:
        t = toks[i]
        if t == "namespace" and i + 2 < n and toks[i + 2] == "{":
            ns.append(toks[i + 1])
            i += 3
            continue
        if t == "namespace" and i + 1 < n and toks[i + 1] == "{":
            ns.append("<anon>")
            i += 2
            continue
        if t == "{":
            i = match_close(toks, i, "{", "}") + 1          # a body we are not interested in
            continue
        if t == "}":
            if ns:
                ns.pop()
            i += 1
            continue
        if t == "template" and i + 1 < n and toks[i + 1] == "<" and ns and ns[0] == "etl":
            j = match_angle(toks, i + 1)
            params = template_params(toks[i + 2:j])
            k = j + 1
            constrained = False
            if k < n and toks[k] == "requires":          # constrained declaration: skip the constraint up to struct/inline
                constrained = True
                while k < n and toks[k] not in ("struct", "inline", "concept", "using", "constexpr", "auto", ";"):
                    if toks[k] in "({":                   # `requires requires { ... }`, `requires (expr)`
                        k = match_close(toks, k, toks[k], ")" if toks[k] == "(" else "}")
                    k += 1
            scope = "::".join(x for x in ns[1:])
            if k < n and toks[k] == "struct" and k + 1 < n and re.match(r"[A-Za-z_]\w*$", toks[k + 1]):
                name = toks[k + 1]
                m = k + 2
                spec = None
                if m < n and toks[m] == "<":
                    e = match_angle(toks, m)
                    spec = " ".join(toks[m + 1:e])
                    m = e + 1
                base = None
                # forward declaration?
                if m < n and toks[m] == ";":
                    i = m + 1
                    continue
                if m < n and toks[m] == ":":
                    e = m + 1
                    depth = 0
                    while e < n and not (toks[e] == "{" and depth == 0):      # `<` may be a comparison: only parentheses nest
                        if toks[e] == "(":
                            depth += 1
                        elif toks[e] == ")":
                            depth -= 1
                        e += 1
                    base = toks[m + 1:e]
                    m = e
                if m < n and toks[m] == "{":
                    e = match_close(toks, m, "{", "}")
                    inner = toks[m + 1:e]
                    out.append({"ns": scope, "name": name, "form": "struct", "params": params, "spec": spec,
                                "constrained": constrained, "base": base, "inner": inner})
                    i = e + 1
                    continue
                i = m
                continue
            if k + 2 < n and toks[k] == "inline" and toks[k + 1] == "constexpr":
                # inline constexpr TYPE NAME [<spec>] = EXPR ;
                m = k + 2
                e = m
                while e < n and toks[e] != "=" and toks[e] != ";":
                    if toks[e] == "<":
                        e = match_angle(toks, e)
                    e += 1
                head = toks[m:e]
                if e < n and toks[e] == "=":
                    s = e + 1
                    depth = 0
                    while s < n and not (toks[s] == ";" and depth == 0):
                        if toks[s] in "({":
                            depth += 1
                        elif toks[s] in ")}":
                            depth -= 1
                        s += 1
                    expr = toks[e + 1:s]
                    spec = None
                    if "<" in head:
                        a = head.index("<")
                        spec = " ".join(head[a + 1:-1])
                        head = head[:a]
                    out.append({"ns": scope, "name": head[-1], "form": "var", "params": params, "spec": spec,
                                "constrained": constrained, "expr": expr, "type": " ".join(head[:-1])})
                    i = s + 1
                    continue
            if k + 2 < n and toks[k] == "concept" and toks[k + 2] == "=":
                s = k + 3
                depth = 0
                while s < n and not (toks[s] == ";" and depth == 0):
                    if toks[s] in "({":
                        depth += 1
                    elif toks[s] in ")}":
                        depth -= 1
                    s += 1
                out.append({"ns": scope, "name": toks[k + 1], "form": "concept", "params": params, "spec": None,
                            "constrained": False, "expr": toks[k + 3:s]})
                i = s + 1
                continue
            i = j + 1
            continue
        i += 1
    return out


def entries_of(text):
    """[(qualified name, form, params, nspecs, lean body)] — one entry per primary template"""
    decls = declarations(text)
    prim, nspec = {}, {}
    order = []
    for d in decls:
        q = (d["ns"] + "::" if d["ns"] else "") + d["name"]
        form = d["form"]
        name = q
        if form == "var":
            if not name.endswith("_v"):
                continue                     # not a trait variable (index_v is, harmlessly)
            name = name[:-2]
        key = (name, form)
        if d["spec"] is not None or d["constrained"]:
            nspec[key] = nspec.get(key, 0) + 1
            continue
        if key in prim:                      # a second primary of the same name (other scope collapsed): keep the first
            nspec[key] = nspec.get(key, 0) + 1
            continue
        params = d["params"]
        if form == "struct":
            if d["base"] is None:
                body = "Ex.opaque " + lean_str(("{ " + " ".join(d["inner"]) + " }")[:160])
            else:
                body = parse_base(d["base"], params)
                if d["inner"]:
                    body = body if body.startswith("Ex.opaque") else body   # members besides the base do not change ::value
        else:
            body = parse_with(d["expr"], params, "ex")
        prim[key] = (name, form, params, body)
        order.append(key)
    return [prim[k] + (nspec.get(k, 0),) for k in order]


def lean_ident(name, form):
    return re.sub(r"\W", "_", name) + "_" + form


def emit_table(lines, ns_name, entries, doc):
    lines.append("/-! ### %s -/" % doc)
    lines.append("namespace %s" % ns_name)
    idents = []
    for (name, form, params, body, nspec) in entries:
        ident = lean_ident(name, form)
        idents.append(ident)
        pk = lean_list(["PKind.%s" % ("type" if k == "type" else "pack" if k == "pack" else "value") for _, k in params])
        lines.append("def %s : Entry := ⟨%s, Form.%s, %s, %d,\n  %s⟩" % (ident, lean_str(name), form, pk, nspec, body))
    lines.append("def table : List Entry := [")
    for k in range(0, len(idents), 6):
        lines.append("  " + ", ".join(idents[k:k + 6]) + ("," if k + 6 < len(idents) else ""))
    lines.append("]")
    lines.append("end %s" % ns_name)
    lines.append("")


HEADERS = ["etl/type_traits.hpp", "etl/concepts.hpp"]


def generate(repo, out_path, cxx="g++", clang=None):
    errors = []
    gcc_entries = entries_of(preprocess(cxx, repo, HEADERS))
    clang_entries = []
    clang = clang if clang is not None else (shutil.which("clang++-16") or shutil.which("clang++"))
    if clang:
        try:
            clang_entries = entries_of(preprocess(clang, repo, HEADERS))
        except Exception as e:      # noqa: BLE001
            errors.append("clang table not produced: %s" % str(e)[:200])
    lines = ["/- GENERATED by gen/c15_defs.py (%s) from the preprocessed tetl headers — do not edit." % VERSION,
             "   One entry per primary template of a trait struct, `_v` variable or concept of namespace etl:",
             "   name, form, template parameter kinds, number of partial/explicit/constrained specialisations, defining expression. -/",
             "import Tetl.C15.Defn", "namespace Tetl.C15.Gen", "open Tetl.C15.Defn", ""]
    emit_table(lines, "Gcc", gcc_entries, "the branch compiled by the compiler under test (g++)")
    if clang_entries:
        # only what differs from the g++ table: the `#if defined(TETL_COMPILER_CLANG)` / `__has_builtin` branches
        g = {(e[0], e[1]): e for e in gcc_entries}
        diff = [e for e in clang_entries if g.get((e[0], e[1])) != e]
        emit_table(lines, "Clang", diff, "entries that differ when preprocessed by clang++ (the other `#if` branches)")
    else:
        emit_table(lines, "Clang", [], "clang++ not available: empty")
    lines.append("end Tetl.C15.Gen")
    text = "\n".join(lines) + "\n"
    h = hashlib.sha256(text.encode()).hexdigest()[:16]
    old = open(out_path, encoding="utf-8").read() if os.path.exists(out_path) else None
    changed = old != text
    if changed:
        with open(out_path, "w", encoding="utf-8") as f:
            f.write(text)
    opaque = [e[0] + "/" + e[1] for e in gcc_entries if e[3].startswith("Ex.opaque")]
    return {"hash": h, "changed": changed, "entries": len(gcc_entries), "clang_entries_differing": len(clang_entries) and len(diff),
            "opaque": opaque, "errors": errors, "translator": VERSION}


if __name__ == "__main__":
    repo = os.environ.get("VERIF_REPO", "/repo")
    here = os.path.dirname(os.path.dirname(os.path.abspath(__file__)))
    out = os.path.join(here, "lean", "Tetl", "C15", "GenBuiltins.lean")
    if len(sys.argv) > 1 and sys.argv[1] == "--stdout":
        out = "/dev/stdout"
    info = generate(repo, out)
    print({k: v for k, v in info.items() if k != "opaque"}, file=sys.stderr)
    print("opaque: %d" % len(info["opaque"]), file=sys.stderr)
