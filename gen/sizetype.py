#!/usr/bin/env python3
"""Tie T for C01: the size type and the storage selection of the fixed-capacity vectors, read from the CURRENT headers.

    sizetype.py <repo> <out.lean>      (also importable: extract(repo), emit(info, path))

Extracted from the comment-stripped text:
  * include/etl/_type_traits/smallest_size_t.hpp: the `conditional_t` chain of `smallest_size_t<N>` — for every link the
    comparison operator, the threshold expression (parsed into the small expression language of Tetl/C01/SizeTy.lean:
    `static_cast<T>(-1)`, `numeric_limits<T>::max()`, integer literals with suffix, `+`, `-`, `<<`, parentheses) and the
    selected type, plus the fall-back type; the condition text is kept verbatim.
  * include/etl/_vector/static_vector.hpp: the chain of `static_vector_storage_type` (condition text, selected storage)
    and every alias `using X = smallest_size_t<ARG>`; likewise the aliases of _inplace_vector/inplace_vector.hpp.
  * include/etl/_string/basic_inplace_string.hpp: the chain of `layout_type` (`Capacity < 16` -> tiny_layout), as text.
Anything the parser does not understand is an error (the check then reports the proof obligations as broken instead of
silently keeping an old model).  Nothing is evaluated here: the Lean side gives the terms their value.
"""
import os
import re
import sys

sys.path.insert(0, os.path.dirname(os.path.abspath(__file__)))
from sites import strip_comments  # noqa: E402

CTYPES = {"unsigned char": "uchar", "unsigned short": "ushort", "unsigned short int": "ushort", "unsigned int": "uint",
          "unsigned": "uint", "unsigned long": "ulong", "unsigned long int": "ulong", "unsigned long long": "ulonglong",
          "unsigned long long int": "ulonglong", "etl::uint8_t": "uchar", "uint8_t": "uchar", "etl::uint16_t": "ushort",
          "uint16_t": "ushort", "etl::uint32_t": "uint", "uint32_t": "uint", "etl::uint64_t": "ulong", "uint64_t": "ulong"}


class ParseError(Exception):
    pass


def norm(s):
    return " ".join(s.split())


def split_args(text):
    """split template arguments at top-level commas; '<' '>' nest except inside parentheses"""
    args, depth, par, cur = [], 0, 0, []
    for c in text:
        if c == "(":
            par += 1
        elif c == ")":
            par -= 1
        elif par == 0 and c == "<":
            depth += 1
        elif par == 0 and c == ">":
            depth -= 1
        if c == "," and depth == 0 and par == 0:
            args.append("".join(cur))
            cur = []
        else:
            cur.append(c)
    args.append("".join(cur))
    return [norm(a) for a in args]


def alias_body(text, name):
    m = re.search(r"\busing\s+" + re.escape(name) + r"\s*=", text)
    if not m:
        raise ParseError("alias %s not found" % name)
    end = text.index(";", m.end())
    return norm(text[m.end():end])


def chain_of(body):
    """`conditional_t<C, A, conditional_t<…, Z>>` -> ([(C, A), …], Z)"""
    links = []
    while True:
        m = re.match(r"^(?:etl::)?conditional_t\s*<(.*)>$", body)
        if not m:
            return links, body
        args = split_args(m.group(1))
        if len(args) != 3:
            raise ParseError("conditional_t with %d arguments: %r" % (len(args), body))
        links.append((args[0], args[1]))
        body = args[2]


# ------------------------------------------------------------------ threshold expressions

TOK = re.compile(r"\s*(static_cast|numeric_limits|::|<<|<=|<|>|\(|\)|\+|-|\d[\d']*[uUlL]*|[A-Za-z_][\w]*)")


def tokens(s):
    out, i = [], 0
    while i < len(s):
        m = TOK.match(s, i)
        if not m:
            if s[i:].strip() == "":
                break
            raise ParseError("cannot tokenise %r" % s[i:])
        out.append(m.group(1))
        i = m.end()
    return out


class P:
    def __init__(self, toks):
        self.t, self.i = toks, 0

    def peek(self):
        return self.t[self.i] if self.i < len(self.t) else None

    def eat(self, x=None):
        tok = self.peek()
        if tok is None or (x is not None and tok != x):
            raise ParseError("expected %r, found %r in %r" % (x, tok, " ".join(self.t)))
        self.i += 1
        return tok

    def ctype(self, closer):
        words = []
        while self.peek() not in (closer, None):
            words.append(self.eat())
        name = " ".join(words).replace(" :: ", "::")
        if name not in CTYPES:
            raise ParseError("unknown type %r" % name)
        return CTYPES[name]

    def prim(self):
        tok = self.peek()
        if tok == "(":
            self.eat("(")
            e = self.shift()
            self.eat(")")
            return e
        if tok == "static_cast":
            self.eat()
            self.eat("<")
            t = self.ctype(">")
            self.eat(">")
            self.eat("(")
            self.eat("-")
            one = self.eat()
            if one != "1":
                raise ParseError("static_cast<T>(-%s)" % one)
            self.eat(")")
            return ".maxOf .%s" % t
        if tok in ("etl", "std", "numeric_limits"):
            if tok != "numeric_limits":
                self.eat()
                self.eat("::")
            self.eat("numeric_limits")
            self.eat("<")
            t = self.ctype(">")
            self.eat(">")
            self.eat("::")
            if self.eat() != "max":
                raise ParseError("numeric_limits member")
            self.eat("(")
            self.eat(")")
            return ".maxOf .%s" % t
        if tok is not None and tok[0].isdigit():
            self.eat()
            m = re.match(r"^([\d']+)([uUlL]*)$", tok)
            digits, suf = m.group(1).replace("'", ""), m.group(2).lower()
            if len(digits) > 1 and digits[0] == "0":
                raise ParseError("octal literal %r" % tok)
            bits = 0 if suf == "" else (32 if suf == "u" else 64)
            if suf in ("l", "ll"):
                raise ParseError("signed long literal %r" % tok)
            return ".lit %s %d" % (digits, bits)
        raise ParseError("unexpected token %r in %r" % (tok, " ".join(self.t)))

    def addsub(self):
        e = self.prim()
        while self.peek() in ("+", "-"):
            op = self.eat()
            r = self.prim()
            e = ".%s (%s) (%s)" % ("add" if op == "+" else "sub", e, r)
        return e

    def shift(self):
        e = self.addsub()
        while self.peek() == "<<":
            self.eat()
            r = self.addsub()
            e = ".shl (%s) (%s)" % (e, r)
        return e


def parse_cond(cond):
    """`(N < EXPR)` / `(N <= EXPR)` -> (cmp, bound term)"""
    c = cond.strip()
    while c.startswith("(") and c.endswith(")"):
        # strip one pair of enclosing parentheses if it really encloses everything
        d, ok = 0, True
        for i, ch in enumerate(c):
            d += ch == "("
            d -= ch == ")"
            if d == 0 and i < len(c) - 1:
                ok = False
                break
        if not ok:
            break
        c = c[1:-1].strip()
    p = P(tokens(c))
    if p.eat() != "N":
        raise ParseError("condition does not start with N: %r" % cond)
    op = p.eat()
    if op not in ("<", "<="):
        raise ParseError("comparison %r in %r" % (op, cond))
    e = p.shift()
    if p.peek() is not None:
        raise ParseError("trailing tokens in %r" % cond)
    return (".lt" if op == "<" else ".le"), e, c


def extract(repo):
    inc = os.path.join(repo, "include", "etl")
    info = {}
    text = strip_comments(open(os.path.join(inc, "_type_traits", "smallest_size_t.hpp")).read())
    m = re.search(r"template\s*<\s*([^>]*?)\s*N\s*>\s*using\s+smallest_size_t", text)
    if not m:
        raise ParseError("template header of smallest_size_t not found")
    info["param"] = norm(m.group(1))
    links, fb = chain_of(alias_body(text, "smallest_size_t"))
    if not links:
        raise ParseError("smallest_size_t is not a conditional_t chain")
    info["chain"] = []
    for cond, ty in links:
        cmp_, bound, src = parse_cond(cond)
        if ty not in CTYPES:
            raise ParseError("unknown selected type %r" % ty)
        info["chain"].append({"cmp": cmp_, "bound": bound, "res": CTYPES[ty], "src": src, "type_text": ty})
    if fb not in CTYPES:
        raise ParseError("unknown fall-back type %r" % fb)
    info["fallback"] = CTYPES[fb]
    info["fallback_text"] = fb
    sv = strip_comments(open(os.path.join(inc, "_vector", "static_vector.hpp")).read())
    links, fb = chain_of(alias_body(sv, "static_vector_storage_type"))
    info["storage"] = [(c, t) for c, t in links]
    info["storage_else"] = fb
    users = []
    for rel in ("_vector/static_vector.hpp", "_inplace_vector/inplace_vector.hpp"):
        t = strip_comments(open(os.path.join(inc, rel)).read())
        for mm in re.finditer(r"\busing\s+(\w+)\s*=\s*(?:etl::)?smallest_size_t\s*<([^>;]*)>\s*;", t):
            users.append((rel, mm.group(1), norm(mm.group(2))))
    info["users"] = users
    # the other layout switch that depends on the capacity: basic_inplace_string (C04's subject; recorded here as text only)
    st = strip_comments(open(os.path.join(inc, "_string", "basic_inplace_string.hpp")).read())
    links, fb = chain_of(alias_body(st, "layout_type"))
    info["string_layout"] = [(c, t) for c, t in links]
    info["string_layout_else"] = fb
    return info


def lean_str(s):
    return '"' + s.replace("\\", "\\\\").replace('"', '\\"') + '"'


def render(info):
    out = ["-- GENERATED by gen/sizetype.py from include/etl/_type_traits/smallest_size_t.hpp, _vector/static_vector.hpp and",
           "-- _inplace_vector/inplace_vector.hpp of the tree under check.  Do not edit: rewritten on every run of the C01 check.",
           "import Tetl.C01.SizeTy", "namespace Tetl.C01.GenSize", "open Tetl.C01", "",
           "/-- type of the template parameter `N` -/", "def paramType : String := %s" % lean_str(info["param"]), "",
           "/-- the `conditional_t` chain of `smallest_size_t<N>`, outermost link first, as the source spells it -/",
           "def chain : List Link := ["]
    rows = ["  { cmp := %s, bound := %s, res := .%s, src := %s }" % (l["cmp"], l["bound"], l["res"], lean_str(l["src"]))
            for l in info["chain"]]
    out.append(",\n".join(rows) + "]")
    out += ["", "/-- the type selected when no condition holds -/", "def fallback : CTy := .%s" % info["fallback"], "",
            "/-- `static_vector_storage_type<T, Capacity>`: (condition, storage selected), outermost first -/",
            "def storageSelect : List (String × String) := ["]
    out.append(",\n".join("  (%s, %s)" % (lean_str(c), lean_str(t)) for c, t in info["storage"]) + "]")
    out += ["", "def storageElse : String := %s" % lean_str(info["storage_else"]), "",
            "/-- every alias of `smallest_size_t<…>` in the two vector headers: (file, alias, template argument) -/",
            "def sizeTypeUsers : List (String × String × String) := ["]
    out.append(",\n".join("  (%s, %s, %s)" % (lean_str(f), lean_str(a), lean_str(x)) for f, a, x in info["users"]) + "]")
    out += ["", "/-- `basic_inplace_string::layout_type`: (condition, layout selected); C04 models it (`Tetl.C04.isTiny`) -/",
            "def stringLayoutSelect : List (String × String) := ["]
    out.append(",\n".join("  (%s, %s)" % (lean_str(c), lean_str(t)) for c, t in info["string_layout"]) + "]")
    out += ["", "def stringLayoutElse : String := %s" % lean_str(info["string_layout_else"])]
    out += ["", "end Tetl.C01.GenSize", ""]
    return "\n".join(out)


def emit(info, path):
    new = render(info)
    old = open(path).read() if os.path.exists(path) else None
    if old == new:
        return False
    with open(path, "w") as f:
        f.write(new)
    return True


if __name__ == "__main__":
    if len(sys.argv) != 3:
        sys.exit(__doc__)
    print("changed" if emit(extract(sys.argv[1]), sys.argv[2]) else "unchanged")
